"""Common machinery for /verif/check (python3 stdlib only).

Flow of one check (see DESIGN.md 2.4):
  build the Coq development (proof obligations)  ->  build the Go harness from
  /repo's working tree via `go build -overlay`  ->  generate cases  ->  run them
  on the real code  ->  emit cases as Coq terms together with the observed
  outputs  ->  `coqc` evaluates model + spec on them with vm_compute  ->
  classify, write evidence, print VIOLATION / KNOWN-FINDING lines.
"""
import base64
import concurrent.futures as cf
import fcntl
import hashlib
import json
import os
import re
import shutil
import subprocess
import sys
import tempfile
import time
from pathlib import Path

VERIF = Path(__file__).resolve().parent.parent
COQ = VERIF / "coq"
REPO = Path(os.environ.get("VERIF_REPO", "/repo"))
HARNESS_SRC = VERIF / "harness"
NCPU = os.cpu_count() or 4

GOENV = dict(os.environ, GOFLAGS="-mod=mod", GOPROXY="off", GOSUMDB="off",
             GOTOOLCHAIN="local", CGO_ENABLED="0")

FORBIDDEN = re.compile(
    r"\b(Admitted|admit|Axiom|Axioms|Parameter|Parameters|Conjecture|Conjectures|"
    r"Hypothesis|Hypotheses|Variable|Variables|Context)\b|Unset\s+Guard|bypass_check|"
    r"type-in-type|impredicative-set|Admit\s+Obligations|Unset\s+Universe|Unset\s+Positivity")


TABLES_ERR = None


class HarnessBuildError(Exception):
    pass


class RepoBuildError(Exception):
    pass


# ---------------------------------------------------------------- Coq terms
def cbytes(b) -> str:
    if isinstance(b, str):
        b = b.encode("utf-8", "surrogateescape")
    if not b:
        return "[]"
    return "[" + ";".join("x%02x" % x for x in b) + "]"


def cZ(n: int) -> str:
    return "(%d)" % n if n < 0 else "%d" % n


def cnat(n: int) -> str:
    return "%d%%nat" % n


def cbool(b) -> str:
    return "true" if b else "false"


def clist(items) -> str:
    items = list(items)
    if not items:
        return "[]"
    return "[" + ";".join(items) + "]"


def copt(x) -> str:
    return "None" if x is None else "(Some %s)" % x


def cpair(*xs) -> str:
    return "(" + ",".join(xs) + ")"


def cfloat_bits(bits: int) -> str:
    """binary64 bit pattern -> Coq primitive float term (exact)."""
    return "(fbits %d)" % bits


def b64e(b) -> str:
    if isinstance(b, str):
        b = b.encode("utf-8", "surrogateescape")
    return base64.b64encode(b).decode()


def b64d(s: str) -> bytes:
    return base64.b64decode(s)


# ---------------------------------------------------------------- locking
class Lock:
    def __init__(self, exclusive):
        self.ex = exclusive
        self.f = None

    def __enter__(self):
        self.f = open(COQ / ".lock", "a+")
        fcntl.flock(self.f, fcntl.LOCK_EX if self.ex else fcntl.LOCK_SH)
        return self

    def __exit__(self, *a):
        fcntl.flock(self.f, fcntl.LOCK_UN)
        self.f.close()


# ---------------------------------------------------------------- Coq build
def scan_forbidden():
    """Return list of (file, line, text) hits of forbidden vernacular in the development."""
    hits = []
    for p in sorted(COQ.rglob("*.v")):
        txt = p.read_text()
        # strip comments (non-nested is enough for our sources; nested handled by loop)
        prev = None
        while prev != txt:
            prev = txt
            txt = re.sub(r"\(\*[^*(]*(?:\*(?!\))[^*(]*|\((?!\*)[^*(]*)*\*\)", lambda m: "\n" * m.group(0).count("\n"), txt)
        in_section = 0
        for i, line in enumerate(txt.split("\n"), 1):
            if re.match(r"\s*Section\b", line):
                in_section += 1
            if re.match(r"\s*End\b", line) and in_section:
                in_section -= 1
            m = FORBIDDEN.search(line)
            if m:
                word = m.group(0)
                if in_section and word in ("Variable", "Variables", "Hypothesis", "Hypotheses", "Context"):
                    continue  # section-local: discharged as explicit premises at End
                hits.append((str(p.relative_to(COQ)), i, line.strip()))
    return hits


def regen_tables():
    """Run the table translator (tools/gentables.py) against REPO; rewrite Model/Tables.v only when it changed.
    Returns None or an error text."""
    import gentables
    try:
        txt = gentables.generate(REPO)
    except Exception as e:  # the declarative tables could not be read: the tie to the code is broken
        return "gentables: %r" % (e,)
    out = COQ / "Model" / "Tables.v"
    if not out.exists() or out.read_text() != txt:
        out.write_text(txt)
    return None


def coq_build(targets=None, timeout=3000):
    """Incremental full .vo build under an exclusive lock. Returns (ok, log)."""
    with Lock(True):
        global TABLES_ERR
        TABLES_ERR = regen_tables()
        if not (COQ / "Makefile").exists() or (COQ / "Makefile").stat().st_mtime < (COQ / "_CoqProject").stat().st_mtime:
            subprocess.run(["coq_makefile", "-f", "_CoqProject", "-o", "Makefile"], cwd=COQ,
                           check=True, stdout=subprocess.PIPE, stderr=subprocess.STDOUT)
        cmd = ["make", "-k", "-j%d" % NCPU]
        if targets:
            cmd += targets
        try:
            p = subprocess.run(cmd, cwd=COQ, stdout=subprocess.PIPE, stderr=subprocess.STDOUT,
                               timeout=timeout, text=True)
        except subprocess.TimeoutExpired as e:
            return False, "make timed out\n" + (e.stdout or "")
        return p.returncode == 0, p.stdout


def vo_ok(rel: str) -> bool:
    v = COQ / rel
    vo = v.with_suffix(".vo")
    return vo.exists() and vo.stat().st_mtime >= v.stat().st_mtime


def property_obligations(pid: str):
    """Parse Properties/<pid>.v: names of theorems; and the Print Assumptions output
    (obtained by recompiling the file, cheap since it only contains `exact`)."""
    src = (COQ / "Properties" / (pid + ".v")).read_text()
    names = re.findall(r"^\s*(?:Theorem|Lemma|Corollary|Example|Fact)\s+([A-Za-z0-9_']+)", src, re.M)
    return names


def print_assumptions(pid: str, timeout=600):
    """Recompile the property file to capture `Print Assumptions` output."""
    with Lock(False):
        p = subprocess.run(["coqc", "-R", ".", "LogQLV", "-w", "-notation-overridden",
                            "-o", os.devnull if False else str(COQ / "Properties" / (pid + ".vo")),
                            str(COQ / "Properties" / (pid + ".v"))],
                           cwd=COQ, stdout=subprocess.PIPE, stderr=subprocess.STDOUT, text=True, timeout=timeout)
    return p.returncode == 0, p.stdout


def parse_assumptions(out: str):
    """Return sorted set of axiom/primitive names mentioned in Print Assumptions output."""
    axioms = set()
    closed = 0
    for blk in re.split(r"\n(?=\S)", out):
        if blk.startswith("Closed under the global context"):
            closed += 1
        elif blk.startswith("Axioms:"):
            for m in re.finditer(r"^\s*([A-Za-z_][\w.']*)\s*:", blk[len("Axioms:"):], re.M):
                axioms.add(m.group(1))
    return closed, sorted(axioms)


# ---------------------------------------------------------------- Go harness
def repo_builds(scratch: Path):
    p = subprocess.run(["go", "build", "./..."], cwd=REPO, env=GOENV,
                       stdout=subprocess.PIPE, stderr=subprocess.STDOUT, text=True)
    return p.returncode == 0, p.stdout


def build_harness(scratch: Path, race=False):
    """Build verifharness (and the hooked docker-logql binary) from REPO's working tree."""
    overlay = {}
    for f in sorted(HARNESS_SRC.glob("*.go")):
        if f.name.startswith("cmdhook_"):
            overlay[str(REPO / "cmd" / "docker-logql" / ("verif_" + f.name))] = str(f)
        else:
            overlay[str(REPO / "cmd" / "verifharness" / f.name)] = str(f)
    ov = scratch / "overlay.json"
    ov.write_text(json.dumps({"Replace": overlay}))
    outs = {}
    for name, pkg in (("vh", "./cmd/verifharness"), ("dl", "./cmd/docker-logql")):
        out = scratch / name
        cmd = ["go", "build", "-tags", "verif", "-overlay", str(ov), "-o", str(out)]
        env = dict(GOENV)
        if race:
            cmd.insert(2, "-race")
            env["CGO_ENABLED"] = "1"
        cmd.append(pkg)
        p = subprocess.run(cmd, cwd=REPO, env=env, stdout=subprocess.PIPE, stderr=subprocess.STDOUT, text=True)
        if p.returncode != 0:
            ok, log = repo_builds(scratch)
            if not ok:
                raise RepoBuildError(log)
            raise HarnessBuildError(p.stdout)
        outs[name] = out
    return outs


def run_harness(binary: Path, requests, timeout=900, env=None, chunk=None):
    """Run requests through the harness; returns list of responses aligned with requests.
    The process is run in parallel chunks over the cores."""
    n = len(requests)
    if n == 0:
        return []
    for i, r in enumerate(requests):
        r["id"] = i
    nchunks = min(NCPU, max(1, n // (chunk or 40)))
    chunks = [requests[i::nchunks] for i in range(nchunks)]
    e = dict(os.environ, VERIF_HARNESS="1", TZ="UTC")
    if env:
        e.update(env)

    # address-space cap: a request that makes the implementation ask for absurd amounts of memory must kill the harness
    # process (reported as a crash), not the sandbox.  Not under the race detector, which reserves terabytes of address space.
    limit_as = None if (env and "GORACE" in env) else 16 * 2**30

    def preexec():
        if limit_as:
            import resource
            resource.setrlimit(resource.RLIMIT_AS, (limit_as, limit_as))

    def one(reqs):
        data = "\n".join(json.dumps(r) for r in reqs) + "\n"
        try:
            p = subprocess.run([str(binary)], input=data, stdout=subprocess.PIPE, stderr=subprocess.PIPE,
                               text=True, timeout=timeout, env=e, preexec_fn=preexec)
            out = p.stdout
            rc = p.returncode
            err = p.stderr
        except subprocess.TimeoutExpired as ex:
            out = ex.stdout.decode() if isinstance(ex.stdout, bytes) else (ex.stdout or "")
            rc = -9
            err = "timeout"
        res = {}
        for line in out.splitlines():
            line = line.strip()
            if not line:
                continue
            try:
                o = json.loads(line)
            except Exception:
                continue
            res[o.get("id")] = o
        # requests the process did not answer (it died: fatal error, os.Exit, OOM ...)
        missing = [r["id"] for r in reqs if r["id"] not in res]
        if missing:
            first = missing[0]
            res[first] = {"id": first, "outcome": "crash", "rc": rc, "stderr": err[-2000:]}
            rest = [r for r in reqs if r["id"] in missing[1:]]
            if rest:
                res.update(one(rest))
        return res

    allres = {}
    with cf.ThreadPoolExecutor(max_workers=NCPU) as ex:
        for res in ex.map(one, chunks):
            allres.update(res)
    return [allres.get(i, {"id": i, "outcome": "crash"}) for i in range(n)]


# ---------------------------------------------------------------- case evaluation in Coq
RES_RE = re.compile(r"\(\s*(\d+)(?:%\w+)?\s*,\s*\(\s*(true|false)\s*,\s*(true|false)\s*,\s*(\d+)(?:%\w+)?\s*\)\s*\)")


def eval_cases(scratch: Path, driver: str, terms, shard=40, timeout=400, preamble=""):
    """terms: list of Coq terms of type `case` of module Run.<driver>; `judge : case -> bool*bool*Z`
    (correspondence ok, property ok on observed output, known-finding region code).
    Returns list of (corr, ok, region) aligned with terms; a shard that fails to compile yields None
    entries and its log is returned."""
    n = len(terms)
    results = [None] * n
    logs = []
    shards = [list(range(i, min(n, i + shard))) for i in range(0, n, shard)]

    def one(k_idx):
        k, idx = k_idx
        name = "shard_%d" % k
        lines = ["From LogQLV Require Import Base.Bytes Run.%s." % driver, "Open Scope Z_scope.", preamble]
        for i in idx:
            lines.append("Definition c%d : case := %s." % (i, terms[i]))
        lines.append("Definition res := Eval vm_compute in [%s]." %
                     ";".join("(%d%%Z, judge c%d)" % (i, i) for i in idx))
        lines.append("Set Printing Width 200. Set Printing Depth 100000.")
        lines.append("Print res.")
        f = scratch / (name + ".v")
        f.write_text("\n".join(lines) + "\n")
        try:
            p = subprocess.run(["coqc", "-R", str(COQ), "LogQLV", "-w", "-notation-overridden", f.name], cwd=scratch,
                               stdout=subprocess.PIPE, stderr=subprocess.STDOUT, text=True, timeout=timeout)
            return idx, p.returncode, p.stdout
        except subprocess.TimeoutExpired:
            return idx, -9, "coqc timeout"

    with Lock(False):
        with cf.ThreadPoolExecutor(max_workers=NCPU) as ex:
            for idx, rc, out in ex.map(one, enumerate(shards)):
                if rc != 0:
                    logs.append(out[-3000:])
                    continue
                flat = re.sub(r"\s+", " ", out)
                found = {int(m.group(1)): (m.group(2) == "true", m.group(3) == "true", int(m.group(4)))
                         for m in RES_RE.finditer(flat)}
                for i in idx:
                    if i in found:
                        results[i] = found[i]
                if any(results[i] is None for i in idx):
                    logs.append("unparsed results in shard: " + out[-2000:])
    return results, logs


def eval_terms(scratch: Path, driver: str, exprs, timeout=600):
    """Evaluate arbitrary closed Coq expressions with vm_compute and return their printed forms
    (used to put the model's answer into replay files)."""
    lines = ["From LogQLV Require Import Base.Bytes Run.%s." % driver, "Open Scope Z_scope.", "Set Printing Width 100000. Set Printing Depth 100000."]
    for k, e in enumerate(exprs):
        lines.append("Definition q%d := Eval vm_compute in (%s). Print q%d." % (k, e, k))
    f = scratch / ("replay_eval_%d.v" % (time.time_ns() % 10**9))
    f.write_text("\n".join(lines) + "\n")
    try:
        with Lock(False):
            p = subprocess.run(["coqc", "-R", str(COQ), "LogQLV", "-w", "-notation-overridden", f.name], cwd=scratch,
                               stdout=subprocess.PIPE, stderr=subprocess.STDOUT, text=True, timeout=timeout)
        return p.stdout
    except subprocess.TimeoutExpired:
        return "timeout"


# ---------------------------------------------------------------- known findings
def load_known():
    p = VERIF / "known_findings.json"
    if not p.exists():
        return {"known": [], "fixed": []}
    return json.loads(p.read_text())


# ---------------------------------------------------------------- evidence
def write_evidence(pid, tier, seed, coverage, assumptions, wall, violations):
    ev = {
        "property_id": pid,
        "tier": tier,
        "seed": seed,
        "level": "proof",
        "coverage": coverage,
        "assumptions": assumptions,
        "wall_s": round(wall, 2),
        "violations": violations,
    }
    d = VERIF / "evidence"
    d.mkdir(exist_ok=True)
    tmp = d / (pid + ".json.tmp")
    tmp.write_text(json.dumps(ev, indent=1, sort_keys=True) + "\n")
    tmp.replace(d / (pid + ".json"))


def mkscratch(pid):
    base = os.environ.get("TMPDIR") or "/tmp"
    return Path(tempfile.mkdtemp(prefix="verif_%s_" % pid, dir=base))


def sha(obj) -> str:
    return hashlib.sha1(json.dumps(obj, sort_keys=True).encode()).hexdigest()[:16]
