"""C15: renderResult through the package-main hook."""
from vlib import cbytes, clist, cZ, cbool, cpair, b64e, b64d

BASE = 1_700_000_000 * 10**9
MSGS = [b"hello", b"", b"x\n", b"x\r\n", b"x\n\n", b"x\r\n\r\n", b"x\n\r", b"a\nb", b"a\r\nb\n", b"\n", b"\r", b"\x1b[31mred\x1b[0m", b"\xff\xfe",
        b" lead", b"tab\there", b"m", b"3", b"x\r\r\n", b"line\nline\n"]


class P:
    id = "C15"
    driver = "C15"
    binary = "dl"
    shard = 25
    rule = ("results with 0-20 containers (well above the 8-entry palette), several streams per container, streams without a container label, "
            "0-6 entries per stream, timestamps with heavy ties, unsorted stream values, messages with embedded/trailing CR/LF runs, escape bytes and "
            "invalid UTF-8; all 8 combinations of timestamp/container/colour; one case in sixteen renders 180-360 entries; one in ten goes through the real `query` command "
            "(flags --timestamp / -t, --container / -c, --color parsed by cobra, Docker querier over a fake daemon serving multiplexed frames, engine, renderResult) and its standard output "
            "must be the model's rendering under the options the flags denote. Non-trivial = at least two entries; distinct = distinct (opts, streams).")
    trusted = ["time.Time.AppendFormat(RFC3339Nano) with TZ=UTC modelled by Base/TimeFmt.fmt_ts", "package-main hook calling renderResult with a bytes.Buffer"]
    assumptions = ["local time zone is UTC (the harness sets TZ=UTC)", "order among entries with equal timestamps is unspecified (slices.SortFunc); compared up to that order"]
    env = {"TZ": "UTC"}

    def gen(self, rng, tier):
        n = {"quick": 300, "thorough": 1500, "search": 1500}[tier]
        cases = []
        for k in range(n):
            nc = rng.choice([0, 1, 2, 3, 5, 7, 8, 9, 10, 16, 20])
            spread = rng.choice([1, 3, 10, 1000])
            streams = []
            for i in range(nc):
                for s in range(rng.choice([1, 1, 1, 2])):
                    labels = []
                    if rng.random() < 0.9:
                        labels.append(["container", rng.choice(["c%d" % i, "c%d" % i, "app-%d" % i, "", "m"])])
                    if s or rng.random() < 0.3:
                        labels.append(["stream", "s%d" % s])
                    vals = []
                    for _ in range(rng.choice([0, 1, 1, 2, 3, 6])):
                        ts = BASE + rng.randrange(spread) * rng.choice([1, 10**6, 10**9])
                        if rng.random() < 0.05:
                            ts = rng.choice([0, 1, 2**62, 10**9 - 1])
                        vals.append([ts, rng.choice(MSGS) if rng.random() < 0.8 else bytes(rng.randrange(256) for _ in range(rng.randrange(6)))])
                    if rng.random() < 0.7:
                        vals.sort(key=lambda v: v[0])
                    streams.append({"labels": labels, "values": vals})
            if k % 16 == 15:
                # hundreds of entries: far more output than any buffer the renderer might batch lines in
                streams = [{"labels": [["container", "big%d" % i]], "values": [[BASE + (j * 3 + i) * 10**6, b"line %d of container %d" % (j, i)] for j in range(rng.choice([60, 120]))]} for i in range(3)]
            if k % 10 == 9:
                # the options as the `query` command reads them from its flags (--timestamp / -t, --container / -c, --color), the whole way:
                # flags -> Docker querier -> engine -> renderResult
                nc = rng.randint(1, 4)
                ctrs, t = [], BASE
                order = list(range(nc)) * rng.randint(1, 3)
                rng.shuffle(order)
                recs = {i: [] for i in range(nc)}
                for i in order:
                    t += rng.choice([1, 10**6, 10**9])
                    recs[i].append([str(t), b64e(rng.choice([b"hello", b"GET /a 200", b"x y  z", b"tab\there"]) + b"\n")])
                for i in range(nc):
                    ctrs.append({"id": "id%d" % i, "name": rng.choice(["web", "api", "db", "c"]) + str(i), "recs": recs[i]})
                tflag = rng.choice([None, "--timestamp=false", "-t=false", "--timestamp=true"])
                cflag = rng.choice([None, "--container=false", "-c=false", "--container=true"])
                colflag = rng.choice([None, None, "--color=true", "--color=false"])
                opts = [tflag is None or tflag.endswith("true"), cflag is None or cflag.endswith("true"), colflag == "--color=true"]
                streams = sorted(({"labels": [["container", c["name"]]], "values": [[int(ts), b64d(l)] for ts, l in c["recs"]]} for c in ctrs if c["recs"]),
                                 key=lambda s: s["values"][0][0])
                cases.append({"opts": opts, "cmd_args": [b64e(a) for a in (tflag, cflag, colflag) if a] + [b64e("--start=%d" % (BASE - 10**9)), b64e("--end=%d" % (t + 10**9)), b64e("{}")],
                              "cmd_ctrs": ctrs,
                              "streams": [{"labels": [[b64e(a), b64e(b)] for a, b in s["labels"]], "values": [[str(t2), b64e(m)] for t2, m in s["values"]]} for s in streams]})
                continue
            opts = [bool(k & 1), bool(k & 2), bool(k & 4)]
            cases.append({"opts": opts, "streams": [{"labels": [[b64e(a), b64e(b)] for a, b in s["labels"]],
                                                     "values": [[str(t), b64e(m)] for t, m in s["values"]]} for s in streams]})
        return cases

    def request(self, c):
        if "cmd_args" in c:
            return {"cmd": "querycmd", "args": c["cmd_args"], "ctrs": c["cmd_ctrs"]}
        return dict(c, cmd="render")

    def to_coq(self, c, r):
        if r.get("outcome") != "ok":
            return "mk {| o_timestamp := true; o_container := false; o_color := false |} [([],[(0,[])])] []"
        ss = []
        for s in c["streams"]:
            cont = b""
            for k, v in s["labels"]:
                if b64d(k) == b"container":
                    cont = b64d(v)
            ss.append(cpair(cbytes(cont), clist(cpair(cZ(int(t)), cbytes(b64d(m))) for t, m in s["values"])))
        o = c["opts"]
        if "cmd_args" in c:
            r = dict(r, out=r.get("stdout", ""))
        return "mk {| o_timestamp := %s; o_container := %s; o_color := %s |} %s %s" % (
            cbool(o[0]), cbool(o[1]), cbool(o[2]), clist(ss), cbytes(b64d(r["out"])))

    def model_exprs(self, term):
        return ["model (%s)" % term]

    def trivial(self, c, r):
        return sum(len(s["values"]) for s in c["streams"]) < 2

    def sample(self, c, r):
        return {"opts(timestamp,container,color)": c["opts"], "streams": len(c["streams"]),
                "entries": sum(len(s["values"]) for s in c["streams"]),
                "output_head": repr(b64d(r.get("out", r.get("stdout", "")))[:160]), "outcome": r.get("outcome"), "through_command": "cmd_args" in c}

    def distribution(self, cases, resps):
        d = {"containers>8_with_colour": 0, "entries": 0, "opts": {}, "outcomes": {}}
        for c, r in zip(cases, resps):
            names = set()
            for s in c["streams"]:
                for k, v in s["labels"]:
                    if b64d(k) == b"container":
                        names.add(v)
            d["containers>8_with_colour"] += (len(names) >= 8 and c["opts"][2])
            d["entries"] += sum(len(s["values"]) for s in c["streams"])
            key = "".join("1" if x else "0" for x in c["opts"])
            d["opts"][key] = d["opts"].get(key, 0) + 1
            d["outcomes"][r.get("outcome")] = d["outcomes"].get(r.get("outcome"), 0) + 1
        return d

    def shrink(self, c):
        ss = c["streams"]
        for i in range(len(ss)):
            yield dict(c, streams=ss[:i] + ss[i + 1:])
        for i in range(len(ss)):
            if len(ss[i]["values"]) > 1:
                s2 = [dict(s) for s in ss]
                s2[i] = dict(ss[i], values=ss[i]["values"][:-1])
                yield dict(c, streams=s2)


PROP = P()
