"""C18: same query, same logs, same answer -- under every completion order of the concurrent opens and under
repetition (fresh hash-map iteration orders)."""
import itertools
from vlib import cbytes, clist, cZ, b64e
import egen
import dgen
import mgen
from dgen import Ctr, S, T0
from egen import EGen, B, oracles_coq
from props.dockcommon import DockProp
from props.c14 import P as C14


ZERO_TIME_NS = -62135596800 * 10**9


class P(DockProp):
    id = "C18"
    race = True          # thorough tier: the same requests are also run on a harness built with -race (supporting evidence, not a proof)
    rule = ("2-5 containers whose records share timestamps across containers (ties), Docker labels that collide after sanitisation, per-container attributes; queries whose "
            "answer is sensitive to any ordering freedom: log queries with a limit cutting inside a tie group, topk(1, ..) over tied series, sum/avg of 0.1/0.2/0.3-like "
            "unwrapped values (float addition is not associative), binary operations under an outer aggregation, multi-step range queries. Every query is evaluated under ALL "
            "completion orders of the concurrent ContainerLogs calls (quick: up to 6; thorough: all n! up to 4 containers, 30 of the 120 for 5) and repeated three times per order (each evaluation "
            "re-randomises Go's map iteration); demanded: all evaluations return the SAME streams / series in the SAME order with the same values bit for bit; log queries equal "
            "the exact model. Rendering (C15) is a function of that list, so byte-identical output follows. One kind in eight makes one container's log unopenable (mostly the first listed): "
            "under every completion order the evaluation fails, no per-container request is still running when it returns (the fake daemon counts them), and every opened reader is closed.")

    def gen(self, rng, tier):
        n = {"quick": 110, "thorough": 700, "search": 300}[tier]
        g = EGen(rng)
        m = mgen.MGen(rng)
        return [self.one(rng, g, m, i, tier) for i in range(n)]

    def one(self, rng, g, m, i, tier):
        nc = rng.randint(2, 5)
        names = ["web", "api", "db", "cron", "cache"]
        vals = ["0.1", "0.2", "0.3", "0.7", "1e-1" if False else "0.4"]
        ctrs = []
        for k in range(nc):
            labels = {"svc": rng.choice(["a", "b", "c"]), "tier": rng.choice(["x", "y"])}
            if rng.random() < 0.4:
                labels.update(rng.choice([{"com.example.role": "dotted", "com_example_role": "underscored"}, {"a-b": "dash", "a.b": "dot", "a b": "space"}]))
            if rng.random() < 0.15:
                labels.update({"traefik.http.routers.r%d.rule" % j: "Host(`h%d`)" % j for j in range(rng.randint(22, 30))})      # a compose / traefik style container: > 30 labels in all
            ctrs.append(Ctr(rng, k, name=names[k], labels=labels))
        # heavy ties: few distinct timestamps shared by all containers
        stamps = [T0 + j * S for j in range(rng.randint(1, 3))]
        for c in ctrs:
            n = rng.randint(1, 4)
            tss = sorted(rng.choice(stamps) for _ in range(n))
            c.recs = [(ts, B("%s:%d v=%s" % (c.id, k, rng.choice(vals)))) for k, ts in enumerate(tss)]
            if rng.random() < 0.15:
                # a message whose time the daemon did not record: the zero time 0001-01-01T00:00:00Z (a pure function of the log bytes)
                # (as a uint64 nanosecond count it is larger than every ordinary instant: placed last, the container's log stays time-ordered)
                c.recs.append((ZERO_TIME_NS, B("%s:z v=%s" % (c.id, rng.choice(vals)))))
        perms = [list(p) for p in itertools.permutations(range(nc))]
        if tier != "thorough":
            rng.shuffle(perms)
            perms = perms[:6]
        elif nc > 4:
            rng.shuffle(perms)
            perms = perms[:30]          # 5 containers: a sample of the 120 orders (the Coq evaluation of 360 runs per case is too slow)
        kind = rng.choice(["loglimit", "loglimit", "log", "topk", "fsum", "binagg", "range", "openfail"])
        sel = [C14.eqv("tier", rng.choice(["x", "y"]))] if rng.random() < 0.4 else [dgen.matcher(rng, ctrs, "container_name")]
        failing = kind == "openfail"
        if failing:
            # one container's log cannot be opened (mostly the first listed one): under every completion order the evaluation fails, every
            # other request has been joined when it returns and whatever was opened is closed
            kind = "log"
            chosen = dgen.selected(ctrs, sel)
            if len(chosen) < 2:
                sel = [C14.eqv("tier", ctrs[0].labels["tier"])]
                ctrs[1].labels["tier"] = ctrs[0].labels["tier"]
                chosen = dgen.selected(ctrs, sel)
            fc = chosen[0] if rng.random() < 0.7 else rng.choice(chosen)
            fc.fault = ("open",)
        start, end = T0 - S, T0 + 4 * S
        evals = []
        if kind in ("log", "loglimit"):
            pipe = [g.st_logfmt()] if rng.random() < 0.3 else []
            limit = rng.choice([1, 2, 3]) if kind == "loglimit" else 0
            q = g.query_text(sel, pipe, "spaced")
            pipe_coq = g.query_coq(sel, pipe)
            orc = oracles_coq(logfmt=egen.dedup([(line, "(%s,false)" % clist("(%s,%s)" % (cbytes(k), cbytes(v)) for k, v in self.lf(line))) for c in ctrs for _, line in c.recs]))
            for rel in perms:
                for rep in range(3):
                    evals.append({"q": b64e(q), "qcoq": "DQLog (%s) %s" % (pipe_coq, cZ(limit)), "limit": limit, "start": start, "end": end, "step": 0, "release": rel,
                                  "exp_selected": [c.id for c in dgen.selected(ctrs, sel)], "exp_opts": {}, "must_err": failing, "must_ok": not failing})
        else:
            orc = oracles_coq(logfmt=egen.dedup([(line, "(%s,false)" % clist("(%s,%s)" % (cbytes(k), cbytes(v)) for k, v in self.lf(line))) for c in ctrs for _, line in c.recs]))
            lf = m.g.st_logfmt(labels=["v"])
            drop = m.g.st_dropkeep("drop", ["msg"], [])
            x = m.mrange("sum_over_time", sel, [lf, drop], 10 * S, 0, ("v", "", []))
            xs = m.mvec("sum", x, None, mgen.grouping(["container_id", "svc"]))
            if kind == "topk":
                e = m.mvec("topk", m.mrange("count_over_time", sel, [drop], 10 * S), 1, None)
            elif kind == "fsum":
                e = m.mvec(rng.choice(["sum", "avg", "stddev"]), xs, None, rng.choice([None, mgen.grouping(["svc"])]))
            elif kind == "binagg":
                y = m.mvec("sum", m.mrange("count_over_time", sel, [drop], 10 * S), None, mgen.grouping(["container_id", "svc"]))
                e = m.mvec(rng.choice(["sum", "topk"]), m.mbin(rng.choice(["/", "+", "*"]), xs, y), None, None)
                if e["op"] == "topk":
                    e = m.mvec("topk", e["e"], 1, None)
            else:
                e = xs
            step = 0 if kind != "range" else S
            st, en = (end, end) if step == 0 else (T0, T0 + 3 * S)
            for rel in perms:
                for rep in range(3):
                    evals.append({"q": b64e(m.text(e)), "qcoq": "DQMetric (%s)" % e["coq"], "limit": 0, "start": st, "end": en, "step": step, "release": rel,
                                  "exp_selected": [c.id for c in dgen.selected(ctrs, sel)], "exp_opts": {}, "must_err": False, "must_ok": True})
        same = [[0, k] for k in range(1, len(evals))]
        return {"kind": "openfail" if failing else kind, "ctrs": [c.json() for c in ctrs], "ctrs_coq": clist(c.coq() for c in ctrs), "ctrs_intended_coq": clist(c.coq(False) for c in ctrs),
                "list_fail": False, "oracle": orc, "evals": evals, "same": same, "faults": ["open"] if failing else [], "raw_order": True,
                "summary": ["%s recs=%s labels=%s" % (c.id, [(t - T0) // S for t, _ in c.recs], c.labels) for c in ctrs], "note": "kind=%s orders=%d x3" % (kind, len(perms))}

    @staticmethod
    def lf(line: bytes):
        """logfmt reading of the generated lines `<id>:<k> v=<x>`"""
        out = []
        for tok in line.split(b" "):
            if b"=" in tok:
                k, v = tok.split(b"=", 1)
                out.append((k, v))
            elif tok:
                out.append((tok, b""))
        return out


PROP = P()
