"""C14: failures surface as errors and every opened log reader is closed."""
import itertools
from vlib import cbytes, clist, cZ, b64e
import egen
import dgen
import mgen
from dgen import Ctr, S, T0
from egen import EGen, B, oracles_coq
from props.dockcommon import DockProp

FAULTS = ["open", "cut_body", "daemon", "bad_ts", "nospace", "fail", "cut_header"]


class P(DockProp):
    id = "C14"
    rule = ("five query shapes (log query over one container, over several containers, with a positive limit; range aggregation incl. multi-step; vector aggregation over it; binary "
            "operation over two different selections) over 1-5 containers, with exactly one fault per case (or none): listing fails; the open of one container fails (selected or "
            "not; in the left or the right operand); a stream is cut inside a frame body, carries a daemon error frame, a malformed timestamp, a frame without space, or its reader "
            "fails -- at the first frame, in the middle, after the last frame; a stream cut inside a frame header (a clean end by C03, expected to succeed); each case under "
            "2-3 completion orders of the concurrent opens; one case in eight puts an invalid stage (bad template / pattern / ip() / path / regexp that the parser accepts) into a log query, a range aggregation or either side of a binary operation. Demanded on every observed run: readers closed = readers opened for every container; an error whenever the fault lies "
            "before every record the query needs (always for listing/open faults and for unlimited log queries); a non-error answer equals the answer over the intended fault-free "
            "streams; only selected containers are opened; log queries also equal the exact read-by-read model, for every completion order.")

    def gen(self, rng, tier):
        n = {"quick": 200, "thorough": 2500, "search": 800}[tier]
        g = EGen(rng)
        m = mgen.MGen(rng)
        return [self.one(rng, g, m, i) for i in range(n)]

    BADSTAGES = ['| line_format "{{ .n"', '| label_format x="{{ nosuchfunc .n }}"', '| pattern "<a><b>"', '|= ip("not-an-ip")', '| json x="a["', '| regexp "(?P<a>x)(?P<a>y)"']

    def badstage(self, rng, g, m, i):
        """a stage the parser accepts and pipeline construction rejects ("an invalid stage"): an error, and whatever was opened is closed"""
        nc = rng.randint(1, 4)
        names = ["web", "api", "db", "cron", "cache"]
        ctrs = [Ctr(rng, k, name=names[k], labels={"side": rng.choice(["l", "r"]), "tier": rng.choice(["a", "b"])}) for k in range(nc)]
        start, end = T0, T0 + 4 * S
        for c in ctrs:
            c.set_records(rng, rng.randint(1, 4), T0, 3 * S)
        bad = {"k": "raw", "text": rng.choice(self.BADSTAGES), "coq": "EInvalid"}        # Run/Dock.v: a stage that pipeline construction rejects
        sel = [self.eqv("tier", rng.choice(["a", "b"]))] if rng.random() < 0.5 else [dgen.matcher(rng, ctrs, "container_name")]
        if rng.random() < 0.3:
            # a set operation with a PARENTHESISED scalar operand: the parser lets it through (it looks at the bare literal only), building the
            # operation fails after the other operand's readers were opened: an error, and they are closed (D38)
            ok = m.mrange("count_over_time", sel, [m.g.st_dropkeep("drop", ["msg"], [])], S)
            lit = {"k": "lit", "v": 1.0, "toks": rng.choice([["(", "1", ")"], ["(", "(", "2", ")", ")"]]), "coq": "MLit %s" % mgen.cfloat(1)}
            op = rng.choice(["and", "or", "unless"])
            e = m.mbin(op, ok, lit) if rng.random() < 0.5 else m.mbin(op, lit, ok)
            ids = [c.id for c in dgen.selected(ctrs, sel)]
            step, st = rng.choice([(0, end), (S, start)])
            evals = [{"q": b64e(m.text(e)), "qcoq": "DQMetric (%s)" % e["coq"], "limit": 0, "start": st, "end": end, "step": step, "release": rel,
                      "exp_selected": ids, "exp_opts": {}, "must_err": True, "must_ok": False} for rel in (list(range(nc)), list(reversed(range(nc))))]
            return {"kind": "scalar-in-set-operation", "ctrs": [c.json() for c in ctrs], "ctrs_coq": clist(c.coq() for c in ctrs), "ctrs_intended_coq": clist(c.coq(False) for c in ctrs),
                    "list_fail": False, "oracle": oracles_coq(), "evals": evals, "same": [], "faults": ["scalar-operand"],
                    "summary": ["%s recs=%d labels=%s" % (c.id, len(c.recs), c.labels) for c in ctrs], "note": "parenthesised scalar under %s" % op}
        shape = rng.choice(["log", "range", "binright", "binleft"])
        sels = [sel]
        if shape == "log":
            q = g.query_text(sel, [bad], "spaced")
            qcoq = "DQLog (%s) 0" % g.query_coq(sel, [bad])
            step, st = 0, start
        else:
            e = m.mrange("count_over_time", sel, [bad], S)
            if shape != "range":
                s2 = [self.eqv("side", rng.choice(["l", "r"]))]
                ok = m.mvec("sum", m.mrange("count_over_time", s2, [m.g.st_dropkeep("drop", ["msg"], [])], S), None, mgen.grouping(["tier"]))
                badside = m.mvec("sum", e, None, mgen.grouping(["tier"]))
                e = m.mbin("+", ok, badside) if shape == "binright" else m.mbin("+", badside, ok)
                sels = [sel, s2]
            q = m.text(e)
            qcoq = "DQMetric (%s)" % e["coq"]
            step, st = rng.choice([(0, end), (S, start)])
        ids = []
        for sl in sels:
            for c in dgen.selected(ctrs, sl):
                if c.id not in ids:
                    ids.append(c.id)
        evals = [{"q": b64e(q), "qcoq": qcoq, "limit": 0, "start": st, "end": end, "step": step, "release": rel,
                  "exp_selected": ids, "exp_opts": {}, "must_err": True, "must_ok": False} for rel in (list(range(nc)), list(reversed(range(nc))))]
        return {"kind": "badstage-" + shape, "ctrs": [c.json() for c in ctrs], "ctrs_coq": clist(c.coq() for c in ctrs), "ctrs_intended_coq": clist(c.coq(False) for c in ctrs),
                "list_fail": False, "oracle": oracles_coq(), "evals": evals, "same": [], "faults": ["badstage"],
                "summary": ["%s recs=%d labels=%s" % (c.id, len(c.recs), c.labels) for c in ctrs], "note": "invalid stage %s" % bad["text"]}

    def one(self, rng, g, m, i):
        if i % 8 == 7:
            return self.badstage(rng, g, m, i)
        nc = rng.randint(1, 5)
        names = ["web", "api", "db", "cron", "cache"]
        ctrs = [Ctr(rng, k, name=names[k], labels={"side": rng.choice(["l", "r"]), "tier": rng.choice(["a", "b"])}) for k in range(nc)]
        start, end = T0, T0 + rng.choice([4, 6]) * S
        beyond = rng.random() < 0.3          # some records lie after the query end: a fault behind them may go unseen
        for c in ctrs:
            c.set_records(rng, rng.randint(0, 6), T0 - S, (end - T0) + (3 * S if beyond else 0))
        fault = rng.choice(FAULTS + ["none", "list"])
        list_fail = fault == "list"
        fc = None
        if fault not in ("none", "list"):
            fc = rng.choice(ctrs)
            fc.fault = ("open",) if fault == "open" else (fault, rng.choice([0, 0, 1, 2, len(fc.recs), max(len(fc.recs) - 1, 0)]))
        shape = rng.choice(["log1", "logn", "loglimit", "range", "vec", "bin", "bin"])
        if shape == "bin" and rng.random() < 0.35:
            fault = "open"
            for c in ctrs:
                c.fault = None
            fc = rng.choice(ctrs)
            fc.fault = ("open",)
            list_fail = False

        def selector(kind):
            if kind == "one":
                c = rng.choice(ctrs)
                return [dgen.matcher(rng, ctrs, "container")] if rng.random() < 0.3 else [self.eq(c, "container_id", c.id)]
            if kind == "side":
                return [self.eqv("side", rng.choice(["l", "r"]))]
            return [self.eqv("tier", rng.choice(["a", "b"]))] if rng.random() < 0.5 else [dgen.matcher(rng, ctrs, "container_name")]
        evals = []
        orders = [list(range(nc)), list(reversed(range(nc)))] + ([rng.sample(range(nc), nc)] if nc > 2 else [])

        def selected_ids(sels):
            out = []
            for sel in sels:
                for c in dgen.selected(ctrs, sel):
                    if c.id not in out:
                        out.append(c.id)
            return out

        def fault_selected(sels):
            return fc is not None and any(fc in dgen.selected(ctrs, sel) for sel in sels)
        real_fault = fault not in ("none", "list", "cut_header")
        if shape in ("log1", "logn", "loglimit"):
            sel = selector("one" if shape == "log1" else "many")
            pipe = [g.line_filter(words=["error", "info", "GET", "n=", ":"])] if rng.random() < 0.4 else []
            limit = rng.choice([1, 2, 3]) if shape == "loglimit" else rng.choice([0, -1])
            q = g.query_text(sel, pipe, "spaced")
            hit = fault_selected([sel])
            must_err = list_fail or (hit and real_fault and (limit <= 0 or fault == "open"))
            must_ok = (not list_fail) and not (hit and real_fault)
            for rel in orders:
                evals.append({"q": b64e(q), "qcoq": "DQLog (%s) %s" % (g.query_coq(sel, pipe), cZ(limit)), "limit": limit, "start": start, "end": end, "step": 0, "release": rel,
                              "exp_selected": selected_ids([sel]), "exp_opts": {}, "must_err": must_err, "must_ok": must_ok})
        else:
            rng_ns = rng.choice([S, 2 * S])
            if shape == "bin":
                s1, s2 = selector("side"), selector("many")
                if fault == "open" and rng.random() < 0.8:
                    # aim the open failure at the RIGHT operand only: the left operand has then already opened its readers
                    for _ in range(12):
                        right_only = [c for c in dgen.selected(ctrs, s2) if c not in dgen.selected(ctrs, s1)]
                        if right_only and dgen.selected(ctrs, s1):
                            fc.fault = None
                            fc = rng.choice(right_only)
                            fc.fault = ("open",)
                            break
                        s1, s2 = selector("side"), selector("many")
                sels = [s1, s2]
                e1 = m.mvec("sum", m.mrange("count_over_time", s1, [m.g.st_dropkeep("drop", ["msg"], [])], rng_ns), None, mgen.grouping(["tier"]))
                e2 = m.mvec("sum", m.mrange("count_over_time", s2, [m.g.st_dropkeep("drop", ["msg"], [])], rng_ns), None, mgen.grouping(["tier"]))
                e = m.mbin(rng.choice(["+", "-", "or", "and", ">"]), e1, e2)
            else:
                s1 = selector("many")
                sels = [s1]
                e = m.mrange(rng.choice(["count_over_time", "rate", "bytes_over_time"]), s1, [m.g.st_dropkeep("drop", ["msg"], [])], rng_ns)
                if shape == "vec":
                    e = m.mvec(rng.choice(["sum", "count", "max", "topk"]), e, 2 if False else None, mgen.grouping(["tier"])) if True else e
                    if e["op"] == "topk":
                        e = m.mvec("topk", e["e"], 2, mgen.grouping(["tier"]))
            hit = fault_selected(sels)
            step = rng.choice([0, S, 2 * S])
            st, en = (end, end) if step == 0 else (start, end)
            # the fault is certainly met when no record of any selected container lies after the end of the last window
            all_before = all(ts <= en for sel in sels for c in dgen.selected(ctrs, sel) for ts, _ in c.recs)
            must_err = list_fail or (hit and real_fault and (fault == "open" or all_before))
            if shape == "bin" and hit and fault == "open":
                must_err = True
            must_ok = (not list_fail) and not (hit and real_fault)
            for rel in orders[:2]:
                evals.append({"q": b64e(m.text(e)), "qcoq": "DQMetric (%s)" % e["coq"], "limit": 0, "start": st, "end": en, "step": step, "release": rel,
                              "exp_selected": selected_ids(sels), "exp_opts": {}, "must_err": must_err, "must_ok": must_ok})
        same = [[0, k] for k in range(1, len(evals))]
        return {"kind": shape, "ctrs": [c.json() for c in ctrs], "ctrs_coq": clist(c.coq() for c in ctrs), "ctrs_intended_coq": clist(c.coq(False) for c in ctrs),
                "list_fail": list_fail, "oracle": oracles_coq(), "evals": evals, "same": same, "faults": [fault],
                "summary": ["%s recs=%d fault=%s labels=%s" % (c.id, len(c.recs), c.fault, c.labels) for c in ctrs], "note": "shape=%s fault=%s" % (shape, fault)}

    @staticmethod
    def eqv(l, v):
        return {"l": l, "op": "=", "v": v, "coq": "em %s %s" % (cbytes(l.encode()), egen.sm_coq("=", v)), "pred": lambda view, l=l, v=v: view.get(l.encode(), b"") == v.encode()}

    @staticmethod
    def eq(c, l, v):
        return P.eqv(l, v)


PROP = P()
