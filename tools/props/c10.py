"""C10: a metric series is identified by its label set, nothing else."""
from vlib import cbytes, b64e, cZ
import egen
import mgen
from mgen import MGen, S, grouping
from egen import oracles_coq, B
from props.metcommon import MetProp
from props.c09 import T0, sel_all


class P(MetProp):
    id = "C10"
    rule = ("count_over_time / sum by / sum without / nested without over records carrying 1-8 labels, with adversarial label sets: values and names that are prefixes or "
            "concatenations of one another ({ab=\"c\"} vs {a=\"bc\"}, {a=\"b\",c=\"d\"} vs {a=\"bc\",d=\"\"} ...), empty values, many labels (so that the order in which the "
            "runtime materialises the label map varies between samples), label values `| json` took from numbers and booleans next to their string twins, range aggregations with their own without() under an outer without() over several steps. Each case is "
            "evaluated twice in one process and the results must coincide; demanded on the observed results: no two series with one label set, the window reading "
            "range_spec_at (samples grouped by label set and by nothing else), and per step the counts add up to the number of samples in the window.")

    def gen(self, rng, tier):
        n = {"quick": 150, "thorough": 1500, "search": 600}[tier]
        m = MGen(rng)
        return [self.one(rng, m, i) for i in range(n)]

    def label_sets(self, rng):
        k = rng.randrange(7)
        if k == 5:
            # values holding the bytes a key encoding might use as separators (0xff as in Prometheus' labels.Hash, NUL, comma, equals)
            return [{"a": "x\udcffb\udcffy"}, {"a": "x", "b": "y"}, {"a": "x\udcff", "b": "y"}, {"a": "x", "b": "\udcffy"}]
        if k == 6:
            return [{"a": "x\x00b\x00y"}, {"a": "x", "b": "y"}, {"a": "x,b=y"}, {"a": "x", "b": ""}, {"a": "x\x01\x00\x00\x00b", "b": "y"}]
        if k == 0:
            return [{"ab": "c"}, {"a": "bc"}, {"abc": ""}, {"a": "b", "c": ""}]
        if k == 1:
            return [{"a": "b", "c": "d"}, {"a": "bc", "d": ""}, {"ab": "cd"}, {"a": "b", "cd": ""}]
        if k == 2:
            names = ["l%d" % i for i in range(8)]
            base = {nm: rng.choice(["x", "y"]) for nm in names}
            out = [dict(base)]
            for _ in range(3):
                d = dict(base); d[rng.choice(names)] = rng.choice(["x", "y", "z"]); out.append(d)
            return out
        if k == 3:
            return [{"a": "1", "b": "1"}, {"a": "1", "b": "2"}, {"a": "2", "b": "1"}, {"a": "11", "b": ""}, {"a": "1", "b": "12"}]
        return [{"app": "a", "pod": "p1", "inst": "i1"}, {"app": "a", "pod": "p2", "inst": "i1"}, {"app": "a", "pod": "p1", "inst": "i2"}, {"app": "b", "pod": "p1", "inst": "i1"}]

    def one(self, rng, m, i):
        ls = self.label_sets(rng)
        names = sorted({k for d in ls for k in d})
        rng_ns = rng.choice([1, 2, 3]) * S
        step = rng.choice([S, S, 2 * S])
        k = rng.randint(2, 5)
        start = T0
        end = start + k * step
        recs = m.records(rng.randint(5, 14), start - rng_ns, (end - start) + rng_ns, ls, lines=("x",), numeric="v", values=[1, 2, 3, 5])
        sel = sel_all(m)
        drop = [m.g.st_dropkeep("drop", ["msg", "v"], [])]
        kind = rng.choice(["count", "count", "sumby", "sumwithout", "nestedwithout", "unwrapmax", "emptyjoin", "nestedby", "nestedby", "typed"])
        orc = oracles_coq()
        if kind == "typed":
            # label values that `| json` took from numbers and booleans (typed attribute values, not strings), next to their string twins:
            # 200 / 404 / 500, true / false, 0.5 / 1.5 are different values, "200" and 200 the same one
            docs = [[("status", ("num", "200", "200")), ("ok", True)], [("status", ("num", "404", "404")), ("ok", False)], [("status", ("num", "500", "500")), ("ok", True)],
                    [("status", "200"), ("ok", "true")], [("took", ("num", "0.5", "0.5"))], [("took", ("num", "1.5", "1.5")), ("ok", False)], [("status", ("num", "200", "200"))]]
            jls = [egen.JLine(rng, d) for d in docs]
            recs = m.records(rng.randint(6, 14), start - rng_ns, (end - start) + rng_ns, [{"app": "a"}], lines=[jl.text for jl in jls], numeric=None)
            orc = oracles_coq(jsonl=egen.dedup([(B(jl.text), jl.coq) for jl in jls]))
            names = ["status", "ok", "took", "app"]
            drop = [m.g.st_json(), m.g.st_dropkeep("drop", ["msg"], [])]
            kind2 = rng.choice(["count", "sumby", "sumwithout"])
        inner = m.mrange("count_over_time", sel, drop, rng_ns)
        if kind == "typed":
            kind, typed = kind2, True
        else:
            typed = False
        rels = []
        if kind == "count":
            e = inner
            rels = ["MRelRangeSpec 0", "MRelCountConserved 0"]
        elif kind == "sumby":
            L = rng.sample(names + ["nosuch"], rng.randint(0, min(3, len(names))))
            e = m.mvec("sum", inner, None, grouping(L))
        elif kind == "emptyjoin":
            # a grouping that hides EVERY label meets the label-less series of vector(): they are one series, not two
            g0 = rng.choice([grouping(["nosuch"]), grouping([]), grouping(names + ["job"], True)])
            agg = m.mvec(rng.choice(["sum", "count", "max"]), inner, None, g0)
            e = rng.choice([m.mbin("or", agg, m.mvector(0)), m.mbin("or", m.mvector(0), agg), m.mbin("+", agg, m.mvector(1)), m.mbin("unless", agg, m.mvector(1))])
        elif kind == "nestedby":
            # an outer `by` naming a label the inner clause removed: the label stays removed, equal (empty) label sets stay ONE series
            l1 = rng.sample(names, rng.randint(0, max(0, len(names) - 1)))
            left = [x for x in names if x not in l1] or names
            l2 = rng.sample(left, rng.randint(1, len(left))) + (rng.sample(l1, 1) if l1 and rng.random() < 0.5 else [])
            if rng.random() < 0.5:
                inner1 = m.mvec(rng.choice(["sum", "max"]), inner, None, grouping(l1))
            else:
                inner1 = m.mrange(rng.choice(["max_over_time", "min_over_time"]), sel, [], rng_ns, 0, ("v", "", []), None, grouping(l1))
            e = m.mvec(rng.choice(["sum", "count", "max"]), inner1, None, grouping(l2))
        elif kind == "sumwithout":
            L = rng.sample(names + ["nosuch"], rng.randint(0, min(3, len(names))))
            e = m.mvec("sum", inner, None, grouping(L, True))
        else:
            # a range aggregation with its own without() under an outer without(): the restriction sets must not be shared between samples / steps
            w1 = rng.sample(names, 1) + ["msg", "v"]
            w2 = rng.sample([x for x in names if x not in w1] or names, 1)
            inner2 = m.mrange(rng.choice(["max_over_time", "min_over_time", "avg_over_time"]), sel, [], rng_ns, 0, ("v", "", []), None, grouping(w1, True))
            e = m.mvec(rng.choice(["count", "min", "max", "sum"]), inner2, None, grouping(w2, True)) if kind == "nestedwithout" else inner2
        q = m.text(e)
        evals = [{"q": b64e(q), "qcoq": e["coq"], "start": start, "end": end, "step": step},
                 {"q": b64e(q), "qcoq": e["coq"], "start": start, "end": end, "step": step},
                 {"q": b64e(q), "qcoq": e["coq"], "start": end, "end": end, "step": 0}]
        rels += ["MRelEqual 0 1", "MRelSameAt 0 2 %d" % (end // 10**6)]
        if kind in ("count", "unwrapmax"):
            rels += ["MRelRangeSpec 1", "MRelRangeSpec 2"]
        return {"kind": "typed-" + kind if typed else kind, "recs": [m.g.rec_json(r) for r in recs], "oracle": orc, "evals": evals, "rels": rels, "ops": [kind],
                "note": "label sets %r" % (ls,)}


PROP = P()
