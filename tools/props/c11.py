"""C11: vector aggregations aggregate exactly their group."""
from vlib import cbytes, b64e, cZ
import egen
import mgen
from mgen import MGen, S, grouping, grouping_coq, AGGK
from egen import oracles_coq, B
from props.metcommon import MetProp
from props.c09 import T0, sel_all


class P(MetProp):
    id = "C11"
    rule = ("an inner vector x (count_over_time, or sum/max_over_time of an unwrapped integer incl. negative values, over 2-6 label sets of labels app/pod/inst) and outer "
            "aggregations op [by|without (L)] (x) for all 11 operators, L drawn from present / absent / empty label lists, k in {0,1,2,|g|,|g|+1}, nestings to depth three incl. "
            "by-after-by, without-after-by and an inner range aggregation with its own grouping; instant and multi-step range evaluation. Demanded on the OBSERVED results: "
            "the outer result is the aggregate (sum,count,min,max: exact on integers) of exactly the groups of the observed inner vector; topk/bottomk return min(k,|g|) members "
            "of each group, none worse than an omitted one, labels and values intact; sort/sort_desc return the same vector in value order; no two series share a label set. "
            "avg/stddev/stdvar and all nestings are compared with the faithful model.")

    def gen(self, rng, tier):
        n = {"quick": 170, "thorough": 1800, "search": 700}[tier]
        m = MGen(rng)
        return [self.one(rng, m, i) for i in range(n)]

    def one(self, rng, m, i):
        ls = rng.choice([
            [{"app": "a", "pod": "p1"}, {"app": "a", "pod": "p2"}, {"app": "b", "pod": "p1"}],
            [{"app": "a", "pod": "p1", "inst": "i1"}, {"app": "a", "pod": "p2", "inst": "i1"}, {"app": "a", "pod": "p1", "inst": "i2"}, {"app": "b", "pod": "p3", "inst": "i1"}, {"app": "c", "pod": "p1", "inst": "i2"}],
            [{"app": "a"}, {"app": "b"}, {"app": "c"}, {"app": "d"}, {"app": "e"}, {"app": "f"}],
            [{"app": "a", "pod": "p1"}, {"app": "a"}, {"pod": "p1"}],
            # values holding the bytes a key encoding might use as separators: the two sets must stay two groups
            [{"a": "x\udcffb\udcffy"}, {"a": "x", "b": "y"}, {"a": "x\udcff", "b": "y"}, {"a": "x", "b": "\udcffy"}],
            [{"a": "x\x00b\x00y"}, {"a": "x", "b": "y"}, {"a": "x,b=y"}, {"a": "x", "b": ""}],
        ])
        names = sorted({k for d in ls for k in d})
        rng_ns = rng.choice([2, 3]) * S
        step = S
        k = rng.randint(1, 4)
        start, end = T0, T0 + k * S
        neg = rng.random() < 0.4
        vals = [-7, -4, -1, 2, 3, 5] if neg else [1, 2, 3, 5, 8]
        recs = m.records(rng.randint(5, 14), start - rng_ns, (end - start) + rng_ns, ls, lines=("x",), numeric="v", values=vals)
        sel = sel_all(m)
        innerk = rng.choice(["count", "sum", "max", "gmax"])
        if innerk == "count":
            x = m.mrange("count_over_time", sel, [m.g.st_dropkeep("drop", ["msg", "v"], [])], rng_ns)
        elif innerk == "gmax":
            w1 = ["msg", "v"] + rng.sample(names, rng.randint(0, 1))
            x = m.mrange("max_over_time", sel, [], rng_ns, 0, ("v", "", []), None, grouping(w1, True))
        else:
            x = m.mrange(innerk + "_over_time", sel, [m.g.st_dropkeep("drop", ["msg"], [])], rng_ns, 0, ("v", "", []))
            x = m.mvec("sum", x, None, grouping(["v"], True))          # remove the unwrapped label: one series per label set
        evals, rels = [], []

        def add(e, instant=False):
            q = m.text(e)
            if instant:
                evals.append({"q": b64e(q), "qcoq": e["coq"], "start": end, "end": end, "step": 0})
            else:
                evals.append({"q": b64e(q), "qcoq": e["coq"], "start": start, "end": end, "step": step})
            return len(evals) - 1

        instant = rng.random() < 0.4
        ix = add(x, instant)

        def glist():
            r = rng.random()
            if r < 0.2:
                return None
            L = rng.sample(names + ["nosuch"], rng.randint(0, min(2, len(names))))
            return grouping(L, rng.random() < 0.4)
        op = rng.choice(list(mgen.VOP) + ["avg", "avg"])
        g = glist()
        if op == "avg" and rng.random() < 0.6:
            g = grouping(rng.sample(names, 1))          # groups of unequal size (the label sets are not spread evenly)
        if op in ("sort", "sort_desc"):
            g = None
            e = m.mvec(op, x)
            j = add(e, True)
            if not instant:
                ix = add(x, True)
            rels.append("MRelSorted %d %d %s" % (ix, j, "true" if op == "sort_desc" else "false"))
        elif op in ("topk", "bottomk"):
            kk = rng.choice([1, 1, 2, 3, len(ls), len(ls) + 1])
            e = m.mvec(op, x, kk, g)
            j = add(e, instant)
            if kk > 0:
                rels.append("MRelTopk %d %d %d %s (%s)" % (ix, j, kk, "true" if op == "topk" else "false", mgen.grouping_coq(g)))
            else:
                rels.append("MRelNoSeries %d" % j)
        else:
            e = m.mvec(op, x, None, g)
            j = add(e, instant)
            if op in ("sum", "count", "min", "max"):
                rels.append("MRelVagg %d %d %s (%s)" % (ix, j, AGGK[op], mgen.grouping_coq(g)))
            # nesting: a second aggregation over the first one, checked against the OBSERVED first one
            if rng.random() < (0.95 if op == "avg" else 0.7):
                # ... also the SAME operator again with no grouping (avg of avgs over groups of unequal size is not the avg of everything)
                op2 = rng.choice(["sum", "count", "min", "max", op, op] + ([op] * 6 if op == "avg" else []))
                g2 = None if (op2 == op and rng.random() < 0.6) else glist()
                e2 = m.mvec(op2, e, None, g2)
                j2 = add(e2, instant)
                if op2 in ("sum", "count", "min", "max"):          # avg / stddev / stdvar: bit-exact against the faithful model only (streaming mean)
                    rels.append("MRelVagg %d %d %s (%s)" % (j, j2, AGGK[op2], mgen.grouping_coq(g2)))
                if rng.random() < 0.5:
                    op3 = rng.choice(["sum", "max", "count"])
                    g3 = glist()
                    e3 = m.mvec(op3, e2, None, g3)
                    j3 = add(e3, instant)
                    rels.append("MRelVagg %d %d %s (%s)" % (j2, j3, AGGK[op3], mgen.grouping_coq(g3)))
        return {"kind": op, "recs": [m.g.rec_json(r) for r in recs], "oracle": oracles_coq(), "evals": evals, "rels": rels, "ops": [op, "inner:" + innerk],
                "note": "inner=%s neg=%s" % (innerk, neg)}


PROP = P()
