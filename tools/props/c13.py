"""C13: operator chains of up to five operands through logql.Parse; expectation = conventional tree."""
import itertools
from vlib import cbytes, clist, cZ, cnat, cpair, copt, b64e, b64d
import qgen
from props.c05 import tok_coq

OPS = ["or", "and", "unless", "+", "-", "*", "/", "%", "^", "==", "!=", ">", ">=", "<", "<="]
COQOP = {"or": "OpOr", "and": "OpAnd", "unless": "OpUnless", "+": "OpAdd", "-": "OpSub", "*": "OpMul", "/": "OpDiv", "%": "OpMod", "^": "OpPow",
         "==": "OpEq", "!=": "OpNotEq", ">": "OpGt", ">=": "OpGte", "<": "OpLt", "<=": "OpLte"}
PREC = {"or": 1, "and": 2, "unless": 2, "==": 3, "!=": 3, ">": 3, ">=": 3, "<": 3, "<=": 3, "+": 4, "-": 4, "*": 5, "/": 5, "%": 5, "^": 6}
VALS = [2, 3, 5, 7, 11]


def conv(operands, ops):
    """conventional tree over already-built operand ASTs"""
    if not ops:
        return operands[0]
    best = 0
    for i, o in enumerate(ops):
        if PREC[o] < PREC[ops[best]] or (PREC[o] == PREC[ops[best]] and o != "^"):
            best = i
    return {"k": "bin", "l": conv(operands[:best + 1], ops[:best]), "op": ops[best], "mod": {}, "r": conv(operands[best + 1:], ops[best + 1:])}


class P:
    id = "C13"
    driver = "C13"
    uses_tables = True
    shard = 60
    rule = ("chains vector(a) op1 vector(b) ... of up to five operands over all fifteen binary operators, operand values a permutation of {2,3,5,7,11}; "
            "quick: ALL chains of <= 4 operands (3616) plus random 4- and 5-operand chains (half of them over a 2-3 operator subset), each also with one random parenthesised sub-chain; thorough: all 15^4 "
            "five-operand chains. Expectation = the conventionally grouped tree (precedence levels, left-to-right among equals, ^ right-to-left, parentheses first), "
            "compared with Go's parse tree modulo parenthesis nodes. Chains in the region of known finding D11 (two left-associative operators of equal precedence with "
            "nothing weaker between them) are attributed to it only when the implementation returns exactly what the faithful model predicts. "
            "Non-trivial = at least two operators; distinct = distinct query text.")
    trusted = ["parse-level observable: the grouping is read off the tree logql.Parse returns (evaluation of a given tree is C12's subject)"]
    assumptions = []
    exhaustive = {"quick": False, "thorough": True}

    def build(self, rng, ops, with_parens):
        vals = list(VALS)
        rng.shuffle(vals)
        operands = [{"k": "vector", "text": str(v), "v": float(v)} for v in vals[:len(ops) + 1]]
        toks = []
        r = qgen.Renderer(rng, plain=True)
        lo = hi = None
        if with_parens and len(ops) >= 2:
            lo = rng.randrange(0, len(ops))
            hi = rng.randrange(lo + 1, len(ops) + 1)      # operands lo..hi parenthesised
            if lo == 0 and hi == len(ops):
                lo = hi = None
        if lo is None:
            tree = conv(operands, ops)
            for i, o in enumerate(operands):
                if i:
                    toks.append(ops[i - 1])
                toks += r.expr(o)
        else:
            inner = conv(operands[lo:hi + 1], ops[lo:hi])
            outer_operands = operands[:lo] + [inner] + operands[hi + 1:]
            outer_ops = ops[:lo] + ops[hi:]
            tree = conv(outer_operands, outer_ops)
            for i, o in enumerate(operands):
                if i:
                    toks.append(ops[i - 1])
                if i == lo:
                    toks.append("(")
                toks += r.expr(o)
                if i == hi:
                    toks.append(")")
        q = qgen.layout(rng, toks, "spaced")
        return {"ops": ops, "q": b64e(q), "expect": b64e(qgen.dexpr(tree)), "parens": lo is not None,
                "outer": ops if lo is None else ops[:lo] + ops[hi:], "inner": [] if lo is None else ops[lo:hi]}

    def gen(self, rng, tier):
        cases = []
        if tier == "thorough":
            for n in range(0, 5):
                for ops in itertools.product(OPS, repeat=n):
                    cases.append(self.build(rng, list(ops), False))
            for _ in range(3000):
                ops = [rng.choice(OPS) for _ in range(rng.choice([2, 3, 4]))]
                cases.append(self.build(rng, ops, True))
            return cases
        for n in range(0, 4 if tier == "quick" else 3):
            for ops in itertools.product(OPS, repeat=n):
                cases.append(self.build(rng, list(ops), False))
        for _ in range({"quick": 700, "search": 3000}[tier]):
            # half of the random chains draw from a small operator subset so that repeated operators,
            # ^-chains and equal-precedence neighbours are frequent
            pool = rng.sample(OPS, rng.choice([2, 3])) if rng.random() < 0.5 else OPS
            ops = [rng.choice(pool) for _ in range(rng.choice([3, 4, 4]))]
            cases.append(self.build(rng, ops, rng.random() < 0.4))
        return cases

    def request(self, c):
        return {"cmd": "parse", "query": c["q"]}

    def to_coq(self, c, r):
        toks = clist(tok_coq(t) for t in (r.get("tokens") or []))
        # the known-finding region is a statement about the un-parenthesised chain; parenthesised cases use an empty op list
        # unless the parentheses leave an equal-precedence pair exposed - to stay exact we give the region only for plain chains
        ops = clist(COQOP[o] for o in c["outer"])
        ops2 = clist(COQOP[o] for o in c["inner"])
        obs = copt(None if "ast" not in r else cbytes(b64d(r["ast"])))
        obs_np = copt(None if "ast_np" not in r else cbytes(b64d(r["ast_np"])))
        return "mk %s %s %s %s %s %s" % (ops, ops2, toks, obs_np, obs, cbytes(b64d(c["expect"])))

    def model_exprs(self, term):
        return ["model (%s)" % term]

    def trivial(self, c, r):
        return len(c["ops"]) < 2

    def sample(self, c, r):
        return {"query": b64d(c["q"]).decode(), "expected_conventional": b64d(c["expect"]).decode()[:400],
                "observed": b64d(r["ast_np"]).decode()[:400] if "ast_np" in r else r.get("parse_error")}

    def distribution(self, cases, resps):
        d = {"operators": {}, "with_parentheses": 0}
        for c in cases:
            d["operators"][str(len(c["ops"]))] = d["operators"].get(str(len(c["ops"])), 0) + 1
            d["with_parentheses"] += c["parens"]
        return d


PROP = P()
