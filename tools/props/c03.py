"""C03: Docker multiplexed log stream decoding: fragmentation, truncation, faults."""
import datetime
import struct
from vlib import cbytes, clist, cZ, cbool, b64e, b64d

MSG_ALPHA = [b" ", b"\n", b"\x00", b"\xff", b"a", b"b", b"=", b"\r\n", b"  ", "é".encode(), b"\xc3", b"Z", b"0"]
ENDS = {"clean": "CleanEnd", "header": "ErrHeader", "body": "ErrBody", "daemon": "ErrDaemon",
        "nospace": "ErrNoSpace", "timestamp": "ErrTimestamp"}
BAD_TS = [b"", b"garbage", b"2024-13-01T00:00:00Z", b"2024-01-01T00:00:00", b"2024-01-01 00:00:00Z"[:10],
          b"20x4-01-01T00:00:00Z", b"2024-02-30T00:00:00Z", b"2024-01-01T24:00:00Z", b"2024-01-01T00:00:00.Z",
          b"2024-01-01T00:00:60Z", b"1700000000"]
EPOCH = datetime.datetime(1970, 1, 1)


def fmt_ts(ns, rng=None):
    secs, frac = divmod(ns, 10**9)
    off = 0
    if rng is not None and rng.random() < 0.15:
        off = rng.choice([-12 * 60, -330, 60, 120, 345, 14 * 60 - 1])
    d = EPOCH + datetime.timedelta(seconds=secs + off * 60)
    s = d.strftime("%Y-%m-%dT%H:%M:%S")
    if len(s) < 19:
        s = "%04d" % d.year + s[s.index("-"):]
    if frac:
        s += "." + ("%09d" % frac).rstrip("0")
    if off == 0:
        s += "Z"
    else:
        s += "%s%02d:%02d" % ("+" if off > 0 else "-", abs(off) // 60, abs(off) % 60)
    return s.encode()


def frame(typ, payload):
    return bytes([typ, 0, 0, 0]) + struct.pack(">I", len(payload)) + payload


def gen_ts(rng):
    k = rng.random()
    if k < 0.5:
        base = 1_700_000_000 * 10**9 + rng.randrange(0, 10**6) * 10**9
    elif k < 0.8:
        base = rng.randrange(0, 2**62)
    else:
        base = rng.randrange(-(2**62), 2**62)   # years 1823..2116
    f = rng.choice([0, 0, 1, 999_999_999, 500_000_000, 123_456_789, 10, 1000, 120_000_000])
    return (base // 10**9) * 10**9 + f


def gen_msg(rng):
    if rng.random() < 0.012:
        # a message as long as the daemon's 16 KiB chunk (the frame is 31 bytes longer: the timestamp), and longer ones
        n = rng.choice([16353, 16354, 16384, 16385, 20000])
        return bytes(97 + (i * 7 + n) % 26 for i in range(n))
    n = rng.choice([0, 0, 1, 2, 3, 5, 8, 13, 40])
    if rng.random() < 0.2:
        return bytes(rng.randrange(256) for _ in range(n))
    return b"".join(rng.choice(MSG_ALPHA) for _ in range(n))


def fragment(rng, data, mode, borders):
    """returns list of chunks (non-empty)"""
    if not data:
        return []
    if mode == "one":
        return [data]
    if mode == "bytewise":
        return [data[i:i + 1] for i in range(len(data))]
    if mode == "borders":
        cuts = sorted(set(b for b in borders if 0 < b < len(data)))
    else:
        k = rng.randint(1, max(1, min(12, len(data) - 1)))
        cuts = sorted(set(rng.randrange(1, len(data)) for _ in range(k))) if len(data) > 1 else []
    out, prev = [], 0
    for c in cuts + [len(data)]:
        if c > prev:
            out.append(data[prev:c])
        prev = c
    return out


class P:
    id = "C03"
    driver = "C03"
    shard = 30
    rule = ("0-8 records (timestamps 1823..2116 incl. pre-1970, fractions with trimmed zeros, numeric zone offsets; messages over a byte alphabet "
            "biased to space, LF, NUL, 0xff, empty, CRLF, invalid UTF-8, or arbitrary bytes; stdout/stderr/stdin types) encoded in Docker framing; "
            "a fault plan in {none, truncate at a chosen byte, daemon-error frame, bad timestamp, frame without space, read failure at a byte}; "
            "fragmented as {one read, byte-by-byte, random cuts, cuts exactly on header/body borders}. thorough additionally enumerates EVERY truncation "
            "point and EVERY read-failure point of each generated stream. Non-trivial = at least one record or a fault; distinct = distinct event list.")
    trusted = ["time.Parse(RFC3339Nano) is a library oracle: theorems assume parse(fmt t)=Some t and fmt has no space; executable instance Base/TimeFmt.v "
               "follows Go's parseRFC3339 fast path", "io.ReadFull/io.CopyN/bytes.Buffer semantics transliterated (never over-read)"]
    assumptions = ["reads never return (0, nil); EOF and read errors are sticky"]
    exhaustive = {"quick": False, "thorough": False}

    def build(self, rng, recs, fault, fragmode):
        """recs: list of (typ, ts, msg). fault: dict. Returns case dict."""
        frames = []
        exp = []
        exp_clean = True
        stop = False
        for i, (typ, ts, msg) in enumerate(recs):
            if fault["kind"] in ("daemon", "badts", "nospace") and fault["at"] == i and not stop:
                if fault["kind"] == "daemon":
                    frames.append(frame(3, fault["payload"]))
                elif fault["kind"] == "badts":
                    frames.append(frame(typ, fault["payload"] + b" " + msg))
                else:
                    frames.append(frame(typ, fault["payload"]))
                stop = True
                exp_clean = False
            frames.append(frame(typ, fmt_ts(ts, rng if fault.get("offsets") else None) + b" " + msg))
            if not stop:
                exp.append((ts, msg))
        if fault["kind"] in ("daemon", "badts", "nospace") and fault["at"] >= len(recs) and not stop:
            if fault["kind"] == "daemon":
                frames.append(frame(3, fault["payload"]))
            elif fault["kind"] == "badts":
                frames.append(frame(1, fault["payload"] + b" x"))
            else:
                frames.append(frame(1, fault["payload"]))
            exp_clean = False
        data = b"".join(frames)
        borders = []
        pos = 0
        for f in frames:
            borders += [pos, pos + 8]
            pos += len(f)
        term = "eof"
        if fault["kind"] in ("cut", "fail"):
            p = min(fault["pos"], len(data))
            # records wholly before p, and whether p is inside a body
            exp2, pos, inside_body = [], 0, False
            k = 0
            for f in frames:
                if pos + len(f) <= p:
                    pos += len(f)
                    k += 1
                else:
                    inside_body = (p - pos) >= 8
                    break
            # only keep expectations for the prefix of good frames
            nexp = min(k, len(exp)) if exp_clean or k <= len(exp) else len(exp)
            if exp_clean:
                exp = exp[:k]
            else:
                # a scripted bad frame exists; if the cut is before it, cut semantics win
                bad_index = len(exp)
                if k <= bad_index:
                    exp = exp[:k]
                    exp_clean = True
                else:
                    p = len(data)  # cut after the bad frame: irrelevant
            if exp_clean:
                if fault["kind"] == "fail" and p < len(data) + 1:
                    exp_clean = False        # a read failure is always an error
                elif fault["kind"] == "cut" and inside_body:
                    exp_clean = False
            data = data[:p]
            if fault["kind"] == "fail":
                term = "fail"
        chunks = fragment(rng, data, fragmode, borders)
        events = [{"d": b64e(c)} for c in chunks]
        events.append({"fail": True} if term == "fail" else {"eof": True})
        if term == "eof" and rng.random() < 0.3:
            events.pop()      # running off the end of the script is EOF as well
        return {"events": events, "exp": [[t, b64e(m)] for t, m in exp], "exp_clean": exp_clean,
                "fault": fault["kind"], "frag": fragmode, "nrec": len(recs)}

    def gen(self, rng, tier):
        n = {"quick": 320, "thorough": 1500, "search": 1500}[tier]
        cases = []
        for _ in range(n):
            nrec = rng.choice([0, 1, 1, 2, 3, 4, 6, 8])
            recs = [(rng.choice([1, 1, 2, 2, 0]), gen_ts(rng), gen_msg(rng)) for _ in range(nrec)]
            total = sum(8 + 22 + len(m) for _, _, m in recs) + 30
            k = rng.random()
            if k < 0.3:
                fault = {"kind": "none"}
            elif k < 0.55:
                fault = {"kind": "cut", "pos": rng.randrange(0, total)}
            elif k < 0.65:
                fault = {"kind": "daemon", "at": rng.randint(0, nrec), "payload": rng.choice([b"boom", b"", b"error from daemon in stream: x y"])}
            elif k < 0.77:
                fault = {"kind": "badts", "at": rng.randint(0, nrec), "payload": rng.choice(BAD_TS)}
            elif k < 0.85:
                fault = {"kind": "nospace", "at": rng.randint(0, nrec), "payload": rng.choice([b"", b"nospacehere", b"2024-01-01T00:00:00Z"])}
            else:
                fault = {"kind": "fail", "pos": rng.randrange(0, total)}
            fault["offsets"] = rng.random() < 0.3
            mode = rng.choice(["one", "bytewise", "random", "random", "borders"])
            if mode == "bytewise" and any(len(m) > 4000 for _, _, m in recs):
                mode = "random"          # a 16 KiB message read byte by byte is 16000 read events: kept to a dozen fragments
            cases.append(self.build(rng, recs, fault, mode))
        if tier == "thorough":
            # every truncation point and every failure point of 12 streams
            for _ in range(12):
                nrec = rng.choice([1, 2, 3])
                recs = [(rng.choice([1, 2]), gen_ts(rng), gen_msg(rng)[:6]) for _ in range(nrec)]
                total = sum(8 + len(fmt_ts(t)) + 1 + len(m) for _, t, m in recs)
                for p in range(total + 1):
                    for kind in ("cut", "fail"):
                        cases.append(self.build(rng, recs, {"kind": kind, "pos": p}, rng.choice(["one", "random", "borders"])))
        return cases

    def request(self, c):
        return {"cmd": "parselog", "events": c["events"]}

    def to_coq(self, c, r):
        end = r.get("end", "")
        if end not in ENDS:
            return None if r.get("outcome") == "ok" and False else "mk [] [] ErrHeader [{| f_ts := 0; f_line := [] |}] true"
        evs = []
        for e in c["events"]:
            if "d" in e:
                evs.append("Data " + cbytes(b64d(e["d"])))
            elif e.get("eof"):
                evs.append("Eof")
            else:
                evs.append("Fail")
        obs = ["{| f_ts := %s; f_line := %s |}" % (cZ(x["ts"]), cbytes(b64d(x["line"]))) for x in (r.get("records") or [])]
        exp = ["{| f_ts := %s; f_line := %s |}" % (cZ(t), cbytes(b64d(m))) for t, m in c["exp"]]
        return "mk %s %s %s %s %s" % (clist(evs), clist(obs), ENDS[end], clist(exp), cbool(c["exp_clean"]))

    def model_exprs(self, term):
        return ["model (%s)" % term]

    def trivial(self, c, r):
        return c["nrec"] == 0 and c["fault"] == "none"

    def sample(self, c, r):
        return {"fault": c["fault"], "fragmentation": c["frag"], "records": c["nrec"], "read_events": len(c["events"]),
                "expected_records": len(c["exp"]), "expected_clean_end": c["exp_clean"],
                "observed_records": len(r.get("records") or []), "observed_end": r.get("end")}

    def distribution(self, cases, resps):
        d = {"fault": {}, "fragmentation": {}, "observed_end": {}, "records": {}}
        for c, r in zip(cases, resps):
            d["fault"][c["fault"]] = d["fault"].get(c["fault"], 0) + 1
            d["fragmentation"][c["frag"]] = d["fragmentation"].get(c["frag"], 0) + 1
            d["observed_end"][r.get("end", "?")] = d["observed_end"].get(r.get("end", "?"), 0) + 1
            d["records"][str(c["nrec"])] = d["records"].get(str(c["nrec"]), 0) + 1
        return d

    def shrink(self, c):
        evs = c["events"]
        # merge all data into one chunk (fragmentation is usually irrelevant)
        datas = [b64d(e["d"]) for e in evs if "d" in e]
        tail = [e for e in evs if "d" not in e]
        if len(datas) > 1:
            yield dict(c, events=[{"d": b64e(b"".join(datas))}] + tail)


PROP = P()
