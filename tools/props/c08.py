"""C08: log results are partitioned into ordered streams and honour the limit."""
from vlib import cbytes, b64e, cZ
import egen
from egen import EGen, B, oracles_coq, dedup, rand_caps, clist
from props.engcommon import EngProp
from props.c01 import themed_case


class P(EngProp):
    id = "C08"
    rule = ("a record set in time order (timestamps unique, a third of the cases with exact duplicate records: same timestamp, line and attributes; a fifth delivered out of time order, unlimited evaluations only) and a query whose stages add (json/logfmt/label_format), remove (drop/keep) or "
            "rewrite labels, incl. label values containing quote, backslash, comma, equals sign, newline and values that imitate the rendering of other labels, and values `| json` extracted from numbers / booleans next to the same text extracted from strings; evaluated with "
            "limits {-5, -1, 0, 1, 2, N-1, N, N+1, 100} on the real engine. Checked on the observed results: no two streams share a label set, every stream non-empty and sorted, "
            "labels sorted; the limit-L result is the first min(L,N) entries in time order of the unlimited one; non-positive limits return all; total entries = N; and each "
            "result equals the faithful model (which places every entry in the stream of exactly its labels).")
    assumptions = EngProp.assumptions + ["'first min(L,N) matching records in time order' is checked for storages that deliver in time order (what dockerlog does: C04); "
                                         "for an unordered storage the engine's cut follows delivery order (stated in theorem limit_prefix)"]

    def gen(self, rng, tier):
        n = {"quick": 160, "thorough": 1600, "search": 700}[tier]
        g = EGen(rng)
        cases = []
        for i in range(n):
            if i % 8 == 5:
                recs, orc, sel, pipe, theme = self.fewstreams_case(rng, g)
            elif i % 8 == 3:
                recs, orc, sel, pipe, theme = self.typed_case(rng, g)
            elif i % 4 == 0:
                recs, orc, sel, pipe, theme = self.quoting_case(rng, g)
            else:
                recs, orc, sel, pipe, theme = themed_case(rng, g, tier)
            # time order, unique timestamps
            for k, r in enumerate(recs):
                r["ts"] = 1000 + k * 3
            # exact duplicates (same timestamp, line, attributes): every matching record is an entry of its own
            if i % 3 == 1 and len(recs) >= 2:
                import copy
                for _ in range(rng.randint(1, 2)):
                    j = rng.randrange(1, len(recs))
                    recs[j] = copy.deepcopy(recs[j - 1])
                theme += "+dup"
            q = g.query_text(sel, pipe, "spaced")
            qc = g.query_coq(sel, pipe)
            N = len(recs)
            lims = [0, -1, 1, 2, rng.choice([-5, 100]), max(N - 1, 1), max(N, 1), N + 1]
            if (i % 5 == 2 or theme == "fewstreams") and N >= 3 and not any(s["k"] == "distinct" for s in pipe):
                # a storage that delivers out of time order (late records in the middle and at the end): every stream must still come
                # back sorted; "first L" is then a matter of delivery order, so only the unlimited evaluations are made
                for _ in range(rng.randint(1, 2)):
                    a, b = rng.sample(range(N), 2)
                    recs[a], recs[b] = recs[b], recs[a]
                lims = [0, -1, rng.choice([-5, 0])]
                theme += "+unordered"
            caps = rand_caps(rng)
            evals = [{"q": b64e(q), "qcoq": qc, "label": caps[0], "line": caps[1], "limit": L} for L in lims]
            rels = ["RelSpec 0"]
            for k, L in enumerate(lims):
                rels.append("RelPrefixOf %d 0 %s" % (k, cZ(L)))
            cases.append({"kind": theme, "recs": [g.rec_json(r) for r in recs], "oracle": orc, "evals": evals, "rels": rels,
                          "stages": [s["k"] for s in pipe], "note": "limits %r" % (lims,)})
        return cases

    def typed_case(self, rng, g):
        """labels extracted by `| json` from numbers and booleans next to the same text extracted from strings: a stream is identified by the
        label set as reported (names and value texts), not by how a value was typed when it was extracted"""
        n = rng.randint(3, 8)
        lines, jsonl = [], []
        for _ in range(n):
            pairs = [("id", rng.choice([("num", "1", "1"), "1", ("num", "2", "2"), "2"])), ("ok", rng.choice([True, "true", False, "false"]))]
            if rng.random() < 0.5:
                pairs.append(("ratio", rng.choice([("num", "0.5", "0.5"), "0.5"])))
            pairs = rng.sample(pairs, rng.randint(1, len(pairs)))
            jl = egen.JLine(rng, pairs)
            lines.append(jl.text); jsonl.append((B(jl.text), jl.coq))
        recs = g.records(lines, with_attrs=False)
        for r in recs:
            r["res"] = [("job", "x")]
        pipe = [g.st_json(), rng.choice([g.st_dropkeep("keep", ["id", "ok", "ratio"], []), g.st_dropkeep("drop", ["msg"], []), g.st_dropkeep("keep", ["id"], [])])]
        return recs, oracles_coq(jsonl=dedup(jsonl)), g.selector(extra=False), pipe, "typed"

    def fewstreams_case(self, rng, g):
        """one or two label sets over many records (the line label is dropped), so that streams hold several entries"""
        n = rng.randint(4, 9)
        recs = g.records([rng.choice(["l1", "l2", "l3", "l4"]) for _ in range(n)], with_attrs=False)
        for r in recs:
            r["res"] = [("job", "x")]
            r["attrs"] = [("src", rng.choice(["a", "a", "b"]))]
        pipe = [g.st_dropkeep("drop", ["msg"], [])]
        if rng.random() < 0.5:
            # a template rewriting a label that comes from the resource all these records share: every record starts from the resource's own value
            t = ("{{.job}}/app", clist(["TLabel %s" % cbytes(B("job")), "TText %s" % cbytes(B("/app"))]))
            pipe.append(g.st_label_format([], [("job", t[0], t[1])]))
        return recs, oracles_coq(), g.selector(extra=False), pipe, "fewstreams"

    def quoting_case(self, rng, g):
        """label values that are sensitive to how the grouping key is rendered"""
        tricky = ['x', 'y', 'x",b="y', 'x\\', '"', 'a,b', 'a=b', 'x"', 'new\nline', '\\"', 'x",b="y"', '', 'x\\",b=\\"y']
        n = rng.randint(2, 8)
        lines = [rng.choice(["l1", "l2", "l3"]) for _ in range(n)]
        recs = g.records(lines, with_attrs=False)
        for r in recs:
            r["res"] = [("job", "x")]
            ks = rng.choice([["a"], ["a", "b"], ["b"], ["a", "b", "c"]])
            r["attrs"] = [(k, rng.choice(tricky)) for k in ks]
        if rng.random() < 0.6 and n >= 2:
            # two label sets whose naive renderings coincide: {k1="v1",k2="v2"} and {k1="v1\",k2=\"v2"}
            k1, k2 = rng.choice([("a", "b"), ("b", "c"), ("a", "c")])
            v1, v2 = rng.choice(["x", "", "p q"]), rng.choice(["y", "", "1"])
            i, j = rng.sample(range(n), 2)
            recs[i]["attrs"] = [(k1, v1), (k2, v2)]
            # ... with the value written as the quoted rendering would show it, or as an unquoted rendering would
            recs[j]["attrs"] = [(k1, v1 + '",' + k2 + '="' + v2)] if rng.random() < 0.5 else [(k1, v1 + "," + k2 + "=" + v2)]
        pipe = [rng.choice([g.st_dropkeep("drop", ["msg"], []), g.st_dropkeep("keep", ["a", "b"], []), g.st_dropkeep("drop", ["msg", "job"], [])])]
        if rng.random() < 0.3:
            pipe.append(g.line_filter(words=["l1", "l2", "l"]))
        if rng.random() < 0.3:
            pipe.append(g.st_label_format([("z", "a")], []))
        return recs, oracles_coq(), g.selector(extra=False), g.disambiguate(pipe), "quoting"


PROP = P()
