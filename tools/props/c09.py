"""C09: range aggregations cover exactly their window at every step."""
from vlib import cbytes, b64e, cZ
import egen
import mgen
from mgen import MGen, S, grouping
from egen import oracles_coq
from props.metcommon import MetProp

T0 = 1_700_000_000 * S


def sel_all(g):
    return g.g.selector(extra=False)


class P(MetProp):
    id = "C09"
    rule = ("one range aggregation (all 13 supported functions; unwrap with and without bytes()/duration() conversion and post-filters; offset 0 or a multiple of the lattice; "
            "range smaller than, equal to and larger than the step) over 3-14 records whose timestamps lie on a half-second lattice incl. samples exactly on T-o-r and T-o "
            "and equal timestamps, 1-3 label sets. Per-second rates also over ranges that are not whole seconds (500ms, 750ms, 1.5s, 2.5s); evaluation parameters carry result limits 0/1/2/5 (which must not touch samples). Evaluated on the real engine as (1) a range query on a grid, (2) a second range query on a different grid (other start and "
            "step) sharing instants with the first, (3) instant queries at shared instants. Demanded on the observed results: every grid point equals the window reading "
            "range_spec_at (exactly the samples in [T-o-r, T-o], grouped by label set, aggregated in arrival order, stamped T; no point for an empty window), and the "
            "vectors at shared instants coincide across the three evaluations; everything must equal the faithful model.")

    def gen(self, rng, tier):
        n = {"quick": 170, "thorough": 2000, "search": 800}[tier]
        m = MGen(rng)
        return [self.one(rng, m, i) for i in range(n)]

    def one(self, rng, m, i):
        op = rng.choice(list(mgen.ROP) + ["quantile_over_time", "quantile_over_time", "first_over_time", "last_over_time"])
        rng_ns = rng.choice([1, 2, 2, 3, 5]) * S if rng.random() < 0.8 else rng.choice([S // 2, 3 * S // 2])
        off = rng.choice([0, 0, 0, S, 2 * S, S // 2])
        # steps whose ratio to the grid length is not exact in binary floating point (0.3/0.1, 3.3/1.1): the grid is integer arithmetic on nanoseconds
        step = rng.choice([S, S, 2 * S, 3 * S, 5 * S, S // 2, S // 10, 11 * S // 10, 3 * S // 10, 7 * S // 10])
        k = rng.randint(2, 6)
        overlap = rng.random() < 0.5
        longr = (not overlap) and rng.random() < 0.2
        if longr:
            # a range longer than the 30 s look-back of instant queries: the storage window must still cover the whole range
            rng_ns = rng.choice([40, 60, 45]) * S
            step = rng.choice([10, 20, 30]) * S
            k = rng.randint(1, 3)
            off = rng.choice([0, 0, 5 * S])
        if overlap:
            # long history of a sliding window: many steps, each sample seen by several consecutive windows
            step = rng.choice([S, S, S // 2])
            rng_ns = rng.choice([2, 3, 4]) * step
            k = rng.randint(4, 8)
        if op in ("rate", "bytes_rate") and not overlap and not longr and rng.random() < 0.6:
            rng_ns = rng.choice([S // 2, 3 * S // 2, 5 * S // 2, 750 * 10**6])      # per-second rates over a range that is not a whole number of seconds
        # one case in twelve sits next to the Unix epoch with a range reaching behind it: the first windows begin before 1970
        # (a window bound is an instant, not an unsigned count of nanoseconds)
        base = T0
        if rng.random() < 0.085 and not longr:
            base, off = 0, 0
            rng_ns = rng.choice([4, 5, 6]) * S
        start = base + rng.randrange(0, 4) * S
        end = start + k * step - rng.choice([0, 0, step // 2])
        grid1 = [start + j * step for j in range(k + 1) if start + j * step <= end]
        label_sets = rng.choice([[{"app": "a"}], [{"app": "a"}, {"app": "b"}], [{"app": "a", "lvl": "x"}, {"app": "a", "lvl": "y"}, {"app": "b", "lvl": "x"}]])
        # edge samples: exactly on the lower and upper edges of some windows
        edges = []
        for T in rng.sample(grid1, min(len(grid1), 2)):
            edges += [T - off - rng_ns, T - off]
            if rng.random() < 0.3:
                edges.append(T - off)          # equal timestamps
        unwrap = None
        param = None
        pipe = []
        values = None
        numeric = "n"
        if op in mgen.NEED_UNWRAP or (op == "rate" and rng.random() < 0.3):
            cv = rng.choice(["", "", "", "bytes", "duration"])
            if cv == "bytes":
                values, numeric = ["1KB", "5KB", "12", "1KiB", "zz"], "n"
            elif cv == "duration":
                values, numeric = ["1s", "250ms", "1m", "2s", "bogus"], "n"
            else:
                values = [1, 2, 3, 5, 8, 13, "0.5", "2.25", "zz"]
            fs = []
            if rng.random() < 0.25:
                fs = [self.eqm(rng, "app", "a", rng.choice(["=", "!="]))]
            unwrap = ("n", cv, fs)
        if op == "quantile_over_time":
            param = rng.choice([0.5, 0.0, 1.0, 0.9, 0.25, 0.99])
        g = None
        if op in mgen.GROUPABLE and rng.random() < 0.4:
            g = grouping(rng.choice([["app"], ["lvl"], [], ["app", "nosuch"]]), without=rng.random() < 0.4)
        lines = ("x",) if op not in ("bytes_over_time", "bytes_rate") else ("x", "xyz", "hello", "")
        if op in ("bytes_over_time", "bytes_rate", "count_over_time") and rng.random() < 0.25:
            lines = ("", "")          # blank lines only: samples of zero bytes are samples (bytes_over_time = 0, not absent)
        rec_t0 = max(0, start - off - rng_ns - S)
        edges = [t for t in edges if t >= 0]
        recs = m.records(rng.randint(8, 16) if (overlap or longr) else rng.randint(3, 12), rec_t0, (end - rec_t0) + 2 * S - off, label_sets, lines=lines, edge_ts=edges, numeric=numeric, values=values, tick=(5 * S if longr else S // 2))
        if len(lines) > 1 or rng.random() < 0.5:
            pipe = [m.g.st_dropkeep("drop", ["msg"], [])]
        sel = sel_all(m)
        e = m.mrange(op, sel, pipe, rng_ns, off, unwrap, param, g)
        q = m.text(e)
        # second grid sharing instants: start at grid1[j], step a multiple or divisor
        j = rng.randrange(len(grid1))
        step2 = rng.choice([step, 2 * step, step // 2 if step % S == 0 else step])
        start2 = grid1[j] - rng.choice([0, 1, 2]) * step2
        end2 = end + rng.choice([0, step2])
        grid2 = [start2 + t * step2 for t in range(0, 40) if start2 + t * step2 <= end2]
        shared = [T for T in grid1 if T in grid2]
        evals = [{"q": b64e(q), "qcoq": e["coq"], "start": start, "end": end, "step": step},
                 {"q": b64e(q), "qcoq": e["coq"], "start": start2, "end": end2, "step": step2}]
        # the result limit of the evaluation parameters applies to log queries only: a metric query reads every sample
        for ev in evals:
            ev["limit"] = rng.choice([0, 0, 1, 2, 5])
        rels = ["MRelRangeSpec 0", "MRelRangeSpec 1"]
        for T in shared:
            rels.append("MRelSameAt 0 1 %d" % (T // 10**6))
        for T in rng.sample(grid1, min(2, len(grid1))):
            evals.append({"q": b64e(q), "qcoq": e["coq"], "start": T, "end": T, "step": 0, "limit": rng.choice([0, 1, 3])})
            idx = len(evals) - 1
            rels += ["MRelRangeSpec %d" % idx, "MRelSameAt 0 %d %d" % (idx, T // 10**6)]
        return {"kind": op, "recs": [m.g.rec_json(r) for r in recs], "oracle": oracles_coq(), "evals": evals, "rels": rels, "ops": [op],
                "note": "range=%d offset=%d step=%d; grids share %d instants" % (rng_ns, off, step, len(shared))}

    @staticmethod
    def eqm(rng, l, v, op):
        return {"l": l, "op": op, "v": v, "k": "m", "pair": "(%s,%s)" % (cbytes(l.encode()), egen.sm_coq(op, v)), "sm": egen.sm_coq(op, v)}


PROP = P()
