"""C19: filters obey the algebra of sets -- metamorphic families of related queries evaluated on the real engine."""
from vlib import cbytes, b64e
import egen
from egen import EGen, B, oracles_coq, dedup, rand_caps, sm_coq
from props.engcommon import EngProp
from props.c01 import themed_case


def neg_label_filter(g, p):
    """negation of a single string-matcher label filter"""
    op = egen.NEG[p["op"]]
    rx = p.get("rx")
    return {"k": "filter", "p": {"k": "m", "l": p["l"], "op": op, "v": p["v"]},
            "coq": "ELabelFilter (EPMatch %s %s)" % (cbytes(B(p["l"])), sm_coq(op, p["v"], rx))}


class P(EngProp):
    id = "C19"
    rule = ("metamorphic families: a record set (unique timestamps; arbitrary bytes in lines and label values in one theme) and a base query q (selector + 0-3 stage prefix "
            "incl. parsers and, in the distinct themes, the stateful distinct stage), with filters f, g drawn from line filters (|= != |~ !~, ip()), string label matchers (= != =~ !~) and pure and/or predicates a, b. Evaluated on the "
            "real engine: q, q|f, q|not f, q|f|g, q|g|f, q|f|f, q|a, q|b, q|a and b, q|a or b, q|=\"\"; the observed results must satisfy: sub-multiset, disjoint partition, "
            "commutation, idempotence, intersection, union, identity -- and each must equal the model. Non-trivial = at least 2 records.")

    def gen(self, rng, tier):
        n = {"quick": 150, "thorough": 1500, "search": 700}[tier]
        g = EGen(rng)
        cases = []
        while len(cases) < n:
            recs, orc, sel, pipe, theme = themed_case(rng, g, tier)
            if len(cases) % 6 == 5:
                # one family in six over a base query that rewrites the line (unpack, line_format, decolorize): filters after it see the new line
                want = ("unpack",) if rng.random() < 0.5 else ("unpack", "rewrite", "decolor")
                for _ in range(120):
                    if theme in want:
                        break
                    recs, orc, sel, pipe, theme = themed_case(rng, g, tier)
            if any(s["k"] == "distinct" for s in pipe) and rng.random() < 0.3:
                pipe = [s for s in pipe if s["k"] != "distinct"]
            pipe = pipe[:3]
            if not any(s["k"] == "distinct" for s in pipe) and rng.random() < 0.15:
                dl = rng.choice(["app", "level", "host"])
                for r in recs:          # few distinct values, so that records do share them
                    if rng.random() < 0.9:
                        r["attrs"] = [(k, v) for k, v in r["attrs"] if k != dl] + [(dl, rng.choice(["u", "v"]))]
                pipe = [s for s in pipe[:2] if s["k"] not in ("drop", "keep")] + [g.st_distinct([dl] + rng.sample(["n", "nosuch"], rng.randint(0, 1)))]
            if pipe and pipe[-1]["k"] == "distinct":
                # q may end in the stateful distinct stage: the filters of the family come AFTER it (an always-true label filter in between keeps
                # `distinct a != "x"` from reading as something else)
                pipe = pipe + [{"k": "filter", "p": {"k": "m", "l": "nosuch", "op": "=", "v": ""}, "coq": "ELabelFilter (EPMatch %s %s)" % (cbytes(B("nosuch")), sm_coq("=", ""))}]
            # unique timestamps (relations are on (timestamp, line) multisets)
            for i, r in enumerate(recs):
                r["ts"] = recs[0]["ts"] + i * 7 if i else r["ts"]
            labels = egen.QLABELS + ["level", "msg", "nosuch"]
            words = egen.WORDS
            if theme == "unpack":
                words = ["error", "info", "GET", "_entry", "app", "web", "inner", "{", "timeout", "p1", "level", '"']      # text of the packed line that is not in the entry
            # IPv6 addresses in lines and IPv6 patterns: outside the modelled fragment, the relations are demanded on the observed results
            v6 = theme in ("ip", "plain") and rng.random() < 0.5
            if v6:
                for r in recs:
                    if rng.random() < 0.6:
                        r["line"] = B(rng.choice(["conn %s ok", "%s", "from [%s]:443 refused", "x %s y 10.0.0.1"]) % rng.choice(egen.ADDRS6))
                theme += "+v6"

            def a_filter():
                k = rng.randrange(5)
                if k <= 2:
                    return g.line_filter(words=words)
                if k == 3 and theme in ("ip", "plain", "attrs"):
                    return g.ip_line_filter(v6=0.4 if v6 else 0.0)
                m = g.matcher(labels, for_stage=True)
                rx = None
                return {"k": "filter", "p": {"k": "m", "l": m["l"], "op": m["op"], "v": m["v"]}, "coq": "ELabelFilter (EPMatch %s %s)" % (cbytes(B(m["l"])), m["sm"]),
                        "m": m}

            def negate(s):
                if s["k"] == "line":
                    return g.negate_line(s)
                m = s["m"]
                nm = dict(m)
                op = egen.NEG[m["op"]]
                sm = m["sm"].replace("(sm %s " % egen.OPNAME[m["op"]], "(sm %s " % egen.OPNAME[op], 1)
                return {"k": "filter", "p": {"k": "m", "l": m["l"], "op": op, "v": m["v"]}, "coq": "ELabelFilter (EPMatch %s %s)" % (cbytes(B(m["l"])), sm)}

            f, gg = (g.ip_line_filter(v6=0.7) if v6 else a_filter()), a_filter()
            if not v6 and rng.random() < 0.15:
                f = g.ip_line_filter()
            if f.get("ip") and not v6 and rng.random() < 0.7:
                # the plain filter with the SAME operator and the SAME text as the ip() filter is another filter: neither makes the other redundant
                gg = g.line_filter(op=f["op"], needle=f["v"])
                for r in recs[:3]:
                    r["line"] = B(rng.choice(["peer %s0 connected", "%s.5 is no address", "x%sx", "%s"]) % f["v"].split("/")[0].split("-")[0])
            nf = negate(f)
            pa = g.pred(labels, depth=1, pure=True)
            pb = g.pred(labels, depth=1, pure=True)
            wrap = lambda p: {"k": "par", "a": p, "coq": p["coq"], "pure": True} if p["k"] == "bin" else p
            pand = {"k": "bin", "op": "and", "a": wrap(pa), "b": wrap(pb), "coq": "EPAnd (%s) (%s)" % (pa["coq"], pb["coq"])}
            por = {"k": "bin", "op": "or", "a": wrap(pa), "b": wrap(pb), "coq": "EPOr (%s) (%s)" % (pa["coq"], pb["coq"])}
            lf = lambda p: {"k": "filter", "p": p, "coq": "ELabelFilter (%s)" % p["coq"]}
            empty = {"k": "line", "op": "=", "v": "", "coq": "ELine %s" % sm_coq("=", "")}
            fam = [pipe, pipe + [f], pipe + [nf], pipe + [f, gg], pipe + [gg, f], pipe + [f, f],
                   pipe + [lf(pa)], pipe + [lf(pb)], pipe + [lf(pand)], pipe + [lf(por)], pipe + [empty]]
            caps = rand_caps(rng) if rng.random() < 0.5 else ([], [])
            if theme in ("unpack", "rewrite", "decolor") and rng.random() < 0.7:
                caps = egen.CAPSETS[3]        # a storage that evaluates every line filter it is offered: none may be offered past a stage that rewrites the line
            evals = []
            for pp in fam:
                pp = g.disambiguate(pp) if False else pp
                evals.append({"q": b64e(g.query_text(sel, pp, "spaced")), "qcoq": g.query_coq(sel, pp), "label": caps[0], "line": caps[1], "limit": 0})
            # text ambiguity: a negated line filter right after a stage ending in a bare label (drop a != "x"): skip such families
            bad = False
            for pp in fam:
                for x, y in zip(pp, pp[1:]):
                    if y["k"] == "line" and y["op"] in ("!=", "!~") and x["k"] in ("drop", "keep", "distinct", "json", "logfmt"):
                        bad = True
            if bad:
                continue
            rels = ["RelSub 1 0", "RelSub 2 0", "RelPartition 1 2 0", "RelEqual 3 4", "RelEqual 5 1", "RelSub 3 1",
                    "RelInter 6 7 8", "RelUnion 6 7 9", "RelSub 8 0", "RelSub 9 0", "RelEqual 10 0"]
            cases.append({"kind": theme, "recs": [g.rec_json(r) for r in recs], "oracle": orc, "evals": evals, "rels": rels,
                          "stages": [s["k"] for s in pipe] + ["f:" + f["k"], "g:" + gg["k"]], "note": "family q, q|f, q|!f, q|f|g, q|g|f, q|f|f, q|a, q|b, q|a and b, q|a or b, q|=\"\""})
        return cases


PROP = P()
