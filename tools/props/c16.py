"""C16: parseTimeRange / parseStep through the package-main hook."""
from vlib import cbytes, cZ, copt, cpair, b64e, b64d
from props.c03 import fmt_ts

Y2001 = 978307200
Y2200 = 7258118400
SEC = 10**9
UNITS = [("ms", 10**6), ("s", SEC), ("m", 60 * SEC), ("h", 3600 * SEC), ("d", 86400 * SEC), ("w", 7 * 86400 * SEC), ("y", 365 * 86400 * SEC)]
BAD_TS = ["garbage", "12:30", "2024-13-01T00:00:00Z", "2024-01-01", "1700000000s", "17e8x", "--5", "1.2.3", "0x", " 1700000000", "1700000000 ",
          "99999999999999999999", "2024-01-01T00:00:00", "١٢٣", "+", ".", "1700000000.5.1"]
BAD_DUR = ["", "h", "5", "5x", "1h30", "1m1h", "1s1s", "-5m", "1.5h", "5 m", "1H", "ms", "1d1d", "99999999999999999999h", "300y", "1h 30m"]
BAD_STEP = ["", "abc", "5x", "1h30", "1m1h", "-", "1s1s", "--5", "1.2.3", "5 s", "0", "0s", "0m", "-5", "-0.5", "0.0", "NaN", "nan", "Inf", "inf", "-Inf",
            "+Inf", "Infinity", "0ms", "-1s", "0.0000000001"]


def spell(rng, ns, kind=None):
    """a spelling of the instant ns (which must be compatible with the kind) and the kind used"""
    kinds = ["nanos", "rfc"]
    if ns % SEC == 0:
        kinds.append("secs")
    if ns % 10**6 == 0:
        kinds.append("frac")
    kind = kind or rng.choice(kinds)
    if kind == "secs":
        return str(ns // SEC), kind
    if kind == "nanos":
        return str(ns), kind
    if kind == "frac":
        s, ms = divmod(ns // 10**6, 1000)
        txt = "%d.%03d" % (s, ms)
        if rng.random() < 0.3:
            txt = txt.rstrip("0")
            if txt.endswith("."):
                txt += "0"
        return txt, kind
    return fmt_ts(ns, rng if rng.random() < 0.3 else None).decode(), "rfc"


def gen_instant(rng):
    s = rng.choice([Y2001, Y2200 - 1, 10**9 - 1, 10**9, 2**31 - 1, 2**31, 2**32, 4322957889, rng.randrange(Y2001, Y2200), rng.randrange(Y2001, Y2200),
                    rng.randrange(1_600_000_000, 1_800_000_000)])
    k = rng.random()
    if k < 0.3:
        return s * SEC
    if k < 0.7:
        return s * SEC + rng.choice([1, 2, 4, 500, 999, 29, 57, rng.randrange(1000)]) * 10**6
    return s * SEC + rng.randrange(SEC)


def gen_instant_past(rng):
    s = rng.choice([Y2001, 10**9 - 1, 10**9, 1709600007, rng.randrange(Y2001, 1_750_000_000), rng.randrange(1_600_000_000, 1_750_000_000)])
    k = rng.random()
    if k < 0.4:
        return s * SEC
    if k < 0.7:
        return s * SEC + rng.choice([1, 2, 4, 500, 999, 29, 57, rng.randrange(1000)]) * 10**6
    return s * SEC + rng.randrange(SEC)


def gen_duration(rng):
    parts, total = [], 0
    for name, mult in reversed(UNITS):
        if rng.random() < 0.3:
            v = rng.choice([0, 1, 2, 5, 30, 59, 90, 250, 1000]) if name != "y" else rng.choice([0, 1, 2])
            parts.append("%d%s" % (v, name))
            total += v * mult
    if not parts:
        return "0", 0
    return "".join(parts), total


class P:
    id = "C16"
    driver = "C16"
    binary = "dl"
    shard = 60
    rule = ("timerange cases: now in 2001-2200; every present/absent combination of --start/--end/--since; instants across 2001-2200 (incl. 10^9, 2^31, 2^32 second "
            "boundaries, millisecond and nanosecond fractions) written as unix seconds, unix nanoseconds, fractional seconds (ms precision) and RFC3339 (UTC and numeric "
            "offsets); Prometheus durations over all units; malformed timestamps and durations. step cases: absent step over ranges from negative to 10 years incl. values "
            "one nanosecond around multiples of 250s; explicit steps as plain seconds (integers, fractions), Prometheus durations, zero/negative/NaN/Inf and malformed "
            "spellings. The expected value is computed by the generator from the property text (defaults, same-instant, floor((end-start)/250s), positivity), independently of the "
            "model. cmd cases (one in ten): the real `query` command is run with --start / --end / --since / --step against a one-container daemon that records what it is "
            "asked for; the resolved range must reach the daemon unchanged (whole seconds: start rounded down, end rounded up), bracketed by the clock readings before and after the run when "
            "it depends on now, and a malformed flag must fail the command. Non-trivial = at least one flag present; distinct = distinct request.")
    trusted = ["strconv.ParseFloat: executable fragment = [sign]digits[.digits] with at most 15 significant digits (exact Clinger path), inf/nan; other spellings are counted as "
               "outside_model_fragment and only checked against the generator's expectation", "time.Parse(RFC3339Nano) oracle instance Base/TimeFmt.v",
               "model.ParseDuration transliterated from prometheus/common v0.55.0"]
    assumptions = ["amd64 float-to-int64 conversion (truncation; indefinite value for NaN/out of range)"]
    env = {"TZ": "UTC"}

    def gen(self, rng, tier):
        n = {"quick": 900, "thorough": 6000, "search": 4000}[tier]
        cases = []
        for i in range(n):
            if i % 10 == 9:
                cases.append(self.gen_cmd(rng))
            elif i % 2 == 0:
                cases.append(self.gen_range(rng))
            else:
                cases.append(self.gen_step(rng))
        return cases

    def gen_cmd(self, rng):
        """the whole `query` command: flags -> parseTimeRange -> parseStep -> engine -> the window each container is asked for"""
        c = {"kind": "cmd", "start": None, "end": None, "since": None, "step": None, "expect": None}
        bad = False
        k = rng.random()
        start = end = None
        if k < 0.75:
            # explicit start and end in the past (nothing depends on the clock): the daemon is asked for exactly floor(start) .. ceil(end)
            start = gen_instant_past(rng)
            end = start + rng.choice([0, 1, 7, 499, 500, 3600, 3607, 86400 + 13, rng.randrange(1, 10**6)]) * SEC + rng.choice([0, 0, 1, 500 * 10**6, 999999999])
            c["start"], _ = spell(rng, start)
            c["end"], _ = spell(rng, end)
            if rng.random() < 0.3:
                c["since"] = rng.choice(["1h", "5m", "30s", "2d"] + BAD_DUR[:4])
                bad = bad or c["since"] in BAD_DUR
        elif k < 0.9:
            # end explicit and in the past, start = end - since
            end = gen_instant_past(rng)
            c["end"], _ = spell(rng, end)
            since = 6 * 3600 * SEC
            if rng.random() < 0.7:
                c["since"], since = gen_duration(rng)
            start = end - since
        # else: no range flag at all (now - 6h .. now): bracketed by the clock readings
        j = rng.random()
        if j < 0.25:
            v = rng.choice([1, 2, 7, 14, 60, 250, 3600])
            c["step"] = str(v)
        elif j < 0.35:
            c["step"], total = gen_duration(rng)
            bad = bad or total <= 0
        elif j < 0.42:
            c["step"] = rng.choice(BAD_STEP)
            bad = True
        if rng.random() < 0.1:
            # a flag given with an EMPTY value is a malformed duration, not an absent flag
            c[rng.choice(["step", "since"])] = ""
            bad = True
        if bad:
            c["expect"] = "reject"
        elif start is not None:
            c["expect"] = [start // SEC, -(-end // SEC)]          # whole seconds: the start rounded down, the end rounded up (D35)
        return c

    def gen_range(self, rng):
        now = gen_instant(rng)
        c = {"kind": "range", "now": now, "start": None, "end": None, "since": None, "expect": None}
        since = 6 * 3600 * SEC
        bad = False
        if rng.random() < 0.5:
            if rng.random() < 0.12:
                c["since"] = rng.choice(BAD_DUR)
                bad = True
            else:
                c["since"], since = gen_duration(rng)
        end = now
        if rng.random() < 0.6:
            if rng.random() < 0.1:
                c["end"] = rng.choice(BAD_TS)
                bad = True
            else:
                end = gen_instant(rng) if rng.random() < 0.7 else now + rng.choice([-1, 1, SEC, -SEC, 3600 * SEC])
                if rng.random() < 0.2:
                    end = (end // 10**6) * 10**6
                c["end"], _ = spell(rng, end)
        start = min(end, now) - since
        if rng.random() < 0.6:
            if rng.random() < 0.1:
                c["start"] = rng.choice(BAD_TS)
                bad = True
            else:
                start = gen_instant(rng)
                if rng.random() < 0.2:
                    start = (start // 10**6) * 10**6
                c["start"], _ = spell(rng, start)
        c["expect"] = "reject" if bad else [start, end]
        return c

    def gen_step(self, rng):
        c = {"kind": "step", "step": None, "start_ns": 0, "end_ns": 0, "expect": None}
        k = rng.random()
        if k < 0.35:
            start = gen_instant(rng)
            rngs = rng.choice([0, 1, 249, 250, 251, 499, 500, 3600, 6 * 3600, 86400, 250 * 100000, 250 * 33555, 10 * 365 * 86400, rng.randrange(10**7), rng.randrange(10**5)])
            d = rngs * SEC + rng.choice([0, 0, 0, -1, 1, 500 * 10**6, -400 * 10**6, rng.randrange(SEC)])
            if rng.random() < 0.1:
                d = -d
            c["start_ns"], c["end_ns"] = start, start + d
            c["expect"] = max(1, d // (250 * SEC)) * SEC
        elif k < 0.55:
            v = rng.choice([1, 2, 5, 15, 60, 250, 3600, 86400, rng.randrange(1, 10**6)])
            c["step"] = str(v)
            c["expect"] = v * SEC
        elif k < 0.7:
            ms = rng.choice([1, 5, 500, 1500, 250, 100, 2750, rng.randrange(1, 10**5)])
            c["step"] = ("%d.%03d" % (ms // 1000, ms % 1000)).rstrip("0") if ms % 1000 else "%d.0" % (ms // 1000)
            c["expect"] = None if ms % 1000 else (ms // 1000) * SEC   # fractional values: float rounding decides the last ns; correspondence only
        elif k < 0.85:
            txt, total = gen_duration(rng)
            c["step"] = txt
            c["expect"] = total if total > 0 else "reject"
        else:
            c["step"] = rng.choice(BAD_STEP)
            c["expect"] = "reject"
        return c

    def request(self, c):
        e = lambda v: None if v is None else b64e(v)
        if c["kind"] == "cmd":
            args = []
            for k in ("start", "end", "since", "step"):
                if c[k] is not None:
                    args.append(b64e("--%s=%s" % (k, c[k])))
            return {"cmd": "querycmd", "args": args + [b64e("{}")]}
        if c["kind"] == "range":
            return {"cmd": "timerange", "now": c["now"], "start": e(c["start"]), "end": e(c["end"]), "since": e(c["since"])}
        return {"cmd": "step", "step": e(c["step"]), "start_ns": c["start_ns"], "end_ns": c["end_ns"]}

    def to_coq(self, c, r):
        ob = lambda v: copt(None if v is None else cbytes(v))
        ok = r.get("outcome") == "ok"
        if c["kind"] == "range":
            obs = "None"
            if ok:
                obs = "(Some %s)" % cpair(cZ(r["start"]["s"] * SEC + r["start"]["ns"]), cZ(r["end"]["s"] * SEC + r["end"]["ns"]))
            ex = c["expect"]
            exs = "ENone" if ex is None else "EReject" if ex == "reject" else "(EVal %s)" % cpair(cZ(ex[0]), cZ(ex[1]))
            return "CRange %s %s %s %s %s %s" % (cZ(c["now"]), ob(c["start"]), ob(c["end"]), ob(c["since"]), obs, exs)
        if c["kind"] == "cmd":
            asked = r.get("asked") or []
            obs = "None"
            if ok:
                if len(asked) != 1:
                    raise ValueError("the command succeeded but asked %d containers for their log" % len(asked))
                obs = "(Some %s)" % cpair(cZ(int(asked[0][0])), cZ(int(asked[0][1])))
            ex = c["expect"]
            exs = "ENone" if ex is None else "EReject" if ex == "reject" else "(EVal %s)" % cpair(cZ(ex[0]), cZ(ex[1]))
            return "CCmd %s %s %s %s %s %s %s %s" % (cZ(r["now_lo"]), cZ(r["now_hi"]), ob(c["start"]), ob(c["end"]), ob(c["since"]), ob(c["step"]), obs, exs)
        obs = "(Some %s)" % cZ(r["step"]) if ok else "None"
        ex = c["expect"]
        exs = "ENone" if ex is None else "EReject" if ex == "reject" else "(EVal %s)" % cZ(ex)
        return "CStep %s %s %s %s %s" % (ob(c["step"]), cZ(c["start_ns"]), cZ(c["end_ns"]), obs, exs)

    def model_exprs(self, term):
        return ["match (%s) with CRange now sp ep sn _ _ => inl (parse_time_range TimeFmt.parse_ts now sp ep sn) | CStep p s e _ _ => inr (parse_step p s e) "
                "| CCmd lo hi sp ep sn stp _ _ => inl (parse_time_range TimeFmt.parse_ts lo sp ep sn) end" % term]

    def trivial(self, c, r):
        if c["kind"] == "range":
            return c["start"] is None and c["end"] is None and c["since"] is None
        return False

    def sample(self, c, r):
        d = {k: v for k, v in c.items()}
        d["observed"] = {k: v for k, v in r.items() if k not in ("id", "stack")}
        return d

    def distribution(self, cases, resps):
        d = {"range": 0, "step": 0, "cmd": 0, "expect_reject": 0, "expect_value": 0, "no_expectation": 0, "observed_error": 0, "flag_subsets": {}}
        for c, r in zip(cases, resps):
            d[c["kind"]] += 1
            ex = c["expect"]
            d["expect_reject" if ex == "reject" else "no_expectation" if ex is None else "expect_value"] += 1
            d["observed_error"] += r.get("outcome") == "error"
            if c["kind"] == "range":
                key = "".join(x if c[k] is not None else "-" for x, k in (("S", "start"), ("E", "end"), ("s", "since")))
                d["flag_subsets"][key] = d["flag_subsets"].get(key, 0) + 1
        return d


PROP = P()
