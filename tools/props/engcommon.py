"""Shared plumbing of the checks that run log queries through Engine.Eval over the mock storage
(C01, C06, C07, C08, C19): case format, harness request, Coq term, evidence helpers.

case = {"kind": str, "recs": [record], "oracle": coq, "evals": [{"q": b64 text, "qcoq": coq, "label": [..], "line": [..], "limit": n}],
        "rels": [coq relation terms], "note": str}
record = {"ts": int, "line": b64, "attrs": [[b64,b64]], "res": [[b64,b64]]}
"""
from vlib import cbytes, clist, cZ, copt, b64e, b64d


def rec_coq(r):
    kv = lambda l: clist("(%s,%s)" % (cbytes(b64d(k)), cbytes(b64d(v))) for k, v in l)
    return "rcd %s %s %s %s" % (cZ(r["ts"]), cbytes(b64d(r["line"])), kv(r["attrs"]), kv(r["res"]))


def streams_coq(run):
    if "streams" not in run and run.get("type") != "streams":
        return None
    out = []
    for s in run.get("streams") or []:
        labels = clist("(%s,%s)" % (cbytes(b64d(k)), cbytes(b64d(v))) for k, v in s["labels"])
        vals = clist("(%s,%s)" % (cZ(int(t)), cbytes(b64d(v))) for t, v in (s["values"] or []))
        out.append("(%s,%s)" % (labels, vals))
    return clist(out)


class EngProp:
    driver = "Eng"
    shard = 12
    chunk = 10
    trusted = ["mock storage in the harness (honours start/end and the offloaded matchers/filters exactly, under the engine's own label view)",
               "library oracles: regexp on the ASCII fragment of Base/Regex.v; jx / go-logfmt / FindStringSubmatch / ANSI stripping results supplied per line by the generator "
               "(ground truth known by construction); strconv.ParseFloat on the <=15-digit decimal fragment; time.ParseDuration, humanize.ParseBytes, netip transliterated in Base/Units.v",
               "__error_details__ texts are masked on both sides"]
    assumptions = ["records are delivered by the storage in the order given (the Docker storage delivers in time order, C04)"]

    def request(self, c):
        tss = [r["ts"] for r in c["recs"]] or [0]
        start, end = min(tss) - 5, max(tss) + 5
        return {"cmd": "evalmulti", "records": c["recs"],
                "evals": [{"query": e["q"], "label": e["label"], "line": e["line"], "limit": e["limit"], "start": start, "end": end, "step": 0} for e in c["evals"]]}

    def to_coq(self, c, r):
        runs = r.get("runs")
        if runs is None or len(runs) != len(c["evals"]):
            return None
        evs = []
        for e, run in zip(c["evals"], runs):
            if "panic" in run:
                return "mk %s [] [mkev {| q_sel := []; q_pipe := [] |} [] [] 0 None] [RelCount 0%%nat 12345]" % c["oracle"]   # forces ok=false
            evs.append("mkev (%s) %s %s %s %s" % (e["qcoq"], clist(str(x) for x in e["label"]), clist(str(x) for x in e["line"]), cZ(e["limit"]), copt(streams_coq(run))))
        return "mk (%s) %s %s %s" % (c["oracle"], clist(rec_coq(x) for x in c["recs"]), clist(evs), clist(c["rels"]))

    def model_exprs(self, term):
        return ["let c := (%s) in map (fun e => option_map canon_model (model_eval c e)) (evals c)" % term,
                "let c := (%s) in map (fun e => option_map canon_obs (ev_obs e)) (evals c)" % term,
                "let c := (%s) in map (rel_ok c) (rels c)" % term]

    def trivial(self, c, r):
        return len(c["recs"]) < 2

    def sample(self, c, r):
        runs = r.get("runs") or []
        return {"kind": c["kind"], "queries": [b64d(e["q"]).decode("utf-8", "replace") for e in c["evals"]][:6],
                "records": len(c["recs"]), "relations": c["rels"][:4],
                "observed_entries": [sum(len(s["values"] or []) for s in (run.get("streams") or [])) if "error" not in run else "error: " + run["error"][:80] for run in runs][:6]}

    def describe(self, c, r):
        return {"note": c.get("note", ""), "queries": [b64d(e["q"]).decode("utf-8", "replace") for e in c["evals"]],
                "caps": ["label=%s line=%s limit=%s" % (e["label"], e["line"], e["limit"]) for e in c["evals"]],
                "lines": [b64d(x["line"]).decode("utf-8", "replace") for x in c["recs"]]}

    def distribution(self, cases, resps):
        d = {"kind": {}, "records_total": 0, "evaluations_total": 0, "errors": 0, "entries_returned": 0, "stage_kinds": {}}
        for c, r in zip(cases, resps):
            d["kind"][c["kind"]] = d["kind"].get(c["kind"], 0) + 1
            d["records_total"] += len(c["recs"])
            d["evaluations_total"] += len(c["evals"])
            for k in c.get("stages", []):
                d["stage_kinds"][k] = d["stage_kinds"].get(k, 0) + 1
            for run in r.get("runs") or []:
                if "error" in run:
                    d["errors"] += 1
                d["entries_returned"] += sum(len(s["values"] or []) for s in (run.get("streams") or []))
        return d

    def shrink(self, c):
        # drop one record at a time (relations that name a timestamp of a dropped record are dropped with it)
        n = len(c["recs"])
        for i in range(n):
            ts = c["recs"][i]["ts"]
            rels = [x for x in c["rels"] if (" %d " % ts) not in (x + " ") and ("(%d)" % ts) not in x]
            if any(x.startswith(("RelCount", "RelLinesKept")) for x in c["rels"]):
                continue
            yield dict(c, recs=c["recs"][:i] + c["recs"][i + 1:], rels=rels)
