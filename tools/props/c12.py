"""C12: binary operations combine matching series pointwise."""
from vlib import cbytes, b64e, cZ
import egen
import mgen
from mgen import MGen, S, grouping, BOP, cfloat
from egen import oracles_coq, B
from props.metcommon import MetProp
from props.c09 import T0

ARITH = ["+", "-", "*", "/", "%", "^"]
CMP = ["==", "!=", ">", ">=", "<", "<="]
SETOPS = ["and", "or", "unless"]


class P(MetProp):
    id = "C12"
    rule = ("two vectors l = sum by (L1) (count_over_time({side=\"l\"}..)) and r = sum by (L2) (count_over_time({side=\"r\"}..)) over records whose label sets overlap, are disjoint "
            "or empty on either side and change from step to step; all 12 arithmetic/comparison operators (with and without `bool`) and and/or/unless between them; vector-scalar "
            "with the scalar on either side, scalars {0, 2, 0.5, 3, -2, -0.5} and vector(x) against scalars with inexact reciprocals {10, 3, 7, 0.1, -10, 0.3, 0.001}; vector(c) against aggregations with empty and non-empty label sets (incl. `... or vector(0)`); offset "
            "operands; a parenthesised operation as the right operand of an operator of the same precedence class (x - (y + z), x / (y * z), x unless (y unless z)); instant and multi-step range evaluation. Demanded on the OBSERVED results at every step: the result is the operator applied pointwise to the observed operand "
            "vectors, one series per label set present on both sides (left labels), x/0 and x%0 NaN, comparison 1 exactly where it holds; and/or/unless are intersection / union "
            "(left wins) / difference by label set; everything equals the faithful model.")

    def gen(self, rng, tier):
        n = {"quick": 170, "thorough": 1800, "search": 700}[tier]
        m = MGen(rng)
        return [self.one(rng, m, i) for i in range(n)]

    def one(self, rng, m, i):
        ls = []
        dense = rng.random() < 0.6
        for side in ("l", "r"):
            k = rng.randint(2, 4) if dense else rng.randint(0, 3)
            for app in rng.sample(["a", "b", "c", "d"], k):
                # several records per series so that values differ between series and between the two sides
                ls += [{"side": side, "app": app}] * (rng.randint(1, 4) if dense else 1)
        if not ls:
            ls = [{"side": "l", "app": "a"}]
        rng_ns = rng.choice([S // 2, S, 2 * S])
        step = S
        k = rng.randint(1, 4)
        start, end = T0, T0 + k * S
        recs = m.records(rng.randint(10, 22) if dense else rng.randint(4, 14), start - rng_ns - S, (end - start) + rng_ns + S, ls, lines=("x",), numeric=None)
        drop = [m.g.st_dropkeep("drop", ["msg"], [])]

        def side(sd, by, off=0):
            sel = [{"l": "side", "op": "=", "v": sd, "coq": "em %s %s" % (cbytes(b"side"), egen.sm_coq("=", sd))}]
            return m.mvec("sum", m.mrange("count_over_time", sel, drop, rng_ns, off), None, grouping(by))
        evals, rels = [], []
        instant = rng.random() < 0.3

        def add(e):
            q = m.text(e)
            if instant:
                evals.append({"q": b64e(q), "qcoq": e["coq"], "start": end, "end": end, "step": 0})
            else:
                evals.append({"q": b64e(q), "qcoq": e["coq"], "start": start, "end": end, "step": step})
            return len(evals) - 1
        kind = rng.choice(["vv", "vv", "vv", "lit", "lit", "lit", "litbool", "set", "set", "set", "vector", "vector", "vlit", "vlit", "nested", "nested", "litchain"])
        by = rng.choice([["app"], ["app"], [], ["nosuch"]]) if not dense else ["app"]
        if kind == "vector" and rng.random() < 0.6:
            # an aggregation whose series has no labels - by (), by (a label no record has) - against vector(c), which has none either: they match
            by = rng.choice([[], ["nosuch"], ["nosuch", "nosuch2"]])
        L = side("l", by, rng.choice([0, 0, 0, S]))
        R = side("r", by if rng.random() < 0.8 else ["app"])
        il, ir = add(L), add(R)
        if kind == "litchain":
            # a comparison with a scalar over a vector-scalar arithmetic operation: (x * 3) > 5, 5 < (x - 1): the comparison applies to the result
            aop = rng.choice(["*", "+", "-", "/"])
            c1 = rng.choice([2, 3, 0.5, 4])
            cop = rng.choice(CMP)
            c2 = rng.choice([1, 2, 3, 5, 6])
            X = L if rng.random() < 0.6 else m.mvector(rng.choice([2, 3, 6, 10]))
            ix = add(X)
            leftlit1 = rng.random() < 0.3
            inner = m.mbin(aop, m.mlit(c1), X) if leftlit1 else m.mbin(aop, X, m.mlit(c1))
            ii = add(inner)
            rb = rng.random() < 0.4
            leftlit2 = rng.random() < 0.4
            e = m.mbin(cop, m.mlit(c2), inner, rb) if leftlit2 else m.mbin(cop, inner, m.mlit(c2), rb)
            rels.append("MRelLit %d %d %s false %s %s" % (ix, ii, BOP[aop], cfloat(c1), "true" if leftlit1 else "false"))
            rels.append("MRelLit %d %d %s %s %s %s" % (ii, add(e), BOP[cop], "true" if rb else "false", cfloat(c2), "true" if leftlit2 else "false"))
        elif kind == "nested":
            # a parenthesised operation as the RIGHT operand of an operator of the same precedence class: x - (y + z), x / (y * z),
            # x % (y % z), x > (y > z), x unless (y unless z): the parentheses decide, at evaluation too
            op1, op2 = rng.choice([("-", "+"), ("-", "-"), ("/", "*"), ("/", "/"), ("%", "%"), ("*", "/"), (">", ">"), ("==", "!="), ("unless", "unless"), ("and", "unless"), ("-", "*"), ("^", "^"),
                                   # a NaN operand (x / 0, x % 0) under every comparison: all false except != (IEEE 754)
                                   ("<", "/0"), ("<=", "/0"), (">", "%0"), (">=", "/0"), ("==", "%0"), ("!=", "/0")])
            # (round 11) a set operation that returns one operand unchanged (its other side is empty) under one more operation, and a comparison
            # with a scalar over a vector-scalar arithmetic operation
            extra = rng.random() < 0.3
            if extra:
                op1, op2 = rng.choice([("+", "or"), ("*", "unless"), ("-", "or"), ("+", "unless")])
            nan = op2 in ("/0", "%0")
            Y = side("r", ["app"]) if rng.random() < 0.5 else m.mvector(rng.choice([2, 3, 5]))
            Z = m.mvector(rng.choice([2, 3, 7])) if Y["k"] != "vector" or rng.random() < 0.5 else side("l", ["app"], 0)
            if nan:
                op2, Z = op2[0], m.mvector(0)
            if extra:
                # an empty right side: a selector that matches nothing
                nosel = [{"l": "side", "op": "=", "v": "none", "coq": "em %s %s" % (cbytes(b"side"), egen.sm_coq("=", "none"))}]
                Z = m.mvec("sum", m.mrange("count_over_time", nosel, drop, rng_ns), None, grouping(["app"]))
                if rng.random() < 0.5:
                    Y, Z = (Z, Y) if op2 == "or" else (Y, Z)
            X = L if rng.random() < 0.6 else m.mvector(rng.choice([10, 16, 17, 100]))
            ix, iy, iz = add(X), add(Y), add(Z)
            inner = m.mbin(op2, Y, Z)
            ii = add(inner)
            rb = nan and rng.random() < 0.4
            flip = nan and rng.random() < 0.3
            e = m.mbin(op1, inner, X, rb) if flip else m.mbin(op1, X, inner, rb)
            rel = lambda a, b2, c, o, rb2=False: ("MRelSet %d %d %d %s" % (a, b2, c, BOP[o])) if o in SETOPS + ["or"] else ("MRelBin %d %d %d %s %s" % (a, b2, c, BOP[o], "true" if rb2 else "false"))
            rels.append(rel(iy, iz, ii, op2))
            rels.append(rel(ii, ix, add(e), op1, rb) if flip else rel(ix, ii, add(e), op1, rb))
        elif kind == "vv":
            op = rng.choice(ARITH + CMP)
            rb = op in CMP and rng.random() < 0.4
            e = m.mbin(op, L, R, rb)
            rels.append("MRelBin %d %d %d %s %s" % (il, ir, add(e), BOP[op], "true" if rb else "false"))
        elif kind == "litbool":
            # comparison with the `bool` modifier against a threshold inside the range of values: some series pass, some do not
            op = rng.choice(CMP)
            c = rng.choice([1, 2, 2, 3, 4])
            left = rng.random() < 0.3
            lit = m.mlit(c)
            e = m.mbin(op, lit, L, True) if left else m.mbin(op, L, lit, True)
            rels.append("MRelLit %d %d %s true %s %s" % (il, add(e), BOP[op], cfloat(c), "true" if left else "false"))
        elif kind == "lit":
            op = rng.choice(ARITH + CMP + ["/", "/", "%", "-"])
            rb = op in CMP and rng.random() < 0.4
            c = rng.choice([0, 2, 0.5, 3, -2, -0.5, -2, -3])
            if op in CMP:
                c = rng.choice([1, 2, 2, 3, 1])          # a threshold that some series meet exactly: > and >=, < and <= differ there, on either side
            left = rng.random() < 0.5
            lit = m.mlit(c)
            e = m.mbin(op, lit, L, rb) if left else m.mbin(op, L, lit, rb)
            rels.append("MRelLit %d %d %s %s %s %s" % (il, add(e), BOP[op], "true" if rb else "false", cfloat(c), "true" if left else "false"))
        elif kind == "vlit":
            # a scalar whose reciprocal is inexact against dividends where x/s and x*(1/s) round differently
            x = rng.choice([3, 6, 7, 12, 5, 1, 49])
            c = rng.choice([10, 3, 7, 0.1, -10, 0.3, 1e-3])
            op = rng.choice(["/", "/", "/", "%", "*", "-"])
            left = rng.random() < 0.3
            if rng.random() < 0.25:
                # the scalar equal to the value, under every ordering comparison, on either side
                op, c, left = rng.choice(CMP), x, rng.random() < 0.6
            if op == "/" and rng.random() < 0.7:
                # pairs for which x/s and x*(1/s) differ in the last bit
                x, c = rng.choice([(3, 10), (3, -10), (6, 10), (7, 10), (7, 3), (7, 6), (12, 10), (5, 3), (5, 7), (5, 49), (49, 49), (9, 7), (13, 7)])
                left = False
            V = m.mvector(x)
            iv = add(V)
            lit = m.mlit(c)
            e = m.mbin(op, lit, V, False) if left else m.mbin(op, V, lit, False)
            rels.append("MRelLit %d %d %s false %s %s" % (iv, add(e), BOP[op], cfloat(c), "true" if left else "false"))
        elif kind == "set":
            op = rng.choice(SETOPS + ["or"])
            e = m.mbin(op, L, R)
            rels.append("MRelSet %d %d %d %s" % (il, ir, add(e), BOP[op]))
        else:
            c = rng.choice([0, 1, 2.5])
            V = m.mvector(c)
            iv = add(V)
            op = rng.choice(["+", "*", "or", "and", "unless", ">", "-"])
            first = rng.random() < 0.5
            e = m.mbin(op, V, L) if first else m.mbin(op, L, V)
            a, b = (iv, il) if first else (il, iv)
            if op in SETOPS:
                rels.append("MRelSet %d %d %d %s" % (a, b, add(e), BOP[op]))
            else:
                rels.append("MRelBin %d %d %d %s false" % (a, b, add(e), BOP[op]))
        return {"kind": kind, "recs": [m.g.rec_json(r) for r in recs], "oracle": oracles_coq(), "evals": evals, "rels": rels, "ops": [kind],
                "note": "by=%r" % (by,)}


PROP = P()
