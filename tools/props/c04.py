"""C04: merge of several containers through dockerlog.Querier.SelectLogs with scripted completion orders."""
import itertools
from vlib import cbytes, clist, cZ, cnat, cpair, b64e, b64d
from props.c03 import fmt_ts, frame

BASE = 1_700_000_000 * 10**9


def mkcontainer(i, recs):
    data = b"".join(frame(1 + (k % 2), fmt_ts(ts) + b" " + b"%d:%d" % (i, k)) for k, (ts, _) in enumerate(recs))
    return {"id": b64e("c%d" % i), "names": [b64e("/n%d" % i)], "image": b64e("img"), "image_id": b64e(""), "command": b64e(""),
            "state": b64e("running"), "status": b64e(""), "created": 0, "labels": [],
            "events": ([{"d": b64e(data)}] if data else []) + [{"eof": True}]}


class P:
    id = "C04"
    driver = "C04"
    shard = 25
    rule = ("0-6 containers with 0-8 records each; timestamps drawn from a small range so ties within and across containers are frequent; "
            "per-container logs sorted (85%) or unsorted (15%); empty logs included; every case is run under several scripted completion orders of the "
            "concurrent ContainerLogs calls (quick: up to 4 random permutations; thorough: ALL n! permutations for n<=5). "
            "Non-trivial = at least two non-empty sources; distinct = distinct (sources, orders).")
    trusted = ["goroutine scheduling is modelled as the order in which the per-container open tasks complete (the fake daemon releases the blocked "
               "ContainerLogs calls in the scripted order)", "container/heap transliterated in Base/Heap.v"]
    assumptions = ["sources deliver their records in stream order (C03)"]
    exhaustive = {"quick": False, "thorough": False}

    def gen(self, rng, tier):
        n = {"quick": 220, "thorough": 900, "search": 900}[tier]
        cases = []
        for _ in range(n):
            nc = rng.choice([0, 1, 2, 2, 3, 3, 4, 5, 6])
            spread = rng.choice([1, 2, 3, 5, 50])
            srcs = []
            for i in range(nc):
                k = rng.choice([0, 0, 1, 2, 3, 4, 5, 8])
                tss = [BASE + rng.randrange(0, spread) * rng.choice([1, 1000, 10**9]) for _ in range(k)]
                if rng.random() < 0.85:
                    tss.sort()
                srcs.append([[t, j] for j, t in enumerate(tss)])
            perms = []
            if nc >= 2:
                if tier == "thorough" and nc <= 5:
                    perms = [list(p) for p in itertools.permutations(range(nc))]
                    if len(perms) > 24:
                        perms = rng.sample(perms, 24) if rng.random() < 0.8 else perms
                else:
                    perms = [list(range(nc)), list(reversed(range(nc)))]
                    for _ in range(2):
                        p = list(range(nc))
                        rng.shuffle(p)
                        perms.append(p)
            cases.append({"sources": srcs, "releases": perms})
        return cases

    def request(self, c):
        return {"cmd": "selectlogs", "containers": [mkcontainer(i, s) for i, s in enumerate(c["sources"])],
                "releases": c["releases"], "start": 0, "end": 0, "timeout_ms": 60000}

    def parse_run(self, c, run):
        out = []
        for rec in run.get("records") or []:
            line = b64d(rec["line"]).decode("utf-8", "replace")
            try:
                i, k = line.split(":")
                i, k = int(i), int(k)
            except ValueError:
                i, k = 97, -1          # the message is not one that was written: no source owns this record
            out.append((i, rec["ts"], k, b64d(rec["cid"]).decode("utf-8", "replace")))
        return out

    def to_coq(self, c, r):
        runs = r.get("runs")
        if runs is None:
            return "mk [[(0,0)]] [[]]"
        srcs = clist(clist(cpair(cZ(t), cZ(k)) for t, k in s) for s in c["sources"])
        outs = []
        for run in runs:
            if "select_error" in run or run.get("end") != "clean":
                outs.append("[(99%nat,(0,0))]")
                continue
            recs = self.parse_run(c, run)
            # the record's container id attribute must be the id of the container that produced it (origin)
            outs.append(clist(cpair(cnat(i if cid == "c%d" % i else 98), cpair(cZ(t), cZ(k))) for i, t, k, cid in recs))
        return "mk %s %s" % (srcs, clist(outs))

    def model_exprs(self, term):
        return ["model (%s)" % term]

    def trivial(self, c, r):
        return sum(1 for s in c["sources"] if s) < 2

    def sample(self, c, r):
        runs = r.get("runs") or [{}]
        return {"sources(ts-base,serial)": [[(t - BASE, k) for t, k in s] for s in c["sources"]][:6],
                "completion_orders": c["releases"][:4],
                "first_observed(src,serial)": [(i, k) for i, _, k, _ in self.parse_run(c, runs[0])][:20]}

    def distribution(self, cases, resps):
        d = {"containers": {}, "orders_per_case": {}, "with_ties": 0, "unsorted_source": 0, "runs": 0}
        for c in cases:
            d["containers"][str(len(c["sources"]))] = d["containers"].get(str(len(c["sources"])), 0) + 1
            d["orders_per_case"][str(len(c["releases"]))] = d["orders_per_case"].get(str(len(c["releases"])), 0) + 1
            allts = [t for s in c["sources"] for t, _ in s]
            d["with_ties"] += len(set(allts)) < len(allts)
            d["unsorted_source"] += any([t for t, _ in s] != sorted(t for t, _ in s) for s in c["sources"])
            d["runs"] += max(1, len(c["releases"]))
        return d

    def shrink(self, c):
        srcs = c["sources"]
        for i in range(len(srcs)):
            if srcs[i]:
                s2 = [list(s) for s in srcs]
                s2[i] = s2[i][:-1]
                yield dict(c, sources=s2)
        if len(c["releases"]) > 2:
            yield dict(c, releases=c["releases"][:2])


PROP = P()
