"""Shared plumbing of the checks that run queries through Engine.Eval over dockerlog.Querier over the fake Docker
daemon (C02, C14, C18).

case = {"kind", "ctrs": [container json (faulty)], "ctrs_coq": coq, "ctrs_intended_coq": coq, "list_fail": bool, "oracle": coq,
        "evals": [{"q": b64, "qcoq": coq dquery, "limit","start","end","step", "release": [idx], "exp_selected": [id], "exp_opts": {id: [since, until]},
                   "must_err": bool, "must_ok": bool}], "same": [[i, j]], "note"}
"""
from vlib import cbytes, clist, cZ, cbool, copt, b64e, b64d
from props.engcommon import streams_coq
import mgen


class DockProp:
    driver = "Dock"
    shard = 8
    chunk = 8
    trusted = ["fake Docker API client in the harness (ContainerList / ContainerLogs only; scripted read events, open failures, completion order of the concurrent ContainerLogs "
               "calls; it does NOT apply since/until itself: what the daemon does with them is outside this repository)",
               "time.Parse/Format(RFC3339Nano) instance Base/TimeFmt.v; container/heap transliterated in Base/Heap.v",
               "for metric queries over a faulty stream the model does not follow the exact number of reads: the check demands `error or the fault-free answer`, "
               "an error when the generator placed the fault before every sample the query needs, and closed = opened"]
    assumptions = ["goroutine scheduling is modelled as the order in which the per-container open tasks complete"]

    def request(self, c):
        return {"cmd": "dockereval", "containers": c["ctrs"], "list_fail": c["list_fail"], "late_last": bool(c.get("late_last")),
                "evals": [{"query": e["q"], "limit": e["limit"], "start": e["start"], "end": e["end"], "step": e["step"], "release": e.get("release") or []} for e in c["evals"]]}

    def to_coq(self, c, r):
        runs = r.get("runs")
        if runs is None or len(runs) != len(c["evals"]):
            return None
        evs = []
        for e, run in zip(c["evals"], runs):
            if "panic" in run:
                out = "OError"      # a panic is never acceptable: force a failure through must_ok
                e = dict(e, must_ok=True, must_err=False)
            elif "error" in run:
                out = "OError"
            elif run.get("type") == "streams" or "streams" in run:
                out = "OStreams %s" % (streams_coq(run) or "[]")
            else:
                out = "OSeries %s" % (mgen.series_coq(run) or "[]")
            def since_of(v):
                # everything else the daemon is asked must leave the window whole: both streams, timestamps, no tail cut, no follow
                if v.get("tail") not in ("all", "") or not v.get("stdout") or not v.get("stderr") or not v.get("timestamps") or v.get("follow"):
                    return ("<narrowed: tail=%s stdout=%s stderr=%s timestamps=%s follow=%s> " % (v.get("tail"), v.get("stdout"), v.get("stderr"), v.get("timestamps"), v.get("follow"))).encode() + v["since"].encode()
                return v["since"].encode()
            opts = clist("(%s,(%s,%s))" % (cbytes(b64d(k)), cbytes(since_of(v)), cbytes(v["until"].encode())) for k, v in sorted((run.get("opts") or {}).items()))
            counts = clist("(%s,(%d,%d))" % (cbytes(b64d(k)), v[0], v[1]) for k, v in sorted((run.get("per_container") or {}).items()))
            if run.get("inflight_at_return"):
                # per-container requests still running when the evaluation returned: not joined (reported as readers that were never closed)
                counts = clist(["(%s,(%d,0))" % (cbytes(b"<requests not joined at return>"), run["inflight_at_return"])] +
                               ["(%s,(%d,%d))" % (cbytes(b64d(k)), v[0], v[1]) for k, v in sorted((run.get("per_container") or {}).items())])
            exp_opts = clist("(%s,(%s,%s))" % (cbytes(k.encode()), cbytes(v[0].encode()), cbytes(v[1].encode())) for k, v in sorted(e["exp_opts"].items()))
            evs.append("mkdev (%s) %s %s %s %s %s %s %s (mkdobs (%s) %s %s)" % (
                e["qcoq"], cZ(e["start"]), cZ(e["end"]), cZ(e["step"]), clist(cbytes(x.encode()) for x in e["exp_selected"]), exp_opts,
                cbool(e["must_err"]), cbool(e["must_ok"]), out, opts, counts))
        same = clist("(%d%%nat,%d%%nat)" % (i, j) for i, j in c.get("same", []))
        return "mkd (%s) %s %s %s %s %s" % (c["oracle"], c["ctrs_coq"], c["ctrs_intended_coq"], cbool(c["list_fail"]), clist(evs), same)

    def model_exprs(self, term):
        return ["let c := (%s) in map (fun e => model_out c (d_inv c) (d_list_fail c) e) (d_evals c)" % term,
                "let c := (%s) in map (fun e => ob_out (de_obs e)) (d_evals c)" % term,
                "let c := (%s) in map (deval_ok c) (d_evals c)" % term]

    def trivial(self, c, r):
        return len(c["ctrs"]) < 1

    def sample(self, c, r):
        runs = r.get("runs") or []
        return {"kind": c["kind"], "queries": [b64d(e["q"]).decode("utf-8", "replace") for e in c["evals"]][:4],
                "containers": len(c["ctrs"]), "faults": c.get("faults", []), "list_fail": c["list_fail"],
                "expected_selected": [e["exp_selected"] for e in c["evals"]][:2],
                "observed": [("error: " + run["error"][:100]) if "error" in run else {"opened": run.get("opened"), "closed": run.get("closed")} for run in runs][:4]}

    def describe(self, c, r):
        return {"note": c.get("note", ""), "queries": [b64d(e["q"]).decode("utf-8", "replace") for e in c["evals"]],
                "caps": ["start=%d end=%d step=%d limit=%d release=%s must_err=%s must_ok=%s exp=%s" % (e["start"], e["end"], e["step"], e["limit"], e.get("release"), e["must_err"], e["must_ok"], e["exp_selected"]) for e in c["evals"]],
                "lines": c.get("summary", [])}

    def distribution(self, cases, resps):
        d = {"kind": {}, "containers_total": 0, "evaluations_total": 0, "errors": 0, "faults": {}, "selected_total": 0, "readers_opened": 0}
        for c, r in zip(cases, resps):
            d["kind"][c["kind"]] = d["kind"].get(c["kind"], 0) + 1
            d["containers_total"] += len(c["ctrs"])
            d["evaluations_total"] += len(c["evals"])
            for f in c.get("faults", []):
                d["faults"][f] = d["faults"].get(f, 0) + 1
            for e in c["evals"]:
                d["selected_total"] += len(e["exp_selected"])
            for run in r.get("runs") or []:
                if "error" in run:
                    d["errors"] += 1
                d["readers_opened"] += run.get("opened") or 0
        return d
