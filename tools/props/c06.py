"""C06: parser stages expose exactly the fields of a line and never drop it.  Expected labels are computed by the
generator from the document it rendered (it knows the fields by construction)."""
import re as pyre

from vlib import cbytes, b64e, cZ
import egen
from egen import EGen, B, oracles_coq, dedup, base_labels, labels_coq, key_to_label, JLine, LFLine, JV
from props.engcommon import EngProp

E_JSON = b"JSON parsing error"
E_LOGFMT = b"logfmt parsing error"
E_UNPACK = b"unpack JSON parsing error"


def set_error(d, typ):
    if b"__error__" in d:
        return d
    d = dict(d)
    d[b"__error__"] = typ
    d[b"__error_details__"] = b"?"
    return d


def jrender(x: JV):
    """value a json stage without path expression exposes for a field (None: null, not exposed)"""
    return x.render


def jpath_value(x: JV):
    """value a path expression exposes: strings decoded, numbers/composites as written, null as empty"""
    v = x.v
    if isinstance(v, str):
        return B(v)
    if v is None:
        return b""
    if isinstance(v, bool):
        return b"true" if v else b"false"
    if isinstance(v, tuple):
        return B(v[1])
    return B(x.text)


def lookup(vals, path):
    """all values at path in an object given as [(key, JV)] (duplicates: every occurrence, in order)"""
    cur = [("obj", vals)]
    out = []

    def walk(x: JV, rest):
        if not rest:
            out.append(x)
            return
        s = rest[0]
        if s[0] == "k" and isinstance(x.v, dict):
            for k, y in x.items:
                if k == s[1]:
                    walk(y, rest[1:])
        elif s[0] == "i" and isinstance(x.v, list):
            items = [JV(None, e) for e in x.v] if False else None
    # only the shapes the generator requests are needed: key paths through objects and one index into a list
    return out


class P(EngProp):
    id = "C06"
    rule = ("per case one parser stage after an always-true selector over 2-8 records: json (all fields / field list / path expressions) over generated objects with keys "
            "needing sanitisation, duplicate keys, escapes, numbers, bools, nulls, nested objects and arrays, trailing garbage, and malformed lines (cut inside a key, not an "
            "object, not JSON); logfmt (all / list / renames) with quoted values and malformed pairs; regexp with named groups over delimiter-separated lines (ground truth "
            "from the construction of the line); pattern with 2-3 captures incl. empty fields and `_`; unpack over packed entries incl. malformed. Expected: count = N, every "
            "line kept unchanged (unpack: _entry), and for every entry the full expected label set, computed by the generator from the fields it rendered.")

    def gen(self, rng, tier):
        n = {"quick": 220, "thorough": 2500, "search": 1000}[tier]
        g = EGen(rng)
        kinds = ["json", "json", "jsonsome", "jsonpath", "logfmt", "logfmtsome", "regexp", "pattern", "pattern", "unpack"]
        return [self.one(rng, g, kinds[i % len(kinds)]) for i in range(n)]

    def one(self, rng, g, kind):
        nrec = rng.randint(2, 8)
        jsonl, lfl, subm = [], [], []
        docs = []
        lines = []
        if kind in ("json", "jsonsome", "jsonpath"):
            for _ in range(nrec):
                jl = JLine(rng, egen.gen_jdoc(rng), malform=rng.choice([None, None, None, None, None, "cut", "trailing", "array", "bad"]))
                docs.append(jl); lines.append(jl.text); jsonl.append((B(jl.text), jl.coq))
        elif kind in ("logfmt", "logfmtsome"):
            for _ in range(nrec):
                l = LFLine(rng, malform=rng.random() < 0.2)
                docs.append(l); lines.append(l.text); lfl.append((B(l.text), l.coq))
        elif kind == "unpack":
            for _ in range(nrec):
                entry = rng.choice(["error: timeout", "info ok", "inner {\"a\":1}", ""])
                pairs = [(rng.choice(["app", "level", "pod", "a.b", "9x", "bad key"]), rng.choice(["web", "error", "p1", ""])) for _ in range(rng.randint(0, 3))]
                if rng.random() < 0.8:
                    pairs.insert(rng.randint(0, len(pairs)), ("_entry", entry))
                if rng.random() < 0.3:
                    pairs.insert(rng.randint(0, len(pairs)), ("num", ("num", "7", "7")))
                jl = JLine(rng, pairs, malform=rng.choice([None, None, None, "cut", "bad", "array"]))
                docs.append(jl); lines.append(jl.text); jsonl.append((B(jl.text), jl.coq))
        else:
            # delimiter-separated fields
            self.delim = rng.choice([" ", ",", " - ", "|"])
            for _ in range(nrec):
                fs = [rng.choice(["alice", "GET", "/index", "", "200", "x y" if self.delim != " " else "xy", "a,b" if self.delim == "|" else "ab"]) for _ in range(rng.randint(1, 4))]
                docs.append(fs); lines.append(self.delim.join(fs))
        recs = g.records(lines, with_attrs=False)
        for r in recs:
            r["attrs"] = [(k, rng.choice(egen.ATTR_POOL[k])) for k in rng.sample(["app", "level", "status", "n"], rng.randint(0, 3))]
        exp = []       # (record, expected line, expected labels)
        pipe = []
        if kind == "json":
            pipe.append(g.st_json())
            for r, jl in zip(recs, docs):
                d = base_labels(r)
                for k, x in jl.complete:
                    if x.render is not None:
                        d[key_to_label(B(k))] = x.render
                if not jl.ok:
                    d = set_error(d, E_JSON)
                exp.append((r, r["line"], d))
        elif kind == "jsonsome":
            want = rng.sample(["level", "msg", "status", "n", "app", "nosuch"], rng.randint(1, 3))
            pipe.append(g.st_json(labels=want))
            for r, jl in zip(recs, docs):
                d = base_labels(r)
                for k, x in jl.complete:
                    if k in want and x.render is not None:
                        d[B(k)] = x.render
                if not jl.ok:
                    d = set_error(d, E_JSON)
                exp.append((r, r["line"], d))
        elif kind == "jsonpath":
            cands = [("lv", "level", [("k", "level")]), ("x", "nested.a", [("k", "nested"), ("k", "a")]), ("y", "list[0]", [("k", "list"), ("i", 0)]),
                     ("z", "nested.deep.z", [("k", "nested"), ("k", "deep"), ("k", "z")]), ("u", "[\"user.name\"]", [("k", "user.name")]), ("w", "nested", [("k", "nested")]),
                     ("nn", "n", [("k", "n")]), ("miss", "nosuch.q", [("k", "nosuch"), ("k", "q")])]
            ex = rng.sample(cands, rng.randint(1, 3))
            lab = rng.choice([["status"], ["\u043a\u043b\u044e\u0447"], ["status", "\u00e91"]]) if rng.random() < 0.4 else []      # plain names next to path expressions, also non-ASCII identifiers
            pipe.append(g.st_json(labels=lab, exprs=ex))
            for r, jl in zip(recs, docs):
                exp.append((r, r["line"], None))          # labels: model-compared only (duplicate-key walks are intricate); line and count are demanded
        elif kind == "logfmt":
            pipe.append(g.st_logfmt())
            for r, l in zip(recs, docs):
                d = base_labels(r)
                for k, v in l.pairs:
                    d[B(k)] = B(v)
                if l.err:
                    d = set_error(d, E_LOGFMT)
                exp.append((r, r["line"], d))
        elif kind == "logfmtsome":
            want = rng.sample(["level", "msg", "status", "n", "nosuch"], rng.randint(1, 2))
            ren = [("lvl", "level")] if "level" not in want and rng.random() < 0.6 else []
            if rng.random() < 0.3:
                ren.append(("who", "user.name"))
            pipe.append(g.st_logfmt(labels=want, exprs=[(lab, ('"%s"' % key) if "." in key else key) for lab, key in ren]))
            # the model needs the unquoted key
            pipe[-1]["coq"] = "ELogfmt %s" % egen.clist("(%s,%s)" % (cbytes(B(k)), cbytes(B(l))) for k, l in [(w, w) for w in want] + [(key, lab) for lab, key in ren])
            table = {w: w for w in want}
            table.update({key: lab for lab, key in ren})
            for r, l in zip(recs, docs):
                d = base_labels(r)
                for k, v in l.pairs:
                    if k in table:
                        d[B(table[k])] = B(v)
                if l.err:
                    d = set_error(d, E_LOGFMT)
                exp.append((r, r["line"], d))
        elif kind == "unpack":
            pipe.append(g.st_simple("unpack"))
            for r, jl in zip(recs, docs):
                d = base_labels(r)
                line = r["line"]
                failed = not jl.ok
                newline = line
                if getattr(jl, "notobj", False) or jl.text in ("not json", "", "level=info", "<xml/>"):
                    failed = True
                for k, x in jl.complete:
                    if not isinstance(x.v, str):
                        continue
                    if k == "_entry":
                        newline = B(x.v)
                    elif pyre.fullmatch(r"[A-Za-z_][A-Za-z0-9_.]*", k):
                        d[B(k)] = B(x.v)
                    else:
                        failed = True
                        break
                if failed:
                    exp.append((r, line, set_error(d, E_UNPACK)))
                else:
                    exp.append((r, newline, d))
        elif kind == "regexp":
            dl = pyre.escape(self.delim)
            cls = "[^%s]*" % pyre.escape(self.delim[0] if self.delim.strip() == "" else self.delim.strip())
            names = ["a", None, "c"][:rng.randint(2, 3)]
            if all(x is None for x in names):
                names[0] = "a"
            src = "^" + dl.join(("(?P<%s>%s)" % (nm, cls)) if nm else "(%s)" % cls for nm in names)
            src_go = src.replace("\\ ", " ").replace("\\,", ",").replace("\\-", "-")
            sid = 1
            st = g.st_regexp(sid, src_go, names)
            pipe.append(st)
            tbl = []
            rx = pyre.compile(src)
            for r, fs in zip(recs, docs):
                m = rx.search(r["line"].decode())
                d = base_labels(r)
                if m:
                    groups = [m.group(0)] + [x if x is not None else "" for x in m.groups()]
                    tbl.append((r["line"], groups))
                    # ground truth from the construction: the i-th field
                    sepfields = r["line"].decode().split(self.delim.strip() if self.delim.strip() else " ")
                    for i, nm in enumerate(names):
                        if nm:
                            d[B(nm)] = B(m.group(i + 1))
                else:
                    tbl.append((r["line"], None))
                exp.append((r, r["line"], d))
            subm = [(sid, dedup(tbl))]
        elif kind == "pattern":
            ncap = rng.randint(2, 3)
            capn = rng.sample(["user", "method", "path", "_"], ncap)
            if all(c == "_" for c in capn):
                capn[0] = "user"
            parts = []
            for i, c in enumerate(capn):
                if i:
                    parts.append(("lit", self.delim))
                parts.append(("cap", c))
            pipe.append(g.st_pattern(parts))
            for r, fs in zip(recs, docs):
                d = base_labels(r)
                # LogQL reading: capture i takes the text up to the next occurrence of the delimiter; the last capture takes the rest;
                # if the delimiter is missing, the capture takes everything and matching stops
                rest = r["line"]
                dl = B(self.delim)
                for i, c in enumerate(capn):
                    last = i == len(capn) - 1
                    if last:
                        val, found = rest, True
                    else:
                        k = rest.find(dl)
                        val, found = (rest[:k], True) if k >= 0 else (rest, False)
                    if c != "_":
                        d[B(c)] = val
                    if not found:
                        break
                    rest = rest[len(val) + (0 if last else len(dl)):]
                exp.append((r, r["line"], d))
        sel = g.selector(extra=False)
        q = g.query_text(sel, pipe, "spaced")
        rels = ["RelCount 0 %d" % len(recs)]
        for r, l, d in exp:
            rels.append("RelLine 0 %s %s" % (cZ(r["ts"]), cbytes(l)))
            if d is not None:
                rels.append("RelLabels 0 %s %s" % (cZ(r["ts"]), labels_coq(d)))
        return {"kind": kind, "recs": [g.rec_json(r) for r in recs], "oracle": oracles_coq(jsonl=dedup(jsonl), logfmt=dedup(lfl), submatch=subm),
                "evals": [{"q": b64e(q), "qcoq": g.query_coq(sel, pipe), "label": [], "line": [], "limit": 0}], "rels": rels,
                "stages": [s["k"] for s in pipe], "note": "expected line and full label set of every entry computed by the generator from the document it rendered"}


PROP = P()
