"""C06: parser stages expose exactly the fields of a line and never drop it.  Expected labels are computed by the
generator from the document it rendered (it knows the fields by construction)."""
import re as pyre

from vlib import cbytes, b64e, cZ
import egen
from egen import EGen, B, oracles_coq, dedup, base_labels, labels_coq, key_to_label, JLine, LFLine, JV
from props.engcommon import EngProp

E_JSON = b"JSON parsing error"
E_LOGFMT = b"logfmt parsing error"
E_UNPACK = b"unpack JSON parsing error"


def set_error(d, typ):
    if b"__error__" in d:
        return d
    d = dict(d)
    d[b"__error__"] = typ
    d[b"__error_details__"] = b"?"
    return d


def jrender(x: JV):
    """value a json stage without path expression exposes for a field (None: null, not exposed)"""
    return x.render


def jpath_value(x: JV):
    """value a path expression exposes: strings decoded, numbers/composites as written, null as empty"""
    v = x.v
    if isinstance(v, str):
        return B(v)
    if v is None:
        return b""
    if isinstance(v, bool):
        return b"true" if v else b"false"
    if isinstance(v, tuple):
        return B(v[1])
    return B(x.text)


def lookup(vals, path):
    """all values at path in an object given as [(key, JV)] (duplicates: every occurrence, in order)"""
    cur = [("obj", vals)]
    out = []

    def walk(x: JV, rest):
        if not rest:
            out.append(x)
            return
        s = rest[0]
        if s[0] == "k" and isinstance(x.v, dict):
            for k, y in x.items:
                if k == s[1]:
                    walk(y, rest[1:])
        elif s[0] == "i" and isinstance(x.v, list):
            items = [JV(None, e) for e in x.v] if False else None
    # only the shapes the generator requests are needed: key paths through objects and one index into a list
    return out


class P(EngProp):
    id = "C06"
    rule = ("per case one parser stage after an always-true selector over 2-8 records: json (all fields / field list / path expressions) over generated objects with keys "
            "needing sanitisation, duplicate keys, escapes, numbers, bools, nulls, nested objects and arrays, trailing garbage, and malformed lines (cut inside a key, a broken value below the top level followed by well-formed lines, not an "
            "object, not JSON); logfmt (all / list / renames) with quoted values and malformed pairs; regexp with named groups over delimiter-separated lines (ground truth "
            "from the construction of the line); pattern with 2-3 captures incl. empty fields and `_`; unpack over packed entries incl. malformed. Expected: count = N, every "
            "line kept unchanged (unpack: _entry), and for every entry the full expected label set, computed by the generator from the fields it rendered.")

    def gen(self, rng, tier):
        n = {"quick": 220, "thorough": 2500, "search": 1000}[tier]
        g = EGen(rng)
        kinds = ["json", "json", "jsonsome", "jsonpath", "logfmt", "logfmtsome", "regexp", "pattern", "pattern", "unpack"]
        return [self.one(rng, g, kinds[i % len(kinds)]) for i in range(n)]

    def one(self, rng, g, kind):
        nrec = rng.randint(2, 8)
        jsonl, lfl, subm = [], [], []
        docs = []
        lines = []
        if kind in ("json", "jsonsome", "jsonpath"):
            shadow = rng.random() < 0.35
            for idx in range(nrec):
                pairs = egen.gen_jdoc(rng)
                if shadow and idx == 0:
                    # a field named like an attribute all records of the resource share (job): it overrides the label for THIS line only
                    pairs = [(k, v) for k, v in pairs if k != "job"] + [("job", rng.choice(["from-line", "x2", ""]))]
                elif shadow:
                    pairs = [(k, v) for k, v in pairs if k != "job"]
                jl = JLine(rng, pairs, malform=None if (shadow and idx == 0) else rng.choice([None, None, None, None, None, None, "cut", "trailing", "array", "bad", "badval", "badval"]))
                docs.append(jl); lines.append(jl.text); jsonl.append((B(jl.text), jl.coq))
            if kind == "jsonpath" and nrec >= 3 and rng.random() < 0.6:
                # a line broken below the top level followed by well-formed ones: a stage is a function of the line it is given, not of the lines before
                jl = JLine(rng, egen.gen_jdoc(rng), malform="badval")
                docs[0] = jl; lines[0] = jl.text; jsonl[0] = (B(jl.text), jl.coq)
                for j in (1, 2):
                    jl = JLine(rng, egen.gen_jdoc(rng))
                    docs[j] = jl; lines[j] = jl.text; jsonl[j] = (B(jl.text), jl.coq)
        elif kind in ("logfmt", "logfmtsome"):
            for _ in range(nrec):
                l = LFLine(rng, malform=rng.random() < 0.2)
                docs.append(l); lines.append(l.text); lfl.append((B(l.text), l.coq))
        elif kind == "unpack":
            for _ in range(nrec):
                entry = rng.choice(["error: timeout", "info ok", "inner {\"a\":1}", ""])
                pairs = [(rng.choice(["app", "level", "pod", "a.b", "9x", "bad key"]), rng.choice(["web", "error", "p1", ""])) for _ in range(rng.randint(0, 3))]
                if rng.random() < 0.8:
                    pairs.insert(rng.randint(0, len(pairs)), ("_entry", entry))
                if rng.random() < 0.3:
                    pairs.insert(rng.randint(0, len(pairs)), ("num", ("num", "7", "7")))
                jl = JLine(rng, pairs, malform=rng.choice([None, None, None, "cut", "bad", "array"]))
                docs.append(jl); lines.append(jl.text); jsonl.append((B(jl.text), jl.coq))
        else:
            # delimiter-separated fields
            self.delim = rng.choice([" ", ",", " - ", "|"])
            for _ in range(nrec):
                fs = [rng.choice(["alice", "GET", "/index", "", "200", "x y" if self.delim != " " else "xy", "a,b" if self.delim == "|" else "ab"]) for _ in range(rng.randint(1, 4))]
                docs.append(fs); lines.append(self.delim.join(fs))
        recs = g.records(lines, with_attrs=False)
        for r in recs:
            r["attrs"] = [(k, rng.choice(egen.ATTR_POOL[k])) for k in rng.sample(["app", "level", "status", "n"], rng.randint(0, 3))]
        exp = []       # (record, expected line, expected labels)
        pipe = []
        if kind == "json":
            pipe.append(g.st_json())
            for r, jl in zip(recs, docs):
                d = base_labels(r)
                for k, x in jl.complete:
                    if x.render is not None:
                        d[key_to_label(B(k))] = x.render
                if not jl.ok:
                    d = set_error(d, E_JSON)
                exp.append((r, r["line"], d))
        elif kind == "jsonsome":
            want = rng.sample(["level", "msg", "status", "n", "app", "nosuch"], rng.randint(1, 3))
            pipe.append(g.st_json(labels=want))
            for r, jl in zip(recs, docs):
                d = base_labels(r)
                for k, x in jl.complete:
                    if k in want and x.render is not None:
                        d[B(k)] = x.render
                if not jl.ok:
                    d = set_error(d, E_JSON)
                exp.append((r, r["line"], d))
        elif kind == "jsonpath":
            cands = [("lv", "level", [("k", "level")]), ("x", "nested.a", [("k", "nested"), ("k", "a")]), ("y", "list[0]", [("k", "list"), ("i", 0)]),
                     ("z", "nested.deep.z", [("k", "nested"), ("k", "deep"), ("k", "z")]), ("u", "[\"user.name\"]", [("k", "user.name")]), ("w", "nested", [("k", "nested")]),
                     ("nn", "n", [("k", "n")]), ("miss", "nosuch.q", [("k", "nosuch"), ("k", "q")])]
            ex = rng.sample(cands, rng.randint(1, 3))
            if rng.random() < 0.35:
                # two labels asking for ONE path (also spelled differently) whose value is an object or an array: both are exposed
                p1, p2 = rng.choice([(("w", "nested", [("k", "nested")]), ("w2", "nested", [("k", "nested")])),
                                     (("w", "nested", [("k", "nested")]), ("wq", '["nested"]', [("k", "nested")])),
                                     (("la", "list", [("k", "list")]), ("lb", "list", [("k", "list")])),
                                     (("d1", "nested.deep", [("k", "nested"), ("k", "deep")]), ("d2", 'nested["deep"]', [("k", "nested"), ("k", "deep")]))])
                ex = [e for e in ex if e[0] not in (p1[0], p2[0])][:1] + [p1, p2]
            lab = rng.choice([["status"], ["\u043a\u043b\u044e\u0447"], ["status", "\u00e91"]]) if rng.random() < 0.4 else []      # plain names next to path expressions, also non-ASCII identifiers
            pipe.append(g.st_json(labels=lab, exprs=ex))
            for r, jl in zip(recs, docs):
                exp.append((r, r["line"], None))          # labels: model-compared only (duplicate-key walks are intricate); line and count are demanded
        elif kind == "logfmt":
            pipe.append(g.st_logfmt())
            for r, l in zip(recs, docs):
                d = base_labels(r)
                for k, v in l.pairs:
                    d[B(k)] = B(v)
                if l.err:
                    d = set_error(d, E_LOGFMT)
                exp.append((r, r["line"], d))
        elif kind == "logfmtsome":
            want = rng.sample(["level", "msg", "status", "n", "nosuch"], rng.randint(1, 2))
            ren = [("lvl", "level")] if "level" not in want and rng.random() < 0.6 else []
            if rng.random() < 0.3:
                ren.append(("who", "user.name"))
            pipe.append(g.st_logfmt(labels=want, exprs=[(lab, ('"%s"' % key) if "." in key else key) for lab, key in ren]))
            # the model needs the unquoted key
            pipe[-1]["coq"] = "ELogfmt %s" % egen.clist("(%s,%s)" % (cbytes(B(k)), cbytes(B(l))) for k, l in [(w, w) for w in want] + [(key, lab) for lab, key in ren])
            table = {w: w for w in want}
            table.update({key: lab for lab, key in ren})
            for r, l in zip(recs, docs):
                d = base_labels(r)
                for k, v in l.pairs:
                    if k in table:
                        d[B(table[k])] = B(v)
                if l.err:
                    d = set_error(d, E_LOGFMT)
                exp.append((r, r["line"], d))
        elif kind == "unpack":
            pipe.append(g.st_simple("unpack"))
            for r, jl in zip(recs, docs):
                d = base_labels(r)
                line = r["line"]
                failed = not jl.ok
                newline = line
                if getattr(jl, "notobj", False) or jl.text in ("not json", "", "level=info", "<xml/>"):
                    failed = True
                for k, x in jl.complete:
                    if not isinstance(x.v, str):
                        continue
                    if k == "_entry":
                        newline = B(x.v)
                    elif pyre.fullmatch(r"[A-Za-z_][A-Za-z0-9_.]*", k):
                        d[B(k)] = B(x.v)
                    else:
                        failed = True
                        break
                if failed:
                    exp.append((r, line, set_error(d, E_UNPACK)))
                else:
                    exp.append((r, newline, d))
        elif kind == "regexp":
            dl = pyre.escape(self.delim)
            cls = "[^%s]*" % pyre.escape(self.delim[0] if self.delim.strip() == "" else self.delim.strip())
            names = ["a", None, "c"][:rng.randint(2, 3)]
            if all(x is None for x in names):
                names[0] = "a"
            src = "^" + dl.join(("(?P<%s>%s)" % (nm, cls)) if nm else "(%s)" % cls for nm in names)
            if rng.random() < 0.4:
                # a named group that takes part in the match only for some lines (an optional group, an alternation): it is exposed with an
                # empty value when it does not
                names = ["a", "c"]
                src = rng.choice(["^(?P<a>%s)(?:%s(?P<c>[0-9]+))?" % (cls, dl), "^(?:(?P<a>[a-z]+)|(?P<c>[0-9/]+))"])
            src_go = src.replace("\\ ", " ").replace("\\,", ",").replace("\\-", "-")
            sid = 1
            st = g.st_regexp(sid, src_go, names)
            pipe.append(st)
            tbl = []
            rx = pyre.compile(src)
            for r, fs in zip(recs, docs):
                m = rx.search(r["line"].decode())
                d = base_labels(r)
                if m:
                    groups = [m.group(0)] + [x if x is not None else "" for x in m.groups()]
                    tbl.append((r["line"], groups))
                    # ground truth from the construction: the i-th field
                    sepfields = r["line"].decode().split(self.delim.strip() if self.delim.strip() else " ")
                    for i, nm in enumerate(names):
                        if nm:
                            d[B(nm)] = B(m.group(i + 1) or "")
                else:
                    tbl.append((r["line"], None))
                exp.append((r, r["line"], d))
            subm = [(sid, dedup(tbl))]
        elif kind == "pattern":
            ncap = rng.randint(2, 3)
            capn = rng.sample(["user", "method", "path", "_"], ncap)
            if all(c == "_" for c in capn):
                capn[0] = "user"
            parts = []
            for i, c in enumerate(capn):
                if i:
                    parts.append(("lit", self.delim))
                parts.append(("cap", c))
            pipe.append(g.st_pattern(parts))
            for r, fs in zip(recs, docs):
                d = base_labels(r)
                # LogQL reading: capture i takes the text up to the next occurrence of the delimiter; the last capture takes the rest;
                # if the delimiter is missing, the capture takes everything and matching stops
                rest = r["line"]
                dl = B(self.delim)
                for i, c in enumerate(capn):
                    last = i == len(capn) - 1
                    if last:
                        val, found = rest, True
                    else:
                        k = rest.find(dl)
                        val, found = (rest[:k], True) if k >= 0 else (rest, False)
                    if c != "_":
                        d[B(c)] = val
                    if not found:
                        break
                    rest = rest[len(val) + (0 if last else len(dl)):]
                exp.append((r, r["line"], d))
        sel = g.selector(extra=False)
        q = g.query_text(sel, pipe, "spaced")
        rels = ["RelCount 0 %d" % len(recs)]
        for r, l, d in exp:
            rels.append("RelLine 0 %s %s" % (cZ(r["ts"]), cbytes(l)))
            if d is not None:
                rels.append("RelLabels 0 %s %s" % (cZ(r["ts"]), labels_coq(d)))
        return {"kind": kind, "recs": [g.rec_json(r) for r in recs], "oracle": oracles_coq(jsonl=dedup(jsonl), logfmt=dedup(lfl), submatch=subm),
                "evals": [{"q": b64e(q), "qcoq": g.query_coq(sel, pipe), "label": [], "line": [], "limit": 0}], "rels": rels,
                "stages": [s["k"] for s in pipe], "note": "expected line and full label set of every entry computed by the generator from the document it rendered"}


PROP = P()


# ---------------------------------------------------------------------------------------------------------------
# part 2: the path-expression parser itself (jsonexpr.Parse), which the engine cases above take for granted
from vlib import clist as _clist, b64d as _b64d


class JPathP:
    id = "C06"
    name = "jsonpath-parse"
    driver = "JPath"
    shard = 10
    chunk = 5
    rule = ("part `jsonpath-parse`: JSON path expressions a.b[0][\"k\"] built from identifiers, quoted keys (printable ASCII incl. escaped quote and backslash, keys ending in a "
            "backslash, empty key) and indexes (incl. leading zeros, 18 digits), with and without the leading dot; the generator states the selectors the text denotes and "
            "the check demands them from jsonexpr.Parse; plus single-character mutations and random strings over the path alphabet, where implementation and Coq model "
            "(Model/JsonPath.v) must agree on selectors or on rejection. 40 expressions per case.")
    trusted = ["strconv.Unquote modelled for printable ASCII with the escapes of quote and backslash, strconv.Atoi for up to 18 digits (other inputs are judged on the observed answer only)"]
    assumptions = []

    ALPHA = list('ab_9.[]"\\ 0x-') + ["é"]

    def gen_item(self, rng, first):
        k = rng.randrange(4)
        if k == 0:
            name = rng.choice(["a", "b_c", "_x", "level", "A9", "nested"])
            return ("" if first and rng.random() < 0.5 else ".") + name, ("k", name.encode())
        if k == 1:
            key = rng.choice(["k", "user.name", "a b", 'q"uote', "back\\slash", "end\\", "\\", "", "x]y", "[0]", 'a\\"b', "http-status"])
            esc = key.replace("\\", "\\\\").replace('"', '\\"')
            return '["%s"]' % esc, ("k", key.encode())
        if k == 2:
            ds = rng.choice(["0", "1", "7", "12", "007", "123456789012345678", "00"])
            return "[%s]" % ds, ("i", int(ds))
        name = rng.choice(["a", "z9"])
        return "." + name, ("k", name.encode())

    def gen(self, rng, tier):
        n = {"quick": 12, "thorough": 120, "search": 40}[tier]
        cases = []
        for _ in range(n):
            items = []
            for j in range(40):
                mode = rng.randrange(10)
                if mode <= 5:
                    parts = [self.gen_item(rng, i == 0) for i in range(rng.randint(1, 4))]
                    items.append({"in": b64e("".join(p[0] for p in parts)), "exp": [[t, (b64e(v) if t == "k" else v)] for _, (t, v) in parts]})
                elif mode <= 7:
                    parts = [self.gen_item(rng, i == 0) for i in range(rng.randint(1, 3))]
                    s = "".join(p[0] for p in parts)
                    i = rng.randrange(len(s) + 1)
                    m = rng.randrange(3)
                    if m == 0 and s:
                        s = s[:i] + s[i + 1:]
                    elif m == 1:
                        s = s[:i] + rng.choice(self.ALPHA) + s[i:]
                    elif s:
                        i = min(i, len(s) - 1)
                        s = s[:i] + rng.choice(self.ALPHA) + s[i + 1:]
                    items.append({"in": b64e(s), "exp": None})
                else:
                    s = "".join(rng.choice(self.ALPHA) for _ in range(rng.randint(0, 8)))
                    items.append({"in": b64e(s), "exp": None})
            cases.append({"kind": "jsonpath-parse", "items": items})
        self.nitems = sum(len(c["items"]) for c in cases)
        return cases

    def request(self, c):
        return {"cmd": "parsepath", "inputs": [it["in"] for it in c["items"]]}

    @staticmethod
    def sels_coq(sels):
        return _clist(("JKey %s" % cbytes(_b64d(v))) if t == "k" else ("JIdx %d" % v) for t, v in sels)

    def to_coq(self, c, r):
        outs = r.get("outputs")
        if outs is None or len(outs) != len(c["items"]):
            return None
        its = []
        for it, o in zip(c["items"], outs):
            if "err" in o:
                obs = "ObsErr"
            else:
                obs = "ObsOk %s" % self.sels_coq([("k", s["k"]) if "k" in s else ("i", s["i"]) for s in o["sels"]])
            exp = "None" if it["exp"] is None else "(Some %s)" % self.sels_coq(it["exp"])
            its.append("mkp %s %s (%s)" % (cbytes(_b64d(it["in"])), exp, obs))
        return "mk %s" % _clist(its)

    def model_exprs(self, term):
        return ["map (fun c => parse_path (p_in c)) (items (%s))" % term, "map judge1 (items (%s))" % term]

    def trivial(self, c, r):
        return False

    def sample(self, c, r):
        outs = r.get("outputs") or []
        return {"kind": "jsonpath-parse", "inputs": [_b64d(it["in"]).decode("utf-8", "replace") for it in c["items"][:5]],
                "observed": [("error" if "err" in o else "%d selectors" % len(o["sels"])) for o in outs[:5]]}

    def distribution(self, cases, resps):
        d = {"expressions": 0, "with_expectation": 0, "accepted": 0, "rejected": 0}
        for c, r in zip(cases, resps):
            for it, o in zip(c["items"], r.get("outputs") or []):
                d["expressions"] += 1
                d["with_expectation"] += it["exp"] is not None
                d["rejected" if "err" in o else "accepted"] += 1
        return d

    def extra_coverage(self, tier):
        return {"path_expressions_evaluated": getattr(self, "nitems", 0)}

    def shrink(self, c):
        its = c["items"]
        if len(its) > 1:
            h = len(its) // 2
            yield dict(c, items=its[:h])
            yield dict(c, items=its[h:])


P.name = "stages"
PROP.parts = [PROP, JPathP()]


# ---------------------------------------------------------------------------------------------------------------
# part 3: the pattern parser (logqlpattern.Parse)
class PatParseP(JPathP):
    name = "pattern-parse"
    driver = "PatParse"
    rule = ("part `pattern-parse`: patterns alternating literals and <name> captures (literals with spaces, punctuation, '<' that does not start a name, '>' alone, "
            "multi-byte UTF-8; captures incl. `_`), with the parts stated by the generator and demanded from logqlpattern.Parse; plus patterns the parser must "
            "reject (no capture, consecutive captures, duplicate names), unterminated `<name`, single-character mutations and random strings over the pattern alphabet, "
            "where implementation and Coq model (Model/PatternParse.v) must agree on the parts or on rejection. 40 patterns per case.")
    trusted = ["valid UTF-8 patterns only (an invalid byte in a pattern would be rewritten to U+FFFD by WriteRune; not generated)"]
    ALPHA = list("ab_<> .-1") + ["é", "<a>", "<_>"]

    def gen_good(self, rng):
        n = rng.randint(1, 3)
        names = rng.sample(["a", "b", "ip", "_x", "method", "c9"], n)
        parts = []
        if rng.random() < 0.5:
            parts.append(("lit", rng.choice(["GET ", "[", "x=", "< ", "<1>", "é ", "a>b"])))
        for i, nm in enumerate(names):
            parts.append(("cap", nm if rng.random() < 0.8 else "_"))
            if i + 1 < len(names) or rng.random() < 0.6:
                parts.append(("lit", rng.choice([" ", " - ", "] ", ",", "<>", " <", "é", ">"])))
        # a literal ending in '<' directly before a capture would read as "<<name>": keep it as generated, the statement of parts stays valid
        text = "".join(("<%s>" % v) if t == "cap" else v for t, v in parts)
        # merge rule: none needed, generated literals never sit next to each other
        return text, parts

    def gen(self, rng, tier):
        n = {"quick": 12, "thorough": 120, "search": 40}[tier]
        cases = []
        for _ in range(n):
            items = []
            for j in range(40):
                mode = rng.randrange(10)
                if mode <= 4:
                    text, parts = self.gen_good(rng)
                    caps = [v for t, v in parts if t == "cap" and v != "_"]
                    ok = len(set(caps)) == len(caps) and not any(a[0] == "cap" and b[0] == "cap" for a, b in zip(parts, parts[1:])) \
                        and not any(t == "lit" and v.endswith("<") and i + 1 < len(parts) for i, (t, v) in enumerate(parts))
                    items.append({"in": b64e(text), "exp": [[t, b64e(v)] for t, v in parts] if ok else None})
                elif mode == 5:
                    items.append({"in": b64e(rng.choice(["plain", "", "<a><b>", "<a> <a>", "<a", "<a b>", "<1>", "x<a", "<_>", "<_> <_>", "<a>x<a"])), "exp": None})
                elif mode <= 7:
                    s, _ = self.gen_good(rng)
                    i = rng.randrange(len(s) + 1)
                    m = rng.randrange(3)
                    if m == 0 and s:
                        s = s[:i] + s[i + 1:]
                    elif m == 1:
                        s = s[:i] + rng.choice(self.ALPHA) + s[i:]
                    elif s:
                        i = min(i, len(s) - 1)
                        s = s[:i] + rng.choice(self.ALPHA) + s[i + 1:]
                    items.append({"in": b64e(s), "exp": None})
                else:
                    items.append({"in": b64e("".join(rng.choice(self.ALPHA) for _ in range(rng.randint(0, 7)))), "exp": None})
            cases.append({"kind": "pattern-parse", "items": items})
        self.nitems = sum(len(c["items"]) for c in cases)
        return cases

    def request(self, c):
        return {"cmd": "parsepattern", "inputs": [it["in"] for it in c["items"]]}

    @staticmethod
    def parts_coq(parts):
        return _clist(("PCap %s" % cbytes(_b64d(v))) if t == "cap" else ("PLit %s" % cbytes(_b64d(v))) for t, v in parts)

    def to_coq(self, c, r):
        outs = r.get("outputs")
        if outs is None or len(outs) != len(c["items"]):
            return None
        its = []
        for it, o in zip(c["items"], outs):
            if "err" in o:
                obs = "PObsErr"
            else:
                obs = "PObsOk %s" % self.parts_coq([("cap", p["cap"]) if "cap" in p else ("lit", p["lit"]) for p in o["parts"]])
            exp = "None" if it["exp"] is None else "(Some %s)" % self.parts_coq(it["exp"])
            its.append("mkpp %s %s (%s)" % (cbytes(_b64d(it["in"])), exp, obs))
        return "mk %s" % _clist(its)

    def model_exprs(self, term):
        return ["map (fun c => parse_pattern (pp_in c)) (items (%s))" % term, "map judge1 (items (%s))" % term]

    def sample(self, c, r):
        outs = r.get("outputs") or []
        return {"kind": "pattern-parse", "inputs": [_b64d(it["in"]).decode("utf-8", "replace") for it in c["items"][:5]],
                "observed": [("error" if "err" in o else "%d parts" % len(o["parts"])) for o in outs[:5]]}

    def distribution(self, cases, resps):
        d = {"patterns": 0, "with_expectation": 0, "accepted": 0, "rejected": 0}
        for c, r in zip(cases, resps):
            for it, o in zip(c["items"], r.get("outputs") or []):
                d["patterns"] += 1
                d["with_expectation"] += it["exp"] is not None
                d["rejected" if "err" in o else "accepted"] += 1
        return d

    def extra_coverage(self, tier):
        return {"patterns_evaluated": getattr(self, "nitems", 0)}


PROP.parts = [PROP, JPathP(), PatParseP()]
