"""C20: KeyToLabel — exhaustive short strings over a representative alphabet + random longer keys."""
import itertools
from vlib import cbytes, clist, b64e, b64d

ALPHA = [b"a", b"Z", b"0", b"9", b"_", b".", b"-", b"/", b" ", "é".encode(), "世".encode(), b"\xff", b"\xc3"]
BATCH = 120


class P:
    id = "C20"
    driver = "C20"
    shard = 8
    chunk = 4
    rule = ("keys = every string of length <= L over the 13-symbol alphabet {a,Z,0,9,_,.,-,/,space,e-acute,U+4E16,0xff,0xc3} "
            "(L=3 quick, L=5 thorough; complete enumeration) plus random keys of length 4..40 over that alphabet and arbitrary bytes; "
            "batched %d keys per case. A key is non-trivial when it is not already a valid label (the mapping has to change it); "
            "distinct = distinct key bytes.") % BATCH
    trusted = ["Go range-over-string UTF-8 decoding modelled by Base/Utf8.v (validated by this correspondence incl. invalid bytes)"]
    assumptions = ["collision freedom of sanitised names within one container is a hypothesis of ktl_selectable (C02 model)"]
    exhaustive = {"quick": True, "thorough": True}

    def gen(self, rng, tier):
        L = 5 if tier == "thorough" else 3
        keys = []
        for n in range(L + 1):
            for t in itertools.product(ALPHA, repeat=n):
                keys.append(b"".join(t))
        nrand = {"quick": 2000, "thorough": 20000, "search": 20000}[tier]
        if tier == "search":
            keys = []
        for _ in range(nrand):
            n = rng.randint(4, 40)
            if rng.random() < 0.7:
                keys.append(b"".join(rng.choice(ALPHA) for _ in range(n)))
            else:
                keys.append(bytes(rng.randrange(256) for _ in range(n)))
        self.nkeys = len(keys)
        return [{"keys": [b64e(k) for k in keys[i:i + BATCH]]} for i in range(0, len(keys), BATCH)]

    def request(self, c):
        return {"cmd": "keytolabel", "inputs": c["keys"]}

    def to_coq(self, c, r):
        outs = r.get("outputs") or []
        return "mk %s %s" % (clist(cbytes(b64d(k)) for k in c["keys"]), clist(cbytes(b64d(o)) for o in outs))

    def model_exprs(self, term):
        return ["map key_to_label (keys (%s))" % term]

    def trivial(self, c, r):
        return False

    def sample(self, c, r):
        ks = [b64d(k) for k in c["keys"][:4]]
        os_ = [b64d(o) for o in (r.get("outputs") or [])[:4]]
        return {"keys": [repr(k) for k in ks], "observed": [repr(o) for o in os_]}

    def distribution(self, cases, resps):
        import re
        n = changed = multibyte = 0
        lens = {}
        for c, r in zip(cases, resps):
            for k, o in zip(c["keys"], r.get("outputs") or []):
                kb = b64d(k)
                n += 1
                changed += (k != o)
                multibyte += any(x >= 0x80 for x in kb)
                lens[min(len(kb), 10)] = lens.get(min(len(kb), 10), 0) + 1
        return {"keys": n, "changed_by_mapping": changed, "with_non_ascii": multibyte,
                "length_histogram(10=10+)": {str(k): v for k, v in sorted(lens.items())}}

    def extra_coverage(self, tier):
        return {"keys_evaluated": getattr(self, "nkeys", 0)}

    def shrink(self, c):
        ks = c["keys"]
        if len(ks) > 1:
            h = len(ks) // 2
            yield {"keys": ks[:h]}
            yield {"keys": ks[h:]}
        elif ks:
            kb = b64d(ks[0])
            for i in range(len(kb)):
                yield {"keys": [b64e(kb[:i] + kb[i + 1:])]}


# ---------------------------------------------------------------------------------------------------------------
# part 2: the last sentence of the property -- "a container carrying Docker label k=v is therefore selected by the
# selector {sanitised(k)="v"}" -- end to end: query text -> logql.Parse -> Engine.Eval -> dockerlog.Querier -> fake daemon
import re as _re
from pathlib import Path as _Path
import dgen as _dgen
from dgen import Ctr as _Ctr, S as _S, T0 as _T0
from egen import EGen as _EGen, B as _B, sm_coq as _sm_coq, key_to_label as _ktl, oracles_coq as _oracles_coq
from props.dockcommon import DockProp as _DockProp


def logql_keywords():
    """every word in the lexer's token table of the CURRENT tree (by, on, json, drop, sum, ...): each is a valid label name"""
    try:
        src = _Path("/repo/internal/logql/lexer/token.go").read_text()
        words = sorted(set(_re.findall(r'^\s*"([a-z_]+)":\s+\w+,', src, _re.M)))
    except OSError:
        words = []
    return words or ["by", "on", "json", "drop", "keep", "bool", "offset", "without", "unwrap", "logfmt", "ip", "sum", "or", "and", "unless"]


class SelP(_DockProp):
    id = "C20"
    name = "selectability"
    rule = ("part `selectability`: for a Docker label key k (every word of the lexer's keyword table of the current tree, such words in another letter case, every string of length <= 2 over the 13-symbol alphabet, "
            "random longer keys, keys colliding after sanitisation, a key shadowing a built-in label) an inventory holds a container with k=v, one with k=other, one without k "
            "and sometimes one with two keys that sanitise to the same name; the query text {sanitised(k)=\"v\"} (name computed by the generator's own KeyToLabel) goes through "
            "logql.Parse, Engine.Eval and dockerlog.Querier over the fake daemon; demanded: no error, exactly the containers whose label view has sanitised(k)=v are asked for "
            "logs, every returned line carries that label; everything equals the Docker model.")

    def gen(self, rng, tier):
        g = _EGen(rng)
        kws = logql_keywords()
        ualpha = [a.decode() for a in ALPHA if a not in (b"\xff", b"\xc3")]        # Docker label keys are JSON strings: valid UTF-8 only
        short = ["".join(t) for n in (1, 2) for t in itertools.product(ualpha, repeat=n)]
        keys = list(kws)
        # ... and the same words in another letter case: they are ordinary label names (the lexer's table is case-sensitive)
        keys += sorted({rng.choice([w.upper(), w.capitalize(), w.title()]) for w in rng.sample(kws, min(len(kws), {"quick": 12, "thorough": len(kws), "search": 20}[tier]))} - set(kws))
        nshort = {"quick": 40, "thorough": len(short), "search": 60}[tier]
        keys += rng.sample(short, min(nshort, len(short)))
        for _ in range({"quick": 40, "thorough": 400, "search": 80}[tier]):
            n = rng.randint(3, 12)
            keys.append("".join(rng.choice(ualpha) for _ in range(n)))
        keys += ["container", "container_name", "com.docker.compose.service", "9lives"]
        self.nsel = len(keys)
        return [self.one(rng, g, k, i) for i, k in enumerate(keys)]

    def one(self, rng, g, k, i):
        kb = k.encode()
        name = _ktl(kb)
        if not name:
            kb, k = b"x", "x"
            name = b"x"
        v, other = "v1", rng.choice(["v2", "", "v11"])
        ctrs = [_Ctr(rng, 0, labels={k: v}), _Ctr(rng, 1, labels={k: other}), _Ctr(rng, 2, labels={})]
        # a second key with the same sanitised name (sorted key order decides which value wins)
        twin = None
        for a, b in ((".", "-"), ("-", "/"), ("/", "."), (" ", ".")):
            if a in k:
                twin = k.replace(a, b, 1)
                break
        if twin and twin != k and _ktl(twin.encode()) == name:
            ctrs.append(_Ctr(rng, 3, labels={k: v, twin: other}))
            ctrs.append(_Ctr(rng, 4, labels={k: other, twin: v}))
        for c in ctrs:
            c.set_records(rng, rng.randint(1, 3), _T0 + _S, 3 * _S)
        lname = name.decode("ascii")
        sel = [{"l": lname, "op": "=", "v": v, "coq": "em %s %s" % (cbytes(name), _sm_coq("=", v)),
                "pred": lambda view, name=name, v=v: view.get(name, b"") == _B(v)}]
        exp = [c.id for c in _dgen.selected(ctrs, sel)]
        start, end = _T0, _T0 + 10 * _S
        q = g.query_text(sel, [], rng.choice(["spaced", "tight", "spaced"]))
        evals = [{"q": b64e(q), "qcoq": "DQLog (%s) 0" % g.query_coq(sel, []), "limit": 0, "start": start, "end": end, "step": 0, "release": list(range(len(ctrs))),
                  "exp_selected": exp, "exp_opts": {cid: [str(start // _S), str(-(-end // _S))] for cid in exp}, "must_err": False, "must_ok": True}]
        return {"kind": "keyword" if k in logql_keywords() else "key", "ctrs": [c.json() for c in ctrs], "ctrs_coq": clist(c.coq() for c in ctrs),
                "ctrs_intended_coq": clist(c.coq(False) for c in ctrs), "list_fail": False, "oracle": _oracles_coq(), "evals": evals, "same": [], "faults": [],
                "summary": ["%s labels=%r" % (c.id, c.labels) for c in ctrs], "note": "docker label key %r -> {%s=\"%s\"}" % (k, lname, v)}

    def extra_coverage(self, tier):
        return {"label_keys_evaluated": getattr(self, "nsel", 0)}


# ---------------------------------------------------------------------------------------------------------------
# part 3: "(and JSON key extracted without a field list)" -- `| json` exposes every key under its sanitised name
from props.engcommon import EngProp as _EngProp
from egen import JLine as _JLine, base_labels as _base_labels, labels_coq as _labels_coq, dedup as _dedup
from vlib import cZ as _cZ


class JsonKeyP(_EngProp):
    id = "C20"
    name = "jsonkeys"
    rule = ("part `jsonkeys`: records whose line is a JSON object with 1-3 keys drawn from every string of length <= 2 over the valid-UTF-8 part of the alphabet, dotted / dashed / "
            "slashed names (http.status, k8s.pod/name, user-agent), keys starting with a digit, keys that collide after sanitisation and random longer keys; query `| json` "
            "without a field list through Engine.Eval; demanded: no record dropped, line unchanged, and the full label set of every entry is the record's labels plus "
            "sanitised(key)=value for every key (generator's own KeyToLabel; for colliding keys the last one in document order wins); everything equals the model.")

    def gen(self, rng, tier):
        g = _EGen(rng)
        ualpha = [a.decode() for a in ALPHA if a not in (b"\xff", b"\xc3")]
        short = ["".join(t) for n in (1, 2) for t in itertools.product(ualpha, repeat=n)]
        fixed = ["http.status", "k8s.pod/name", "user-agent", "a.b", "a.b.c", ".a", "a.", "9x", "x y", "a.b-c", "é.x", "level", "com.docker.compose.service"]
        keys = fixed + rng.sample(short, {"quick": 50, "thorough": len(short), "search": 80}[tier])
        for _ in range({"quick": 30, "thorough": 300, "search": 60}[tier]):
            keys.append("".join(rng.choice(ualpha) for _ in range(rng.randint(3, 10))))
        self.njson = len(keys)
        cases = []
        for i in range(0, len(keys), 4):
            cases.append(self.one(rng, g, keys[i:i + 4]))
        return cases

    def one(self, rng, g, ks):
        jsonl, docs, lines = [], [], []
        for k in ks:
            pairs = [(k, rng.choice(["v", "500", "x y"]))]
            if rng.random() < 0.4:
                pairs.append((rng.choice(["level", "other", k.replace(".", "_"), k.replace(".", "-")]), "w"))
            rng.shuffle(pairs)
            jl = _JLine(rng, pairs)
            docs.append(jl); lines.append(jl.text); jsonl.append((_B(jl.text), jl.coq))
        recs = g.records(lines, with_attrs=False)
        for r in recs:
            r["attrs"] = [("app", "web")] if rng.random() < 0.5 else []
        pipe = [g.st_json()]
        sel = g.selector(extra=False)
        q = g.query_text(sel, pipe, "spaced")
        rels = ["RelCount 0 %d" % len(recs)]
        for r, jl in zip(recs, docs):
            d = _base_labels(r)
            for k, x in jl.complete:
                if x.render is not None:
                    d[_ktl(_B(k))] = x.render
            rels.append("RelLine 0 %s %s" % (_cZ(r["ts"]), cbytes(r["line"])))
            rels.append("RelLabels 0 %s %s" % (_cZ(r["ts"]), _labels_coq(d)))
        return {"kind": "jsonkeys", "recs": [g.rec_json(r) for r in recs], "oracle": _oracles_coq(jsonl=_dedup(jsonl)),
                "evals": [{"q": b64e(q), "qcoq": g.query_coq(sel, pipe), "label": [], "line": [], "limit": 0}], "rels": rels,
                "stages": ["json"], "note": "json keys %r" % (ks,)}

    def extra_coverage(self, tier):
        return {"json_keys_evaluated": getattr(self, "njson", 0)}


P.name = "mapping"
PROP = P()
PROP.parts = [PROP, SelP(), JsonKeyP()]
