"""C20: KeyToLabel — exhaustive short strings over a representative alphabet + random longer keys."""
import itertools
from vlib import cbytes, clist, b64e, b64d

ALPHA = [b"a", b"Z", b"0", b"9", b"_", b".", b"-", b"/", b" ", "é".encode(), "世".encode(), b"\xff", b"\xc3"]
BATCH = 120


class P:
    id = "C20"
    driver = "C20"
    shard = 8
    chunk = 4
    rule = ("keys = every string of length <= L over the 13-symbol alphabet {a,Z,0,9,_,.,-,/,space,e-acute,U+4E16,0xff,0xc3} "
            "(L=3 quick, L=5 thorough; complete enumeration) plus random keys of length 4..40 over that alphabet and arbitrary bytes; "
            "batched %d keys per case. A key is non-trivial when it is not already a valid label (the mapping has to change it); "
            "distinct = distinct key bytes.") % BATCH
    trusted = ["Go range-over-string UTF-8 decoding modelled by Base/Utf8.v (validated by this correspondence incl. invalid bytes)"]
    assumptions = ["collision freedom of sanitised names within one container is a hypothesis of ktl_selectable (C02 model)"]
    exhaustive = {"quick": True, "thorough": True}

    def gen(self, rng, tier):
        L = 5 if tier == "thorough" else 3
        keys = []
        for n in range(L + 1):
            for t in itertools.product(ALPHA, repeat=n):
                keys.append(b"".join(t))
        nrand = {"quick": 2000, "thorough": 20000, "search": 20000}[tier]
        if tier == "search":
            keys = []
        for _ in range(nrand):
            n = rng.randint(4, 40)
            if rng.random() < 0.7:
                keys.append(b"".join(rng.choice(ALPHA) for _ in range(n)))
            else:
                keys.append(bytes(rng.randrange(256) for _ in range(n)))
        self.nkeys = len(keys)
        return [{"keys": [b64e(k) for k in keys[i:i + BATCH]]} for i in range(0, len(keys), BATCH)]

    def request(self, c):
        return {"cmd": "keytolabel", "inputs": c["keys"]}

    def to_coq(self, c, r):
        outs = r.get("outputs") or []
        return "mk %s %s" % (clist(cbytes(b64d(k)) for k in c["keys"]), clist(cbytes(b64d(o)) for o in outs))

    def model_exprs(self, term):
        return ["map key_to_label (keys (%s))" % term]

    def trivial(self, c, r):
        return False

    def sample(self, c, r):
        ks = [b64d(k) for k in c["keys"][:4]]
        os_ = [b64d(o) for o in (r.get("outputs") or [])[:4]]
        return {"keys": [repr(k) for k in ks], "observed": [repr(o) for o in os_]}

    def distribution(self, cases, resps):
        import re
        n = changed = multibyte = 0
        lens = {}
        for c, r in zip(cases, resps):
            for k, o in zip(c["keys"], r.get("outputs") or []):
                kb = b64d(k)
                n += 1
                changed += (k != o)
                multibyte += any(x >= 0x80 for x in kb)
                lens[min(len(kb), 10)] = lens.get(min(len(kb), 10), 0) + 1
        return {"keys": n, "changed_by_mapping": changed, "with_non_ascii": multibyte,
                "length_histogram(10=10+)": {str(k): v for k, v in sorted(lens.items())}}

    def extra_coverage(self, tier):
        return {"keys_evaluated": getattr(self, "nkeys", 0)}

    def shrink(self, c):
        ks = c["keys"]
        if len(ks) > 1:
            h = len(ks) // 2
            yield {"keys": ks[:h]}
            yield {"keys": ks[h:]}
        elif ks:
            kb = b64d(ks[0])
            for i in range(len(kb)):
                yield {"keys": [b64e(kb[:i] + kb[i + 1:])]}


PROP = P()
