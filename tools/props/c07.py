"""C07: rewriting stages change exactly what LogQL says they change.  Expectations (full label set and line of every
entry) are computed by the generator from its own reading of LogQL, independently of model and implementation."""
from vlib import cbytes, b64e, cZ
import egen
from egen import EGen, B, oracles_coq, dedup, base_labels, labels_coq, gen_template, expand_py, key_to_label
from props.engcommon import EngProp

E_TMPL = b"template error"


def set_error(d, typ):
    if b"__error__" in d:
        return d
    d = dict(d)
    d[b"__error__"] = typ
    d[b"__error_details__"] = b"?"
    return d


class P(EngProp):
    id = "C07"
    rule = ("per case one rewriting stage (or a chain of two) after an always-true selector over 2-8 records with random attributes: label_format renames (dst absent/present, "
            "src absent/present, self-rename, chains), label_format templates, line_format templates (text, .label, __line__, __timestamp__, ToUpper/ToLower, a call failing on "
            "some records only, a call failing always), the same line_format template in two stages of one query and one query evaluated twice in one process, drop/keep with names and =,!=,=~,!~ value matchers incl. name+matcher on one label, two or three matchers on the same label and values containing one another, "
            "drop / keep value matchers on labels that `| json` extracted from numbers and booleans, a failing template followed by drop / keep (the error labels are ordinary labels to them), decolorize on lines with CSI sequences introduced by ESC [ or by the single 8-bit introducer U+009B. For every entry the generator computes the expected line and the expected full label set from the LogQL reading of the stage; "
            "the check demands them on the observed result, demands that no entry is dropped (count = N), and compares with the model.")

    def gen(self, rng, tier):
        n = {"quick": 220, "thorough": 2500, "search": 1000}[tier]
        g = EGen(rng)
        cases = []
        for i in range(n):
            kind = ["rename", "mixed", "tmpl", "linefmt", "linefmt", "drop", "keep", "decolor", "chain", "rename", "mixed", "drop", "dupfmt", "twice", "typed", "errkeep"][i % 16]
            cases.append(self.one(rng, g, kind))
        return cases

    def one(self, rng, g, kind):
        nrec = rng.randint(2, 8)
        lines = [rng.choice(egen.PLAIN_LINES[:12]) for _ in range(nrec)]
        deco = []
        if kind == "decolor":
            ESC = "\x1b"
            lines, plain = [], []
            for _ in range(nrec):
                base = rng.choice(["error: timeout", "info ok", "GET /a 200", "warn disk", "plain", ""])
                if rng.random() < 0.75:
                    k = rng.randint(0, len(base))
                    k2 = rng.randint(k, len(base))
                    csi = rng.choice([ESC + "[", ESC + "[", "\u009b"])       # 7-bit and 8-bit (C1) introducer
                    col = base[:k] + csi + rng.choice(["31", "1;32", "0", "38;5;12", ""]) + "m" + base[k:k2] + (csi + "0m" if rng.random() < 0.6 else "") + base[k2:]
                    lines.append(col); plain.append(base)
                    deco.append((B(col), B(base)))
                else:
                    lines.append(base); plain.append(base)
        jsonl = []
        jdocs = None
        if kind == "typed":
            # labels extracted by `| json` from numbers and booleans: a value matcher of drop / keep sees their text
            jdocs = []
            lines = []
            for _ in range(nrec):
                pairs = [("status", rng.choice([("num", "500", "500"), ("num", "404", "404"), ("num", "200", "200"), "500"])),
                         ("ok", rng.choice([True, False, "true"])), ("app", rng.choice(["web", "api"]))]
                if rng.random() < 0.5:
                    pairs.append(("ratio", rng.choice([("num", "0.5", "0.5"), ("num", "1.0", "1")])))
                rng.shuffle(pairs)
                jl = egen.JLine(rng, pairs)
                jdocs.append(jl); lines.append(jl.text); jsonl.append((B(jl.text), jl.coq))
        recs = g.records(lines, with_attrs=False)
        names = ["app", "level", "n", "env", "t", "status"]
        for r in recs:
            r["attrs"] = [(k, rng.choice(egen.ATTR_POOL[k])) for k in rng.sample(names, rng.randint(1, 5))]
        pipe, rels = [], []
        exp = [(r, r["line"], base_labels(r)) for r in recs]       # (record, expected line, expected labels)

        def apply(stage_fn):
            nonlocal exp
            exp = [(r,) + stage_fn(r, l, d) for r, l, d in exp]

        def do_rename():
            pairs = []
            for _ in range(rng.randint(1, 2)):
                src = rng.choice(names + ["nosuch"])
                dst = rng.choice(names + ["fresh", "fresh2", src])
                pairs.append((dst, src))
            if len({d for d, _ in pairs}) < len(pairs):      # duplicate target is a static error
                pairs = pairs[:1]
            pipe.append(g.st_label_format(pairs, []))

            def f(r, l, d):
                d = dict(d)
                for dst, src in pairs:           # applied in order
                    if B(src) in d and src != dst:
                        d[B(dst)] = d.pop(B(src))
                return l, d
            apply(f)

        def do_tmpl():
            dst = rng.choice(names + ["fresh"])
            t, coq, items = gen_template(rng, names, allow_fail=True, guard_label="t")
            pipe.append(g.st_label_format([], [(dst, t, coq)]))

            def f(r, l, d):
                v = expand_py(items, r["ts"], l, d)
                if v is None:
                    return l, set_error(d, E_TMPL)
                d = dict(d); d[B(dst)] = v
                return l, d
            apply(f)

        def do_mixed():
            """one label_format stage holding a rename AND a template that reads the renamed label under its old and its new name:
            renames are applied first, templates are expanded over the labels as they are after the renames"""
            src = rng.choice(names)
            dst = rng.choice([n for n in names + ["fresh"] if n != src])
            tdst = rng.choice([n for n in names + ["fresh2"] if n not in (src, dst)])
            t, coq, items = gen_template(rng, [src, dst, src, dst] + names[:2], allow_fail=False, guard_label="t", first_labels=rng.choice([[dst, src], [src], [dst]]))
            pipe.append(g.st_label_format([(dst, src)], [(tdst, t, coq)]))

            def f(r, l, d):
                d = dict(d)
                if B(src) in d:
                    d[B(dst)] = d.pop(B(src))
                v = expand_py(items, r["ts"], l, d)
                if v is None:
                    return l, set_error(d, E_TMPL)
                d[B(tdst)] = v
                return l, d
            apply(f)

        def do_linefmt():
            st = g.st_line_format(names, allow_fail=True, guard_label="t")
            pipe.append(st)

            def f(r, l, d):
                v = expand_py(st["items"], r["ts"], l, d)
                if v is None:
                    return l, set_error(d, E_TMPL)
                return v, d
            apply(f)

        def do_dropkeep(which, extra=()):
            nm = rng.sample(names + ["nosuch"] + list(extra), rng.randint(0, 2))
            ms = []
            same = rng.choice(names) if rng.random() < 0.35 else None       # several matchers on ONE label: each list item selects on its own
            for _ in range(rng.randint(2, 3) if same else (rng.randint(0, 2) if nm else rng.randint(1, 2))):
                l = same or rng.choice(names if rng.random() < 0.7 or not nm else nm)
                op = rng.choice(["=", "=", "!="]) if same else rng.choice(["=", "!="])
                ms.append(self.eq_matcher(rng, l, op))
            pipe.append(g.st_dropkeep(which, nm, ms))

            def sel(k, v):
                if k in [B(x) for x in nm]:
                    return True
                for m in ms:
                    if B(m["l"]) == k and ((v == B(m["v"])) == (m["op"] == "=")):
                        return True
                return False

            def f(r, l, d):
                if which == "drop":
                    return l, {k: v for k, v in d.items() if not sel(k, v)}
                return l, {k: v for k, v in d.items() if sel(k, v)}
            apply(f)

        def do_decolor():
            pipe.append(g.st_simple("decolor"))
            m = dict(deco)

            def f(r, l, d):
                return m.get(l, l), d
            apply(f)

        twice = False
        if kind == "typed":
            for r in recs:
                r["attrs"] = []
            exp = [(r, r["line"], base_labels(r)) for r in recs]
            pipe.append(g.st_json())
            jmap = {r["ts"]: jl for r, jl in zip(recs, jdocs)}

            def fj(r, l, d):
                d = dict(d)
                for k, x in jmap[r["ts"]].complete:
                    if x.render is not None:
                        d[key_to_label(B(k))] = x.render
                return l, d
            apply(fj)
            which = rng.choice(["keep", "keep", "drop"])
            nm = rng.sample(["app", "msg"], rng.randint(0, 1))
            ms = [{"l": l, "op": op, "v": v, "k": "m", "pair": "(%s,%s)" % (cbytes(B(l)), egen.sm_coq(op, v)), "sm": egen.sm_coq(op, v)}
                  for l, op, v in rng.sample([("status", "=", "500"), ("status", "!=", "500"), ("ok", "=", "true"), ("ok", "!=", "false"), ("status", "=", "404"), ("ratio", "=", "0.5"), ("ratio", "=", "1")], rng.randint(1, 2))]
            pipe.append(g.st_dropkeep(which, nm, ms))

            def selt(k, v):
                if k in [B(x) for x in nm]:
                    return True
                return any(B(m["l"]) == k and ((v == B(m["v"])) == (m["op"] == "=")) for m in ms)

            def fk(r, l, d):
                return l, {k: v for k, v in d.items() if (selt(k, v) if which == "keep" else not selt(k, v))}
            apply(fk)
        elif kind in ("dupfmt", "twice"):
            # the SAME template text in two stages of one query (each stage has its own line / timestamp), or one query evaluated
            # twice in one process: a template is bound to the stage instance and the evaluation it was compiled for
            t = rng.choice(["<{{ __line__ }}>", "{{ __timestamp__ | unixEpochNanos }}:{{ __line__ }}", "{{ .app }}/{{ __line__ }}"])
            items = {"<{{ __line__ }}>": [("text", "<"), ("line",), ("text", ">")],
                     "{{ __timestamp__ | unixEpochNanos }}:{{ __line__ }}": [("ts",), ("text", ":"), ("line",)],
                     "{{ .app }}/{{ __line__ }}": [("label", "app"), ("text", "/"), ("line",)]}[t]
            coq = {"<{{ __line__ }}>": "[TText %s; TLine; TText %s]" % (cbytes(B("<")), cbytes(B(">"))),
                   "{{ __timestamp__ | unixEpochNanos }}:{{ __line__ }}": "[TTsNanos; TText %s; TLine]" % cbytes(B(":")),
                   "{{ .app }}/{{ __line__ }}": "[TLabel %s; TText %s; TLine]" % (cbytes(B("app")), cbytes(B("/")))}[t]
            for _ in range(2 if kind == "dupfmt" else 1):
                st = {"k": "linefmt", "t": t, "items": items, "coq": "ELineFormat %s" % coq}
                pipe.append(st)

                def f(r, l, d, items=items):
                    v = expand_py(items, r["ts"], l, d)
                    return (v, d) if v is not None else (l, set_error(d, E_TMPL))
                apply(f)
            twice = kind == "twice"
        elif kind == "rename":
            do_rename()
        elif kind == "mixed":
            do_mixed()
        elif kind == "tmpl":
            do_tmpl()
        elif kind == "linefmt":
            do_linefmt()
        elif kind in ("drop", "keep"):
            do_dropkeep(kind)
        elif kind == "decolor":
            do_decolor()
        elif kind == "errkeep":
            # a template that fails (on some or all records) flags __error__ / __error_details__; the drop / keep stage after it treats
            # those two labels like any other: keep removes them unless listed, drop removes them only when named
            for _ in range(40):
                save = (list(pipe), list(exp))
                (do_tmpl if rng.random() < 0.5 else do_linefmt)()
                if any(B("__error__") in d for _, _, d in exp):
                    break
                del pipe[:]; pipe.extend(save[0]); exp[:] = save[1]
            do_dropkeep(rng.choice(["keep", "keep", "drop"]), extra=["__error__", "__error_details__", "__error__"])
        else:
            for k in rng.sample(["rename", "tmpl", "linefmt", "drop", "keep"], 2):
                {"rename": do_rename, "tmpl": do_tmpl, "linefmt": do_linefmt, "drop": lambda: do_dropkeep("drop"), "keep": lambda: do_dropkeep("keep")}[k]()
        sel = g.selector(extra=False)
        q = g.query_text(sel, pipe, "spaced")
        rels = []
        nev = 2 if twice else 1
        for ev in range(nev):
            rels.append("RelCount %d %d" % (ev, len(recs)))
            for r, l, d in exp:
                rels.append("RelLine %d %s %s" % (ev, cZ(r["ts"]), cbytes(l)))
                rels.append("RelLabels %d %s %s" % (ev, cZ(r["ts"]), labels_coq(d)))
        return {"kind": kind, "recs": [g.rec_json(r) for r in recs], "oracle": oracles_coq(jsonl=dedup(jsonl), decolor=dedup(deco)),
                "evals": [{"q": b64e(q), "qcoq": g.query_coq(sel, pipe), "label": [], "line": [], "limit": 0}] * nev, "rels": rels,
                "stages": [s["k"] for s in pipe], "note": "expected line and full label set of every entry computed by the generator"}

    @staticmethod
    def eq_matcher(rng, l, op):
        v = rng.choice(egen.ATTR_POOL.get(l, ["x"]) + ["pro", "", "0"])
        return {"l": l, "op": op, "v": v, "k": "m", "pair": "(%s,%s)" % (cbytes(B(l)), egen.sm_coq(op, v)), "sm": egen.sm_coq(op, v)}


PROP = P()
