"""C05: logql.Parse — random concrete syntax, layouts, static-rule violations, token-level corruptions."""
from vlib import cbytes, clist, cZ, cbool, copt, b64e, b64d
import qgen


def tok_coq(t):
    ty = t["type"]
    txt = cbytes(b64d(t["text"]))
    if ty == "Number":
        return "tnum %s %s %s" % (txt, copt(t.get("float")), copt(None if "int" not in t else cZ(int(t["int"]))))
    if ty == "Duration":
        return "tdur %s %s" % (txt, copt(None if "dur" not in t else cZ(int(t["dur"]))))
    if ty == "Bytes":
        return "tbytes %s %s" % (txt, copt(t.get("bytes")))
    if ty == "String":
        re = None if "re" not in t else clist(cbytes(b64d(n)) for n in t["re"])
        return "tstr %s %s %s" % (txt, copt(re), cbool(t.get("re_anch", False)))
    return "tk T%s %s" % (ty, txt)


class P:
    id = "C05"
    driver = "C05"
    uses_tables = True
    shard = 30
    rule = ("(1) random abstract syntax trees over the whole supported grammar (selectors, every pipeline stage kind, predicates with and/or/,/juxtaposition/parentheses, "
            "number/duration/bytes/ip literals in several spellings, range/vector aggregations with parameters, grouping before or after, range before or after the pipeline, "
            "offset, unwrap with conversions and filters, label_replace, vector(), binary operations with modifiers over parenthesised operands) rendered under three layouts "
            "(tight, spaced, wild = random spaces/newlines/tabs/# comments) and two quoting styles; expectation = canonical dump of the generated tree, computed by the generator; "
            "(2) a list of statically invalid queries, expectation = rejected; (3) single-token corruptions (delete / duplicate / swap / replace) of valid queries, no expectation "
            "(model-vs-implementation only). Non-trivial = query with at least 4 tokens; distinct = distinct query text.")
    trusted = ["text/scanner-based lexer is NOT modelled: the model parser consumes Go's own token list; results of strconv/regexp/humanize/duration parsing consulted by the "
               "parser are recorded per token by the harness and passed to the model as oracle fields"]
    assumptions = ["ParseOptions{AllowDots:false} (what the CLI uses)"]

    def gen(self, rng, tier):
        n = {"quick": 500, "thorough": 4000, "search": 3000}[tier]
        g = qgen.Gen(rng)
        cases = []
        for q in qgen.INVALID:
            cases.append({"q": b64e(q), "expect": "reject", "kind": "invalid"})
        for i in range(n):
            ast = g.query()
            r = qgen.Renderer(rng, plain=(i % 7 == 0))
            toks = r.expr(ast)
            style = ["tight", "spaced", "wild", "wild"][i % 4]
            q = qgen.layout(rng, toks, style)
            cases.append({"q": b64e(q), "expect": b64e(qgen.dexpr(ast)), "kind": "valid-" + style})
            if i % 3 == 0 and len(toks) > 2:
                # single-token corruption
                t2 = list(toks)
                k = rng.randrange(len(t2))
                m = rng.choice(["del", "dup", "swap", "repl", "trunc", "trunc"])
                if m == "trunc":
                    t2 = t2[:max(1, k)]          # the query cut off after any token
                elif m == "del":
                    del t2[k]
                elif m == "dup":
                    t2.insert(k, t2[k])
                elif m == "swap" and k + 1 < len(t2):
                    t2[k], t2[k + 1] = t2[k + 1], t2[k]
                else:
                    t2[k] = rng.choice(["|", ")", "(", ",", "by", "5m", "and", "=", "==", "foo", '"s"', "1", "}", "{", "[", "unwrap", "|=", "offset", "bool", "-"])
                cases.append({"q": b64e(qgen.layout(rng, t2, "spaced")), "expect": None, "kind": "corrupt-" + m})
        return cases

    def request(self, c):
        return {"cmd": "parse", "query": c["q"]}

    def to_coq(self, c, r):
        toks = clist(tok_coq(t) for t in (r.get("tokens") or []))
        lex_ok = "tokenize_error" not in r
        obs = copt(None if "ast" not in r else cbytes(b64d(r["ast"])))
        obs_np = copt(None if "ast_np" not in r else cbytes(b64d(r["ast_np"])))
        ex = c["expect"]
        exs = "None" if ex is None else "(Some None)" if ex == "reject" else "(Some (Some %s))" % cbytes(b64d(ex))
        return "mk %s %s %s %s %s" % (toks, cbool(lex_ok), obs, obs_np, exs)

    def model_exprs(self, term):
        return ["model (%s)" % term]

    def trivial(self, c, r):
        return len(r.get("tokens") or []) < 4

    def sample(self, c, r):
        return {"query": b64d(c["q"]).decode("utf-8", "replace"), "kind": c["kind"],
                "expected": None if c["expect"] in (None, "reject") else b64d(c["expect"]).decode("utf-8", "replace")[:300],
                "expect_reject": c["expect"] == "reject",
                "observed": b64d(r["ast"]).decode("utf-8", "replace")[:300] if "ast" in r else ("rejected: " + (r.get("parse_error") or "")[:120])}

    def distribution(self, cases, resps):
        d = {"kind": {}, "accepted": 0, "rejected": 0, "tokens_total": 0}
        for c, r in zip(cases, resps):
            d["kind"][c["kind"]] = d["kind"].get(c["kind"], 0) + 1
            d["accepted" if "ast" in r else "rejected"] += 1
            d["tokens_total"] += len(r.get("tokens") or [])
        return d


PROP = P()
