"""C05: logql.Parse — random concrete syntax, layouts, static-rule violations, token-level corruptions."""
from vlib import cbytes, clist, cZ, cbool, copt, b64e, b64d
import qgen


def tok_coq(t):
    ty = t["type"]
    txt = cbytes(b64d(t["text"]))
    if ty == "Number":
        return "tnum %s %s %s" % (txt, copt(t.get("float")), copt(None if "int" not in t else cZ(int(t["int"]))))
    if ty == "Duration":
        return "tdur %s %s" % (txt, copt(None if "dur" not in t else cZ(int(t["dur"]))))
    if ty == "Bytes":
        return "tbytes %s %s" % (txt, copt(t.get("bytes")))
    if ty == "String":
        re = None if "re" not in t else clist(cbytes(b64d(n)) for n in t["re"])
        return "tstr %s %s %s" % (txt, copt(re), cbool(t.get("re_anch", False)))
    return "tk T%s %s" % (ty, txt)


class P:
    id = "C05"
    driver = "C05"
    uses_tables = True
    shard = 30
    rule = ("(1) random abstract syntax trees over the whole supported grammar (selectors, every pipeline stage kind, predicates with and/or/,/juxtaposition/parentheses, "
            "number/duration/bytes/ip literals in several spellings, range/vector aggregations with parameters, grouping before or after, range before or after the pipeline, "
            "offset, unwrap with conversions and filters, label_replace, vector(), binary operations with modifiers over parenthesised operands) rendered under three layouts "
            "(tight, spaced, wild = random spaces/newlines/tabs/# comments) and two quoting styles; expectation = canonical dump of the generated tree, computed by the generator; "
            "(2) a list of statically invalid queries, expectation = rejected; (3) single-token corruptions (delete / duplicate / swap / replace) of valid queries, no expectation "
            "(model-vs-implementation only). Non-trivial = query with at least 4 tokens; distinct = distinct query text.")
    trusted = ["text/scanner-based lexer is NOT modelled: the model parser consumes Go's own token list; results of strconv/regexp/humanize/duration parsing consulted by the "
               "parser are recorded per token by the harness and passed to the model as oracle fields"]
    assumptions = ["ParseOptions{AllowDots:false} (what the CLI uses)"]

    def gen(self, rng, tier):
        n = {"quick": 500, "thorough": 4000, "search": 3000}[tier]
        g = qgen.Gen(rng)
        cases = []
        for q in qgen.INVALID:
            cases.append({"q": b64e(q), "expect": "reject", "kind": "invalid"})
        # a scalar that is the left operand of a tighter operator on the right of a set operator: the right operand of the set operator is
        # the whole product / comparison, not the scalar (D36)
        v = lambda t: {"k": "vector", "text": t, "v": float(t)}
        lit = lambda t: {"k": "lit", "toks": [t], "v": float(t)}
        b = lambda l, op, r: {"k": "bin", "l": l, "op": op, "mod": {}, "r": r}
        for ast in (b(v("1"), "or", b(lit("2"), "*", v("3"))), b(v("1"), "unless", b(b(lit("2"), "^", v("3")), ">", v("100"))),
                    b(v("1"), "and", b(lit("1"), "+", v("2"))), b(v("1"), "or", b(b(lit("2"), "*", v("3")), "+", lit("4"))),
                    b(b(lit("2"), "*", v("3")), "or", v("1"))):
            toks = qgen.Renderer(rng, plain=True).expr(ast)
            for style in ("tight", "spaced"):
                cases.append({"q": b64e(qgen.layout(rng, toks, style)), "expect": b64e(qgen.dexpr(ast)), "kind": "valid-mixed"})
        for i in range(n):
            ast = g.query()
            r = qgen.Renderer(rng, plain=(i % 7 == 0))
            toks = r.expr(ast)
            style = ["tight", "spaced", "wild", "wild"][i % 4]
            q = qgen.layout(rng, toks, style)
            cases.append({"q": b64e(q), "expect": b64e(qgen.dexpr(ast)), "kind": "valid-" + style})
            if i % 3 == 0 and len(toks) > 2:
                # single-token corruption
                t2 = list(toks)
                k = rng.randrange(len(t2))
                m = rng.choice(["del", "dup", "swap", "repl", "trunc", "trunc"])
                if m == "trunc":
                    t2 = t2[:max(1, k)]          # the query cut off after any token
                elif m == "del":
                    del t2[k]
                elif m == "dup":
                    t2.insert(k, t2[k])
                elif m == "swap" and k + 1 < len(t2):
                    t2[k], t2[k + 1] = t2[k + 1], t2[k]
                else:
                    t2[k] = rng.choice(["|", ")", "(", ",", "by", "5m", "and", "=", "==", "foo", '"s"', "1", "}", "{", "[", "unwrap", "|=", "offset", "bool", "-"])
                cases.append({"q": b64e(qgen.layout(rng, t2, "spaced")), "expect": None, "kind": "corrupt-" + m})
        return cases

    def request(self, c):
        return {"cmd": "parse", "query": c["q"]}

    def to_coq(self, c, r):
        toks = clist(tok_coq(t) for t in (r.get("tokens") or []))
        lex_ok = "tokenize_error" not in r
        obs = copt(None if "ast" not in r else cbytes(b64d(r["ast"])))
        obs_np = copt(None if "ast_np" not in r else cbytes(b64d(r["ast_np"])))
        ex = c["expect"]
        exs = "None" if ex is None else "(Some None)" if ex == "reject" else "(Some (Some %s))" % cbytes(b64d(ex))
        return "mk %s %s %s %s %s" % (toks, cbool(lex_ok), obs, obs_np, exs)

    def model_exprs(self, term):
        return ["model (%s)" % term]

    def trivial(self, c, r):
        return len(r.get("tokens") or []) < 4

    def sample(self, c, r):
        return {"query": b64d(c["q"]).decode("utf-8", "replace"), "kind": c["kind"],
                "expected": None if c["expect"] in (None, "reject") else b64d(c["expect"]).decode("utf-8", "replace")[:300],
                "expect_reject": c["expect"] == "reject",
                "observed": b64d(r["ast"]).decode("utf-8", "replace")[:300] if "ast" in r else ("rejected: " + (r.get("parse_error") or "")[:120])}

    def distribution(self, cases, resps):
        d = {"kind": {}, "accepted": 0, "rejected": 0, "tokens_total": 0}
        for c, r in zip(cases, resps):
            d["kind"][c["kind"]] = d["kind"].get(c["kind"], 0) + 1
            d["accepted" if "ast" in r else "rejected"] += 1
            d["tokens_total"] += len(r.get("tokens") or [])
        return d


PROP = P()


# ---------------------------------------------------------------------------------------------------------------
# part 2: the lexer itself (lexer.Tokenize), which part 1 takes from the implementation
from vlib import clist as _clist


class LexP:
    id = "C05"
    name = "lexer"
    driver = "Lex"
    uses_tables = True
    shard = 6
    chunk = 20
    rule = ("part `lexer`: query texts (grammar-derived queries in all three layouts, their single-character mutations -- delete / insert / replace over an alphabet of "
            "operators, quotes, digits, unit letters, '#', '-', '.', '_', spaces and newlines -- and random strings over that alphabet) are tokenized by lexer.Tokenize and by "
            "the Coq model of the lexer (Model/Lexer.v: text/scanner on a fragment, ScanUnit, keyword table and function look-ahead, comments, both string forms, parser flags); "
            "token types and texts must agree, or both must reject. Texts outside the modelled fragment (exponents, hex / octal / binary / separated numbers, character literals, Go "
            "comments, exotic escapes, compound quantities, non-ASCII) are counted as outside the model fragment. 30 texts per case.")
    trusted = ["text/scanner, strutil.Unquote, humanize.ParseBytes and the two ParseDuration functions are modelled only on the fragment described in Model/Lexer.v"]
    assumptions = []
    ALPHA = list('{}()[]|=~!<>+-*/%^,."`#_ \n\t') + list("0159") + list("smhdwbkKMgGiy") + list("axe") + ["by", "rate", "sum", "ip", "or", "unwrap", "5m", "1.5", "0.5h", "10kb", "--x", "=~", "!=", "|=", ">=", "=="]

    def gen(self, rng, tier):
        n = {"quick": 20, "thorough": 200, "search": 60}[tier]
        g = qgen.Gen(rng)
        cases = []
        for _ in range(n):
            items = []
            for j in range(30):
                mode = rng.randrange(10)
                if mode <= 3:
                    ast = g.query()
                    q = qgen.layout(rng, qgen.Renderer(rng, plain=rng.random() < 0.3).expr(ast), rng.choice(["tight", "spaced", "wild"]))
                elif mode <= 7:
                    ast = g.query()
                    q = qgen.layout(rng, qgen.Renderer(rng, plain=True).expr(ast), rng.choice(["tight", "spaced"]))
                    q = q if isinstance(q, str) else q.decode("utf-8", "replace")
                    if q:
                        i = rng.randrange(len(q) + 1)
                        m = rng.randrange(3)
                        if m == 0:
                            q = q[:i] + q[i + 1:]
                        elif m == 1:
                            q = q[:i] + rng.choice(self.ALPHA) + q[i:]
                        else:
                            q = q[:i] + rng.choice(self.ALPHA) + q[i + 1:]
                else:
                    q = "".join(rng.choice(self.ALPHA) for _ in range(rng.randint(0, 10)))
                items.append({"q": b64e(q if isinstance(q, bytes) else q.encode("utf-8", "surrogateescape"))})
            cases.append({"kind": "lexer", "items": items})
        self.nitems = sum(len(c["items"]) for c in cases)
        return cases

    def request(self, c):
        return {"cmd": "tokenizemany", "inputs": [it["q"] for it in c["items"]]}

    def to_coq(self, c, r):
        outs = r.get("outputs")
        if outs is None or len(outs) != len(c["items"]):
            return None
        its = []
        for it, o in zip(c["items"], outs):
            if "err" in o:
                obs = "LObsErr"
            else:
                obs = "LObsOk %s" % _clist("(T%s,%s)" % (t["type"], cbytes(b64d(t["text"]))) for t in o["tokens"])
            its.append("mkl %s (%s)" % (cbytes(b64d(it["q"])), obs))
        return "mk %s" % _clist(its)

    def model_exprs(self, term):
        return ["map (fun c => lex (l_in c)) (items (%s))" % term, "map judge1 (items (%s))" % term]

    def trivial(self, c, r):
        return False

    def sample(self, c, r):
        outs = r.get("outputs") or []
        return {"kind": "lexer", "inputs": [b64d(it["q"]).decode("utf-8", "replace")[:80] for it in c["items"][:4]],
                "observed": [("error" if "err" in o else "%d tokens" % len(o["tokens"])) for o in outs[:4]]}

    def distribution(self, cases, resps):
        d = {"texts": 0, "accepted": 0, "rejected": 0, "tokens": 0}
        for c, r in zip(cases, resps):
            for it, o in zip(c["items"], r.get("outputs") or []):
                d["texts"] += 1
                d["rejected" if "err" in o else "accepted"] += 1
                d["tokens"] += len(o.get("tokens") or [])
        return d

    def extra_coverage(self, tier):
        return {"texts_tokenized": getattr(self, "nitems", 0)}

    def shrink(self, c):
        its = c["items"]
        if len(its) > 1:
            h = len(its) // 2
            yield dict(c, items=its[:h])
            yield dict(c, items=its[h:])
        elif its:
            q = b64d(its[0]["q"])
            for i in range(len(q)):
                yield dict(c, items=[{"q": b64e(q[:i] + q[i + 1:])}])


P.name = "parser"
PROP.parts = [PROP, LexP()]
