"""C01: log queries return exactly the matching lines, whatever the storage offloads."""
from vlib import cbytes, b64e, clist, cZ
import egen
from egen import EGen, B, oracles_coq, dedup, CAPSETS, rand_caps
from props.engcommon import EngProp


def themed_case(rng, g: EGen, tier):
    """one record set + one query; returns (recs, oracle coq, sel, pipe, kinds)"""
    theme = rng.choice(["plain", "plain", "json", "json", "logfmt", "ip", "attrs", "attrs", "mixed", "distinct", "distinct2", "rewrite", "rewrite", "decolor", "unpack", "binary", "nan", "substr", "ipbound"])
    if theme == "substr":
        return substr_case(rng, g)
    if theme == "ipbound":
        return ipbound_case(rng, g)
    if theme in ("distinct2", "rewrite", "decolor", "unpack"):
        return special_case(rng, g, theme)
    if theme == "nan":
        return nan_case(rng, g)
    n = rng.randint(0, 9)
    jsonl, lfl, deco = [], [], []
    typed = []          # JSON keys whose value is a bool / object / array in some record
    lines = []
    labels = list(egen.QLABELS)
    pipe = []
    if theme in ("plain", "attrs", "distinct", "rewrite", "binary"):
        pool = egen.PLAIN_LINES + ([x for x in egen.BIN_LINES] if theme == "binary" else [])
        lines = [rng.choice(pool) for _ in range(n)]
    elif theme == "ip":
        lines = [rng.choice(egen.PLAIN_LINES[12:] + ["peer %s:80" % rng.choice(egen.ADDRS), "%s -> %s" % (rng.choice(egen.ADDRS), rng.choice(egen.ADDRS))]) for _ in range(n)]
    elif theme in ("json", "mixed"):
        for _ in range(n):
            jl = egen.JLine(rng, egen.gen_jdoc(rng), malform=rng.choice([None, None, None, None, "cut", "trailing", "array", "bad"]))
            lines.append(jl.text)
            jsonl.append((B(jl.text), jl.coq))
            typed += [k for k, v in jl.pairs if isinstance(v, (bool, dict, list))]
    elif theme == "logfmt":
        for _ in range(n):
            l = egen.LFLine(rng, malform=rng.random() < 0.15)
            lines.append(l.text)
            lfl.append((B(l.text), l.coq))
    recs = g.records(lines, with_attrs=True, ties=rng.random() < 0.2)
    if theme == "binary":
        # arbitrary bytes in label values too
        for r in recs:
            if rng.random() < 0.4:
                r["attrs"].append(("raw", rng.choice([b"\xff", b"a\x00b", "é".encode(), b""])))
    words = egen.WORDS
    # pipeline
    nst = rng.randint(0, 4)
    if theme == "json":
        pipe.append(rng.choice([g.st_json(), g.st_json(labels=rng.sample(egen.JKEYS[:6], 2)),
                                g.st_json(exprs=[("x", "nested.a", [("k", "nested"), ("k", "a")]), ("y", "list[0]", [("k", "list"), ("i", 0)])], labels=["level"][:rng.randint(0, 1)])]))
        labels = ["level", "msg", "status", "app", "n", "dur", "user_name", "http_status", "size", "addr", "x", "y", "nosuch"]
    elif theme == "logfmt":
        pipe.append(rng.choice([g.st_logfmt(), g.st_logfmt(labels=["level", "msg"]), g.st_logfmt(labels=["n"], exprs=[("lvl", "level")])]))
        labels = ["level", "msg", "status", "app", "n", "dur", "size", "addr", "lvl", "nosuch"]
    elif theme == "mixed":
        pipe.append(g.line_filter(words=["level", "error", "{", "msg", "a"]))
        pipe.append(g.st_json())
        labels = ["level", "msg", "status", "app", "n", "nosuch"]
    for _ in range(nst):
        k = rng.randrange(10)
        if k <= 2:
            pipe.append(g.line_filter(words=words))
        elif k == 3 and theme in ("ip", "plain", "attrs"):
            pipe.append(g.ip_line_filter())
        elif k <= 6:
            pipe.append(g.label_filter(labels + ["nosuch"]))
        elif k == 7 and theme in ("distinct", "attrs", "logfmt", "json"):
            pipe.append(g.st_distinct(rng.sample(labels, rng.randint(1, 2))))
        elif k == 8 and theme in ("rewrite", "attrs", "plain"):
            pipe.append(g.st_line_format([l for l in labels if "." not in l and "-" not in l], allow_fail=False))
        elif k == 9:
            pipe.append(g.st_dropkeep(rng.choice(["drop", "keep"]), rng.sample(labels, rng.randint(1, 2)), []))
        else:
            pipe.append(g.line_filter(words=words))
    if theme == "json" and typed and rng.random() < 0.5:
        # a number comparison on a label that is present but is not a number (JSON true / object / array): kept with __error__, never dropped
        l = egen.key_to_label(B(rng.choice(typed))).decode()
        op = rng.choice(["==", "!=", ">", ">=", "<", "<="])
        text = rng.choice(["0", "1", "5"])
        p = {"k": "num", "l": l, "op": op, "text": text, "v": float(text), "coq": "EPNum %s %s (fbits %d)" % (cbytes(B(l)), egen.OPNAME[op], egen.fbits(float(text)))}
        pipe[0] = g.st_json()          # all fields, so that the typed value is exposed
        pipe.insert(1, {"k": "filter", "p": p, "coq": "ELabelFilter (%s)" % p["coq"]})
    if theme == "ip" and rng.random() < 0.7:
        pipe.insert(0, g.ip_line_filter())
    if theme == "attrs" and rng.random() < 0.25:
        # ip() label filter on the addr attribute (single address, prefix, range incl. its bounds)
        op = rng.choice(["==", "!="])
        txt, coq = egen.gen_ippat(rng, egen.ADDRS)
        p = {"k": "ip", "l": "addr", "op": op, "v": txt, "coq": "EPIP %s %s %s" % (cbytes(B("addr")), egen.cbool(op == "!="), coq)}
        pipe.append({"k": "filter", "p": p, "coq": "ELabelFilter (%s)" % p["coq"]})
    if theme == "attrs" and rng.random() < 0.3:
        # not-a-number and infinite label values under a number comparison (IEEE 754: every ordered comparison with NaN is false, != is true)
        for r in recs:
            if rng.random() < 0.7:
                r["attrs"] = [(k, v) for k, v in r["attrs"] if k != "n"] + [("n", rng.choice(["NaN", "nan", "NAN", "+Inf", "-Inf", "Infinity", "5", "+nan", "7"]))]
        op = rng.choice(["<", "<=", "<", "<=", ">", ">=", "==", "!="])
        text = rng.choice(["5", "0", "1000"])
        p = {"k": "num", "l": "n", "op": op, "text": text, "v": float(text), "coq": "EPNum %s %s (fbits %d)" % (cbytes(B("n")), egen.OPNAME[op], egen.fbits(float(text)))}
        pipe.append({"k": "filter", "p": p, "coq": "ELabelFilter (%s)" % p["coq"]})
    if theme == "distinct" and not any(s["k"] == "distinct" for s in pipe):
        pipe.insert(rng.randint(0, len(pipe)), g.st_distinct(rng.sample(egen.QLABELS, rng.randint(1, 2))))
        pipe.append(g.line_filter(words=words))      # a line filter AFTER distinct: the D12 shape
    sel = g.selector()
    pipe = g.disambiguate(pipe)
    return recs, oracles_coq(jsonl=dedup(jsonl), logfmt=dedup(lfl), decolor=deco), sel, pipe, theme


def substr_case(rng, g: EGen):
    """string matchers on labels compare the WHOLE value (= / != are equality, not containment), on lines they test containment:
    label values that contain, start with, end with or extend the matcher's value"""
    fam = rng.choice([("env", ["prod", "production", "nonprod", "pro", "dev", "prod "]), ("status", ["5", "500", "5.0", "50", "05", ""]), ("app", ["web", "web1", "aweb", "we", "", "WEB"])])
    l, pool = fam
    n = rng.randint(2, 8)
    recs = g.records([rng.choice(egen.PLAIN_LINES[:8] + pool) for _ in range(n)], with_attrs=False)
    for r in recs:
        if rng.random() < 0.85:
            r["attrs"] = [(l, rng.choice(pool))]
    def m(op, v):
        return {"l": l, "op": op, "v": v, "k": "m", "coq": "em %s %s" % (cbytes(B(l)), egen.sm_coq(op, v)), "sm": egen.sm_coq(op, v)}
    sel = g.selector(extra=False)
    pipe = []
    v = rng.choice(pool)
    op = rng.choice(["=", "!=", "!="])
    where = rng.randrange(3)
    if where == 0:
        sel.append(m(op, v))
        rng.shuffle(sel)
    else:
        leaf = {"k": "m", "l": l, "op": op, "v": v, "coq": "EPMatch %s %s" % (cbytes(B(l)), egen.sm_coq(op, v)), "pure": True}
        if where == 2:
            v2 = rng.choice(pool)
            op2 = rng.choice(["=", "!="])
            leaf2 = {"k": "m", "l": l, "op": op2, "v": v2, "coq": "EPMatch %s %s" % (cbytes(B(l)), egen.sm_coq(op2, v2)), "pure": True}
            bop = rng.choice(["and", "or"])
            leaf = {"k": "bin", "op": bop, "a": leaf, "b": leaf2, "coq": "%s (%s) (%s)" % ("EPAnd" if bop == "and" else "EPOr", leaf["coq"], leaf2["coq"])}
        pipe.append({"k": "filter", "p": leaf, "coq": "ELabelFilter (%s)" % leaf["coq"]})
    if rng.random() < 0.4:
        pipe.append(g.line_filter(op=rng.choice(["=", "!="]), needle=rng.choice(pool)))
    return recs, oracles_coq(), sel, g.disambiguate(pipe), "substr"


def ipbound_case(rng, g: EGen):
    """ip() ranges and prefixes contain their first and last address and nothing just outside them"""
    f = lambda n: "%d.%d.%d.%d" % (n >> 24, (n >> 16) & 255, (n >> 8) & 255, n & 255)
    if rng.random() < 0.5:
        lo = egen.ip_to_int(rng.choice(egen.ADDRS))
        hi = lo + rng.choice([0, 1, 5, 255, 70000])
        txt, coq = "%s-%s" % (f(lo), f(hi)), "(IPRange %d %d)" % (lo, hi)
    else:
        bits = rng.choice([8, 16, 24, 30, 31, 32])
        a = egen.ip_to_int(rng.choice(egen.ADDRS))
        lo = a & ~((1 << (32 - bits)) - 1)
        hi = lo | ((1 << (32 - bits)) - 1)
        txt, coq = "%s/%d" % (f(a), bits), "(IPPrefix %d %d)" % (a, bits)
    pts = [lo, hi, lo - 1, hi + 1, (lo + hi) // 2, lo + 1, hi - 1]
    n = rng.randint(2, 8)
    addrs = [f(rng.choice(pts) & 0xFFFFFFFF) for _ in range(n)]
    recs = g.records([rng.choice(["peer %s:80", "%s", "from %s", "x %s y"]) % a for a in addrs], with_attrs=False)
    for r, a in zip(recs, addrs):
        if rng.random() < 0.8:
            r["attrs"] = [("addr", a)]
    op = rng.choice(["=", "!="])
    if rng.random() < 0.5:
        pipe = [{"k": "line", "op": op, "v": txt, "ip": True, "pat_coq": coq, "coq": "ELineIP %s %s" % (egen.cbool(op == "!="), coq)}]
    else:
        p = {"k": "ip", "l": "addr", "op": op, "v": txt, "coq": "EPIP %s %s %s" % (cbytes(B("addr")), egen.cbool(op == "!="), coq)}
        pipe = [{"k": "filter", "p": p, "coq": "ELabelFilter (%s)" % p["coq"]}]
    return recs, oracles_coq(), g.selector(extra=False), pipe, "ipbound"


def nan_case(rng, g: EGen):
    """not-a-number and infinite label values under number comparisons (IEEE 754: every ordered comparison with NaN is false, == false, != true)"""
    n = rng.randint(2, 8)
    recs = g.records([rng.choice(egen.PLAIN_LINES[:8]) for _ in range(n)], with_attrs=False)
    for r in recs:
        r["attrs"] = [("n", rng.choice(["NaN", "nan", "NAN", "+Inf", "-Inf", "Infinity", "5", "+nan", "7", "-nan", "inf", "0", "1000"]))]
        if rng.random() < 0.2:
            r["attrs"] = []
    def num(op, text):
        return {"k": "num", "l": "n", "op": op, "text": text, "v": float(text), "coq": "EPNum %s %s (fbits %d)" % (cbytes(B("n")), egen.OPNAME[op], egen.fbits(float(text)))}
    p = num(rng.choice(["<", "<=", "<", "<=", ">", ">=", "==", "!="]), rng.choice(["5", "0", "1000"]))
    if rng.random() < 0.3:
        q2 = num(rng.choice(["<", "<=", ">", ">="]), rng.choice(["5", "7"]))
        op = rng.choice(["and", "or"])
        p = {"k": "bin", "op": op, "a": p, "b": q2, "coq": "%s (%s) (%s)" % ("EPAnd" if op == "and" else "EPOr", p["coq"], q2["coq"])}
    pipe = [{"k": "filter", "p": p, "coq": "ELabelFilter (%s)" % p["coq"]}]
    if rng.random() < 0.3:
        pipe.insert(0, g.line_filter(words=["error", "GET", "a", "info"]))
    return recs, oracles_coq(), g.selector(extra=False), pipe, "nan"


def special_case(rng, g: EGen, theme):
    """shapes where the position of a stage relative to a line-rewriting or stateful stage matters"""
    n = rng.randint(2, 9)
    jsonl, deco = [], []
    pipe = []
    if theme == "distinct2":
        # two labels drawing values from ONE pool: a value seen under src must not count as seen under dst
        lines = [rng.choice(egen.PLAIN_LINES[:8]) for _ in range(n)]
        recs = g.records(lines, with_attrs=False)
        pool = ["a", "b", "c"]
        for r in recs:
            for k in ("src", "dst"):
                if rng.random() < 0.85:
                    r["attrs"].append((k, rng.choice(pool)))
        dl = rng.choice([["src", "dst"], ["dst", "src"], ["src"], ["src", "dst", "nosuch"]])
        pipe = [g.st_distinct(dl)]
        before = after = None
        if rng.random() < 0.5:
            after = g.line_filter(op=rng.choice(["=", "!="]), words=["error", "GET", "a", "info"])
            pipe.append(after)
        if rng.random() < 0.3:
            before = g.line_filter(op=rng.choice(["=", "!="]), words=["error", "GET", "a", "info"])
            pipe.insert(0, before)
        # the generator's own reading of `distinct l1, l2`: a record is dropped when, for the first listed label it carries
        # a value already seen UNDER THAT LABEL; labels it lacks end the test; every tested fresh value is remembered
        lf = lambda f, line: True if f is None else ((B(f["v"]) in line) == (f["op"] == "="))
        seen, keep_ts = set(), []
        for r in recs:
            if not lf(before, r["line"]):
                continue
            labels = egen.base_labels(r)
            keep = True
            for l in dl:
                if B(l) not in labels:
                    keep = True
                    break
                if (l, labels[B(l)]) in seen:
                    keep = False
                    break
                seen.add((l, labels[B(l)]))
            if keep and lf(after, r["line"]):
                keep_ts.append(r["ts"])
        special_case.expect = sorted(keep_ts)
    elif theme == "rewrite":
        lines = [rng.choice(egen.PLAIN_LINES[:12]) for _ in range(n)]
        recs = g.records(lines, with_attrs=False)
        for r in recs:
            r["attrs"] = [("level", rng.choice(["info", "error", "warn"])), ("app", rng.choice(["web", "api", "GET"]))][:rng.randint(0, 2)]
        words = ["info", "error", "warn", "web", "api", "GET", "x=", "lvl:", "ok", "timeout", "200", ""]
        if rng.random() < 0.4:
            pipe.append(g.line_filter(words=words))
        pipe.append(g.st_line_format(["level", "app", "nosuch"], allow_fail=rng.random() < 0.2))
        for _ in range(rng.randint(1, 2)):
            pipe.append(g.line_filter(words=words))
        if rng.random() < 0.3:
            pipe.append(g.label_filter(["level", "app"]))
    elif theme == "decolor":
        ESC = "\x1b"
        lines = []
        for _ in range(n):
            base = rng.choice(["error: timeout", "info ok", "GET /a 200", "warn disk", "plain"])
            if rng.random() < 0.7:
                k = rng.randint(0, len(base))
                col = base[:k] + ESC + "[" + rng.choice(["31", "1;32", "0", "38;5;12"]) + "m" + base[k:] + (ESC + "[0m" if rng.random() < 0.6 else "")
                lines.append(col)
                deco.append((B(col), B(base)))
            else:
                lines.append(base)
        recs = g.records(lines, with_attrs=rng.random() < 0.5)
        words = ["error", "info", "GET", "ok", "warn", "or:", "fo o", "[31m", "m", "timeout", "20"]
        if rng.random() < 0.4:
            pipe.append(g.line_filter(words=words))
        pipe.append(g.st_simple("decolor"))
        for _ in range(rng.randint(1, 2)):
            pipe.append(g.line_filter(words=words))
    else:  # unpack
        lines = []
        for _ in range(n):
            entry = rng.choice(["error: timeout", "info ok", "GET /a 200", "inner"])
            pairs = [(rng.choice(["app", "level", "pod"]), rng.choice(["web", "error", "info", "p1"])) for _ in range(rng.randint(0, 2))]
            if rng.random() < 0.8:
                pairs.insert(rng.randint(0, len(pairs)), ("_entry", entry))
            if rng.random() < 0.2:
                pairs.append(("num", ("num", "7", "7")))
            jl = egen.JLine(rng, pairs, malform=rng.choice([None, None, None, "cut", "bad"]))
            lines.append(jl.text)
            jsonl.append((B(jl.text), jl.coq))
        recs = g.records(lines, with_attrs=False)
        words = ["error", "info", "GET", "_entry", "app", "web", "inner", "{", "timeout"]
        if rng.random() < 0.4:
            pipe.append(g.line_filter(words=words))
        pipe.append(g.st_simple("unpack"))
        for _ in range(rng.randint(1, 2)):
            pipe.append(g.line_filter(words=words) if rng.random() < 0.7 else g.label_filter(["app", "level", "pod"]))
    sel = g.selector(extra=False)
    pipe2 = g.disambiguate(pipe)
    if theme == "distinct2" and [x["op"] for x in pipe2 if x["k"] == "line"] != [x["op"] for x in pipe if x["k"] == "line"]:
        special_case.expect = None          # the text had to be disambiguated by flipping a filter: the precomputed expectation no longer applies
    return recs, oracles_coq(jsonl=dedup(jsonl), decolor=dedup(deco)), sel, pipe2, theme


special_case.expect = None


class P(EngProp):
    id = "C01"
    rule = ("one record set (0-9 records; themes: plain text, JSON objects incl. malformed/truncated, logfmt incl. malformed, lines with IPv4 addresses, attribute-only, "
            "binary bytes, distinct, line_format, label values that contain/extend a matcher value, addresses at and just outside the bounds of ip() ranges and prefixes) and one grammar-derived query (selector with =,!=,=~,!~ over present/absent labels; 0-6 stages: line filters incl. ip(), "
            "label filters string/number/duration/bytes/ip with and/or/parentheses, json/logfmt parsers, distinct, drop/keep, line_format) evaluated under the four extreme "
            "capability sets and one random one; observed results must (a) all be equal, (b) equal Spec.LogSpec.spec_select (per-record reading; distinct-free queries), "
            "(c) equal the faithful model. Non-trivial = at least 2 records; distinct = distinct (records, query).")

    def gen(self, rng, tier):
        n = {"quick": 260, "thorough": 3000, "search": 1500}[tier]
        g = EGen(rng)
        cases = []
        for i in range(n):
            special_case.expect = None
            recs, orc, sel, pipe, theme = themed_case(rng, g, tier)
            expect = special_case.expect if theme == "distinct2" else None
            q = g.query_text(sel, pipe, rng.choice(["spaced", "spaced", "tight"]))
            qc = g.query_coq(sel, pipe)
            capsets = CAPSETS + [rand_caps(rng)]
            evals = [{"q": b64e(q), "qcoq": qc, "label": cs[0], "line": cs[1], "limit": 0} for cs in capsets]
            rels = ["RelEqual 0 %d" % k for k in range(1, len(evals))] + ["RelSpec %d" % k for k in range(len(evals))]
            tss = [r["ts"] for r in recs]
            if not any(s["k"] == "distinct" for s in pipe) and len(set(tss)) == len(tss) and len(recs) >= 2:
                # a positive limit returns the first min(L, matches) matches: records the pipeline rejects do not use up the limit,
                # whoever evaluates the filters (unique timestamps, time-ordered delivery)
                L = rng.choice([len(recs) - 1, len(recs), max(1, len(recs) // 2)])
                for cs in (capsets[0], capsets[-1]):
                    evals.append({"q": b64e(q), "qcoq": qc, "label": cs[0], "line": cs[1], "limit": L})
                    rels.append("RelPrefixOf %d 0 %s" % (len(evals) - 1, cZ(L)))
            if expect is not None:
                rels.append("RelTimestamps 0 %s" % clist(cZ(t) for t in expect))
            cases.append({"kind": theme, "recs": [g.rec_json(r) for r in recs], "oracle": orc, "evals": evals, "rels": rels,
                          "stages": [s["k"] for s in pipe], "note": "same query under 5 capability sets"})
        return cases


PROP = P()
