"""C17: evaluation never panics or hangs on any query or log content."""
from vlib import cbytes, clist, cZ, cbool, b64e, b64d
import egen
import mgen
import qgen
from egen import EGen, B
from props.c01 import themed_case
from props.c09 import T0

S = 10**9
HOSTILE_LINES = [b"", b"\x00", b"\xff\xfe\xfd", b"{", b"}", b"[", b'{"a":', b'{"a":{"b":{"c":{"d":{"e":{"f":{"g":1}}}}}}}', b'{"a":1e999}', b'{"a":-0}', b'{"a":12345678901234567890123}',
                 b'{"a":"\\ud800"}', b'{"a":"\\u0000"}', b"a=", b"=b", b'a="', b'a="\\', b"a=b c", b"\"", b"a.b.c.d", b"999.999.999.999", b"1.2.3.4.5.6", b"::", b"::ffff:1.2.3.4", b"f.e.d.c",
                 b"e.g. failed. retrying", b"cache/a.db:", b"\x1b[", b"\x1b[31", b"\x1b]0;title\x07", b"\xc2\x9b31m", b"%s%d%n", b"{{.x}}", b"<a>", b"<_>", b" " * 64,
                 b"x" * 5000, b'{"_entry":1}', b'{"_entry":"e","0bad":"x"}', b'{"a":[[[[[[[[[[1]]]]]]]]]]}', b"NaN", b"+Inf", b"-Inf", b"0x1p-2", b"1_000", b"9" * 400,
                 b"1h1h1h1h1h", b"99999999999999999999h", b"1EiB", b"99999999999999999999999GB", b"-5KB", b"5 K B",
                 b'{"ids":[1,null,3]}', b'{"obj":{"list":[null]}}', b'{"a":null,"b":[null,null]}', b"[null]", b'{"a":[{"b":null}]}', b'{"_entry":null}', b'{"a":9007199254740993}',
                 b'a=1 a=2 a', b'{"a":"b"} trailing', b'{"a":1}{"a":2}',
                 b'{"d":' + b'{"k":[' * 10 + b'1' + b']}' * 10 + b'}', b'{"d":' + b'[{"k":' * 20 + b'"v"' + b'}]' * 20 + b'}', b'[{"k":' * 17, b'{"a":' * 40 + b'1' + b'}' * 40,
                 b'{"caf\xe9": 1}', b'{"k\xff": 1}', b'{"\xe4\xb8": 2}', b'{"a\xff": 1, "\xffb": 2, "\xc3": 3}', b'caf\xe9=1 k\xff=2']
SWEEP_STAGES = ['| json', '| json a, ids, obj', '| json x="a", y="obj.list[0]", z="ids[1]"', '| logfmt', '| logfmt a, b', '| unpack', '| regexp `(?P<k>[a-z]+)=(?P<v>[^ ]*)`', '| regexp `(?P<a>[a-z]+)(?: (?P<took>[0-9]+ms))?`', '| regexp `(?P<a>[a-z]+)|(?P<b>[0-9.]+)`',
                '| pattern "<a> <b>"', '| pattern "<_>=<v>"', '| decolorize', '| line_format "{{ .a }}/{{ __line__ }}"', '| label_format z="{{ .a | ToUpper }}"', '|= ip("10.0.0.0/8")',
                '!= ip("::1")', '| json | a > 1', '| line_format "{{ repeat 1000000000000 \\"x\\" }}"', '| line_format "{{ indent 1000000000000 .app }}"',
                '| line_format "{{ alignLeft 1000000000000 .app }}"', '| label_format z="{{ alignRight 999999999999 .app }}"', '| line_format "{{ repeat (int .n) \\"-\\" }}"',
                '| line_format "{{ repeat -1 \\"x\\" }}"', '| label_format z="{{ nindent (int .n) .app }}"', '| json | drop a | keep b', '| json | distinct a', '| json | a == ip("10.0.0.1")', '| logfmt | a > 5KB or b < 1m',
                # stages naming labels no record has (rename of an absent source, format into / out of absent labels, drop / keep / distinct of absent labels)
                '| label_format dst=nosuch', '| label_format app=nosuch, z="{{ .app }}"', '| label_format nosuch2=nosuch | line_format "{{ .nosuch2 }}"', '| drop nosuch | keep nosuch2',
                '| distinct nosuch', '| nosuch = "" | nosuch2 != ""', '| label_format dst=nosuch | json', '| line_format "{{ .nosuch | ToUpper }}"']
HOSTILE_VALUES = ["1000000000000", "9223372036854775807", "NaN", "+Inf", "-Inf", "1e999", "-1e999", "0x10", "1_0", "", " ", "9" * 30, "-0", "1e-400", "99999999999999999999h", "1.5.5", "5XB", "١٢٣", "\x00"]
BAD_QUERIES = [
    ('{a="b"} |~ "("', True), ('{a=~"["}', True), ('{a="b"} | regexp "(?P<x>"', True), ('{a="b"} | regexp "no_named_group"', False),
    ('{a="b"} | pattern "<a><b>"', True), ('{a="b"} | pattern "noname"', True), ('{a="b"} | json x="a.["', True), ('{a="b"} | json x="a..b"', True),
    ('{a="b"} | line_format "{{ .x"', True), ('{a="b"} | line_format "{{ nosuchfunc .x }}"', True), ('{a="b"} | label_format x="{{"', True),
    ('{a="b"} | addr = ip("not-an-ip")', True), ('{a="b"} |= ip("1.2.3.4/99")', True), ('{a="b"} | logfmt a="x", b="x"', True),
    ('absent_over_time({a="b"}[1m])', True), ('rate_counter({a="b"} | unwrap x [1m])', True), ('label_replace(rate({a="b"}[1m]), "a", "b", "c", "d")', True),
    ('sum(rate({a="b"}[1m])) + on(a) sum(rate({a="b"}[1m]))', True), ('quantile_over_time(2, {a="b"} | unwrap x [1m])', False),
    ('quantile_over_time(-1, {a="b"} | unwrap x [1m])', False), ('topk(1000000, rate({a="b"}[1m]))', False), ('topk(9223372036854775807, count_over_time({job="x"}[1m]))', False), ('bottomk(4611686018427387904, count_over_time({job="x"}[1m]))', False),
    ('sum by (app) (topk(9223372036854775807, count_over_time({job="x"}[5s])))', False), ('topk(99999999999999999999, rate({a="b"}[1m]))', True), ('{a="b"} | drop', True), ('', True), ('{', True), ('{}', False),
    ('{a="b"} | unwrap x', True), ('sum by (', True), ('sum(1', True), ('topk(5', True), ('count by (a) (2', True), ('vector(1) + max(3', True), ('bottomk(10 # c', True),
    ('sum(', True), ('topk(5,', True), ('quantile_over_time(0.5', True), ('quantile_over_time(0.5,', True), ('label_replace(', True), ('{a="b"} | json x=', True), ('{a="b"} | drop a,', True), ('1 +', True), ('vector(', True), ('{a="b"}[1m]', True), ('count_over_time({a="b"}[0s])', False),
    ('{a="b"} | logfmt | keep ip # only the client address', False), ('rate # c', True), ('{a="b"} | drop count # x', False), ('sum # trailing', True), ('{a="b"} | keep max #', False),
    ('vector(7) % 0.25', False), ('count_over_time({job="x"}[1m]) % 0.5', False), ('vector(7) % vector(0.5)', False), ('count_over_time({job="x"}[1m]) % -0.1', False), ('0.5 % count_over_time({job="x"}[1m])', False),
    ('count_over_time({a="b"}[1y])', True), ('{a="b"} | x > 1e999', False), ('{a="b"} | x > 5XB', True), ('"unterminated', True), ('{a="b"} # only a comment', False),
]


class P:
    id = "C17"
    driver = "C17"
    shard = 200
    chunk = 25
    env = None
    rule = ("four streams: (1) grammar-derived log and metric queries (the generators of C01 / C09-C12 / C05) over adversarial contents: arbitrary and invalid UTF-8 bytes, deep / "
            "truncated / wrongly typed JSON, malformed logfmt, address-like fragments ('e.g. ', 'a.db:'), escape-sequence fragments, 5 kB lines, extreme numbers, durations and byte "
            "sizes in labels; instant and positive-step range evaluation -- expectation: a result (bad lines degrade to __error__, never crash); (2) a list of user mistakes (bad regex, "
            "template, pattern, JSON path, ip(), unsupported constructs, static-rule violations) -- expectation: an error; (3) single-token mutations of valid queries -- expectation: "
            "result or error (incl. the rest of the query commented out up to the end of the text); (4) arbitrary byte strings as queries, nesting up to 3000 levels, and five texts nested 20 000 to 3 000 000 levels deep (parentheses, one operator chained, nested aggregations; thorough: also label-filter parentheses and and-chains) -- expectation: result or error. Every evaluation runs under recover() and a 6 s watchdog; "
            "a panic, a hang or a dead process is a violation.")
    trusted = ["panics are observed through recover() in the harness, hangs through a watchdog; a fatal runtime error (stack exhaustion, out of memory) shows as a dead harness process",
               "the models whose totality the theorems are about are tied to the code by the correspondence runs of C01, C05-C12"]
    assumptions = ["well-formed evaluation parameters: instant, or a positive step (C16 enforces this for the CLI)"]

    def gen(self, rng, tier):
        n = {"quick": 260, "thorough": 4000, "search": 1200}[tier]
        g = EGen(rng)
        m = mgen.MGen(rng)
        pg = qgen.Gen(rng)
        cases = []
        for q, must_err in BAD_QUERIES:
            cases.append(self.mk(rng, g, [q.encode()], self.hostile_records(rng, g, 4), "user-mistake", expect_error=must_err))
        # user mistakes that the parser accepts and only pipeline building rejects, inside metric queries
        for q, must_err in BAD_QUERIES:
            if q.startswith('{a="b"} |') and must_err and "unwrap" not in q:
                for w in ('count_over_time(%s [1m])', 'sum by (a) (bytes_rate(%s [1m]))', 'vector(1) + count_over_time(%s [1m])', 'count_over_time(%s [1m]) > bool 0'):
                    cases.append(self.mk(rng, g, [(w % q).encode()], self.hostile_records(rng, g, 4), "user-mistake", expect_error=True))
        # every parser / rewriting stage over every hostile line, as log query and inside a range aggregation
        allrecs = [g.rec_json({"ts": T0 + i * (S // 4), "line": l, "attrs": [("app", "a"), ("n", HOSTILE_VALUES[i % len(HOSTILE_VALUES)])], "res": [("job", "x")]})
                   for i, l in enumerate(HOSTILE_LINES)]
        for st in SWEEP_STAGES:
            cases.append(self.mk(rng, g, [('{job="x"} ' + st).encode()], allrecs, "stage-sweep", expect_result=True))
            cases.append(self.mk(rng, g, [('sum by (app) (count_over_time({job="x"} %s [5s]))' % st).encode()], allrecs, "stage-sweep", expect_result=True))
        # nesting far beyond what any stack holds (parentheses, a chain of one operator, nested aggregations): an error, not a dead process;
        # and nesting the parser accepts must also survive everything behind the parser
        deep = [b"(" * 3000000 + b"1" + b")" * 3000000, b"vector(1)" + b"+1" * 3000000, b"sum(" * 1500000 + b"vector(1)" + b")" * 1500000,
                b"(" * 20000 + b"vector(1)" + b")" * 20000, b"vector(1)" + b"+1" * 20000,
                # ... a selector in millions of parentheses, and a template nested deeper than text/template's recursive parser survives (D37)
                b"count_over_time(" + b"(" * 3000000 + b"{}" + b")" * 3000000 + b"[1m])",
                b"{} | line_format `{{ " + b"(" * 1500000 + b"1" + b")" * 1500000 + b" }}`",
                b"{} | line_format `" + b"{{if .a}}" * 400000 + b"{{end}}" * 400000 + b"`",
                b"{} | label_format x=`{{ " + b"(" * 60000 + b"1" + b")" * 60000 + b" }}`"]
        if tier != "quick":
            deep += [b'{a="b"} | ' + b"(" * 5000000 + b'a="1"' + b")" * 5000000, b'{a="b"} | a="1"' + b' and a="1"' * 3000000]
        for q in deep:
            c = self.mk(rng, g, [q], self.hostile_records(rng, g, 2), "deep")
            c["evals"] = c["evals"][:1]
            c["timeout_ms"] = 120000
            cases.append(c)
        for i in range(n):
            k = i % 6
            recs = self.hostile_records(rng, g, rng.randint(1, 10))
            if k <= 1:
                # valid log query over hostile content
                _, _, sel, pipe, theme = themed_case(rng, g, tier)
                q = g.query_text(g.selector(extra=False), pipe, "spaced")
                cases.append(self.mk(rng, g, [q.encode()], recs, "log-valid", expect_result=True))
            elif k == 2:
                # valid metric query over hostile content (unwrap of hostile values)
                op = rng.choice(list(mgen.ROP) + ["quantile_over_time", "quantile_over_time"])
                unwrap = ("n", rng.choice(["", "bytes", "duration"]), []) if op in mgen.NEED_UNWRAP else None
                param = rng.choice([0.5, 0.0, 1.0, 2.0, -1.0, 1.5, 10.0]) if op == "quantile_over_time" else None
                grp = mgen.grouping(rng.choice([["app"], [], ["app", "nosuch"]])) if (op in mgen.GROUPABLE and rng.random() < 0.7) else None
                e = m.mrange(op, g.selector(extra=False), [g.st_json()] if rng.random() < 0.3 else [], rng.choice([1, 5, 60, 60]) * S, 0, unwrap, param, grp)
                if rng.random() < 0.6:
                    vop = rng.choice(list(mgen.VOP))
                    e = m.mvec(vop, e, rng.choice([1, 3, 100]) if vop in ("topk", "bottomk") else None, rng.choice([None, mgen.grouping(["app"]), mgen.grouping([], True)]))
                if rng.random() < 0.4:
                    e = m.mbin(rng.choice(list(mgen.BOP) + ["%"]), e, rng.choice([m.mlit(0), m.mlit(2), m.mvector(0), e, m.mlit(0.25), m.mvector(0.5), m.mlit(-0.5)]))
                cases.append(self.mk(rng, g, [m.text(e).encode()], recs, "metric-valid"))
            elif k == 3:
                # any grammar-derived query (whole grammar), no expectation beyond result-or-error
                ast = pg.query()
                q = qgen.layout(rng, qgen.Renderer(rng).expr(ast), rng.choice(["spaced", "wild"]))
                cases.append(self.mk(rng, g, [q.encode() if isinstance(q, str) else q], recs, "grammar"))
            elif k == 4:
                ast = pg.query()
                toks = qgen.Renderer(rng).expr(ast)
                if len(toks) > 2:
                    j = rng.randrange(len(toks))
                    mode = rng.choice(["del", "dup", "swap", "repl", "trunc", "trunc", "comment"])
                    if mode == "trunc":
                        del toks[max(1, j):]          # the query cut off after any token
                    elif mode == "comment":
                        del toks[max(1, j):]          # ... the rest commented out, the comment running to the end of the text
                        toks.append(rng.choice(["# rest", "#", "# ) ] }"]))
                    elif mode == "del":
                        del toks[j]
                    elif mode == "dup":
                        toks.insert(j, toks[j])
                    elif mode == "swap" and j + 1 < len(toks):
                        toks[j], toks[j + 1] = toks[j + 1], toks[j]
                    else:
                        toks[j] = rng.choice(["|", ")", "(", ",", "by", "5m", "and", "=", "==", "foo", '"s"', "1", "}", "{", "[", "unwrap", "|=", "offset", "bool", "-", "ip", "`"])
                q = qgen.layout(rng, toks, "spaced")
                cases.append(self.mk(rng, g, [q.encode() if isinstance(q, str) else q], recs, "mutated"))
            else:
                kind = rng.randrange(4)
                if kind == 0:
                    q = bytes(rng.randrange(256) for _ in range(rng.randint(0, 60)))
                elif kind == 1:
                    d = rng.choice([10, 200, 3000])
                    q = b"(" * d + b"1" + b")" * d
                elif kind == 2:
                    d = rng.choice([10, 300, 2000])
                    q = b'{a="b"} | x="1"' + b' and (y="2"' * d + b")" * d
                else:
                    q = rng.choice([b'{a="b"}', b"sum(", b"{a=\"\xff\"}", b"{a=`b`} |= `\x00`", b"1" + b"+1" * 2000, b'{a="b"}' + b' |= "x"' * 800, b"vector(1)" + b" or vector(1)" * 500])
                cases.append(self.mk(rng, g, [q], recs, "bytes"))
        return cases

    def hostile_records(self, rng, g, n):
        recs = []
        ts = T0
        for _ in range(n):
            ts += rng.choice([0, 1, S // 2, S])
            attrs = [("app", rng.choice(["a", "b"]))]
            if rng.random() < 0.7:
                attrs.append(("n", rng.choice(HOSTILE_VALUES + ["1", "5", "2.5", "1KB", "3s"])))
            if rng.random() < 0.3:
                attrs.append((rng.choice(["x", "addr", "dur", "size"]), rng.choice(HOSTILE_VALUES)))
            recs.append({"ts": ts, "line": rng.choice(HOSTILE_LINES) if rng.random() < 0.8 else bytes(rng.randrange(256) for _ in range(rng.randint(0, 40))),
                         "attrs": attrs, "res": [("job", "x")]})
        return [g.rec_json(r) for r in recs]

    def mk(self, rng, g, queries, recs, kind, expect_error=False, expect_result=False):
        tss = [r["ts"] for r in recs] or [T0]
        evals = []
        for q in queries:
            # instant and positive-step range evaluation
            evals.append({"query": b64e(q), "label": [], "line": [], "limit": rng.choice([0, 0, 2]), "start": max(tss), "end": max(tss), "step": 0})
            evals.append({"query": b64e(q), "label": [10, 11, 12, 13], "line": [10, 11, 12, 13], "limit": 0, "start": min(tss), "end": max(tss) + S, "step": rng.choice([S, S // 2, 7 * S])})
        return {"kind": kind, "recs": recs, "evals": evals, "expect_error": expect_error, "expect_result": expect_result}

    def request(self, c):
        return {"cmd": "evalmulti", "records": c["recs"], "evals": c["evals"], "timeout_ms": c.get("timeout_ms", 6000)}

    def to_coq(self, c, r):
        oc = r.get("outcome")
        runs = r.get("runs") or []
        codes = []
        for run in runs:
            codes.append(2 if "panic" in run else 1 if "error" in run else 0)
        if oc in ("hang",):
            codes = [3]
        if not codes:
            codes = [4]
        return "mk %s %s %s" % (clist(str(x) for x in codes), cbool(c["expect_error"]), cbool(c["expect_result"]))

    def trivial(self, c, r):
        return False

    def sample(self, c, r):
        runs = r.get("runs") or []
        return {"kind": c["kind"], "query": b64d(c["evals"][0]["query"]).decode("utf-8", "replace")[:200], "records": len(c["recs"]),
                "outcomes": [("panic: " + run["panic"][:80]) if "panic" in run else ("error: " + run["error"][:80]) if "error" in run else "result" for run in runs]}

    def describe(self, c, r):
        return {"query": b64d(c["evals"][0]["query"]).decode("utf-8", "replace")[:2000], "kind": c["kind"],
                "lines": [b64d(x["line"]).decode("utf-8", "replace")[:80] for x in c["recs"]], "outcome": r.get("outcome"),
                "runs": [{k: (str(v)[:300]) for k, v in run.items() if k in ("panic", "error")} for run in (r.get("runs") or [])]}

    def distribution(self, cases, resps):
        d = {"kind": {}, "results": 0, "errors": 0, "panics": 0, "hangs": 0, "query_bytes_total": 0}
        for c, r in zip(cases, resps):
            d["kind"][c["kind"]] = d["kind"].get(c["kind"], 0) + 1
            d["query_bytes_total"] += len(b64d(c["evals"][0]["query"]))
            if r.get("outcome") == "hang":
                d["hangs"] += 1
            for run in r.get("runs") or []:
                if "panic" in run:
                    d["panics"] += 1
                elif "error" in run:
                    d["errors"] += 1
                else:
                    d["results"] += 1
        return d

    def shrink(self, c):
        for i in range(len(c["recs"])):
            yield dict(c, recs=c["recs"][:i] + c["recs"][i + 1:])


PROP = P()
