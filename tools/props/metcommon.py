"""Shared plumbing of the metric checks (C09-C12): Engine.Eval of metric queries over the mock storage.

case = {"kind", "recs": [record json], "oracle": coq, "evals": [{"q": b64, "qcoq": coq mexpr, "start","end","step": ns, "label": [], "line": []}], "rels": [coq], "note"}
"""
from vlib import cbytes, clist, cZ, copt, b64e, b64d
from props.engcommon import rec_coq
import mgen


class MetProp:
    driver = "Met"
    shard = 10
    chunk = 10
    trusted = ["mock storage in the harness (honours [start,end] inclusively and the offloaded matchers exactly)",
               "float aggregators are modelled operation by operation on Coq's primitive binary64 floats (same IEEE-754 round-to-nearest-even arithmetic as Go on amd64); "
               "math.Mod / math.Pow only on their exact integer fragment (other cases are counted as outside the model fragment)",
               "xxhash is abstracted: the model keys a series by its visible label set (injectivity of the length-prefixed serialisation is theorem serialise_inj; "
               "collision-freedom of the hash itself is assumed)",
               "result timestamps are compared in milliseconds (what the API reports)"]
    assumptions = ["samples are delivered in non-decreasing timestamp order (C04 for the Docker storage; the mock storage is fed sorted records)",
                   "positive step or instant query (C16 guards the CLI; with step 0 and start < end the stepper of vector() does not advance)"]

    def request(self, c):
        return {"cmd": "evalmulti", "records": c["recs"],
                "evals": [{"query": e["q"], "label": e.get("label", []), "line": e.get("line", []), "limit": e.get("limit", 0),
                           "start": e["start"], "end": e["end"], "step": e["step"]} for e in c["evals"]]}

    def to_coq(self, c, r):
        runs = r.get("runs")
        if runs is None or len(runs) != len(c["evals"]):
            return None
        evs = []
        for e, run in zip(c["evals"], runs):
            if "panic" in run:
                return "mkm %s [] [mkmev (MLit zero) 0 0 0 [] [] None] [MRelNoSeries 0%%nat]" % c["oracle"]      # forces ok=false
            obs = mgen.series_coq(run)
            if obs is None and "scalar" in run:
                obs = None
            evs.append("mkmev (%s) %s %s %s %s %s %s" % (e["qcoq"], cZ(e["start"]), cZ(e["end"]), cZ(e["step"]),
                                                          clist(str(x) for x in e.get("label", [])), clist(str(x) for x in e.get("line", [])), copt(obs)))
        return "mkm (%s) %s %s %s" % (c["oracle"], clist(rec_coq(x) for x in c["recs"]), clist(evs), clist(c["rels"]))

    def model_exprs(self, term):
        return ["let c := (%s) in map (fun e => option_map canon_series (mmodel c e)) (m_evals c)" % term,
                "let c := (%s) in map (fun e => option_map canon_series (me_obs e)) (m_evals c)" % term,
                "let c := (%s) in map (mrel_ok c) (m_rels c)" % term]

    def trivial(self, c, r):
        return len(c["recs"]) < 2

    def sample(self, c, r):
        runs = r.get("runs") or []
        return {"kind": c["kind"], "queries": [b64d(e["q"]).decode("utf-8", "replace") for e in c["evals"]][:5],
                "params": [[e["start"], e["end"], e["step"]] for e in c["evals"]][:5],
                "records": len(c["recs"]), "relations": c["rels"][:5],
                "observed_series": [len(run.get("series") or []) if "error" not in run else "error: " + run["error"][:80] for run in runs][:5]}

    def describe(self, c, r):
        return {"note": c.get("note", ""), "queries": [b64d(e["q"]).decode("utf-8", "replace") for e in c["evals"]],
                "caps": ["start=%d end=%d step=%d" % (e["start"], e["end"], e["step"]) for e in c["evals"]],
                "lines": ["%d %s %s" % (x["ts"], b64d(x["line"]).decode("utf-8", "replace"), [(b64d(k).decode(), b64d(v).decode("utf-8", "replace")) for k, v in x["attrs"]]) for x in c["recs"]]}

    def distribution(self, cases, resps):
        d = {"kind": {}, "records_total": 0, "evaluations_total": 0, "errors": 0, "series_returned": 0, "points_returned": 0, "ops": {}}
        for c, r in zip(cases, resps):
            d["kind"][c["kind"]] = d["kind"].get(c["kind"], 0) + 1
            d["records_total"] += len(c["recs"])
            d["evaluations_total"] += len(c["evals"])
            for k in c.get("ops", []):
                d["ops"][k] = d["ops"].get(k, 0) + 1
            for run in r.get("runs") or []:
                if "error" in run:
                    d["errors"] += 1
                for s in run.get("series") or []:
                    d["series_returned"] += 1
                    d["points_returned"] += len(s["points"])
        return d

    def shrink(self, c):
        n = len(c["recs"])
        for i in range(n):
            yield dict(c, recs=c["recs"][:i] + c["recs"][i + 1:])
