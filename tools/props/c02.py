"""C02: selectors pick exactly the matching containers; lines keep their origin; the daemon is asked for the truncated window."""
from vlib import cbytes, clist, cZ, b64e
import egen
import dgen
from dgen import Ctr, S, T0
from egen import EGen, B, oracles_coq
from props.dockcommon import DockProp


class P(DockProp):
    id = "C02"
    rule = ("inventories of 1-6 containers with overlapping names / images / states, 0-4 Docker labels incl. keys needing sanitisation, keys colliding after sanitisation and a key "
            "shadowing a built-in label; selectors of 1-3 matchers with all four operators over built-in, Docker-derived and absent labels, empty-string values, regexes that "
            "match only a proper prefix (anchoring), `.*` / `.+` on absent labels; log queries and one range aggregation per case; time ranges with fractional seconds on either "
            "bound, instant queries (30 s look-back). The generator computes from its own reading of LogQL which containers are selected and which since/until each must receive; "
            "demanded on the observed run: exactly those containers are asked for logs, with exactly those options; every returned line (lines are tagged with their container id) "
            "sits in a stream carrying the labels of that container; everything equals the faithful model. One case in twelve starts the last container between the two selections "
            "of one query (the fake daemon's first listing does not show it): the second selection must see it.")

    def gen(self, rng, tier):
        n = {"quick": 200, "thorough": 2500, "search": 800}[tier]
        g = EGen(rng)
        m = mgen_for(rng)
        return [self.one(rng, g, m, i) for i in range(n)]

    def late_case(self, rng, g, m, i):
        """the inventory is listed anew for every selection: a container that starts between the two selections of one query is seen by the second"""
        nc = rng.randint(2, 4)
        ctrs = [Ctr(rng, k) for k in range(nc)]
        start, end = T0, T0 + 5 * S
        for c in ctrs:
            c.set_records(rng, rng.randint(1, 4), T0 + S, 3 * S)
        eq = lambda c: {"l": "container_id", "op": "=", "v": c.id, "coq": "em %s %s" % (cbytes(b"container_id"), egen.sm_coq("=", c.id)),
                        "pred": lambda view, c=c: view.get(b"container_id", b"") == c.id.encode()}
        first, last = ctrs[rng.randrange(nc - 1)], ctrs[-1]
        drop = [m.g.st_dropkeep("drop", ["msg"], [])]
        e = m.mbin(rng.choice(["or", "or", "+", "unless"]), m.mrange("count_over_time", [eq(first)], drop, 10 * S), m.mrange("count_over_time", [eq(last)], drop, 10 * S))
        evals = [{"q": b64e(m.text(e)), "qcoq": "DQMetric (%s)" % e["coq"], "limit": 0, "start": end, "end": end, "step": 0, "release": [],
                  "exp_selected": [first.id, last.id], "exp_opts": {}, "must_err": False, "must_ok": True}]
        return {"kind": "late-container", "ctrs": [c.json() for c in ctrs], "ctrs_coq": clist(c.coq() for c in ctrs), "ctrs_intended_coq": clist(c.coq(False) for c in ctrs),
                "list_fail": False, "late_last": True, "oracle": oracles_coq(), "evals": evals, "same": [], "faults": [],
                "summary": ["%s names=%s labels=%s" % (c.id, c.names, c.labels) for c in ctrs], "note": "the last container is not in the first listing"}

    def one(self, rng, g, m, i):
        if i % 12 == 11:
            return self.late_case(rng, g, m, i)
        nc = rng.randint(1, 6)
        ctrs = [Ctr(rng, k) for k in range(nc)]
        start = T0 + rng.choice([0, 0, 600_000_000, 123_456_789, 999_999_999, 500_000_000])
        end = start + rng.choice([5, 10, 3]) * S + rng.choice([0, 0, 500_000_000, 600_000_000, 999_999_999, 1])
        for c in ctrs:
            c.set_records(rng, rng.randint(0, 4), T0 + S, 3 * S)
        sel = [dgen.matcher(rng, ctrs) for _ in range(rng.randint(1, 3))]
        if i % 6 == 1:
            # an equality matcher with a non-empty value on a label the container carries under a key that sanitising changes
            # (com.example.role, com-example-role, 9lives): the selector can only say the sanitised name
            cand = [(c, k) for c in ctrs for k in c.labels if dgen.key_to_label(dgen.B(k)) != dgen.B(k) and c.labels[k]]
            if not cand:
                ctrs[0].labels["com.example.role"] = "dotted"
                cand = [(ctrs[0], "com.example.role")]
            c, k = rng.choice(cand)
            lb, v = dgen.key_to_label(dgen.B(k)), c.labels[k]
            sel = [{"l": lb.decode(), "op": "=", "v": v, "coq": "em %s %s" % (cbytes(lb), dgen.sm_coq("=", v, None)),
                    "pred": lambda view, lb=lb, v=v: view.get(lb, b"") == dgen.B(v)}] + sel[:rng.randint(0, 1)]
        exp = [c.id for c in dgen.selected(ctrs, sel)]
        evals = []
        # a log query
        pipe = []
        if rng.random() < 0.4:
            pipe = [g.line_filter(words=["error", "info", "GET", "n=", ":"])]

        q = g.query_text(sel, pipe, "spaced")
        opts = {cid: [str(start // S), str(-(-end // S))] for cid in exp}
        evals.append({"q": b64e(q), "qcoq": "DQLog (%s) 0" % g.query_coq(sel, pipe), "limit": 0, "start": start, "end": end, "step": 0, "release": list(range(nc)),
                      "exp_selected": exp, "exp_opts": opts, "must_err": False, "must_ok": True})
        # ... and with a positive limit: the limit is the engine's business, the daemon is still asked for everything in the window
        if rng.random() < 0.5:
            evals.append({"q": b64e(q), "qcoq": "DQLog (%s) %d" % (g.query_coq(sel, pipe), 2), "limit": 2, "start": start, "end": end, "step": 0, "release": list(range(nc)),
                          "exp_selected": exp, "exp_opts": opts, "must_err": False, "must_ok": True})
        # the same as an instant query: 30 s look-back on the lower bound
        if rng.random() < 0.5:
            evals.append({"q": b64e(q), "qcoq": "DQLog (%s) 0" % g.query_coq(sel, pipe), "limit": 0, "start": end, "end": end, "step": 0, "release": list(reversed(range(nc))),
                          "exp_selected": exp, "exp_opts": {cid: [str((end - 30 * S) // S), str(-(-end // S))] for cid in exp}, "must_err": False, "must_ok": True})
        # a range aggregation over the same selection: window [start - range, end]
        if rng.random() < 0.5:
            rng_ns = rng.choice([S, 2 * S, 1500_000_000])
            e = m.mrange("count_over_time", sel, [], rng_ns)
            evals.append({"q": b64e(m.text(e)), "qcoq": "DQMetric (%s)" % e["coq"], "limit": 0, "start": start, "end": end, "step": S, "release": [],
                          "exp_selected": exp, "exp_opts": {cid: [str((start - rng_ns) // S), str(-(-end // S))] for cid in exp}, "must_err": False, "must_ok": True})
        return {"kind": "sel%d" % len(sel), "ctrs": [c.json() for c in ctrs], "ctrs_coq": clist(c.coq() for c in ctrs), "ctrs_intended_coq": clist(c.coq(False) for c in ctrs),
                "list_fail": False, "oracle": oracles_coq(), "evals": evals, "same": [], "faults": [],
                "summary": ["%s names=%s labels=%s" % (c.id, c.names, c.labels) for c in ctrs], "note": "selector %s" % [(x["l"], x["op"], x["v"]) for x in sel]}


def mgen_for(rng):
    import mgen
    return mgen.MGen(rng)


PROP = P()
