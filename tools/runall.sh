#!/bin/bash
# run every claimed check's quick tier; print one summary line each.  usage: runall.sh [seed]
cd /verif
export GOFLAGS=-mod=mod GOPROXY=off GOSUMDB=off GOTOOLCHAIN=local
[ -n "$1" ] && export VERIF_SEED=$1
for p in $(python3 -c "import json;print(' '.join(c['property_id'] for c in json.load(open('MANIFEST.json'))['checks']))"); do
  ./check $p --tier quick 2>&1 | grep -E "^(VIOLATION|KNOWN|Traceback|[A-Za-z]*Error|$p )" | cut -c1-250
done
