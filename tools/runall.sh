#!/bin/bash
# run every claimed check's quick tier; print one summary line each
cd /verif
export GOFLAGS=-mod=mod GOPROXY=off GOSUMDB=off GOTOOLCHAIN=local
for p in $(python3 -c "import json;print(' '.join(c['property_id'] for c in json.load(open('MANIFEST.json'))['checks']))"); do
  ./check $p --tier quick 2>&1 | grep -E "^(VIOLATION|KNOWN|$p )" | cut -c1-250
done
