"""Generator for metric queries (C09-C12): expression dicts in qgen's AST format (so qgen.Renderer prints them)
carrying the Coq term of Model/Metric.v `mexpr` built from the same abstract choice."""
import struct

import qgen
import egen
from egen import EGen, B, sm_coq
from vlib import cbytes, clist, cZ, cbool, copt, b64e, b64d

S = 10**9
ROP = {"count_over_time": "RCount", "rate": "RRate", "bytes_over_time": "RBytes", "bytes_rate": "RBytesRate", "avg_over_time": "RAvg",
       "sum_over_time": "RSum", "min_over_time": "RMin", "max_over_time": "RMax", "stdvar_over_time": "RStdvar",
       "stddev_over_time": "RStddev", "quantile_over_time": "RQuantile", "first_over_time": "RFirst", "last_over_time": "RLast"}
NEED_UNWRAP = ["avg_over_time", "sum_over_time", "min_over_time", "max_over_time", "stdvar_over_time", "stddev_over_time",
               "quantile_over_time", "first_over_time", "last_over_time"]
GROUPABLE = qgen.GROUPABLE
VOP = {"sum": "VSum", "avg": "VAvg", "count": "VCount", "max": "VMax", "min": "VMin", "stddev": "VStddev", "stdvar": "VStdvar",
       "bottomk": "VBottomk", "topk": "VTopk", "sort": "VSort", "sort_desc": "VSortDesc"}
AGGK = {"sum": "ASum", "avg": "AAvg", "count": "ACount", "max": "AMax", "min": "AMin", "stddev": "AStddev", "stdvar": "AStdvar"}
BOP = {"+": "OpAdd", "-": "OpSub", "*": "OpMul", "/": "OpDiv", "%": "OpMod", "^": "OpPow", "==": "OpEq", "!=": "OpNotEq",
       ">": "OpGt", ">=": "OpGte", "<": "OpLt", "<=": "OpLte", "and": "OpAnd", "or": "OpOr", "unless": "OpUnless"}


def fbits(f):
    if f != f:
        return 9221120237041090560
    return struct.unpack(">Q", struct.pack(">d", f))[0]


def cfloat(f):
    return "(fbits %d)" % fbits(float(f))


def dur_text(ns):
    if ns % S == 0:
        s = ns // S
        if s % 60 == 0 and s:
            return "%dm" % (s // 60)
        return "%ds" % s
    return "%dms" % (ns // 10**6)


def grouping_coq(g):
    if g is None:
        return "GNone"
    return "%s %s" % ("GWithout" if g["without"] else "GBy", clist(cbytes(B(l)) for l in g["labels"]))


def grouping(labels, without=False):
    return {"labels": list(labels), "without": without}


class MGen:
    def __init__(self, rng):
        self.rng = rng
        self.g = EGen(rng)
        self.r = qgen.Renderer(rng, plain=True)

    def mrange(self, op, sel, pipe, range_ns, offset_ns=0, unwrap=None, param=None, g=None):
        """unwrap: (label, conv '' | 'bytes' | 'duration', [matcher dicts])"""
        r = {"sel": sel, "pipe": pipe, "range": {"ns": range_ns, "text": dur_text(range_ns)}}
        if offset_ns:
            r["offset"] = {"ns": offset_ns, "text": dur_text(offset_ns)}
        ucoq = "None"
        if unwrap is not None:
            l, cv, fs = unwrap
            r["unwrap"] = {"op": cv, "l": l, "filters": [{"l": m["l"], "op": m["op"], "v": m["v"]} for m in fs]}
            ucoq = "(Some {| u_label := %s; u_conv := %s; u_filters := %s |})" % (
                cbytes(B(l)), {"": "CvFloat", "bytes": "CvBytes", "duration": "CvDuration", "duration_seconds": "CvDuration"}[cv], clist(m["pair"] for m in fs))
        e = {"k": "range", "op": op, "r": r, "g": g}
        if param is not None:
            e["param"] = param
            e["param_text"] = repr(param) if param != int(param) else str(int(param))
        e["coq"] = "MRange %s (%s) %d %d %s %s (%s)" % (ROP[op], EGen.query_coq(sel, pipe), range_ns, offset_ns, ucoq,
                                                         cfloat(param if param is not None else 0.0), grouping_coq(g))
        return e

    def mvec(self, op, e, param=None, g=None):
        return {"k": "vec", "op": op, "e": e, "param": param, "g": g,
                "coq": "MVecAgg %s (%s) %s (%s)" % (VOP[op], e["coq"], cZ(param if param is not None else -1), grouping_coq(g))}

    def mvector(self, v):
        return {"k": "vector", "v": float(v), "text": str(v), "coq": "MVector %s" % cfloat(v)}

    def mlit(self, v):
        txt = str(v)
        toks = [txt]
        # a scalar operand may be written in (redundant, also nested) parentheses: (2) * vector(3)   (D27)
        r = self.rng.random()
        if r < 0.15:
            toks = ["(", txt, ")"]
        elif r < 0.2:
            toks = ["(", "(", txt, ")", ")"]
        return {"k": "lit", "v": float(v), "toks": toks, "coq": "MLit %s" % cfloat(v)}

    def mbin(self, op, l, r, retbool=False):
        def wrap(x):
            if x["k"] != "bin":
                return x
            x = {"k": "par", "e": x, "coq": x["coq"]}
            if self.rng.random() < 0.2:          # redundant nested parentheses must not change what evaluates
                x = {"k": "par", "e": x, "coq": x["coq"]}
            return x
        return {"k": "bin", "op": op, "l": wrap(l), "r": wrap(r), "mod": {"bool": retbool},
                "coq": "MBin %s %s (%s) (%s)" % (BOP[op], cbool(retbool), l["coq"], r["coq"])}

    def text(self, e):
        return qgen.layout(self.rng, self.r.expr(e), "spaced")

    # ---------------- data
    def records(self, n, t0, span_ns, label_sets, lines=("x",), edge_ts=(), numeric="n", values=None, tick=S // 2):
        """n records with timestamps on a half-second lattice inside [t0, t0+span], plus the given edge timestamps"""
        rng = self.rng
        tss = sorted([t0 + rng.randrange(0, span_ns // tick + 1) * tick for _ in range(n)] + list(edge_ts))
        recs = []
        for ts in tss:
            ls = dict(rng.choice(label_sets))
            attrs = list(ls.items())
            if numeric and rng.random() < 0.9:
                attrs.append((numeric, str(rng.choice(values or [1, 2, 3, 5, 8, 13]))))
            recs.append({"ts": ts, "line": B(rng.choice(lines)), "attrs": attrs, "res": [("job", "x")]})
        return recs


def series_coq(run):
    if "series" not in run and run.get("type") not in ("vector", "matrix"):
        return None
    out = []
    for s in run.get("series") or []:
        labels = clist("(%s,%s)" % (cbytes(b64d(k)), cbytes(b64d(v))) for k, v in s["labels"])
        pts = clist("(%s,fbits %s)" % (cZ(int(t)), v) for t, v in s["points"] if not str(v).startswith("err"))
        out.append("(%s,%s)" % (labels, pts))
    return clist(out)
