#!/usr/bin/env python3
"""compact view of replay files: showfail.py <glob> [n]"""
import json, glob, base64, sys, re
n = int(sys.argv[2]) if len(sys.argv) > 2 else 2
dec = lambda s: base64.b64decode(s).decode('utf8', 'replace')
for f in sorted(glob.glob(sys.argv[1]))[:n]:
    d = json.load(open(f))
    ds = d.get('description') or {}
    print(f)
    print(' Q:', (ds.get('queries') or ['?'])[:3]); print(' lines:', str(ds.get('lines'))[:600])
    print(' verdict', d['verdict'], ds.get('caps', [''])[:1])
    runs = (d.get('observed') or {}).get('runs') or []
    for r in runs[:2]:
        if 'error' in r: print(' ERR', r['error'][:200])
        for s in (r.get('streams') or [])[:6]:
            print('  S', {dec(k): dec(v) for k, v in s['labels']}, [(t, dec(v)) for t, v in s['values']][:4])
        for s in (r.get('series') or [])[:8]:
            print('  M', {dec(k): dec(v) for k, v in s['labels']}, s['points'][:6])
    mo = d.get('model_output', '')
    m = re.findall(r"q2 = (\[[^\]]*\])", mo.replace("\n", " "))
    if m:
        flags = re.findall(r"true|false", m[0])
        rels = d['case'].get('rels', [])
        bad = [rels[i][:300] for i, x in enumerate(flags) if x == 'false' and i < len(rels)]
        print(' failing relations:', bad[:3])
    print('----')
