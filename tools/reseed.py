#!/usr/bin/env python3
"""reseed.py [ids...]: re-run the checks against every kept seeded change on the CURRENT /repo HEAD.
For each /verif/seeded/<id>/patch.diff: git apply --check (3-way fallback), apply, run ./check <prop> --tier quick, revert.
Writes /verif/seeded/DETECTION.json: {id: {"applies": bool, "exit": n, "line": summary}}."""
import json, os, subprocess, sys
from pathlib import Path

env = dict(os.environ, GOFLAGS="-mod=mod", GOPROXY="off", GOSUMDB="off", GOTOOLCHAIN="local")
VROOT = Path(__file__).resolve().parent.parent
REPO = os.environ.get("VERIF_REPO", "/repo")
root = VROOT / "seeded"
ids = sys.argv[1:] or sorted(p.name for p in root.iterdir() if p.is_dir())
out_path = Path(os.environ.get("RESEED_OUT") or root / "DETECTION.json")      # RESEED_OUT: e.g. a run under another VERIF_SEED
res = json.loads(out_path.read_text()) if out_path.exists() else {}


def sh(cmd, cwd=REPO, timeout=3000):
    p = subprocess.run(cmd, shell=True, cwd=cwd, env=env, stdout=subprocess.PIPE, stderr=subprocess.STDOUT, text=True, timeout=timeout)
    return p.returncode, p.stdout


assert sh("git status --porcelain")[1].strip() == "", "repo dirty"
head = sh("git rev-parse --short HEAD")[1].strip()
for sid in ids:
    patch = root / sid / "patch.diff"
    # a change seeded for one property may be the business of another property's check (precedence: C13; evaluation under parentheses: C12)
    prop = {"C05h": "C13", "C13j": "C12", "C03m": "C14", "C08m": "C04", "C13n": "C12", "C18m": "C07", "C02m": "C08", "C01q": "C05", "C08r": "C03", "C03r": "C14", "C20q": "C14", "C13r": "C12", "C18q": "C06", "C18r": "C01", "C04r": "C18", "C08q": "C02", "C01r": "C06", "C07s": "C08", "C11s": "C10", "C11t": "C17", "C17t": "C14", "C10t": "C11", "C17s": "C06", "C01u": "C05", "C01v": "C08", "C08u": "C03", "C06v": "C08", "C20v": "C02", "C09v": "C04", "C13u": "C12", "C13v": "C12", "C04v": "C02", "C10w": "C09", "C19i": "C01"}.get(sid, sid[:3])
    rc, _ = sh("git apply --check %s" % patch)
    how = "plain"
    if rc != 0:
        rc, _ = sh("git apply --3way --check %s" % patch)
        how = "3way"
    if rc != 0:
        res[sid] = {"head": head, "applies": False}
        print(sid, "does not apply on", head)
        continue
    try:
        rc, out = sh("git apply %s %s" % ("--3way" if how == "3way" else "", patch))
        if rc != 0 or "U" in "".join(l[:2] for l in sh("git status --porcelain")[1].splitlines()):
            res[sid] = {"head": head, "applies": False}
            print(sid, "does not apply on", head, "(3-way conflict)")
            continue
        rc, out = sh("go build ./...")
        if rc != 0:
            res[sid] = {"head": head, "applies": True, "builds": False}
            print(sid, "applies but does not build")
            continue
        rc, out = sh("./check %s --tier quick" % prop, cwd=str(VROOT))
        line = [l for l in out.splitlines() if l.startswith(prop + " ")]
        viol = [l for l in out.splitlines() if l.startswith("VIOLATION")]
        res[sid] = {"head": head, "applies": True, "how": how, "check": prop, "exit": rc, "summary": (line or [""])[-1][:200], "violations": len(viol),
                    "no_failing_input": any("no-failing-input-found" in v for v in viol)}
        print(sid, rc, (line or [""])[-1][:150])
    finally:
        sh("git reset -q; git checkout -- .")
        sh("git stash drop -q 2>/dev/null; true")
    out_path.write_text(json.dumps(res, indent=1, sort_keys=True) + "\n")
assert sh("git status --porcelain")[1].strip() == "", "repo left dirty!"
