"""Generator for the log-query engine checks (C01, C06, C07, C08, C19, C17).

Every generated object carries three views that are produced TOGETHER from one abstract choice, so that none is
derived from another by code under test:
  * the LogQL text (through qgen.Renderer / qgen.layout),
  * the Coq term of the executable model (Model/Stages.v `estage`, Model/Engine.v `equery`),
  * the ground truth the library oracles need (JSON documents, logfmt pairs, regexp submatches, stripped lines).
"""
import json
import re as pyre
import struct

import qgen
from vlib import cbytes, clist, cZ, cbool, copt, cpair, b64e

OPNAME = {"=": "OpEq", "==": "OpEq", "!=": "OpNotEq", "=~": "OpRe", "!~": "OpNotRe", ">": "OpGt", ">=": "OpGte", "<": "OpLt", "<=": "OpLte"}
OPCODE = {"=": 10, "!=": 11, "=~": 12, "!~": 13}
NEG = {"=": "!=", "!=": "=", "=~": "!~", "!~": "=~"}


GUARD_OK = "1700000000"
GUARD_OUT = "2023-11-14 22:13:20 +0000 UTC"     # fmt of time.Unix(1700000000, 0) under TZ=UTC: what {{ unixToTime .t }} prints


def B(s):
    return s if isinstance(s, bytes) else s.encode("utf-8", "surrogateescape")


def fbits(f):
    return struct.unpack(">Q", struct.pack(">d", f))[0]


def key_to_label(k: bytes) -> bytes:
    """independent re-statement of otelstorage.KeyToLabel for the keys the generator uses (ASCII + well-formed UTF-8)"""
    out = []
    for ch in k.decode("utf-8"):
        if ch.isascii() and (ch.isalnum() or ch == "_"):
            out.append(ch)
        else:
            out.append("_")
    s = "".join(out)
    if s and s[0].isdigit():
        s = "_" + s
    return s.encode()


# ------------------------------------------------------------------ regular expressions
class Rx:
    """regex AST -> Go source / Coq term. Nodes: ('lit',bytes) ('any',) ('cls',neg,[(lo,hi)]) ('cat',a,b) ('alt',a,b) ('star',a) ('plus',a) ('opt',a)"""

    @staticmethod
    def src(n, top=True):
        k = n[0]
        if k == "lit":
            return "".join(("\\" + chr(c)) if chr(c) in ".+*?()|[]{}^$\\" else chr(c) for c in n[1])
        if k == "any":
            return "."
        if k == "cls":
            body = "".join(chr(lo) if lo == hi else "%s-%s" % (chr(lo), chr(hi)) for lo, hi in n[2])
            return "[" + ("^" if n[1] else "") + body + "]"
        if k == "cat":
            return Rx.grp(n[1], "cat") + Rx.grp(n[2], "cat")
        if k == "alt":
            return Rx.src(n[1]) + "|" + Rx.src(n[2])
        if k in ("star", "plus", "opt"):
            return Rx.grp(n[1], "rep") + {"star": "*", "plus": "+", "opt": "?"}[k]
        raise ValueError(k)

    @staticmethod
    def grp(n, ctx):
        s = Rx.src(n)
        if n[0] == "alt" or (ctx == "rep" and (n[0] in ("cat", "star", "plus", "opt") or (n[0] == "lit" and len(n[1]) != 1))):
            return "(?:" + s + ")" if ctx == "rep" or n[0] == "alt" else s
        return s

    @staticmethod
    def coq(n):
        k = n[0]
        if k == "lit":
            return "(lit %s)" % cbytes(n[1])
        if k == "any":
            return "RAny"
        if k == "cls":
            return "(RClass %s %s)" % (cbool(n[1]), clist("(%d,%d)" % p for p in n[2]))
        if k == "cat":
            return "(RCat %s %s)" % (Rx.coq(n[1]), Rx.coq(n[2]))
        if k == "alt":
            return "(RAlt %s %s)" % (Rx.coq(n[1]), Rx.coq(n[2]))
        if k == "star":
            return "(RStar %s)" % Rx.coq(n[1])
        if k == "plus":
            return "(rplus %s)" % Rx.coq(n[1])
        if k == "opt":
            return "(ropt %s)" % Rx.coq(n[1])
        raise ValueError(k)


def gen_regex(rng, words):
    """returns dict(src=str, coq=str) ; words: literals likely to occur in the data"""
    w = lambda: B(rng.choice(words))
    shape = rng.randrange(12)
    bol = eol = False
    if shape >= 10:
        n = ("lit", w()); bol = eol = True          # a pure literal anchored at both ends: the whole line, not a substring
    elif shape == 0:
        n = ("lit", w())
    elif shape == 1:
        n = ("alt", ("lit", w()), ("lit", w()))
    elif shape == 2:
        n = ("cat", ("lit", w()), ("cat", ("star", ("any",)), ("lit", w())))
    elif shape == 3:
        n = ("plus", ("cls", False, [(48, 57)]))
    elif shape == 4:
        n = ("cat", ("cls", False, [(97, 101)]), ("opt", ("lit", w()[:1] or b"x")))
    elif shape == 5:
        n = ("lit", w()); bol = True
    elif shape == 6:
        n = ("lit", w()); eol = True
    elif shape == 7:
        n = ("plus", ("lit", (w()[:2] or b"ab")))
    elif shape == 8:
        n = ("cat", ("lit", w()), ("star", ("cls", True, [(32, 32)])))
    else:
        n = ("cat", ("star", ("any",)), ("cat", ("lit", w()), ("star", ("any",))))
    src = ("^" if bol else "") + Rx.src(n) + ("$" if eol else "")
    if (bol or eol) and n[0] == "alt":
        src = ("^" if bol else "") + "(?:" + Rx.src(n) + ")" + ("$" if eol else "")
    return {"src": src, "coq": "(rx %s %s %s)" % (cbool(bol), Rx.coq(n), cbool(eol)), "bol": bol, "eol": eol}


def sm_coq(op, value, rx=None):
    return "(sm %s %s %s)" % (OPNAME[op], cbytes(B(value)), rx["coq"] if rx else "no_rx")


# ------------------------------------------------------------------ IP patterns
def ip_to_int(s):
    a, b, c, d = (int(x) for x in s.split("."))
    return (a << 24) | (b << 16) | (c << 8) | d


ADDRS6 = ["2001:db8::1", "::1", "fe80::aa:1", "2001:db8:0:1::7"]
IPPATS6 = ["2001:db8::1", "::1", "2001:db8::/32", "fe80::/10", "2001:db8::1-2001:db8::ffff", "::/0"]


def gen_ippat(rng, addrs, v6=0.0):
    if rng.random() < v6:
        return rng.choice(IPPATS6), "IPOut"
    a = rng.choice(addrs)
    k = rng.randrange(4)
    if k == 0:
        return a, "(IPEq %d)" % ip_to_int(a)
    if k == 1:
        bits = rng.choice([8, 16, 24, 30, 32])
        n = ip_to_int(a)
        return "%s/%d" % (a, bits), "(IPPrefix %d %d)" % (n, bits)
    b = rng.choice(addrs)
    lo, hi = sorted([ip_to_int(a), ip_to_int(b)])
    f = lambda n: "%d.%d.%d.%d" % (n >> 24, (n >> 16) & 255, (n >> 8) & 255, n & 255)
    return "%s-%s" % (f(lo), f(hi)), "(IPRange %d %d)" % (lo, hi)


# ------------------------------------------------------------------ templates
def gen_template(rng, labels, allow_fail=True, guard_label=None, first_labels=()):
    """returns (text, coq, items); items = python view for computing the expected expansion (see expand_py);
    first_labels: labels the template reads first, separated by '|'"""
    items, txt, coq = [], [], []
    for l in first_labels:
        txt.append("{{.%s}}|" % l); coq.append("TLabel %s" % cbytes(B(l))); items.append(("label", l))
        coq.append("TText %s" % cbytes(B("|"))); items.append(("text", "|"))
    for _ in range(rng.randint(1, 4)):
        k = rng.randrange(10 if allow_fail else 8)
        if k <= 1:
            t = rng.choice(["", " ", "x=", "-", "[", "] ", "lvl:", "é"])
            txt.append(t); coq.append("TText %s" % cbytes(B(t))); items.append(("text", t))
        elif k <= 3:
            l = rng.choice(labels)
            txt.append("{{.%s}}" % l); coq.append("TLabel %s" % cbytes(B(l))); items.append(("label", l))
        elif k == 4:
            txt.append("{{ __line__ }}"); coq.append("TLine"); items.append(("line",))
        elif k == 5:
            txt.append("{{ __timestamp__ | unixEpochNanos }}"); coq.append("TTsNanos"); items.append(("ts",))
        elif k == 6:
            l = rng.choice(labels)
            txt.append("{{ .%s | ToUpper }}" % l); coq.append("TUpper %s" % cbytes(B(l))); items.append(("upper", l))
        elif k == 7:
            l = rng.choice(labels)
            txt.append("{{ .%s | ToLower }}" % l); coq.append("TLower %s" % cbytes(B(l))); items.append(("lower", l))
        elif k == 8 and guard_label:
            txt.append("{{ unixToTime .%s }}" % guard_label)
            coq.append("TGuard %s %s %s" % (cbytes(B(guard_label)), cbytes(B(GUARD_OK)), cbytes(B(GUARD_OUT)))); items.append(("guard", guard_label))
        else:
            txt.append('{{ unixToTime "zz" }}'); coq.append("TFail"); items.append(("fail",))
    return "".join(txt), clist(coq), items


def expand_py(items, ts, line: bytes, labels: dict):
    """independent evaluation of a generated template; None = the template fails"""
    out = b""
    get = lambda n: labels.get(B(n), b"")
    for it in items:
        k = it[0]
        if k == "text":
            out += B(it[1])
        elif k == "label":
            out += get(it[1])
        elif k == "line":
            out += line
        elif k == "ts":
            out += str(ts).encode()
        elif k == "upper":
            out += bytes((c - 32) if 97 <= c <= 122 else c for c in get(it[1]))
        elif k == "lower":
            out += bytes((c + 32) if 65 <= c <= 90 else c for c in get(it[1]))
        elif k == "guard":
            if get(it[1]) != B(GUARD_OK):
                return None
            out += B(GUARD_OUT)
        else:
            return None
    return out


# ------------------------------------------------------------------ JSON documents
def jrender_str(rng, s: str):
    out = ['"']
    for ch in s:
        if ch == '"':
            out.append('\\"')
        elif ch == "\\":
            out.append("\\\\")
        elif ch == "\n":
            out.append("\\n")
        elif ord(ch) > 127 and rng.random() < 0.5 and ord(ch) < 0x10000:
            out.append("\\u%04x" % ord(ch))
        else:
            out.append(ch)
    out.append('"')
    return "".join(out)


def compact(v):
    """AsString() of the pcommon value built from a nested JSON value: encoding/json of map[string]any / []any"""
    return json.dumps(v, separators=(",", ":"), sort_keys=True, ensure_ascii=False)


class JV:
    """a JSON value with its text and its Coq [jv] term"""

    def __init__(self, rng, v, top=False):
        self.v = v
        if isinstance(v, str):
            self.text = jrender_str(rng, v)
            self.coq = "(JStr %s)" % cbytes(B(v))
            self.render = B(v)
        elif v is None:
            self.text = "null"; self.coq = "JNull"; self.render = None
        elif isinstance(v, bool):
            self.text = "true" if v else "false"; self.coq = "(JBool %s)" % cbool(v); self.render = B(self.text)
        elif isinstance(v, tuple):      # ("num", raw, render)
            self.text = v[1]; self.coq = "(JNum %s %s)" % (cbytes(B(v[1])), cbytes(B(v[2]))); self.render = B(v[2])
        elif isinstance(v, list):
            items = [JV(rng, x) for x in v]
            self.text = "[" + ",".join(i.text for i in items) + "]"
            plain = unnum(v)
            self.render = B(compact(plain))
            self.coq = "(JArr %s %s %s)" % (clist(i.coq for i in items), cbytes(B(self.text)), cbytes(self.render))
        elif isinstance(v, dict):
            items = [(k, JV(rng, x)) for k, x in v.items()]
            sep = ", " if top and rng.random() < 0.3 else ","
            col = ": " if top and rng.random() < 0.3 else ":"
            if not top:
                sep, col = ",", ":"
            self.text = "{" + sep.join(jrender_str(rng, k) + (col if not isinstance(x.v, (list, dict)) else ":") + x.text for k, x in items) + "}"
            self.items = items
            self.render = B(compact(unnum(v)))
            self.coq = "(JObj %s %s %s)" % (clist("(%s,%s)" % (cbytes(B(k)), x.coq) for k, x in items), cbytes(B(self.text)), cbytes(self.render))


def unnum(x):
    if isinstance(x, tuple):
        r = x[2]
        return int(r) if pyre.fullmatch(r"-?\d+", r) else float(r)
    if isinstance(x, list):
        return [unnum(y) for y in x if y is not None]          # null elements / members are skipped by parseValue
    if isinstance(x, dict):
        return {k: unnum(v) for k, v in x.items() if v is not None}
    return x


NUMS = [("num", "0", "0"), ("num", "7", "7"), ("num", "-3", "-3"), ("num", "42", "42"), ("num", "1.5", "1.5"), ("num", "2.50", "2.5"),
        ("num", "0.25", "0.25"), ("num", "100", "100"), ("num", "12345678901", "12345678901"), ("num", "-0.5", "-0.5"),
        ("num", "12345678901234567890", "12345678901234567890"), ("num", "-9223372036854775808", "-9223372036854775808"),
        ("num", "9007199254740993", "9007199254740993"), ("num", "-9007199254740993", "-9007199254740993"), ("num", "9223372036854775807", "9223372036854775807"),
        # well-formed JSON numbers beyond the float64 range: exposed as written (D32)
        ("num", "1e400", "1e400"), ("num", "-1E+999", "-1E+999"), ("num", "12345678901234567890.5e300", "12345678901234567890.5e300")]
JKEYS = ["level", "msg", "status", "app", "n", "dur", "user.name", "http-status", "9lives", "a b", "é", "nested", "list", "size", "addr"]
SVALS = ["info", "error", "warn", "", "GET /a", "a=b", 'q"uote', "back\\slash", "5", "5.5", "1m30s", "250ms", "5KB", "10.0.0.1", "ünï", "x y z", "new\nline"]


def gen_jscalar(rng):
    k = rng.randrange(10)
    if k <= 4:
        return rng.choice(SVALS)
    if k <= 6:
        return rng.choice(NUMS)
    if k == 7:
        return rng.choice([True, False])
    if k == 8:
        return None
    return rng.choice(["ok", "fail"])


def gen_jdoc(rng, nested=True):
    """returns dict key->value (python) in document order, possibly with duplicate keys (list of pairs)"""
    n = rng.randint(0, 5)
    pairs = []
    for _ in range(n):
        k = rng.choice(JKEYS)
        if nested and k == "nested":
            v = {rng.choice(["a", "b", "k"]): rng.choice(["x", ("num", "1", "1"), True, "y z", None]) for _ in range(rng.randint(0, 2))}
            if rng.random() < 0.3:
                v["deep"] = {"z": rng.choice(["w", ("num", "9", "9")])}
        elif nested and k == "list":
            v = [rng.choice(["p", ("num", "2", "2"), False, "q", None, ("num", "9007199254740993", "9007199254740993")]) for _ in range(rng.randint(0, 3))]
        else:
            v = gen_jscalar(rng)
        pairs.append((k, v))
    return pairs


class JLine:
    """a (possibly malformed) JSON line with its oracle entry"""

    def __init__(self, rng, pairs, malform=None):
        # duplicate keys are kept: build text by hand
        vals = [(k, JV(rng, v)) for k, v in pairs]
        sep = rng.choice([",", ", "])
        col = rng.choice([":", ": "])
        fields = [jrender_str(rng, k) + (":" if isinstance(x.v, (list, dict)) else col) + x.text for k, x in vals]
        text = "{" + sep.join(fields) + "}"
        self.pairs = pairs
        self.vals = vals
        fcoq = lambda vs: clist("(%s,%s)" % (cbytes(B(k)), x.coq) for k, x in vs)
        plain = {}
        for k, v in pairs:
            plain[k] = unnum(v)
        # AsString of the whole object is never needed at top level; supply the compact form
        if malform is None:
            self.text = text
            self.ok = True
            self.coq = "JDoc (JObj %s %s %s)" % (fcoq(vals), cbytes(B(text)), cbytes(B(compact(plain))))
            self.complete = vals
        elif malform == "trailing":
            self.text = text + rng.choice([" trailing", "}", " {"])
            self.ok = True
            self.coq = "JDoc (JObj %s %s %s)" % (fcoq(vals), cbytes(B(text)), cbytes(B(compact(plain))))
            self.complete = vals
        elif malform == "cut" and vals:
            # cut inside the key of field i: fields before i are complete
            i = rng.randrange(len(vals))
            prefix = "{" + "".join(f + sep for f in fields[:i])
            self.text = prefix + '"' + vals[i][0][:1]
            self.ok = False
            self.coq = "JBadObj %s" % fcoq(vals[:i])
            self.complete = vals[:i]
        elif malform == "badval" and vals:
            # the value of field i is broken (below the top level for the composite ones): fields before i are complete, nothing of field i is exposed
            i = rng.randrange(len(vals))
            prefix = "{" + "".join(f + sep for f in fields[:i])
            self.text = prefix + jrender_str(rng, vals[i][0]) + ":" + rng.choice(["tru", "-", '"abc', '{"in', "[", '{"a":{"b":nul', "[tru", '{"a":[{"'])
            self.ok = False
            self.coq = "JBadObj %s" % fcoq(vals[:i])
            self.complete = vals[:i]
        elif malform == "array":
            self.text = "[1,2]"
            self.ok = False
            self.coq = "JDoc (JArr [JNum [x31] [x31]; JNum [x32] [x32]] %s %s)" % (cbytes(b"[1,2]"), cbytes(b"[1,2]"))
            self.complete = []
            self.notobj = True
        else:
            self.text = rng.choice(["not json", "", "{", "level=info", "<xml/>"])
            self.ok = False
            self.coq = "JBadObj []" if self.text == "{" else "JBad"
            self.complete = []


# ------------------------------------------------------------------ logfmt
def lf_render(rng, k, v):
    if v is None:
        return k
    if v != "" and pyre.fullmatch(r"[A-Za-z0-9_./:\-]+", v) and rng.random() < 0.8:
        return "%s=%s" % (k, v)
    return '%s="%s"' % (k, v.replace("\\", "\\\\").replace('"', '\\"').replace("\n", "\\n"))


LFKEYS = ["level", "msg", "status", "app", "n", "dur", "size", "addr", "user.name", "ts", "caller"]
LFVALS = ["info", "error", "warn", "GET /a", "hello world", "5", "5.5", "1m30s", "250ms", "5KB", "10.0.0.1", "a=b", 'q"q', "", "x", "main.go:12"]


class LFLine:
    def __init__(self, rng, malform=False):
        n = rng.randint(0, 5)
        self.pairs = []
        parts = []
        for _ in range(n):
            k = rng.choice(LFKEYS)
            v = rng.choice(LFVALS) if rng.random() < 0.9 else None
            self.pairs.append((k, v if v is not None else ""))
            parts.append(lf_render(rng, k, v))
        self.err = False
        if not malform and rng.random() < 0.12:
            # a record of bare keys: not a single '=' in the line, every key is exposed with an empty value
            ks = rng.sample(LFKEYS + ["shutdown", "complete", "ready"], rng.randint(1, 3))
            self.pairs = [(k, "") for k in ks]
            parts = list(ks)
        if malform:
            i = len(parts)        # an unterminated quote swallows whatever follows it: only at the end is the outcome unambiguous
            parts = parts[:i] + [rng.choice(['bad="unterminated', 'bad="unterminated', 'level"info', '"abc'])] + parts[i:]
            self.pairs = self.pairs[:i]
            self.err = True
        self.text = " ".join(parts)
        self.coq = "(%s,%s)" % (clist("(%s,%s)" % (cbytes(B(k)), cbytes(B(v))) for k, v in self.pairs), cbool(self.err))


# ------------------------------------------------------------------ data universe
ATTR_POOL = {
    "app": ["web", "api", "db", ""],
    "level": ["info", "error", "warn", "debug"],
    "status": ["200", "404", "500", "5", "abc", "5.0", "-1", "1000"],
    "n": ["1", "5", "5.5", "10", "x", "", "0.5", "100"],
    "dur": ["5s", "1m30s", "250ms", "1h", "bogus", "0s", "1.5s"],
    "size": ["5KB", "1MiB", "12", "zz", "2MB", "1024", "1KiB"],
    "addr": ["10.0.0.1", "10.0.0.200", "192.168.1.7", "notip", "172.16.5.4", "10.1.2.3"],
    "host": ["h1", "h2", "h-3"],
    "user.name": ["bob", "alice"],
    "http-code": ["200", "500"],
    "env": ["prod", "production", "nonprod", "dev"],
    "t": [GUARD_OK, "zz", GUARD_OK, "17"],
}
QLABELS = [key_to_label(k.encode()).decode() for k in ATTR_POOL]      # label names as the engine sees them
QPOOL = {key_to_label(k.encode()).decode(): v for k, v in ATTR_POOL.items()}
ADDRS = ["10.0.0.1", "10.0.0.200", "192.168.1.7", "172.16.5.4", "10.1.2.3", "8.8.8.8"]
WORDS = ["error", "GET", "/a", "ab", "abab", "x", "e", "info", "timeout", "10", "a", "b", "warn", " ", "=", "500"]
PLAIN_LINES = ["error: timeout", "GET /a 200", "GET /b 500 12ms", "info ok", "", "ababab", "x", "warn disk 91%", "error error", "abc", "  lead", "trail  ",
               "connect 10.0.0.1 ok", "from 192.168.1.7 to 10.0.0.200", "no ip here", "ip=8.8.8.8.", "1.2.3", "v1.2.3.4.5", "a.b.c.d"]
BIN_LINES = [b"\xff\xfe bin", b"nul\x00byte", "ünïcode ✓".encode(), b"tab\there", b"cr\r\n", b"\xc3("]


class EGen:
    def __init__(self, rng):
        self.rng = rng
        self.r = qgen.Renderer(rng, plain=True)

    # ---------- records
    def attrs(self, names=None, n=None):
        rng = self.rng
        names = names or list(ATTR_POOL)
        ks = rng.sample(names, min(len(names), rng.randint(0, 4) if n is None else n))
        return [(k, rng.choice(ATTR_POOL[k])) for k in ks]

    def records(self, lines, with_attrs=True, ties=False):
        rng = self.rng
        out = []
        ts = rng.choice([0, 1700000000000000000, 1000])
        for l in lines:
            ts += rng.choice([1, 7, 1000, 10**9, 123456789]) if not (ties and rng.random() < 0.3) else 0      # incl. a non-zero millisecond part
            a = self.attrs() if with_attrs else []
            # a constant resource attribute for the always-true selector
            res = [("job", "x")] + (self.attrs(["host", "app"]) if rng.random() < 0.4 else [])
            out.append({"ts": ts, "line": B(l), "attrs": a, "res": res})
        return out

    @staticmethod
    def rec_json(r):
        return {"ts": r["ts"], "line": b64e(r["line"]), "attrs": [[b64e(k), b64e(v)] for k, v in r["attrs"]], "res": [[b64e(k), b64e(v)] for k, v in r["res"]]}

    @staticmethod
    def rec_coq(r):
        kv = lambda l: clist("(%s,%s)" % (cbytes(B(k)), cbytes(B(v))) for k, v in l)
        return "rcd %s %s %s %s" % (cZ(r["ts"]), cbytes(r["line"]), kv(r["attrs"]), kv(r["res"]))

    # ---------- selector
    def selector(self, extra=True):
        rng = self.rng
        sel = [{"l": "job", "op": "=", "v": "x", "coq": "em %s %s" % (cbytes(b"job"), sm_coq("=", "x"))}]
        if extra:
            for _ in range(rng.choice([0, 0, 1, 1, 2])):
                sel.append(self.matcher(QLABELS + ["nosuch"]))
        rng.shuffle(sel)
        return sel

    def matcher(self, names, for_stage=False):
        rng = self.rng
        l = rng.choice(names)
        pool = QPOOL.get(l, ["x"])
        op = rng.choice(["=", "!=", "=~", "!~"])
        if op in ("=", "!="):
            v = rng.choice(pool + [""])
            rx = None
        else:
            rx = gen_regex(rng, [p for p in pool if p] + ["e", "0"])
            v = rx["src"]
        m = {"l": l, "op": op, "v": v, "k": "m"}
        lab = key_to_label(B(l)).decode() if not for_stage else l
        m["coq"] = "em %s %s" % (cbytes(B(l)), sm_coq(op, v, rx))
        m["pair"] = "(%s,%s)" % (cbytes(B(l)), sm_coq(op, v, rx))
        m["sm"] = sm_coq(op, v, rx)
        return m

    # ---------- stages
    def line_filter(self, op=None, needle=None, words=WORDS):
        rng = self.rng
        op = op or rng.choice(["=", "!=", "=~", "!~"])
        if op in ("=", "!="):
            v = needle if needle is not None else rng.choice(words + [""])
            return {"k": "line", "op": op, "v": v, "coq": "ELine %s" % sm_coq(op, v)}
        rx = gen_regex(rng, words)
        return {"k": "line", "op": op, "v": rx["src"], "coq": "ELine %s" % sm_coq(op, rx["src"], rx), "rx": rx}

    def negate_line(self, s):
        op = NEG[s["op"]]
        if s.get("ip"):
            return dict(s, op=op, coq="ELineIP %s %s" % (cbool(op == "!="), s["pat_coq"]))
        return dict(s, op=op, coq="ELine %s" % sm_coq(op, s["v"], s.get("rx")))

    def ip_line_filter(self, v6=0.0):
        rng = self.rng
        op = rng.choice(["=", "!="])
        txt, coq = gen_ippat(rng, ADDRS, v6)
        return {"k": "line", "op": op, "v": txt, "ip": True, "pat_coq": coq, "coq": "ELineIP %s %s" % (cbool(op == "!="), coq)}

    def pred_leaf(self, labels):
        rng = self.rng
        l = rng.choice(labels)
        k = rng.randrange(8)
        if k <= 2:
            m = self.matcher([l], for_stage=True)
            return {"k": "m", "l": l, "op": m["op"], "v": m["v"], "coq": "EPMatch %s %s" % (cbytes(B(l)), m["sm"]), "pure": True}
        op = rng.choice(["==", "!=", ">", ">=", "<", "<="])
        if k == 3 or k == 4:
            text = rng.choice(["5", "5.5", "0", "10", "200", "404", "0.5", "1000"])
            return {"k": "num", "l": l, "op": op, "text": text, "v": float(text),
                    "coq": "EPNum %s %s (fbits %d)" % (cbytes(B(l)), OPNAME[op], fbits(float(text)))}
        if k == 5:
            text, ns = rng.choice([("5s", 5 * 10**9), ("1m30s", 90 * 10**9), ("250ms", 250 * 10**6), ("1h", 3600 * 10**9), ("0s", 0), ("1m", 60 * 10**9)])
            return {"k": "dur", "l": l, "op": op, "text": text, "ns": ns, "coq": "EPDur %s %s %d" % (cbytes(B(l)), OPNAME[op], ns)}
        if k == 6:
            text, n = rng.choice([("5KB", 5000), ("1MiB", 1 << 20), ("12B", 12), ("1KiB", 1024), ("2MB", 2 * 10**6)])
            return {"k": "byt", "l": l, "op": op, "text": text, "n": n, "coq": "EPBytes %s %s %d" % (cbytes(B(l)), OPNAME[op], n)}
        op = rng.choice(["=", "!="])
        txt, coq = gen_ippat(rng, ADDRS)
        return {"k": "ip", "l": l, "op": op, "v": txt, "coq": "EPIP %s %s %s" % (cbytes(B(l)), cbool(op == "!="), coq)}

    def pred(self, labels, depth=2, pure=False):
        rng = self.rng
        if depth == 0 or rng.random() < 0.5:
            p = self.pred_leaf(labels)
            while pure and not p.get("pure"):
                p = self.pred_leaf(labels)
            return p
        a = self.pred(labels, depth - 1, pure)
        b = self.pred(labels, depth - 1, pure)
        op = rng.choice(["and", "or"])
        par = lambda x: {"k": "par", "a": x, "coq": x["coq"], "pure": x.get("pure")}
        # `and` binds tighter than `or` (D34), chains of one operator nest to the right: x and y or z = (x and y) or z,
        # x or y and z = x or (y and z), x op y op z = x op (y op z).  Operands that would read otherwise are parenthesised.
        if op == "and":
            if a["k"] == "bin":
                a = par(a)
            if b["k"] == "bin" and b["op"] == "or":
                b = par(b)
        elif a["k"] == "bin" and (a["op"] == "or" or rng.random() < 0.4):
            a = par(a)          # an and-chain may stand unparenthesised on the left of `or`
        return {"k": "bin", "op": op, "a": a, "b": b, "coq": "%s (%s) (%s)" % ("EPAnd" if op == "and" else "EPOr", a["coq"], b["coq"]),
                "pure": a.get("pure") and b.get("pure")}

    def label_filter(self, labels, pure=False):
        p = self.pred(labels, pure=pure)
        return {"k": "filter", "p": p, "coq": "ELabelFilter (%s)" % p["coq"]}

    def st_json(self, labels=(), exprs=()):
        """exprs: list of (label, path text, [sel...]) with sel = ('k',name)|('i',n)"""
        # the model receives the path TEXT and parses it with its own model of jsonexpr.Parse (Run/Eng.v `jp`); the selector list the
        # generator states stays the generator's independent reading (used for expectations)
        return {"k": "json", "labels": list(labels), "exprs": [(l, t) for l, t, _ in exprs],
                "coq": "EJson %s %s" % (clist(cbytes(B(l)) for l in labels), clist("(%s,jp %s)" % (cbytes(B(l)), cbytes(B(t))) for l, t, _ in exprs))}

    def st_logfmt(self, labels=(), exprs=()):
        table = [(l, l) for l in labels] + [(key, lab) for lab, key in exprs]
        return {"k": "logfmt", "labels": list(labels), "exprs": [(lab, key) for lab, key in exprs],
                "coq": "ELogfmt %s" % clist("(%s,%s)" % (cbytes(B(k)), cbytes(B(l))) for k, l in table)}

    def st_simple(self, k):
        return {"k": k, "coq": {"unpack": "EUnpack", "decolor": "EDecolorize"}[k]}

    def st_distinct(self, labels):
        return {"k": "distinct", "labels": list(labels), "coq": "EDistinct %s" % clist(cbytes(B(l)) for l in labels)}

    def st_line_format(self, labels, allow_fail=True, guard_label=None):
        t, coq, items = gen_template(self.rng, labels, allow_fail, guard_label)
        return {"k": "linefmt", "t": t, "coq": "ELineFormat %s" % coq, "items": items}

    def st_label_format(self, renames, tmpls):
        """renames: [(dst, src)], tmpls: [(dst, text, coq)]"""
        return {"k": "labelfmt", "renames": list(renames), "tmpls": [(d, t) for d, t, _ in tmpls],
                "coq": "ELabelFormat %s %s" % (clist("(%s,%s)" % (cbytes(B(src)), cbytes(B(dst))) for dst, src in renames),
                                                clist("(%s,%s)" % (cbytes(B(d)), c) for d, _, c in tmpls))}

    def st_dropkeep(self, k, names, ms):
        return {"k": k, "labels": list(names), "matchers": [{"l": m["l"], "op": m["op"], "v": m["v"]} for m in ms],
                "coq": "%s %s %s" % ("EDrop" if k == "drop" else "EKeep", clist(cbytes(B(n)) for n in names), clist(m["pair"] for m in ms))}

    def st_pattern(self, parts):
        """parts: list of ('lit', text) | ('cap', name)"""
        p = "".join(t if k == "lit" else "<%s>" % t for k, t in parts)
        # the model receives the pattern TEXT and parses it with its own model of logqlpattern.Parse (Run/Eng.v `pat`)
        return {"k": "pattern", "p": p, "coq": "EPattern (pat %s)" % cbytes(B(p))}

    def st_regexp(self, sid, src, names):
        """names: list of group names in order (None for unnamed groups)"""
        mapping = [(i + 1, n) for i, n in enumerate(names) if n]
        return {"k": "regexp", "src": src, "mapping": mapping, "sid": sid,
                "coq": "ERegexp %d %s" % (sid, clist("(%d,%s)" % (i, cbytes(B(n))) for i, n in mapping))}

    def disambiguate(self, pipe):
        """`| drop a != "x"` reads as a drop matcher: a negated line filter must not directly follow a stage whose text ends in a bare label name"""
        out = []
        for s in pipe:
            if out and s["k"] == "line" and s["op"] in ("!=", "!~"):
                p = out[-1]
                bare = (p["k"] in ("drop", "keep") and not p["matchers"]) or (p["k"] == "distinct") or \
                       (p["k"] in ("json", "logfmt") and p["labels"] and not p["exprs"]) or (p["k"] in ("drop", "keep"))
                if bare:
                    s = self.negate_line(s)
            out.append(s)
        return out

    # ---------- text
    def query_text(self, sel, pipe, style="spaced"):
        toks = self.r.selector(sel)
        for s in pipe:
            toks += self.r.stage(s)
        return qgen.layout(self.rng, toks, style)

    @staticmethod
    def query_coq(sel, pipe):
        return "{| q_sel := %s; q_pipe := %s |}" % (clist(m["coq"] for m in sel), clist(s["coq"] for s in pipe))


def oracles_coq(jsonl=(), logfmt=(), submatch=(), decolor=()):
    """jsonl: [(line bytes, jres coq)], logfmt: [(line, coq)], submatch: [(sid, [(line, None|[groups])])], decolor: [(line, out)]"""
    sm = clist("(%d,%s)" % (sid, clist("(%s,%s)" % (cbytes(l), "None" if g is None else "Some %s" % clist(cbytes(B(x)) for x in g)) for l, g in tbl))
               for sid, tbl in submatch)
    return "{| o_json := %s; o_logfmt := %s; o_submatch := %s; o_decolor := %s |}" % (
        clist("(%s,%s)" % (cbytes(l), c) for l, c in jsonl),
        clist("(%s,%s)" % (cbytes(l), c) for l, c in logfmt), sm,
        clist("(%s,%s)" % (cbytes(l), cbytes(o)) for l, o in decolor))


def base_labels(r):
    """independent statement of LabelSet.SetFromRecord for generator records: dict bytes->bytes"""
    d = {}
    if r["line"]:
        d[b"msg"] = r["line"]
    for k, v in list(r["attrs"]) + list(r["res"]):
        d[key_to_label(B(k))] = B(v)
    return d


def labels_coq(d):
    return clist("(%s,%s)" % (cbytes(k), cbytes(v)) for k, v in sorted(d.items()))


def dedup(pairs):
    seen, out = set(), []
    for l, c in pairs:
        if l not in seen:
            seen.add(l)
            out.append((l, c))
    return out


CAPSETS = [([], []), ([10, 11, 12, 13], []), ([], [10, 11, 12, 13]), ([10, 11, 12, 13], [10, 11, 12, 13])]


def rand_caps(rng):
    sub = lambda: [o for o in (10, 11, 12, 13) if rng.random() < 0.5]
    return (sub(), sub())
