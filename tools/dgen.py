"""Generator for queries over the fake Docker daemon (C02, C14, C18): inventories, framed log streams with faults,
selectors over container labels -- each with its JSON form (harness), its Coq term (Model/Docker.v) and the
generator's own expectation (selected ids, since/until, must-fail / must-succeed)."""
import re as pyre

import egen
import mgen
from egen import B, sm_coq, key_to_label
from vlib import cbytes, clist, cZ, cbool, copt, b64e, b64d
from props.c03 import fmt_ts, frame

S = 10**9
T0 = 1_700_000_000 * S


def ev_coq(events):
    out = []
    for e in events:
        if "d" in e:
            out.append("Data %s" % cbytes(b64d(e["d"])))
        elif e.get("eof"):
            out.append("Eof")
        else:
            out.append("Fail")
    return clist(out)


class Ctr:
    """one container: identity, labels, intended records, optional fault"""

    def __init__(self, rng, i, name=None, image=None, state=None, labels=None):
        self.i = i
        self.id = "id%d%s" % (i, rng.choice(["", "ab", "f3"]))
        self.names = ["/" + (name or rng.choice(["web", "api", "db", "web-1", "cron", "a", "ab"]))]
        if rng.random() < 0.1:
            self.names = []
        elif rng.random() < 0.15:
            self.names.append("/alias%d" % i)
        self.image = image or rng.choice(["nginx:1", "postgres", "app:latest", "nginx:2", ""])
        self.image_id = rng.choice(["sha256:aa", "sha256:bb", ""])
        self.command = rng.choice(["run", "/bin/sh -c x", ""])
        self.created = rng.choice([0, 1700000000, 5])
        self.state = state or rng.choice(["running", "exited", "paused"])
        self.status = rng.choice(["Up 2 hours", "Exited (0)", ""])
        self.labels = labels if labels is not None else self.gen_labels(rng)
        self.recs = []          # [(ts, line bytes)]
        self.fault = None       # None | ("open",) | ("cut_body", k) | ("cut_header", k) | ("daemon", k) | ("bad_ts", k) | ("nospace", k) | ("fail", k)
        self.frag = "one"

    @staticmethod
    def gen_labels(rng):
        pool = [("tier", ["db", "web", ""]), ("com.example.role", ["dotted", "x"]), ("com_example_role", ["underscored"]), ("com-example-role", ["dashed"]),
                ("env", ["prod", "dev", "prod,team=x", 'prod",team="x']), ("team", ["x"]), ("9lives", ["cat"]), ("app", ["shop", "blog"]), ("container", ["impostor"]), ("é", ["accent"]),
                ("msg", ["deploy-42"]), ("level", ["from-container"]), ("trace_id", ["t1"])]        # names the engine also derives from the record itself
        out = {}
        for k, vs in rng.sample(pool, rng.randint(0, 4)):
            out[k] = rng.choice(vs)
        return out

    def label_view(self):
        """independent statement of getLabels (after the fix of D28): dict bytes -> bytes"""
        name = self.names[0][1:] if self.names and self.names[0].startswith("/") else (self.names[0] if self.names else "")
        d = {b"container": B(name), b"container_id": B(self.id), b"container_name": B(name), b"container_image": B(self.image),
             b"container_image_id": B(self.image_id), b"container_command": B(self.command), b"container_created": str(self.created).encode(),
             b"container_state": B(self.state), b"container_status": B(self.status)}
        for k in sorted(self.labels, key=lambda s: s.encode()):
            d[key_to_label(B(k))] = B(self.labels[k])
        return d

    def set_records(self, rng, n, t0, span, tick=S // 2):
        tss = sorted(t0 + rng.randrange(0, span // tick + 1) * tick for _ in range(n))
        self.recs = [(ts, B("%s:%d %s" % (self.id, k, rng.choice(["error x", "info ok", "GET /a", "n=5", "n=7 lvl=e"])))) for k, ts in enumerate(tss)]

    def stream(self, faulty=True):
        """events of the log stream; with faulty=False the intended (fault-free) stream"""
        frames = [frame(1 + (k % 2), fmt_ts(ts) + b" " + line) for k, (ts, line) in enumerate(self.recs)]
        f = self.fault if faulty else None
        if not faulty and self.fault and self.fault[0] == "cut_header":
            # a stream cut inside a frame header ends cleanly after the last whole record (C03): the intended content is the truncated one
            data = b"".join(frames[:min(self.fault[1], len(frames))])
            return ([{"d": b64e(data)}] if data else []) + [{"eof": True}]
        if f is None or f[0] == "open":
            data = b"".join(frames)
            return ([{"d": b64e(data)}] if data else []) + [{"eof": True}]
        kind, k = f
        k = min(k, len(frames))
        head = b"".join(frames[:k])
        if kind == "cut_body":
            nxt = frames[k] if k < len(frames) else frame(1, fmt_ts(T0) + b" tail")
            cut = 8 + max(0, min(len(nxt) - 9, f[1] % 5))
            data = head + nxt[:cut]
            return [{"d": b64e(data)}, {"eof": True}]
        if kind == "cut_header":
            nxt = frames[k] if k < len(frames) else frame(1, fmt_ts(T0) + b" tail")
            data = head + nxt[:1 + (f[1] % 7)]
            return [{"d": b64e(data)}, {"eof": True}]
        if kind == "daemon":
            data = head + frame(3, b"daemon says no") + b"".join(frames[k:])
            return [{"d": b64e(data)}, {"eof": True}]
        if kind == "bad_ts":
            data = head + frame(1, b"2024-13-01T00:00:00Z oops") + b"".join(frames[k:])
            return [{"d": b64e(data)}, {"eof": True}]
        if kind == "nospace":
            data = head + frame(1, b"nospacehere") + b"".join(frames[k:])
            return [{"d": b64e(data)}, {"eof": True}]
        # reader failure after k frames
        return ([{"d": b64e(head)}] if head else []) + [{"fail": True}]

    def json(self, faulty=True):
        return {"id": b64e(self.id), "names": [b64e(n) for n in self.names], "image": b64e(self.image), "image_id": b64e(self.image_id),
                "command": b64e(self.command), "state": b64e(self.state), "status": b64e(self.status), "created": self.created,
                "labels": [[b64e(k), b64e(v)] for k, v in self.labels.items()], "events": self.stream(faulty),
                "open_fail": bool(faulty and self.fault and self.fault[0] == "open"),
                # the class of the daemon's answer when the log cannot be opened: whatever it is, it is a failure of the query
                # one reader in three reports an error when it is closed: the others are closed all the same
                "close_err": sum(self.id.encode()) % 3 == 0,
                "open_fail_class": ["generic", "notfound", "eof", "canceled", "unavailable", "ueof"][sum(self.id.encode()) % 6]}

    def coq(self, faulty=True):
        return "ctr %s %s %s %s %s %s %s %s %s %s %s" % (
            cbytes(B(self.id)), clist(cbytes(B(n)) for n in self.names), cbytes(B(self.image)), cbytes(B(self.image_id)), cbytes(B(self.command)),
            cZ(self.created), cbytes(B(self.state)), cbytes(B(self.status)),
            clist("(%s,%s)" % (cbytes(B(k)), cbytes(B(v))) for k, v in self.labels.items()),
            ev_coq(self.stream(faulty)), cbool(bool(faulty and self.fault and self.fault[0] == "open")))


def matcher(rng, ctrs, force_label=None):
    """a selector matcher over container labels: dict with text fields, Coq term and a python predicate"""
    views = [c.label_view() for c in ctrs] or [{}]
    names = sorted({k.decode() for v in views for k in v})
    l = force_label or rng.choice(names + ["nosuch", "tier", "com_example_role"])
    lb = B(l)
    vals = sorted({v.get(lb, b"") for v in views}) + [b"", b"zz"]
    op = rng.choice(["=", "!=", "=~", "!~"])
    if op in ("=", "!="):
        v = rng.choice(vals).decode("utf-8", "replace")
        pred = (lambda s, v=v: s == B(v)) if op == "=" else (lambda s, v=v: s != B(v))
        rx = None
        text = v
    else:
        cand = [x.decode("utf-8", "replace") for x in vals if x and pyre.fullmatch(rb"[A-Za-z0-9:_ /.\-]+", x)] or ["x"]
        w = rng.choice(cand)
        shape = rng.randrange(8)
        own_anchors = False
        if shape >= 6:
            # the user's own ^ and $ around a top-level alternation: ^web|db$ is still fully anchored as a whole, (?:^web|db$) between ^ and $,
            # i.e. exactly web or db - not "starts with web or ends in db"
            w2 = rng.choice(cand)
            n = ("alt", ("lit", B(w)), ("lit", B(w2))); src = pyre.escape(w) + "|" + pyre.escape(w2)
            own_anchors = True
        elif shape == 0:
            n = ("lit", B(w)); src = pyre.escape(w)
        elif shape == 1:
            n = ("lit", B(w[:1])); src = pyre.escape(w[:1])              # anchoring probe: a proper prefix must not match
        elif shape == 2:
            n = ("cat", ("lit", B(w[:1])), ("star", ("any",))); src = pyre.escape(w[:1]) + ".*"
        elif shape == 3:
            w2 = rng.choice(cand)
            n = ("alt", ("lit", B(w)), ("lit", B(w2))); src = pyre.escape(w) + "|" + pyre.escape(w2)
        elif shape == 4:
            n = ("star", ("any",)); src = ".*"
        else:
            n = ("plus", ("any",)); src = ".+"
        gosrc = egen.Rx.src(n)
        if own_anchors:
            gosrc = "^" + gosrc + "$"
        rx = {"src": gosrc, "coq": "(rx false %s false)" % egen.Rx.coq(n)}
        text = gosrc
        cre = pyre.compile(src.encode(), pyre.S) if False else pyre.compile(src.encode())
        pred = (lambda s, cre=cre: cre.fullmatch(s) is not None) if op == "=~" else (lambda s, cre=cre: cre.fullmatch(s) is None)
    return {"l": l, "op": op, "v": text, "coq": "em %s %s" % (cbytes(lb), sm_coq(op, text, rx)), "pred": lambda view, lb=lb, pred=pred: pred(view.get(lb, b""))}


def selected(ctrs, sel):
    return [c for c in ctrs if all(m["pred"](c.label_view()) for m in sel)]
