#!/usr/bin/env python3
"""seedcheck.py <Cxx> <a|b|...> [check-id ...]: confirm a sub-agent's seeded change in its scratch worktree
(applies, builds, suite passes, demo passes without / fails with the change), run our checks against it on /repo,
and store it under /verif/seeded/<Cxx><x>/ (patch.diff, demo, meta.json).

The sub-agent delivers /tmp/seed_<Cxx>/<x>/{patch.diff, demo_test.go (first line `// dir: <package dir>`), notes.md}
(older format: meta.json with demo_path)."""
import json, os, re, shutil, subprocess, sys
from pathlib import Path

pid, x = sys.argv[1], sys.argv[2]
checks = [a for a in sys.argv[3:] if not a.startswith("--")] or [pid]
r2 = "2" if "--round2" in sys.argv else "3" if "--round3" in sys.argv else "4" if "--round4" in sys.argv else "5" if "--round5" in sys.argv else "6" if "--round6" in sys.argv else "7" if "--round7" in sys.argv else "8" if "--round8" in sys.argv else "9" if "--round9" in sys.argv else "10" if "--round10" in sys.argv else "11" if "--round11" in sys.argv else "12" if "--round12" in sys.argv else "13" if "--round13" in sys.argv else ""
wt = Path("/tmp/wt%s_%s" % (r2, pid))
sd = Path("/tmp/seed%s_%s/%s" % (r2, pid, x))
env = dict(os.environ, GOFLAGS="-mod=mod", GOPROXY="off", GOSUMDB="off", GOTOOLCHAIN="local")
meta = {}
if (sd / "meta.json").exists():
    meta = json.loads((sd / "meta.json").read_text())
    demo_rel = meta["demo_path"]
    demo_src = sd / Path(demo_rel).name
else:
    demo_src = sd / "demo_test.go"
    first = demo_src.read_text().splitlines()[0]
    m = re.match(r"//\s*dir:\s*(\S+)", first)
    assert m, "demo has no `// dir:` header"
    demo_rel = "%s/zz_seed_%s%s_test.go" % (m.group(1), pid, x)
    meta = {"property": pid, "demo_path": demo_rel, "notes": (sd / "notes.md").read_text() if (sd / "notes.md").exists() else ""}
tests = re.findall(r"^func (Test\w+)\(", demo_src.read_text(), re.M)
runpat = "^(%s)$" % "|".join(tests)


def sh(cmd, cwd=wt, timeout=1500):
    p = subprocess.run(cmd, shell=True, cwd=cwd, env=env, stdout=subprocess.PIPE, stderr=subprocess.STDOUT, text=True, timeout=timeout)
    return p.returncode, p.stdout


def clean():
    sh("git checkout -- . && git clean -fdq")


ran = {}
clean()
rc, out = sh("git apply --check %s" % (sd / "patch.diff")); ran["apply_check"] = rc
assert rc == 0, out
pkg = "./" + str(Path(demo_rel).parent)
shutil.copy(demo_src, wt / demo_rel)
rc, out = sh("timeout 300 go test -vet=off -count=1 -run '%s' %s" % (runpat, pkg)); ran["demo_unchanged_rc"] = rc
print("demo on unchanged:", rc)
if rc != 0:
    print(out[-1500:])
(wt / demo_rel).unlink()
sh("git apply %s" % (sd / "patch.diff"))
rc, out = sh("go build ./... && go test -vet=off -count=1 ./... 2>&1 | tail -30"); ran["suite_with_change_rc"] = rc
print("suite with change:", rc, "FAIL" in out)
ran["suite_with_change_has_FAIL"] = "FAIL" in out
shutil.copy(demo_src, wt / demo_rel)
rc, out = sh("timeout 300 go test -vet=off -count=1 -timeout 120s -run '%s' %s" % (runpat, pkg)); ran["demo_changed_rc"] = rc
print("demo with change:", rc)
clean()
ok = ran["demo_unchanged_rc"] == 0 and ran["suite_with_change_rc"] == 0 and not ran["suite_with_change_has_FAIL"] and ran["demo_changed_rc"] != 0
print("CONFIRMED" if ok else "NOT CONFIRMED", ran)
if not ok:
    sys.exit(1)
# run our checks on /repo with the patch applied
det = {}
rc, out = sh("git status --porcelain", cwd="/repo")
assert out.strip() == "", "repo dirty"
try:
    rc, out = sh("git apply %s" % (sd / "patch.diff"), cwd="/repo")
    if rc != 0:
        print("patch does not apply on /repo HEAD (repo has moved on):", out[-500:])
        det["applies_on_repo_head"] = False
    else:
        for c in checks:
            rc, out = sh("./check %s --tier quick" % c, cwd="/verif", timeout=3000)
            lines = [l for l in out.splitlines() if l.startswith("VIOLATION") or l.startswith(c)]
            det[c] = {"exit": rc, "lines": lines[:4]}
            print(c, rc, lines[:3])
finally:
    sh("git checkout -- .", cwd="/repo")
dst = Path("/verif/seeded/%s%s" % (pid, x))
dst.mkdir(parents=True, exist_ok=True)
shutil.copy(sd / "patch.diff", dst / "patch.diff")
shutil.copy(demo_src, dst / Path(demo_rel).name)
if (sd / "notes.md").exists():
    shutil.copy(sd / "notes.md", dst / "notes.md")
meta["confirmation"] = ran
meta["demo_tests"] = tests
meta["what_i_ran"] = ("tools/seedcheck.py: in scratch worktree: git apply --check; demo on unchanged tree (pass); apply patch; go build ./... && go test ./... (pass); "
                      "demo with change (fail); then applied to /repo, ran the listed checks, reverted with git checkout")
meta["detection"] = det
(dst / "meta.json").write_text(json.dumps(meta, indent=1) + "\n")
