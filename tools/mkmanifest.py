#!/usr/bin/env python3
"""Regenerates /verif/MANIFEST.json from the table below (keeps it valid at all times)."""
import json
from pathlib import Path

VERIF = Path(__file__).resolve().parent.parent

# property -> (technique, level text, level note, design ref)
CLAIMED = {
    "C20": (
        "Coq proof (induction over runes) + differential correspondence KeyToLabel vs model",
        "Theorems ktl_valid / ktl_id_on_valid / ktl_idempotent / ktl_pointwise proved in Coq for all byte strings about a Gallina "
        "transliteration of KeyToLabel; the model is tied to /repo on every run by running otelstorage.KeyToLabel and the model on the "
        "complete set of strings up to length 3 (thorough: 5) over the 13-symbol alphabet plus random keys, compared inside Coq.",
        "Trusted: Coq kernel + vm_compute, the hand-written model (checked by correspondence), Base/Utf8.v as model of Go's range-over-string "
        "decoding, Go harness and python drivers. No axioms (Print Assumptions: closed under the global context).",
        "DESIGN.md 4 C20"),
}

CLAIMED["C03"] = (
    "Coq proof (induction over frames and read events) + differential correspondence ParseLog vs model",
    "Theorems decode_encode / decode_frag_indep / cut_in_header / cut_in_body / reader_failure_* / daemon_error_frame / bad_timestamp / no_space "
    "proved in Coq for all record sequences, all fragmentations (frag cuts) and all fault positions about a transliteration of streamIter.parseNext "
    "(io.ReadFull/io.CopyN semantics included); tied to /repo by running dockerlog.ParseLog over a scripted fragmenting, fault-injecting reader and "
    "comparing records and end state with the model inside Coq, plus the property's own expectation (records wholly before the fault, clean vs error).",
    "Trusted: Coq kernel + vm_compute; time.Parse/Format(RFC3339Nano) is a library oracle (theorems assume parse(fmt t)=Some t and no space in fmt t; "
    "executable instance Base/TimeFmt.v validated by correspondence only); reader events are sticky and never return (0,nil); harness + generators.",
    "DESIGN.md 4 C03")

CLAIMED["C04"] = (
    "Coq proof (heap-order invariant of container/heap's exact up/down; loop invariants of mergeIter: per-source order, fedness, lower bounds; schedule-independence of the index-addressed open) + differential correspondence SelectLogs vs model + in-Coq validity check of every observed merge",
    "Proved for all inputs about the faithful model of mergeIter (exact container/heap up/down, init/Next refill logic): merge_perm (every record of every source exactly once), merge_keeps_source_order (each source's own order, "
    "regular end), merge_sorted (sources in time order => merged stream in time order, ties allowed), heap_push_keeps_order / heap_pop_returns_min (the root is a minimum, for any less whose negation is transitive and total), "
    "heap_push_conserves / heap_pop_conserves, open_schedule_indep (the slot array after Wait is the same for EVERY completion order). The model is compared with dockerlog.Querier.SelectLogs over a fake Docker daemon on the exact "
    "output sequence (ties included) under several scripted completion orders per case (thorough: all n! for n<=5), and every observed stream is also checked inside Coq by valid_merge and for equality across completion orders.",
    "Trusted: Coq kernel + vm_compute; goroutine scheduling modelled as completion order of open tasks (fake daemon releases blocked ContainerLogs calls in the scripted order); "
    "harness + fake Docker client; Go memory-model race freedom is not covered here (see C18).",
    "DESIGN.md 4 C04")

CLAIMED["C15"] = (
    "Coq proof (induction over entries: totality, sortedness, permutation, palette bounds) + differential correspondence renderResult vs model",
    "Theorems render_total (no panic for any number of containers / any bytes / all 8 option sets; one line per entry), render_lines (lines = formatted entries of a "
    "timestamp-sorted permutation; colour code a function of the container name alone, always a palette entry), colour_off_adds_nothing, trim_is_trailing_crlf_only, and the "
    "refutation of the pre-fix palette index (D14, fixed). Tied to /repo by calling renderResult through a package-main hook and matching the output bytes inside Coq against "
    "(a) the model's lines up to the order of equal timestamps and (b) the property itself with the colour assignment left free but required to be consistent.",
    "Trusted: Coq kernel + vm_compute; TZ=UTC; time formatting instance Base/TimeFmt.v; order among equal timestamps unspecified (slices.SortFunc) and compared up to permutation; hook + generators.",
    "DESIGN.md 4 C15")
CLAIMED["C16"] = (
    "Coq proof (Z arithmetic with lia, digit-string induction, one complete 1000-value float enumeration) + differential correspondence parseTimeRange/parseStep vs model",
    "Theorems range_defaults_* / range_explicit_honoured, secs/nanos/rfc spelling characterisation and spellings_agree, default_step_formula (exact floor((end-start)/250s), all ranges), "
    "explicit_step_positive, malformed_*_rejected, plus refutations of the pre-fix code (D15 step 0/NaN accepted, D22 float default step off by one; both fixed). PARTIAL: for fractional-second "
    "spellings only the last float step is proved (frac_ms_final_step, complete enumeration of the 1000 ms values); correct rounding of strconv.ParseFloat and the recovery of the millisecond "
    "count by math.Round are established by correspondence. Tied to /repo through a package-main hook on generated flag combinations with generator-computed expectations.",
    "Trusted: Coq kernel + vm_compute with primitive floats; strconv.ParseFloat/ParseInt, time.Parse, model.ParseDuration modelled (ParseFloat only on the exact <=15 digit fragment; the rest counted as "
    "outside_model_fragment); amd64 float->int64 conversion semantics.",
    "DESIGN.md 4 C16")

CLAIMED["C05"] = (
    "Coq model of the whole recursive-descent parser + proofs (selector round trip by induction, validate() rules) + differential correspondence logql.Parse vs model + generator-computed expected trees; token/precedence tables regenerated from the Go source on every run",
    "The token-level parser model (Model/Parser.v: every parseX of parser*.go incl. validate()) is compared with logql.Parse on the exact tree for random grammar-derived queries in three layouts "
    "(incl. comments, both quoting styles), a list of statically invalid queries and single-token corruptions; what the text denotes is computed independently by the generator and checked on the "
    "implementation's output. Proved: parse_print_selector_partial (round trip for selectors with any number of matchers, label names lexed as Ident or as keywords, D29), "
    "parse_print_pipeline_partial (round trip for pipelines of any length over line filters incl. ip(), pattern, line_format, unpack, decolorize, drop / keep name lists, distinct, json / logfmt label lists, label_format, label filters), vec_param_parse (topk(k, ..) / bottomk / sort / sort_desc / sum(..) with the operand directly in parentheses), unwrap_agg_param_parse (quantile_over_time(p, .. | unwrap ..)), bin_range_parse (one binary operation between two range aggregations, all fifteen operators), bin_mod_parse (the same with a modifier: bool, on / ignoring (labels), group_left / group_right with or without (labels), and their combinations -> the modifier node), bin_op_text_parse (the TEXT of such a binary operation, any covered layout -> lexer -> parser -> tree), bin_lit_right_parse / bin_lit_left_parse (a range aggregation and a signed number on either side, arithmetic and comparison operators, any modifier), scalar_logic_rejected (and / or / unless with a number operand are rejected), paren_parse (redundant parentheses around a range aggregation are kept as a ParenExpr node), parse_print_labelfilter_partial (label-filter predicates: string / number / duration / bytes / ip comparisons, parentheses, and / or chains with `and` tighter than `or`, D34), "
    "parse_print_logrange_partial ({selector} pipeline [range] offset), log_query_parse and range_agg_parse (whole queries through parse_tokens = logql.Parse after tokenizing: every log query over the fragment, and every "
    "count_over_time / rate / bytes_over_time / bytes_rate / absent_over_time over such a log range, denotes exactly its structure), vec_agg_parse (sum/avg/count/max/min/stddev/stdvar by|without (labels) over such a range "
    "aggregation), unwrap_agg_parse (range aggregations over `| unwrap l` / `| unwrap bytes(l)` with range, offset and optional grouping), seven static-rule theorems about validate(). "
    "The lexer is modelled too (Model/Lexer.v: text/scanner on a fragment, ScanUnit, keyword table and function look-ahead generated from token.go) and compared with lexer.Tokenize on every run (part `lexer`); theorems lex_layout / lex_layout_insignificant: tokens (identifiers, keywords, function keywords followed by an opening parenthesis, operators, strings) separated by any non-empty white space lex to exactly those tokens, so the layout between tokens is insignificant; lexer and parser composed (Proofs/LexParseP.v): lex_tokens (lexable parser tokens written with any white space lex back to themselves), selector_text_parse (selector TEXT -> matchers) log_query_text_parse (TEXT of a whole log query over the pipeline fragment -> ELog selector stages through parse_tokens), range_agg_text_parse, vec_agg_text_parse and unwrap_agg_text_parse (TEXT of op({..} stages [5m] offset 1h), of sum by (a, b) (op(..)) and of op({..} | unwrap conv(n) [5m]) by (a) -> their trees; durations as digits and one unit); lex_layout_content (separators - white space and # comments - and the quoting style of strings, \"..\" or raw, do not change the token sequence); lex_layout_tight (Proofs/LexerTightP.v): white space is needed only where two tokens would run together, all text theorems hold for such layouts, e.g. {app=\"x\"}|=\"err\"|json. "
    "PARTIAL: parse(print c)=abs c for the rest of the grammar (extraction expressions, regexp stage, label filters, unwrap post-filters, quantile parameter, topk/sort, binary operations, label_replace) and parse soundness are not theorems yet; the lexer model covers a fragment of text/scanner (inputs outside it are judged on the implementation's answer); its layout theorem does not yet cover numbers, quantities, raw strings, comments and function keywords; the model parser consumes Go's token list.",
    "Trusted: Coq kernel + vm_compute; tools/gentables.py (regex-level translator of token.go/op.go tables into Model/Tables.v); per-token library results (ParseFloat, Atoi, durations, bytes, regexp.Compile) recorded by the harness "
    "and passed to the model as oracle fields; generator's notion of the denoted tree (tools/qgen.py).",
    "DESIGN.md 4 C05")
CLAIMED["C13"] = (
    "Coq proof by complete enumeration (reflection) of the bounded domain the property names + differential correspondence on parse trees; precedence table regenerated from op.go on every run",
    "Theorems for ALL chains of up to five operands over the fifteen operators (54,241 operator sequences enumerated inside Coq by vm_compute, bound stated in the theorems): parse_as_is (complete characterisation of the grouping the parser "
    "produces), prec_table_conventional, parse_conv_partial (outside the equal-precedence region the tree IS the conventional one, ^ right-associative), parse_conv_refuted (0-1+2 parses as 0-(1+2): finding D11, pinned by TestParse, "
    "listed in known_findings.json). The check parses every chain of <=4 operands (thorough: all 15^4 five-operand chains) plus parenthesised variants with the real parser and compares with the conventional tree; cases in the D11 region are "
    "attributed to the finding only when the implementation's tree equals the faithful model's.",
    "Trusted: Coq kernel + vm_compute; tools/gentables.py translator; grouping observed at parse level (evaluation of a given tree is C12).",
    "DESIGN.md 4 C13")

ENG_NOTE = ("Trusted: Coq kernel + vm_compute (primitive floats for numeric label filters); the hand-written stage/engine model, tied to the code only by the correspondence run; "
            "library oracles: regexp as the Brzozowski matcher of Base/Regex.v on its ASCII fragment, jx/go-logfmt/FindStringSubmatch/ANSI-strip results supplied per line by the generator, "
            "ParseFloat on the <=15-digit fragment, durations/bytes/IPv4 transliterated; cases outside a fragment are counted (outside_model_fragment) and compared on the property only; "
            "the mock storage of the harness; __error_details__ texts masked.")
CLAIMED["C01"] = (
    "Coq proof (induction over records and stages; refinement of the iterator loop + offload split to a per-record comprehension) + differential correspondence Engine.Eval vs model under five capability sets per case",
    "Theorems eval_log_caps_indep (whatever is computed with nothing offloaded is computed under EVERY capability set, any limit, incl. distinct), eval_log_exact (distinct-free: the result is spec_select, each "
    "record's own contribution in delivery order), result_is_comprehension / result_sound_complete (every matching record once, nothing else), match_preserves (timestamp; line unless a rewriting stage), and the refutation "
    "of the pre-fix offloading rule (D12). Tied to /repo by evaluating generated queries (all stage kinds) over generated records through Engine.Eval on a capability-honouring mock storage under the four extreme capability sets "
    "and a random one; the observed results must agree with each other, with the per-record spec and with the faithful model.",
    ENG_NOTE + " Mixed and/or without parentheses nests to the right in this parser (a and b or c = a and (b or c)); the spec follows the parser here and DESIGN.md says so.",
    "DESIGN.md 4 C01")
CLAIMED["C19"] = (
    "Coq proof (one central lemma: appending a filter stage filters the result; list-filter algebra; lifted to the engine under every capability set) + metamorphic correspondence on families of related queries",
    "Theorems filter_sub, neg_partition (|= / !=, |~ / !~, label = / !=, =~ / !~: disjoint parts whose union is q's result, as a Permutation), filters_commute, filter_idempotent, and_inter_or_union (with the inclusion-exclusion "
    "count), empty_needle_id, for any distinct-free query q, any needle, any regex matcher, any oracle tables. The check evaluates the family q, q|f, q|not f, q|f|g, q|g|f, q|f|f, q|a, q|b, q|a and b, q|a or b, q|=\"\" on the real engine "
    "and verifies the relations on the OBSERVED results as well as equality with the model.",
    ENG_NOTE, "DESIGN.md 4 C19")
CLAIMED["C08"] = (
    "Coq proof (fold invariant of groupEntries: key uniqueness, per-key content, count; insertion-sort lemmas; limit as a prefix by induction over the iteration) + differential correspondence with limits",
    "Theorems streams_nodup, stream_content (a stream holds exactly the entries of its label set, sorted, never empty), entry_placed, count_conserved, limit_prefix (positive limit = first min(L,N) entries of the unlimited answer, "
    "every capability set, every pipeline), nonpositive_limit_all, result_time_ordered (for a storage delivering in time order). The check evaluates each query with limits {-5,-1,0,1,2,N-1,N,N+1,100} incl. label values that "
    "imitate the rendering of other labels (the grouping key is LabelSet.String) and verifies shape, prefix and equality with the model. grouping_key_injective: the textual grouping key LabelSet.String() is injective on label sets (names without '='), GIVEN that strconv.Quote is a prefix code - "
    "that one fact about strconv.Quote is a hypothesis of the theorem (Quote is not modelled: its escaping depends on unicode.IsPrint) and is exercised by the key-collision inputs.",
    ENG_NOTE, "DESIGN.md 4 C08")
CLAIMED["C07"] = (
    "Coq proof (finite-map laws on sorted association lists; per-stage semantics lemmas) + differential correspondence with generator-computed expected line and full label set of every entry",
    "Theorems rename_present / rename_absent / rename_self (+ refutation of the pre-fix self-rename, D20), label_tmpl_sem / label_tmpl_fail, line_format_sem, template_bindings (__line__, __timestamp__, .label), template_concat, "
    "selected_iff / drop_sem / keep_sem (+ refutation of the pre-fix conjunction rule, D25), decolorize_plain / decolorize_sem, rewriter_keeps. The check runs each stage (and chains) on the real engine and demands, per entry, the "
    "expected line and the expected complete label set computed by the generator from the LogQL reading, and count = N.",
    ENG_NOTE + " Templates: the subset text/.label/__line__/__timestamp__|unixEpochNanos/ToUpper/ToLower/unixToTime; ANSI stripping is an oracle (decolorize_sem is conditional on it).",
    "DESIGN.md 4 C07")
CLAIMED["C06"] = (
    "Coq proof (last-binding characterisation of folding fields into a label set; case analysis of every parser stage) + differential correspondence with generator-computed expected label sets",
    "Theorems stage_keeps_line (all five parser stages never drop; only unpack may replace the line, by _entry), json_all_exposes / json_some_only / logfmt_exposes (every field exposed with exactly its value, last duplicate wins, "
    "existing label overridden, nothing else touched), *_unparsable_flagged, error_label_set / first_error_wins, pattern_two_captures / capture_is_first_occurrence. The check renders documents (JSON incl. nested/duplicate/escaped/"
    "malformed, logfmt, packed entries, delimiter-separated lines) and demands count = N, unchanged lines and the complete expected label set of every entry. The parsers behind two stages are modelled as well: "
    "jsonexpr.Parse (Model/JsonPath.v, theorem path_expression_roundtrip: every expression of .field / [\"quoted key\"] / [index] items denotes exactly those selectors) and logqlpattern.Parse (Model/PatternParse.v, theorem "
    "pattern_roundtrip); check parts `jsonpath-parse` and `pattern-parse` compare them with the implementation on grammar-derived, mutated and random inputs (D31 was found that way). PARTIAL: the regexp stage's submatch is an oracle; "
    "strconv.Unquote / Atoi inside the path parser are modelled on a fragment (printable ASCII, 18 digits).",
    ENG_NOTE, "DESIGN.md 4 C06")

MET_NOTE = ("Trusted: Coq kernel + vm_compute with primitive binary64 floats (aggregators modelled operation by operation; same IEEE-754 arithmetic as Go on amd64); the hand-written metric model "
            "(Model/Metric.v), tied to the code only by the correspondence run; xxhash abstracted (series keyed by the visible label set; injectivity of what is hashed is theorem serialise_inj, "
            "collision-freedom of the hash assumed); math.Mod/math.Pow on their exact integer fragment only; log selection part via the C01 model and its oracles; mock storage of the harness; "
            "timestamps compared in milliseconds; samples delivered in time order (C04).")
CLAIMED["C09"] = (
    "Coq proof (invariant over the history of window slides: consumed prefix / untouched rest / per-series window content; induction over any strictly increasing list of evaluation times) + differential correspondence on three evaluations per case (two grids and instant queries)",
    "Theorems range_exact (for EVERY strictly increasing list of evaluation times, every step is stamped T, holds no duplicate series and reports for every label set exactly agg of the samples in [T-o-r, T-o] in arrival order, "
    "nothing for an empty window), range_on_grid / grid_members (the engine's grid start+k*step <= end), grid_indep (the value at T is independent of grid start, step and the other times evaluated; instant = range), and the "
    "refutation of the pre-fix eviction rule (D4). The check evaluates each generated range aggregation (13 functions, unwrap conversions, offsets, edge and tied samples) on two different grids and as instant queries on the real "
    "engine and demands the window reading at every grid point and equal vectors at shared instants, plus equality with the faithful model.",
    MET_NOTE + " `rate` over an unwrap expression counts lines in this code base (the sampler ignores the unwrap for rate); the model follows the code and DESIGN.md records it.",
    "DESIGN.md 4 C09")
CLAIMED["C10"] = (
    "Coq proof (injectivity of the length-prefixed serialisation by digit induction; partition-count lemma; NoDup of keys as part of the range / vector aggregation invariants) + differential correspondence on adversarial label sets, evaluated twice",
    "Theorems serialise_inj (the bytes hashed by Key() determine the visible label set, for all label sets incl. prefixes/concatenations), key_iff_labels, prefix_key_collides / prefix_key_order_dependent (D7 / D6 refuted for the pre-fix key), "
    "no_dup_series_range / no_dup_series_vagg (no step holds two series with one label set), count_conserved (per step the series partition the samples of the window). The check runs count_over_time / sum by / sum without / nested "
    "without over label sets that collide under naive concatenation or materialise in varying map order, twice per process, and demands equal results, no duplicate label set, the window reading and conserved counts.",
    MET_NOTE, "DESIGN.md 4 C10")
CLAIMED["C11"] = (
    "Coq proof (fold invariant of the per-step group table; restriction algebra of by/without) + metamorphic correspondence: the outer aggregation's observed result against the aggregate of the OBSERVED inner vector",
    "Theorems vagg_groups (one series per distinct combination of retained labels, value = aggregate of exactly the group's members in arrival order, timestamp kept, no duplicate), group_labels, no_grouping_single_group, by_nothing, "
    "nested_no_reappear, prefix_grouping_refuted (D8 D9 D10), sort_permutation, sort_sorted (ascending / descending by value) and topk_groups: for k > 0, any grouping clause and every group key, the output restricted to that group is a "
    "sub-multiset of its members (the samples themselves: values and label sets untouched) of size min(k, |group|), every kept sample ranking at or before every omitted one, in rank order -- proved through the container/heap "
    "transliteration (heap-order invariant, bounded-heap offer invariant, per-group fold) for all NaN-free vectors, the IEEE-754 order facts coming from Flocq's link to Coq's primitive floats (standard-library float and real-number axioms, listed by "
    "Print Assumptions). The same demands are also made on every observed result and compared with the exact model.",
    MET_NOTE, "DESIGN.md 4 C11")
CLAIMED["C12"] = (
    "Coq proof (case analysis of the sample operators; list lemmas for literal / vector-vector / set operations) + metamorphic correspondence: the observed result against the operator applied to the OBSERVED operand vectors at every step",
    "Theorems arith_op, div0_mod0_nan, cmp_one_iff, lit_binop (one output per input series, scalar on its side, labels untouched), vec_binop (one output per label set present on both sides, left labels, both values), set_ops (and / unless / or = "
    "intersection / difference / union with left precedence by label set), vector_joins_empty_groups (D21). The `bool` modifier is modelled as coded (a false comparison yields 0 without it and no sample with it). The check covers all 15 operators, "
    "both literal sides, negative and fractional scalars, vector(c), offsets, instant and range evaluation.",
    MET_NOTE, "DESIGN.md 4 C12")

DOCK_NOTE = ("Trusted: Coq kernel + vm_compute; the hand-written Docker-storage model (Model/Docker.v: labels, selection, options, fault-aware merge with read-ahead, ledger), tied to the code by the "
             "correspondence run; the fake Docker API client of the harness (scripted read events, open failures, completion order; it does not itself apply since/until); time.Parse instance "
             "Base/TimeFmt.v; container/heap transliteration; goroutine scheduling modelled as completion order of the per-container opens; regexp on the fragment of Base/Regex.v.")
CLAIMED["C02"] = (
    "Coq proof (selection as a filter with a per-operator characterisation; truncation arithmetic; origin of a record) + differential correspondence over a fake Docker daemon with generator-computed expectations",
    "Theorems select_exact, matcher_sem (= / != exact, =~ / !~ fully anchored, on the label's value), absent_label_is_empty, prefix_match_refuted (D1 D2), window_truncated (since = floor(start/1s), until = floor(end/1s)), record_origin. "
    "The check builds inventories (overlapping names/images/states, Docker labels needing sanitisation, colliding after sanitisation, shadowing built-ins), selectors with all four operators over present and absent labels, "
    "fractional-second windows, instant look-back and range-aggregation windows, and demands on the observed run: exactly the generator-selected containers are asked for logs, each with exactly the expected since/until; "
    "every returned line (tagged with its container id) sits in a stream carrying that container's labels; the result equals the model.",
    DOCK_NOTE + " What the daemon does with since/until is outside this repository.", "DESIGN.md 4 C02")
CLAIMED["C14"] = (
    "Coq proof (ledger invariant of build / closeOnError / deferred Close by induction over the query shape; stream-level fault theorems are C03's) + differential correspondence with single-fault plans under several completion orders",
    "Theorems all_closed (for every query shape, listing failure and open-failure pattern: readers closed = readers opened), prefix_ledger_refuted (D13), list_failure_is_error, open_failure_is_error, stream_fault_is_error "
    "(an unlimited log query over one or many containers meets every stream fault: proved call by call over the iterator protocol incl. mergeIter's read-ahead and sticky errors); with C03's cut_in_body / "
    "daemon_error_frame / bad_timestamp / reader_failure theorems for what a faulty stream decodes to. The check runs six query shapes over 1-5 containers with one fault each (listing, open in the left or right operand, stream cut in a "
    "body, daemon error frame, bad timestamp, frame without space, reader failure at the first / middle / last frame, cut in a header = clean end by C03) under 2-3 completion orders and demands: closed = opened per container; an error "
    "whenever the fault precedes every record the query needs; a non-error answer equals the answer over the intended fault-free streams (no silent truncation); only selected containers are opened; log queries equal the exact "
    "read-by-read model (sticky stream errors, merge read-ahead, limit check after the storage call). PARTIAL: for metric queries and for log queries with a positive limit, which faults are met is established by correspondence (exact model for limits, outcome-class demands for metrics), not by a theorem.",
    DOCK_NOTE, "DESIGN.md 4 C14")
CLAIMED["C18"] = (
    "Coq proof (schedule independence of the index-addressed open; permutation invariance of the sorted Docker-label fold; commutation of slot writes; a float non-associativity witness) + exhaustive completion orders and repetition on order-sensitive queries",
    "Theorems open_schedule_indep, open_writes_disjoint, labels_order_indep / container_labels_deterministic (+ prefix_labels_order_dependent, D28), float_sum_order_matters (why D16 was a defect), vagg_step_deterministic. The check evaluates "
    "queries whose answer is sensitive to any ordering freedom (limits cutting inside cross-container ties, topk over ties, float sums of 0.1/0.2/0.3-like values, binary operations under an outer aggregation) under every completion "
    "order of the concurrent ContainerLogs calls (thorough: all n! up to 4 containers, a sample of 30 for 5) and three repetitions per order, and demands the same streams / series in the same order with the same bits; C15's theorem makes rendering a "
    "function of that list. PARTIAL: Go-memory-model race freedom is a runtime property: the thorough tier re-runs the scenarios on a -race build as supporting evidence, no theorem covers it.",
    DOCK_NOTE, "DESIGN.md 4 C18")
CLAIMED["C17"] = (
    "Coq proof (progress of the IP scan, fuel adequacy, guardedness of heap.Min, termination and completeness of the stepper) + outcome-class exploration under recover() and a watchdog over four input streams",
    "Theorems ip_capture_progress, ip_scan_fuel_adequate, heap_min_guarded, grid_complete, zero_step_needs_guard; every model function is total by construction, these are the places where totality has content. The check evaluates "
    "(1) grammar-derived log and metric queries over adversarial contents (expect a result), (2) user mistakes (expect an error), (3) single-token mutations, (4) arbitrary bytes and deep nesting as queries, each as instant and as "
    "positive-step range query; a panic, a hang (6 s watchdog) or a dead process is a violation. PARTIAL: panics / non-termination inside third-party libraries and Go stack exhaustion on multi-megabyte nesting are only observed.",
    "Trusted: Coq kernel; recover()/watchdog-based outcome classification in the harness; the models whose totality is proved are tied to the code by the correspondence runs of C01 and C05-C12.",
    "DESIGN.md 4 C17")

REASON_PENDING = "check not built yet in this round; planned (see DESIGN.md section 4/8) - no claim is made until the proof and correspondence exist"

def main():
    props = [json.loads(l) for l in (VERIF / "properties.jsonl").read_text().splitlines() if l.strip()]
    checks, na = [], []
    for p in props:
        pid = p["id"]
        if pid in CLAIMED:
            tech, text, note, ref = CLAIMED[pid]
            checks.append({
                "property_id": pid,
                "quick_cmd": "./check %s --tier quick" % pid,
                "thorough_cmd": "./check %s --tier thorough" % pid,
                "evidence_file": "evidence/%s.json" % pid,
                "replay_cmd_template": "./check %s --replay {path}" % pid,
                "engine": "coq-model+correspondence",
                "level_claimed": {"category": "proof", "text": text, "design_ref": ref},
                "level_note": note,
                "technique": tech,
            })
        else:
            na.append({"property_id": pid, "reason": REASON_PENDING})
    m = {
        "version": 1,
        "setup_cmd": "./check --setup",
        "hooks": {
            "guard": "verif",
            "enable": "go build -tags verif -overlay <generated overlay.json> ./cmd/verifharness ./cmd/docker-logql : the harness sources live in "
                      "/verif/harness (each file `//go:build verif`) and are mapped into /repo's module at build time; no file of /repo is modified for hooks",
            "baseline_off_cmd": "cd /repo && GOFLAGS=-mod=mod GOPROXY=off GOSUMDB=off GOTOOLCHAIN=local go test -vet=off -count=1 -timeout 25m ./...",
            "source_commits": [],
            "add_only": True,
        },
        "engines": [{
            "name": "coq-model+correspondence",
            "path": "coq/ (Gallina model, proofs, property statements) + harness/ (Go) + tools/ (python driver)",
            "serves_properties": sorted(CLAIMED),
            "kind_free_text": "machine-checked proof in Coq 8.16.1 about a hand-written executable model; model tied to the code by an in-Coq "
                              "comparison (vm_compute) of model output and property predicate against outputs observed from the real code on generated inputs",
        }],
        "checks": checks,
        "not_applicable": na,
        "notes": "See DESIGN.md. Known findings: known_findings.json.",
    }
    (VERIF / "MANIFEST.json").write_text(json.dumps(m, indent=1) + "\n")

if __name__ == "__main__":
    main()
