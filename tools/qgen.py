"""LogQL query generator: random abstract syntax trees, their canonical dump (the structure the text
denotes, computed independently of both the Go parser and the Coq model) and their rendering to query
text under random syntactic choices (layout, comments, quoting style, separators, clause order)."""
import math
import struct

OPC = {"and": 1, "or": 2, "unless": 3, "+": 4, "-": 5, "*": 6, "/": 7, "%": 8, "^": 9,
       "==": 10, "=": 10, "!=": 11, "=~": 12, "!~": 13, ">": 14, ">=": 15, "<": 16, "<=": 17}
RANGEOPS = ["count_over_time", "rate", "rate_counter", "bytes_over_time", "bytes_rate", "avg_over_time", "sum_over_time",
            "min_over_time", "max_over_time", "stdvar_over_time", "stddev_over_time", "quantile_over_time",
            "first_over_time", "last_over_time", "absent_over_time"]
VECTOROPS = ["sum", "avg", "count", "max", "min", "stddev", "stdvar", "bottomk", "topk", "sort", "sort_desc"]
NO_UNWRAP = ["bytes_over_time", "bytes_rate", "count_over_time", "rate", "absent_over_time"]
WITH_UNWRAP = ["avg_over_time", "sum_over_time", "max_over_time", "min_over_time", "stddev_over_time", "stdvar_over_time",
               "quantile_over_time", "rate", "rate_counter", "absent_over_time", "first_over_time", "last_over_time"]
GROUPABLE = ["avg_over_time", "stddev_over_time", "stdvar_over_time", "quantile_over_time", "max_over_time", "min_over_time",
             "first_over_time", "last_over_time"]
ARITH = ["+", "-", "*", "/", "%", "^"]
CMP = ["==", "!=", ">", ">=", "<", "<="]
SETOPS = ["and", "or", "unless"]
IDENTS = ["a", "b", "app", "level", "status", "msg", "foo_bar", "_x", "x1", "duration_ms", "lvl", "container", "host", "path", "n"]
# identifiers that are also keywords/functions: usable as labels when not followed by ( b w
SEL_KEYWORDS = ["by", "on", "json", "drop", "keep", "bool", "offset", "without", "unwrap", "logfmt", "or", "and", "unless", "ignoring", "pattern", "regexp", "unpack",
                "distinct", "line_format", "label_format", "decolorize", "group_left", "group_right", "ip", "sum", "count_over_time", "topk", "bytes", "duration",
                # keywords in another letter case are ordinary identifiers
                "IP", "Offset", "JSON", "By", "Label_Format", "COUNT_OVER_TIME"]
KW_IDENTS = ["ip", "duration", "bytes", "rate", "sum", "count", "vector", "sort"]


def fbits(f):
    if f != f:
        return 9221120237041090560
    return struct.unpack(">Q", struct.pack(">d", f))[0]


# ------------------------------------------------------------------ canonical dump (mirrors Model/Syntax.v)
def dstr(s):
    if isinstance(s, str):
        s = s.encode()
    return str(len(s)).encode() + b":" + s


def dnode(tag, *fields):
    return b"(" + tag.encode() + b"".join(b" " + f for f in fields) + b")"


def dlist(f, l):
    return b"[" + b"".join(f(x) + b" " for x in l) + b"]"


def dbool(b):
    return b"T" if b else b"F"


def dfloat(f):
    return b"f" + str(fbits(f)).encode()


def dint(n):
    return str(n).encode()


def _b(x):
    return x if isinstance(x, bytes) else x.encode()


def dmatcher(m):
    # last field: the source of the compiled regexp the node carries (anchored for a label matcher)
    re = (b"^(?:" + _b(m["v"]) + b")$") if m["op"] in ("=~", "!~") else b""
    return dnode("m", dstr(m["l"]), dint(OPC[m["op"]]), dstr(m["v"]), dstr(re))


def dpair(p):
    return dnode("p", dstr(p[0]), dstr(p[1]))


def dpred(p):
    k = p["k"]
    if k == "m":
        return dmatcher(p)
    if k == "num":
        return dnode("num", dstr(p["l"]), dint(OPC[p["op"]]), dfloat(p["v"]))
    if k == "dur":
        return dnode("dur", dstr(p["l"]), dint(OPC[p["op"]]), dint(p["ns"]))
    if k == "byt":
        return dnode("byt", dstr(p["l"]), dint(OPC[p["op"]]), dint(p["n"]))
    if k == "ip":
        return dnode("ip", dstr(p["l"]), dint(OPC[p["op"]]), dstr(p["v"]))
    if k == "bin":
        return dnode("bin", dpred(p["a"]), dint(OPC[p["op"]]), dpred(p["b"]))
    if k == "par":
        return dpred(p["a"])          # expectation is modulo redundant parentheses
    raise ValueError(k)


def dstage(s):
    k = s["k"]
    if k == "line":
        return dnode("line", dint(OPC[s["op"]]), dstr(s["v"]), dbool(s.get("ip", False)), dstr(_b(s["v"]) if s["op"] in ("=~", "!~") and not s.get("ip") else b""))
    if k in ("json", "logfmt"):
        return dnode(k, dlist(dstr, s["labels"]), dlist(dpair, s["exprs"]))
    if k == "regexp":
        return dnode("regexp", dstr(s["src"]), dlist(lambda c: dnode("c", dint(c[0]), dstr(c[1])), s["mapping"]))
    if k == "pattern":
        return dnode("pattern", dstr(s["p"]))
    if k == "unpack":
        return dnode("unpack")
    if k == "linefmt":
        return dnode("linefmt", dstr(s["t"]))
    if k == "decolor":
        return dnode("decolor")
    if k == "filter":
        return dnode("filter", dpred(s["p"]))
    if k == "labelfmt":
        # the structure the text denotes: label_format dst=src renames label src to dst: RenameLabel{Label: src, To: dst}
        return dnode("labelfmt", dlist(dpair, [(src, dst) for dst, src in s["renames"]]), dlist(dpair, s["tmpls"]))
    if k in ("drop", "keep"):
        return dnode(k, dlist(dstr, s["labels"]), dlist(dmatcher, s["matchers"]))
    if k == "distinct":
        return dnode("distinct", dlist(dstr, s["labels"]))
    raise ValueError(k)


def dgrouping(g):
    if g is None:
        return b"~"
    return dnode("g", dlist(dstr, g["labels"]), dbool(g["without"]))


def dexpr(e):
    k = e["k"]
    if k == "log":
        return dnode("log", dlist(dmatcher, e["sel"]), dlist(dstage, e["pipe"]))
    if k == "range":
        r = e["r"]
        unw = b"~" if r.get("unwrap") is None else dnode("u", dstr(r["unwrap"]["op"]), dstr(r["unwrap"]["l"]), dlist(dmatcher, r["unwrap"]["filters"]))
        off = b"~" if r.get("offset") is None else dint(r["offset"]["ns"])
        rr = dnode("r", dlist(dmatcher, r["sel"]), dint(r["range"]["ns"]), dlist(dstage, r["pipe"]), unw, off)
        param = b"~" if e.get("param") is None else dfloat(e["param"])
        return dnode("range", dint(RANGEOPS.index(e["op"]) + 1), rr, param, dgrouping(e.get("g")))
    if k == "vec":
        kk = b"~" if e.get("param") is None else dint(e["param"])
        return dnode("vec", dint(VECTOROPS.index(e["op"]) + 1), dexpr(e["e"]), kk, dgrouping(e.get("g")))
    if k == "lit":
        return dnode("lit", dfloat(e["v"]))
    if k == "vector":
        return dnode("vector", dfloat(e["v"]))
    if k == "lr":
        return dnode("lr", dexpr(e["e"]), dstr(e["dst"]), dstr(e["repl"]), dstr(e["src"]), dstr(e["re"]))
    if k == "bin":
        m = e.get("mod") or {}
        md = dnode("mod", dstr(m.get("op", "")), dlist(dstr, m.get("oplabels", [])), dstr(m.get("group", "")),
                   dlist(dstr, m.get("include", [])), dbool(m.get("bool", False)))
        return dnode("bin", dexpr(e["l"]), dint(OPC[e["op"]]), md, dexpr(e["r"]))
    if k == "par":
        return dexpr(e["e"])          # expectation is modulo redundant parentheses
    raise ValueError(k)


# ------------------------------------------------------------------ rendering
class Renderer:
    """Renders an AST into a list of token texts (with glue hints) and then into text under a layout."""

    def __init__(self, rng, plain=False):
        self.rng = rng
        self.plain = plain      # plain: canonical choices only (no random variants)

    def choice(self, opts):
        return opts[0] if self.plain else self.rng.choice(opts)

    def quote(self, s):
        """Go string literal for bytes s"""
        if isinstance(s, str):
            s = s.encode()
        raw_ok = b"`" not in s and all(b >= 0x20 or b in (9, 10, 13) for b in s)      # a raw string keeps a carriage return (strutil.Unquote, unlike Go source)
        try:
            s.decode("utf-8")
            utf = True
        except UnicodeDecodeError:
            utf = False
        if raw_ok and utf and not self.plain and self.rng.random() < 0.3:
            return "`" + s.decode("utf-8") + "`"
        out = ['"']
        i = 0
        txt = s.decode("utf-8") if utf else None
        if utf:
            for ch in txt:
                o = ord(ch)
                if ch == '"':
                    out.append('\\"')
                elif ch == "\\":
                    out.append("\\\\")
                elif ch == "\n":
                    out.append("\\n")
                elif ch == "\t":
                    out.append(self.choice(["\\t", "\\x09"]))
                elif o < 0x20 or o == 0x7f:
                    out.append("\\x%02x" % o)
                elif o < 0x80:
                    out.append(ch if (self.plain or self.rng.random() < 0.95) else "\\x%02x" % o)
                else:
                    out.append(ch if (self.plain or self.rng.random() < 0.7) else ("\\u%04x" % o if o < 0x10000 else "\\U%08x" % o))
        else:
            for b in s:
                if b == 0x22:
                    out.append('\\"')
                elif b == 0x5c:
                    out.append("\\\\")
                elif 0x20 <= b < 0x7f:
                    out.append(chr(b))
                else:
                    out.append("\\x%02x" % b)
        out.append('"')
        return "".join(out)

    # each function returns a list of token strings
    def matcher(self, m):
        return [m["l"], m["op"], self.quote(m["v"])]

    def selector(self, sel, allow_paren=False):
        out = ["{"]
        for i, m in enumerate(sel):
            if i:
                out.append(",")
            out += self.matcher(m)
        out.append("}")
        if allow_paren and not self.plain and self.rng.random() < 0.1:
            out = ["("] + out + [")"]
        return out

    def cmpop(self, op, string_operand):
        if op in ("=", "=="):
            return "=" if string_operand else "=="
        return op

    def pred(self, p):
        k = p["k"]
        if k == "m":
            op = p["op"]
            if op == "=" and not self.plain and self.rng.random() < 0.0:
                op = "=="        # `==` with a string literal is rejected by the parser (invalid operation)
            return [p["l"], op, self.quote(p["v"])]
        if k == "num":
            return [p["l"], self.cmpop(p["op"], False), p["text"]]
        if k == "dur":
            return [p["l"], self.cmpop(p["op"], False), p["text"]]
        if k == "byt":
            return [p["l"], self.cmpop(p["op"], False), p["text"]]
        if k == "ip":
            return [p["l"], self.cmpop(p["op"], False), "ip", "(", self.quote(p["v"]), ")"]
        if k == "par":
            return ["("] + self.pred(p["a"]) + [")"]
        if k == "bin":
            if p["op"] == "and":
                sep = self.choice([["and"], [","], []])
                # juxtaposition needs the right operand to start with an identifier
                if sep == [] and p["b"]["k"] == "par":
                    sep = ["and"]
                if sep == [] and p["b"]["k"] == "bin" and p["b"]["a"]["k"] == "par":
                    sep = [","]
            else:
                sep = ["or"]
            return self.pred(p["a"]) + sep + self.pred(p["b"])
        raise ValueError(k)

    def extraction(self, s):
        items = [[l] for l in s["labels"]] + [[l, "=", self.quote(e)] for l, e in s["exprs"]]
        # the parser collects labels and expressions into two lists irrespective of their interleaving
        if not self.plain:
            self.rng.shuffle(items)
            # keep relative order within each class
            li = iter(s["labels"])
            ei = iter(s["exprs"])
            items = [[next(li)] if len(it) == 1 else (lambda p: [p[0], "=", self.quote(p[1])])(next(ei)) for it in items]
        out = []
        for i, it in enumerate(items):
            if i:
                out.append(",")
            out += it
        return out

    def stage(self, s):
        k = s["k"]
        if k == "raw":           # literal stage text (used for stages the parser accepts and pipeline construction rejects)
            return [s["text"]]
        if k == "line":
            op = {"=": "|=", "=~": "|~", "!=": "!=", "!~": "!~"}[s["op"]]
            if s.get("ip"):
                return [op, "ip", "(", self.quote(s["v"]), ")"]
            return [op, self.quote(s["v"])]
        if k in ("json", "logfmt"):
            return ["|", k] + self.extraction(s)
        if k == "regexp":
            return ["|", "regexp", self.quote(s["src"])]
        if k == "pattern":
            return ["|", "pattern", self.quote(s["p"])]
        if k == "unpack":
            return ["|", "unpack"]
        if k == "linefmt":
            return ["|", "line_format", self.quote(s["t"])]
        if k == "decolor":
            return ["|", "decolorize"]
        if k == "filter":
            return ["|"] + self.pred(s["p"])
        if k == "labelfmt":
            items = [[dst, "=", src] for dst, src in s["renames"]] + [[l, "=", self.quote(t)] for l, t in s["tmpls"]]
            if not self.plain and "order" in s:
                items = [items[i] for i in s["order"]]
            out = ["|", "label_format"]
            for i, it in enumerate(items):
                if i:
                    out.append(",")
                out += it
            return out
        if k in ("drop", "keep"):
            items = [[l] for l in s["labels"]] + [self.matcher(m) for m in s["matchers"]]
            if not self.plain and "order" in s:
                items = [items[i] for i in s["order"]]
            out = ["|", k]
            for i, it in enumerate(items):
                if i:
                    out.append(",")
                out += it
            return out
        if k == "distinct":
            out = ["|", "distinct"]
            for i, l in enumerate(s["labels"]):
                if i:
                    out.append(",")
                out.append(l)
            return out
        raise ValueError(k)

    def pipeline(self, pipe):
        out = []
        for s in pipe:
            out += self.stage(s)
        return out

    def grouping(self, g):
        out = ["without" if g["without"] else "by", "("]
        for i, l in enumerate(g["labels"]):
            if i:
                out.append(",")
            out.append(l)
        return out + [")"]

    def expr(self, e):
        k = e["k"]
        if k == "log":
            return self.selector(e["sel"]) + self.pipeline(e["pipe"])
        if k == "range":
            r = e["r"]
            rng_off = ["[", r["range"]["text"], "]"]
            if r.get("offset") is not None:
                rng_off += ["offset", r["offset"]["text"]]
            pl = self.pipeline(r["pipe"])
            if r.get("unwrap") is not None:
                u = r["unwrap"]
                pl += ["|", "unwrap"] + ([u["op"], "(", u["l"], ")"] if u["op"] else [u["l"]])
                for m in u["filters"]:
                    pl += ["|"] + self.matcher(m)
            sel = self.selector(r["sel"], allow_paren=True)
            if pl and (self.plain or self.rng.random() < 0.5):
                inner = sel + pl + rng_off
            else:
                inner = sel + rng_off + pl
            out = [e["op"], "("]
            if e.get("param") is not None:
                out += [e["param_text"], ","]
            out += inner + [")"]
            if e.get("g") is not None:
                out += self.grouping(e["g"])
            return out
        if k == "vec":
            inner = ["("]
            if e.get("param") is not None:
                inner += [str(e["param"]), ","]
            inner += self.expr(e["e"]) + [")"]
            if e.get("g") is None:
                return [e["op"]] + inner
            if self.choice([True, False]):
                return [e["op"]] + self.grouping(e["g"]) + inner
            return [e["op"]] + inner + self.grouping(e["g"])
        if k == "lit":
            return e["toks"]
        if k == "vector":
            return ["vector", "(", e["text"], ")"]
        if k == "lr":
            return ["label_replace", "("] + self.expr(e["e"]) + [",", self.quote(e["dst"]), ",", self.quote(e["repl"]), ",",
                                                                self.quote(e["src"]), ",", self.quote(e["re"]), ")"]
        if k == "par":
            return ["("] + self.expr(e["e"]) + [")"]
        if k == "bin":
            out = self.expr(e["l"]) + [e["op"]]
            m = e.get("mod") or {}
            if m.get("bool"):
                out.append("bool")
            if m.get("op"):
                out += [m["op"], "("]
                for i, l in enumerate(m.get("oplabels", [])):
                    if i:
                        out.append(",")
                    out.append(l)
                out.append(")")
                if m.get("group"):
                    out.append("group_" + m["group"])
                    if m.get("include"):
                        out.append("(")
                        for i, l in enumerate(m["include"]):
                            if i:
                                out.append(",")
                            out.append(l)
                        out.append(")")
            return out + self.expr(e["r"])
        raise ValueError(k)


WORDISH = set("abcdefghijklmnopqrstuvwxyzABCDEFGHIJKLMNOPQRSTUVWXYZ0123456789_.")


def layout(rng, toks, style):
    """join token texts. style: 'tight' (only mandatory spaces), 'spaced', 'wild' (random spaces, newlines, tabs, # comments)"""
    out = []
    for i, t in enumerate(toks):
        if i:
            prev = toks[i - 1]
            need = (prev[-1] in WORDISH and t[0] in WORDISH) or (prev[-1] in "|!=<>~-" and t[0] in "=~-") \
                or (prev in ("-", "+") and t[0] in "-+") or (prev[-1] == "-" and t[0] == "-")
            # a function-like keyword used as an identifier must not be followed by ( b w after spaces: handled by generator
            if style == "tight":
                sep = " " if need else ""
            elif style == "spaced":
                sep = " "
            else:
                k = rng.random()
                if k < 0.25 and not need:
                    sep = ""
                elif k < 0.7:
                    sep = " "
                elif k < 0.8:
                    sep = "\n  "
                elif k < 0.88:
                    sep = "\t "
                elif k < 0.95:
                    sep = " # a comment ) | } \"\n" + rng.choice(["", "", "  ", "\t", " ", "# second comment\n    "])
                else:
                    sep = "  "
            out.append(sep)
        out.append(t)
    s = "".join(out)
    if style == "wild" and rng.random() < 0.2:
        s = "  " + s + " # trailing"
    return s


# ------------------------------------------------------------------ random ASTs
DURS = [("5m", 300 * 10**9), ("300s", 300 * 10**9), ("1h", 3600 * 10**9), ("1h30m", 5400 * 10**9), ("90m", 5400 * 10**9), ("250ms", 250 * 10**6),
        ("1s", 10**9), ("1000ms", 10**9), ("2d", 2 * 86400 * 10**9), ("1w", 7 * 86400 * 10**9), ("1.5s", 1500 * 10**6), ("10us", 10**4), ("10µs", 10**4),
        ("7ns", 7), ("1m30s", 90 * 10**9), ("0s", 0), ("1d12h", 36 * 3600 * 10**9)]
BYTES = [("10b", 10), ("10B", 10), ("1KB", 1000), ("1kb", 1000), ("1KiB", 1024), ("1k", 1000), ("1ki", 1024), ("5MB", 5 * 10**6), ("5MiB", 5 * 2**20),
         ("1.5KB", 1500), ("2gb", 2 * 10**9), ("2GiB", 2 * 2**30), ("1tb", 10**12), ("3mi", 3 * 2**20)]
NUMS = [("5", 5.0), ("5.0", 5.0), ("0.5", 0.5), ("400", 400.0), ("1e3", 1000.0), ("0", 0.0), ("3.25", 3.25), ("100", 100.0), ("1.5e-3", 0.0015), ("42", 42.0),
        # integers written with a leading zero are decimal (strconv.ParseFloat), not octal
        ("0200", 200.0), ("0100", 100.0), ("060", 60.0), ("010", 10.0)]
STRS = [b"a", b"", b"error", b"x y", b'q"uote', b"back\\slash", b"tab\there", b"nl\nx", "é世".encode(), b"a.b", b"{{.x}}", b"100%", b"`tick`", b"\xff\xfe",
        b"foo|bar", b"# not a comment", b"/path/to", b"k=v", b"cr\rlf\r\nend", b"\r"]
REGEXES = [b"a.*", b"^err", b"(foo|bar)", b"[0-9]+", b"\\d+", b"x?y+", b"", b".", b"(?i)warn", b"a{2,3}", b"[^ ]+"]
BAD_REGEXES = [b"(", b"[a", b"a**", b"(?P<n", b"\\"]
NAMED_RE = [(b"(?P<method>\\w+) (?P<path>\\S+)", [(1, "method"), (2, "path")]), (b"(\\d+) (?P<code>\\d+)", [(2, "code")]), (b"plain", []),
            (b"(?P<a>x)(y)(?P<b_1>z)", [(1, "a"), (3, "b_1")])]
TMPLS = [b"{{.a}}", b"{{.msg}} - {{.level}}", b"static", b"{{ __line__ }}", b"{{.a | ToUpper}}", b""]
PATTERNS = [b"<ip> - <user>", b"<_> <method> <path>", b"<a>:<b>", b"level=<lvl> <_>"]
IPS = [b"1.2.3.4", b"10.0.0.0/8", b"192.168.0.1-192.168.0.9", b"::1"]
JSONPATHS = [b"a", b"a.b", b"a[0]", b'["x y"]', b"a.b[1].c"]


class Gen:
    def __init__(self, rng):
        self.rng = rng

    def ident(self):
        return self.rng.choice(IDENTS)

    def matcher(self):
        op = self.rng.choice(["=", "!=", "=~", "!~"])
        v = self.rng.choice(REGEXES) if op in ("=~", "!~") else self.rng.choice(STRS)
        return {"k": "m", "l": self.ident(), "op": op, "v": v}

    def selector(self):
        ms = [self.matcher() for _ in range(self.rng.choice([0, 1, 1, 2, 3]))]
        # in label-name position of a selector every keyword is a label name (D29)
        for m in ms:
            if self.rng.random() < 0.2:
                m["l"] = self.rng.choice(SEL_KEYWORDS)
        return ms

    def atom_pred(self):
        k = self.rng.choice(["m", "m", "num", "dur", "byt", "ip"])
        l = self.ident()
        if k == "m":
            m = self.matcher()
            return m
        if k == "num":
            t, v = self.rng.choice(NUMS)
            return {"k": "num", "l": l, "op": self.rng.choice(CMP), "text": t, "v": v}
        if k == "dur":
            t, ns = self.rng.choice(DURS)
            return {"k": "dur", "l": l, "op": self.rng.choice(CMP), "text": t, "ns": ns}
        if k == "byt":
            t, n = self.rng.choice(BYTES)
            return {"k": "byt", "l": l, "op": self.rng.choice(CMP), "text": t, "n": n}
        return {"k": "ip", "l": l, "op": self.rng.choice(["==", "!="]), "v": self.rng.choice(IPS)}

    def pred(self, depth=0):
        r = self.rng.random()
        if depth < 3 and r < 0.35:
            a = self.pred_left(depth + 1)
            op = self.rng.choice(["and", "and", "or"])
            b = self.pred(depth + 1)
            # `and` binds tighter than `or` (D34): an or-chain as the right operand of `and` needs its parentheses, and an and-chain
            # may stand unparenthesised on the left of `or` (a and b or c = (a and b) or c)
            if op == "and" and b["k"] == "bin" and b["op"] == "or":
                b = {"k": "par", "a": b}
            if op == "or" and self.rng.random() < 0.4:
                a = self.and_chain(depth + 1)
            return {"k": "bin", "a": a, "op": op, "b": b}
        if depth < 3 and r < 0.45:
            return {"k": "par", "a": self.pred(depth + 1)}
        return self.atom_pred()

    def and_chain(self, depth):
        a = self.pred_left(depth)
        if self.rng.random() < 0.6 or depth >= 3:
            return {"k": "bin", "a": a, "op": "and", "b": self.pred_left(depth)}
        return {"k": "bin", "a": a, "op": "and", "b": self.and_chain(depth + 1)}

    def pred_left(self, depth):
        # the left operand of a chain is an atom or a parenthesised predicate (chains nest to the right)
        if self.rng.random() < 0.25:
            return {"k": "par", "a": self.pred(depth + 1)}
        return self.atom_pred()

    def stage(self, allow=None):
        kinds = allow or ["line", "line", "line", "lineip", "json", "logfmt", "regexp", "pattern", "unpack", "linefmt", "decolor",
                          "filter", "filter", "filter", "labelfmt", "drop", "keep", "distinct"]
        k = self.rng.choice(kinds)
        rng = self.rng
        if k == "line":
            op = rng.choice(["=", "!=", "=~", "!~"])
            return {"k": "line", "op": op, "v": rng.choice(REGEXES) if op in ("=~", "!~") else rng.choice(STRS)}
        if k == "lineip":
            return {"k": "line", "op": rng.choice(["=", "!="]), "v": rng.choice(IPS), "ip": True}
        if k in ("json", "logfmt"):
            labels = rng.sample(IDENTS, rng.choice([0, 0, 1, 2]))
            exprs = [(l, rng.choice(JSONPATHS) if k == "json" else rng.choice([b"a", b"b_c"])) for l in rng.sample(IDENTS, rng.choice([0, 0, 1, 2]))]
            return {"k": k, "labels": labels, "exprs": exprs}
        if k == "regexp":
            src, mp = rng.choice(NAMED_RE)
            return {"k": "regexp", "src": src, "mapping": mp}
        if k == "pattern":
            return {"k": "pattern", "p": rng.choice(PATTERNS)}
        if k == "unpack":
            return {"k": "unpack"}
        if k == "linefmt":
            return {"k": "linefmt", "t": rng.choice(TMPLS)}
        if k == "decolor":
            return {"k": "decolor"}
        if k == "filter":
            return {"k": "filter", "p": self.pred()}
        if k == "labelfmt":
            names = rng.sample(IDENTS, rng.choice([1, 1, 2, 3]))
            renames, tmpls, order = [], [], []
            for n in names:
                if rng.random() < 0.5:
                    renames.append((n, rng.choice(IDENTS)))
                else:
                    tmpls.append((n, rng.choice(TMPLS)))
            order = list(range(len(names)))
            rng.shuffle(order)
            return {"k": "labelfmt", "renames": renames, "tmpls": tmpls, "order": order}
        if k in ("drop", "keep"):
            labels = [self.ident() for _ in range(rng.choice([0, 1, 2]))]
            matchers = [self.matcher() for _ in range(rng.choice([0, 0, 1, 2]))]
            if not labels and not matchers:
                labels = [self.ident()]
            order = list(range(len(labels) + len(matchers)))
            rng.shuffle(order)
            return {"k": k, "labels": labels, "matchers": matchers, "order": order}
        if k == "distinct":
            return {"k": "distinct", "labels": [self.ident() for _ in range(rng.choice([1, 1, 2]))]}
        raise ValueError(k)

    def fix_order(self, s):
        """labels/exprs etc. are collected per class in textual order: reorder the AST lists to the textual order"""
        if s["k"] == "labelfmt" and "order" in s:
            items = [("r", x) for x in s["renames"]] + [("t", x) for x in s["tmpls"]]
            items = [items[i] for i in s["order"]]
            s["renames"] = [x for c, x in items if c == "r"]
            s["tmpls"] = [x for c, x in items if c == "t"]
            # after reordering, the textual order is: renames/tmpls interleaved as in items
            s["order"] = [([("r", x) for x in s["renames"]] + [("t", x) for x in s["tmpls"]]).index(it) for it in items]
        if s["k"] in ("drop", "keep") and "order" in s:
            items = [("l", x) for x in s["labels"]] + [("m", x) for x in s["matchers"]]
            items = [items[i] for i in s["order"]]
            s["labels"] = [x for c, x in items if c == "l"]
            s["matchers"] = [x for c, x in items if c == "m"]
            base = [("l", x) for x in s["labels"]] + [("m", x) for x in s["matchers"]]
            used, order = set(), []
            for it in items:
                for j, b in enumerate(base):
                    if j not in used and b[0] == it[0] and b[1] is it[1]:
                        used.add(j)
                        order.append(j)
                        break
            s["order"] = order
        return s

    def pipeline(self, n=None, allow=None):
        n = self.rng.choice([0, 1, 1, 2, 3, 5]) if n is None else n
        out = []
        for _ in range(n):
            s = self.fix_order(self.stage(allow))
            # `| keep a != "x"` reads as a matcher of keep, not as a line filter: a negative line filter
            # cannot directly follow a drop/keep list (grammar ambiguity resolved in favour of the matcher)
            if out and out[-1]["k"] in ("drop", "keep") and s["k"] == "line" and s["op"] in ("!=", "!~"):
                s["op"] = {"!=": "=", "!~": "=~"}[s["op"]]
            out.append(s)
        return out

    def log(self):
        return {"k": "log", "sel": self.selector(), "pipe": self.pipeline()}

    def grouping(self):
        return {"without": self.rng.random() < 0.4, "labels": [self.ident() for _ in range(self.rng.choice([0, 1, 1, 2, 3]))]}

    def range(self):
        rng = self.rng
        unwrap = None
        if rng.random() < 0.5:
            op = rng.choice(WITH_UNWRAP)
            unwrap = {"op": rng.choice(["", "", "bytes", "duration", "duration_seconds"]), "l": self.ident(),
                      "filters": [self.matcher() for _ in range(rng.choice([0, 0, 1]))]}
        else:
            op = rng.choice(NO_UNWRAP)
        rt, rns = rng.choice([d for d in DURS if d[1] > 0])
        r = {"sel": self.selector(), "range": {"text": rt, "ns": rns},
             "pipe": self.pipeline(rng.choice([0, 0, 1, 2]), allow=["line", "json", "logfmt", "filter", "labelfmt", "drop"]),
             "unwrap": unwrap, "offset": None}
        if rng.random() < 0.3:
            ot, ons = rng.choice(DURS)
            r["offset"] = {"text": ot, "ns": ons}
        e = {"k": "range", "op": op, "r": r, "param": None, "g": None}
        if op == "quantile_over_time":
            t, v = rng.choice([("0.99", 0.99), ("0.5", 0.5), ("1", 1.0), ("0", 0.0)])
            e["param"], e["param_text"] = v, t
        if op in GROUPABLE and rng.random() < 0.5:
            e["g"] = self.grouping()
        return e

    def metric1(self, depth=0):
        rng = self.rng
        r = rng.random()
        if depth >= 3 or r < 0.4:
            return self.range() if rng.random() < 0.75 else self.vector()
        if r < 0.65:
            op = rng.choice(VECTOROPS)
            e = {"k": "vec", "op": op, "e": self.metric(depth + 1), "param": None, "g": None}
            if op in ("topk", "bottomk"):
                e["param"] = rng.choice([1, 2, 5, 10])
            if op not in ("sort", "sort_desc") and rng.random() < 0.6:
                e["g"] = self.grouping()
            return e
        if r < 0.75:
            return {"k": "lr", "e": self.metric(depth + 1), "dst": rng.choice(IDENTS).encode(), "repl": rng.choice([b"$1", b"x", b""]),
                    "src": rng.choice(IDENTS).encode(), "re": rng.choice(REGEXES)}
        if r < 0.85:
            return {"k": "par", "e": self.metric(depth + 1)}
        return self.vector()

    def vector(self):
        t, v = self.rng.choice(NUMS)
        return {"k": "vector", "text": t, "v": v}

    def literal(self):
        t, v = self.rng.choice(NUMS)
        sign = self.rng.choice(["", "", "-", "+"])
        toks = ([sign] if sign else []) + [t]
        return {"k": "lit", "toks": toks, "v": math.copysign(v, -1.0 if sign == "-" else 1.0)}

    def modifier(self, op):
        rng = self.rng
        m = {}
        if op in CMP and rng.random() < 0.4:
            m["bool"] = True
        if rng.random() < 0.2:
            m["op"] = rng.choice(["on", "ignoring"])
            m["oplabels"] = [self.ident() for _ in range(rng.choice([0, 1, 2]))]
            if rng.random() < 0.4:
                m["group"] = rng.choice(["left", "right"])
                if rng.random() < 0.5:
                    m["include"] = [self.ident() for _ in range(rng.choice([1, 2]))]
        return m

    def metric(self, depth=0):
        """a metric expression whose binary operations have explicitly parenthesised operands"""
        rng = self.rng
        if depth < 2 and rng.random() < 0.35:
            op = rng.choice(ARITH + CMP + SETOPS)

            def operand(side):
                k = rng.random()
                if k < 0.25 and op not in SETOPS:
                    return self.literal()
                e = self.metric1(depth + 1)
                if rng.random() < 0.3:
                    e = {"k": "par", "e": self.metric(depth + 1)}
                return e
            l, r = operand("l"), operand("r")
            if l["k"] == "lit" and r["k"] == "lit":
                r = self.vector()
            # a literal with an explicit sign directly after an operator is fine; `x - -1` needs the space (layout handles it)
            return {"k": "bin", "l": l, "op": op, "mod": self.modifier(op), "r": r}
        return self.metric1(depth)

    def query(self):
        return self.log() if self.rng.random() < 0.45 else self.metric()


# ------------------------------------------------------------------ statically invalid queries (must be rejected)
INVALID = [
    'quantile_over_time({a="b"} | unwrap x [5m])',                 # missing quantile parameter
    'sum_over_time(0.5, {a="b"} | unwrap x [5m])',                 # parameter on a non-quantile function
    'rate(0.5, {a="b"}[5m])',
    'sort by (a) (rate({a="b"}[5m]))',                             # grouping on sort
    'sort_desc(rate({a="b"}[5m])) by (a)',
    'rate({a="b"}[5m]) by (a)',                                    # grouping on a range function that forbids it
    'count_over_time({a="b"}[5m]) without (a)',
    'sum_over_time({a="b"}[5m])',                                  # unwrap required
    'avg_over_time({a="b"} | json [5m])',
    'count_over_time({a="b"} | unwrap x [5m])',                    # unwrap forbidden
    'bytes_rate({a="b"} | unwrap x [5m])',
    '{a="b"} | unwrap x',                                          # unwrap in a log query
    '{a="b"} | label_format x=y, x="z"',                           # duplicate label_format target
    '{a="b"} | label_format x="1", y=z, x=q',
    '{a="b"} |~ ip("1.2.3.4")',                                    # ip filter with a regex operator
    '{a="b"} !~ ip("1.2.3.4")',
    '{a="b"} | x > "5"',                                           # string literal with an ordering operator
    '{a="b"} | x == "5"',
    '{a="b"} | x =~ 5',                                            # number with a regex operator
    '{a="b"} | x = 5',
    '{a="b"} | x =~ ip("1.2.3.4")',
    '1 and rate({a="b"}[5m])',                                     # scalar operand of a set operator
    'rate({a="b"}[5m]) or 2',
    'rate({a="b"}[5m]) unless 0.5',
    'topk(rate({a="b"}[5m]))',                                     # missing / bad k
    'topk(0, rate({a="b"}[5m]))',
    'bottomk(-1, rate({a="b"}[5m]))',
    'sum(2, rate({a="b"}[5m]))',
    '{a=~"("}',                                                    # invalid regexes
    '{a="b"} |~ "[a"',
    '{a="b"} | x =~ "a**"',
    '{a="b"} | regexp "(?P<x"',
    '{a="b"} | regexp "(?P<1a>x)"',                                # invalid label name as capture
    '{a="b"} | regexp "(?P<n>a)(?P<n>b)"',                         # duplicate capture
    'label_replace(rate({a="b"}[5m]), "x", "y", "z", "(")',
    'sum by (a) (rate({a="b"}[5m])) by (b)',                        # a vector aggregation takes one grouping clause
    'sum by (a) (rate({a="b"}[5m])) without (a)',
    'topk without (a) (2, rate({a="b"}[5m])) by (b)',
    'max by () (sum without (x) (rate({a="b"}[5m])) by (y))',
    'avg_over_time({a="b"} | unwrap x [5m]) by (a) by (b)',
    '{a="b"',                                                      # grammar
    '{a="b"} |',
    '{a="b"} | json,',
    '{a="b"} | json a,',
    '{a}',
    '{a="b",}',
    '{="b"}',
    '{a="b"} | drop',
    '{a="b"} | keep a,',
    '{a="b"} | distinct',
    'rate({a="b"})',
    'rate({a="b"}[5])',
    'rate({a="b"}[5m] offset)',
    'sum(rate({a="b"}[5m])',
    'sum by a (rate({a="b"}[5m]))',
    'vector()',
    'vector("1")',
    '{a="b"} | line_format',
    '{a="b"} | label_format x',
    '{a="b"} | label_format x=',
    '{a="b"} != ',
    '{a="b"} {c="d"}',
    'rate({a="b"}[5m]) rate({a="b"}[5m])',
    '',
    ')',
    '{a="b"} | x > 5s or',
    '{a="b"} | (x > 5',
    '{a="b"} | x > 5sms',                                          # unknown unit
    '{a="b"} | x > 1d1w',                                          # invalid duration
    '{a="b"} |= "unterminated',
    '{a="b"} | x > 5 y',
]
