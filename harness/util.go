//go:build verif

package main

import "go.opentelemetry.io/collector/pdata/pcommon"

type pcommonValue = pcommon.Value
