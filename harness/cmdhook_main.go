//go:build verif

// Injected into package main of cmd/docker-logql by `go build -overlay` (never present in /repo).
// With VERIF_HARNESS=1 the binary serves JSON-line requests for the unexported CLI functions
// (renderResult, parseTimeRange, parseStep) instead of running the plugin.
package main

import (
	"bufio"
	"bytes"
	"context"
	"encoding/base64"
	"encoding/json"
	"fmt"
	"io"
	"os"
	"runtime/debug"
	"strings"
	"sync"
	"time"

	"github.com/docker/cli/cli/command"
	"github.com/docker/docker/api/types"
	apicontainer "github.com/docker/docker/api/types/container"
	"github.com/docker/docker/client"

	"github.com/tdakkota/docker-logql/internal/lokiapi"
)

type vreq = map[string]json.RawMessage

func vget[T any](req vreq, key string) T {
	var v T
	if raw, ok := req[key]; ok {
		if err := json.Unmarshal(raw, &v); err != nil {
			panic(fmt.Sprintf("bad field %q: %v", key, err))
		}
	}
	return v
}

func vunb64(s string) string {
	b, err := base64.StdEncoding.DecodeString(s)
	if err != nil {
		panic(err)
	}
	return string(b)
}

func vs64(s string) string { return base64.StdEncoding.EncodeToString([]byte(s)) }

type vstream struct {
	Labels [][2]string `json:"labels"`
	Values [][2]any    `json:"values"` // [ts uint64 as decimal string, line b64]
}

func vRender(req vreq) (map[string]any, error) {
	o := vget[[3]bool](req, "opts") // timestamp, container, color
	var data lokiapi.QueryResponseData
	var res lokiapi.Streams
	for _, s := range vget[[]vstream](req, "streams") {
		ls := lokiapi.LabelSet{}
		for _, kv := range s.Labels {
			ls[vunb64(kv[0])] = vunb64(kv[1])
		}
		st := lokiapi.Stream{Stream: lokiapi.NewOptLabelSet(ls)}
		for _, v := range s.Values {
			var t uint64
			fmt.Sscan(v[0].(string), &t)
			st.Values = append(st.Values, lokiapi.LogEntry{T: t, V: vunb64(v[1].(string))})
		}
		res = append(res, st)
	}
	data.SetStreamsResult(lokiapi.StreamsResult{Result: res})
	var buf bytes.Buffer
	err := renderResult(&buf, renderOptions{timestamp: o[0], container: o[1], color: o[2]}, data)
	return map[string]any{"out": base64.StdEncoding.EncodeToString(buf.Bytes())}, err
}

func vOptTime(req vreq, key string) (o lokiapi.OptLokiTime) {
	if p := vget[*string](req, key); p != nil {
		o.SetTo(lokiapi.LokiTime(vunb64(*p)))
	}
	return o
}

func vOptDur(req vreq, key string) (o lokiapi.OptPrometheusDuration) {
	if p := vget[*string](req, key); p != nil {
		o.SetTo(lokiapi.PrometheusDuration(vunb64(*p)))
	}
	return o
}

func vTime(t time.Time) map[string]any {
	return map[string]any{"s": t.Unix(), "ns": t.Nanosecond()}
}

func vTimeRange(req vreq) (map[string]any, error) {
	now := time.Unix(0, vget[int64](req, "now"))
	start, end, err := parseTimeRange(now, vOptTime(req, "start"), vOptTime(req, "end"), vOptDur(req, "since"))
	if err != nil {
		return nil, err
	}
	return map[string]any{"start": vTime(start), "end": vTime(end)}, nil
}

func vStep(req vreq) (map[string]any, error) {
	start := time.Unix(0, vget[int64](req, "start_ns"))
	end := time.Unix(0, vget[int64](req, "end_ns"))
	d, err := parseStep(vOptDur(req, "step"), start, end)
	if err != nil {
		return nil, err
	}
	return map[string]any{"step": int64(d)}, nil
}

// vCli is a docker CLI whose only working part is Client(); vClient is a daemon with one container whose log is empty and
// which records the options of every ContainerLogs request.
type vCli struct {
	command.Cli
	c client.APIClient
}

func (c vCli) Client() client.APIClient { return c.c }

type vCtr struct {
	ID   string      `json:"id"`
	Name string      `json:"name"`
	Recs [][2]string `json:"recs"` // [unix nanoseconds as decimal text, line b64]
}

type vClient struct {
	client.APIClient
	mu   sync.Mutex
	opts []apicontainer.LogsOptions
	ctrs []vCtr
}

func (c *vClient) ContainerList(context.Context, apicontainer.ListOptions) ([]types.Container, error) {
	if len(c.ctrs) == 0 {
		return []types.Container{{ID: "c0", Names: []string{"/web"}, State: "running"}}, nil
	}
	var out []types.Container
	for _, k := range c.ctrs {
		out = append(out, types.Container{ID: k.ID, Names: []string{"/" + k.Name}, State: "running"})
	}
	return out, nil
}

// the container's records as a multiplexed stdout stream: 8-byte header, RFC3339Nano timestamp, space, line
func (c *vClient) ContainerLogs(_ context.Context, id string, o apicontainer.LogsOptions) (io.ReadCloser, error) {
	c.mu.Lock()
	c.opts = append(c.opts, o)
	c.mu.Unlock()
	var sb strings.Builder
	for _, k := range c.ctrs {
		if k.ID != id {
			continue
		}
		for _, r := range k.Recs {
			var ns int64
			fmt.Sscan(r[0], &ns)
			payload := time.Unix(0, ns).UTC().Format(time.RFC3339Nano) + " " + vunb64(r[1])
			sb.Write([]byte{1, 0, 0, 0, byte(len(payload) >> 24), byte(len(payload) >> 16), byte(len(payload) >> 8), byte(len(payload))})
			sb.WriteString(payload)
		}
	}
	return io.NopCloser(strings.NewReader(sb.String())), nil
}

// vQueryCmd runs the real `query` command (flag parsing, parseTimeRange, parseStep, the glue that hands the resolved range
// to the engine) and reports the window the daemon was asked for, with the wall clock read before and after
func vQueryCmd(req vreq) (map[string]any, error) {
	cl := &vClient{ctrs: vget[[]vCtr](req, "ctrs")}
	cmd := queryCmd(vCli{c: cl})
	var args []string
	for _, a := range vget[[]string](req, "args") {
		args = append(args, vunb64(a))
	}
	cmd.SetArgs(args)
	var out, errb bytes.Buffer
	cmd.SetOut(&out)
	cmd.SetErr(&errb)
	cmd.SilenceUsage = true
	cmd.SilenceErrors = true
	lo := time.Now()
	err := cmd.ExecuteContext(context.Background())
	hi := time.Now()
	res := map[string]any{"now_lo": lo.UnixNano(), "now_hi": hi.UnixNano()}
	var asked [][2]string
	for _, o := range cl.opts {
		asked = append(asked, [2]string{o.Since, o.Until})
	}
	res["asked"] = asked
	res["stdout"] = vs64(out.String())
	return res, err
}

func init() {
	if os.Getenv("VERIF_HARNESS") != "1" {
		return
	}
	hs := map[string]func(vreq) (map[string]any, error){"render": vRender, "timerange": vTimeRange, "step": vStep, "querycmd": vQueryCmd}
	dec := json.NewDecoder(bufio.NewReaderSize(os.Stdin, 1<<20))
	out := bufio.NewWriterSize(os.Stdout, 1<<20)
	enc := json.NewEncoder(out)
	for {
		var req vreq
		if err := dec.Decode(&req); err != nil {
			break
		}
		resp := map[string]any{"id": vget[int](req, "id")}
		h, ok := hs[vget[string](req, "cmd")]
		if !ok {
			resp["outcome"] = "nocmd"
			_ = enc.Encode(resp)
			continue
		}
		func() {
			defer func() {
				if p := recover(); p != nil {
					resp["outcome"] = "panic"
					resp["panic"] = fmt.Sprint(p)
					resp["stack"] = string(debug.Stack())
				}
			}()
			res, err := h(req)
			for k, v := range res {
				resp[k] = v
			}
			if err != nil {
				resp["outcome"] = "error"
				resp["error"] = err.Error()
			} else {
				resp["outcome"] = "ok"
			}
		}()
		_ = enc.Encode(resp)
	}
	out.Flush()
	os.Exit(0)
}
