//go:build verif

// Command verifharness is injected into the module with `go build -overlay`
// by /verif/check; it never exists in /repo's tree.  It reads one JSON request
// per line on stdin and answers one JSON object per line on stdout.
package main

import (
	"bufio"
	"encoding/base64"
	"encoding/json"
	"fmt"
	"os"
	"runtime/debug"
	"time"
)

type request = map[string]json.RawMessage

type handler func(req request) (map[string]any, error)

var handlers = map[string]handler{}

func b64(b []byte) string { return base64.StdEncoding.EncodeToString(b) }
func s64(s string) string { return base64.StdEncoding.EncodeToString([]byte(s)) }

func unb64(s string) string {
	b, err := base64.StdEncoding.DecodeString(s)
	if err != nil {
		panic("bad base64: " + err.Error())
	}
	return string(b)
}

func get[T any](req request, key string) T {
	var v T
	raw, ok := req[key]
	if !ok {
		return v
	}
	if err := json.Unmarshal(raw, &v); err != nil {
		panic(fmt.Sprintf("bad field %q: %v", key, err))
	}
	return v
}

func getBytes(req request, key string) string { return unb64(get[string](req, key)) }

type result struct {
	out map[string]any
	err error
	pan any
	stk string
}

func runOne(h handler, req request, timeout time.Duration) (res result, hang bool) {
	ch := make(chan result, 1)
	go func() {
		var r result
		defer func() {
			if p := recover(); p != nil {
				r.pan = p
				r.stk = string(debug.Stack())
			}
			ch <- r
		}()
		r.out, r.err = h(req)
	}()
	select {
	case r := <-ch:
		return r, false
	case <-time.After(timeout):
		return result{}, true
	}
}

func main() {
	in := bufio.NewReaderSize(os.Stdin, 1<<20)
	out := bufio.NewWriterSize(os.Stdout, 1<<20)
	defer out.Flush()
	dec := json.NewDecoder(in)
	enc := json.NewEncoder(out)
	for {
		var req request
		if err := dec.Decode(&req); err != nil {
			break
		}
		id := get[int](req, "id")
		cmd := get[string](req, "cmd")
		resp := map[string]any{"id": id}
		h, ok := handlers[cmd]
		if !ok {
			resp["outcome"] = "nocmd"
			_ = enc.Encode(resp)
			continue
		}
		to := 10 * time.Second
		if ms := get[int](req, "timeout_ms"); ms > 0 {
			to = time.Duration(ms) * time.Millisecond
		}
		r, hang := runOne(h, req, to)
		switch {
		case hang:
			resp["outcome"] = "hang"
		case r.pan != nil:
			resp["outcome"] = "panic"
			resp["panic"] = fmt.Sprint(r.pan)
			resp["stack"] = r.stk
		case r.err != nil:
			resp["outcome"] = "error"
			resp["error"] = r.err.Error()
			for k, v := range r.out {
				resp[k] = v
			}
		default:
			resp["outcome"] = "ok"
			for k, v := range r.out {
				resp[k] = v
			}
		}
		_ = enc.Encode(resp)
		if hang {
			// a hung goroutine may hold resources; flush and keep going
			out.Flush()
		}
	}
}
