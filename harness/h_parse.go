//go:build verif

package main

import (
	"fmt"
	"math"
	"regexp"
	"sort"
	"strconv"
	"strings"

	"github.com/dustin/go-humanize"

	"github.com/tdakkota/docker-logql/internal/lexerql"
	"github.com/tdakkota/docker-logql/internal/logql"
	"github.com/tdakkota/docker-logql/internal/logql/lexer"
)

// canonical dump, mirrored by Model/Syntax.v (dexpr) and tools/astdump.py
func dstr(s string) string { return strconv.Itoa(len(s)) + ":" + s }
func dnode(tag string, fields ...string) string {
	var sb strings.Builder
	sb.WriteString("(" + tag)
	for _, f := range fields {
		sb.WriteString(" " + f)
	}
	sb.WriteString(")")
	return sb.String()
}
func dlist[T any](f func(T) string, l []T) string {
	var sb strings.Builder
	sb.WriteString("[")
	for _, x := range l {
		sb.WriteString(f(x) + " ")
	}
	sb.WriteString("]")
	return sb.String()
}
func dbool(b bool) string {
	if b {
		return "T"
	}
	return "F"
}
func dfloat(f float64) string {
	b := math.Float64bits(f)
	if f != f {
		b = 9221120237041090560
	}
	return "f" + strconv.FormatUint(b, 10)
}
func dlabel(l logql.Label) string { return dstr(string(l)) }
func dop(o logql.BinOp) string    { return strconv.Itoa(int(o)) }

// the compiled regular expression a node carries (its source text): the anchored ^(?:v)$ for a label matcher, v itself for a line filter
func dre(re *regexp.Regexp) string {
	if re == nil {
		return dstr("")
	}
	return dstr(re.String())
}
func dmatcher(m logql.LabelMatcher) string {
	return dnode("m", dstr(string(m.Label)), dop(m.Op), dstr(m.Value), dre(m.Re))
}
func dextr(e logql.LabelExtractionExpr) string {
	return dnode("p", dstr(string(e.Label)), dstr(e.Expr))
}

// stripParens: when set, ParenExpr / LabelPredicateParen nodes are dumped as their content
// (comparison with the generator's expectation is modulo redundant parentheses)
var stripParens bool

func dpred(p logql.LabelPredicate) string {
	switch p := p.(type) {
	case *logql.LabelMatcher:
		return dmatcher(*p)
	case *logql.NumberFilter:
		return dnode("num", dlabel(p.Label), dop(p.Op), dfloat(p.Value))
	case *logql.DurationFilter:
		return dnode("dur", dlabel(p.Label), dop(p.Op), strconv.FormatInt(int64(p.Value), 10))
	case *logql.BytesFilter:
		return dnode("byt", dlabel(p.Label), dop(p.Op), strconv.FormatUint(p.Value, 10))
	case *logql.IPFilter:
		return dnode("ip", dlabel(p.Label), dop(p.Op), dstr(p.Value))
	case *logql.LabelPredicateBinOp:
		return dnode("bin", dpred(p.Left), dop(p.Op), dpred(p.Right))
	case *logql.LabelPredicateParen:
		if stripParens {
			return dpred(p.X)
		}
		return dnode("par", dpred(p.X))
	}
	return fmt.Sprintf("(?pred %T)", p)
}

func dstage(s logql.PipelineStage) string {
	switch s := s.(type) {
	case *logql.LineFilter:
		return dnode("line", dop(s.Op), dstr(s.Value), dbool(s.IP), dre(s.Re))
	case *logql.JSONExpressionParser:
		return dnode("json", dlist(dlabel, s.Labels), dlist(dextr, s.Exprs))
	case *logql.LogfmtExpressionParser:
		return dnode("logfmt", dlist(dlabel, s.Labels), dlist(dextr, s.Exprs))
	case *logql.RegexpLabelParser:
		if s == nil {
			return dnode("nil")
		}
		var idx []int
		for i := range s.Mapping {
			idx = append(idx, i)
		}
		sort.Ints(idx)
		return dnode("regexp", dstr(s.Regexp.String()), dlist(func(i int) string { return dnode("c", strconv.Itoa(i), dlabel(s.Mapping[i])) }, idx))
	case *logql.PatternLabelParser:
		return dnode("pattern", dstr(s.Pattern))
	case *logql.UnpackLabelParser:
		return dnode("unpack")
	case *logql.LineFormat:
		return dnode("linefmt", dstr(s.Template))
	case *logql.DecolorizeExpr:
		return dnode("decolor")
	case *logql.LabelFilter:
		return dnode("filter", dpred(s.Pred))
	case *logql.LabelFormatExpr:
		return dnode("labelfmt",
			dlist(func(r logql.RenameLabel) string { return dnode("p", dlabel(r.Label), dlabel(r.To)) }, s.Labels),
			dlist(func(r logql.LabelTemplate) string { return dnode("p", dlabel(r.Label), dstr(r.Template)) }, s.Values))
	case *logql.DropLabelsExpr:
		return dnode("drop", dlist(dlabel, s.Labels), dlist(dmatcher, s.Matchers))
	case *logql.KeepLabelsExpr:
		return dnode("keep", dlist(dlabel, s.Labels), dlist(dmatcher, s.Matchers))
	case *logql.DistinctFilter:
		return dnode("distinct", dlist(dlabel, s.Labels))
	}
	return fmt.Sprintf("(?stage %T)", s)
}

func dgrouping(g *logql.Grouping) string {
	if g == nil {
		return "~"
	}
	return dnode("g", dlist(dlabel, g.Labels), dbool(g.Without))
}

func dexpr(e logql.Expr) string {
	switch e := e.(type) {
	case *logql.LogExpr:
		return dnode("log", dlist(dmatcher, e.Sel.Matchers), dlist(dstage, e.Pipeline))
	case *logql.RangeAggregationExpr:
		unw, off, param := "~", "~", "~"
		if u := e.Range.Unwrap; u != nil {
			unw = dnode("u", dstr(u.Op), dlabel(u.Label), dlist(dmatcher, u.Filters))
		}
		if o := e.Range.Offset; o != nil {
			off = strconv.FormatInt(int64(o.Duration), 10)
		}
		if e.Parameter != nil {
			param = dfloat(*e.Parameter)
		}
		r := dnode("r", dlist(dmatcher, e.Range.Sel.Matchers), strconv.FormatInt(int64(e.Range.Range), 10), dlist(dstage, e.Range.Pipeline), unw, off)
		return dnode("range", strconv.Itoa(int(e.Op)), r, param, dgrouping(e.Grouping))
	case *logql.VectorAggregationExpr:
		k := "~"
		if e.Parameter != nil {
			k = strconv.Itoa(*e.Parameter)
		}
		return dnode("vec", strconv.Itoa(int(e.Op)), dexpr(e.Expr), k, dgrouping(e.Grouping))
	case *logql.LiteralExpr:
		return dnode("lit", dfloat(e.Value))
	case *logql.VectorExpr:
		return dnode("vector", dfloat(e.Value))
	case *logql.LabelReplaceExpr:
		return dnode("lr", dexpr(e.Expr), dstr(e.DstLabel), dstr(e.Replacement), dstr(e.SrcLabel), dstr(e.Regex))
	case *logql.BinOpExpr:
		m := e.Modifier
		return dnode("bin", dexpr(e.Left), dop(e.Op),
			dnode("mod", dstr(m.Op), dlist(dlabel, m.OpLabels), dstr(m.Group), dlist(dlabel, m.Include), dbool(m.ReturnBool)), dexpr(e.Right))
	case *logql.ParenExpr:
		if stripParens {
			return dexpr(e.X)
		}
		return dnode("par", dexpr(e.X))
	}
	return fmt.Sprintf("(?expr %T)", e)
}

func tokenInfo(t lexer.Token) map[string]any {
	m := map[string]any{"type": t.Type.String(), "text": s64(t.Text)}
	switch t.Type {
	case lexer.Number:
		if f, err := strconv.ParseFloat(t.Text, 64); err == nil {
			m["float"] = strconv.FormatUint(math.Float64bits(f), 10)
			if f != f {
				m["float"] = "9221120237041090560"
			}
		}
		if i, err := strconv.Atoi(t.Text); err == nil {
			m["int"] = strconv.Itoa(i)
		}
	case lexer.Duration:
		if d, err := lexerql.ParseDuration(t.Text); err == nil {
			m["dur"] = strconv.FormatInt(int64(d), 10)
		}
	case lexer.Bytes:
		if b, err := humanize.ParseBytes(t.Text); err == nil {
			m["bytes"] = strconv.FormatUint(b, 10)
		}
	case lexer.String:
		if re, err := regexp.Compile(t.Text); err == nil {
			names := []string{}
			for _, n := range re.SubexpNames() {
				names = append(names, s64(n))
			}
			m["re"] = names
		}
		if _, err := regexp.Compile("^(?:" + t.Text + ")$"); err == nil {
			m["re_anch"] = true
		}
	}
	return m
}

func init() {
	// parse: tokens (with the library results the parser consults) + canonical dump of the parsed tree
	handlers["parse"] = func(req request) (map[string]any, error) {
		q := getBytes(req, "query")
		out := map[string]any{}
		toks, terr := lexer.Tokenize(q, lexer.TokenizeOptions{})
		var ti []map[string]any
		for _, t := range toks {
			ti = append(ti, tokenInfo(t))
		}
		out["tokens"] = ti
		if terr != nil {
			out["tokenize_error"] = terr.Error()
		}
		expr, err := logql.Parse(q, logql.ParseOptions{})
		if err != nil {
			out["parse_error"] = err.Error()
			return out, nil
		}
		out["ast"] = s64(dexpr(expr))
		stripParens = true
		out["ast_np"] = s64(dexpr(expr))
		stripParens = false
		return out, nil
	}
}
