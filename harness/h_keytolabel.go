//go:build verif

package main

import "github.com/tdakkota/docker-logql/internal/otelstorage"

func init() {
	handlers["keytolabel"] = func(req request) (map[string]any, error) {
		ins := get[[]string](req, "inputs")
		outs := make([]string, len(ins))
		for i, s := range ins {
			outs[i] = s64(otelstorage.KeyToLabel(unb64(s)))
		}
		return map[string]any{"outputs": outs}, nil
	}
}
