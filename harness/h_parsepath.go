//go:build verif

package main

import (
	"github.com/tdakkota/docker-logql/internal/logql/lexer"
	"github.com/tdakkota/docker-logql/internal/logql/logqlengine/jsonexpr"
	"github.com/tdakkota/docker-logql/internal/logql/logqlengine/logqlpattern"
)

// parsepath: jsonexpr.Parse on each input; parsepattern: logqlpattern.Parse on each input.
func init() {
	handlers["parsepath"] = func(req request) (map[string]any, error) {
		ins := get[[]string](req, "inputs")
		outs := make([]map[string]any, len(ins))
		for i, s := range ins {
			p, err := jsonexpr.Parse(unb64(s))
			if err != nil {
				outs[i] = map[string]any{"err": err.Error()}
				continue
			}
			sels := make([]map[string]any, 0, len(p))
			for _, sel := range p {
				if sel.Type == jsonexpr.Key {
					sels = append(sels, map[string]any{"k": s64(sel.Key)})
				} else {
					sels = append(sels, map[string]any{"i": sel.Index})
				}
			}
			outs[i] = map[string]any{"sels": sels}
		}
		return map[string]any{"outputs": outs}, nil
	}
	handlers["parsepattern"] = func(req request) (map[string]any, error) {
		ins := get[[]string](req, "inputs")
		outs := make([]map[string]any, len(ins))
		for i, s := range ins {
			p, err := logqlpattern.Parse(unb64(s))
			if err != nil {
				outs[i] = map[string]any{"err": err.Error()}
				continue
			}
			parts := make([]map[string]any, 0, len(p.Parts))
			for _, part := range p.Parts {
				if part.Type == logqlpattern.Capture {
					parts = append(parts, map[string]any{"cap": s64(part.Value)})
				} else {
					parts = append(parts, map[string]any{"lit": s64(part.Value)})
				}
			}
			outs[i] = map[string]any{"parts": parts}
		}
		return map[string]any{"outputs": outs}, nil
	}
}

// tokenizemany: lexer.Tokenize on each input: token types and texts, or the error
func init() {
	handlers["tokenizemany"] = func(req request) (map[string]any, error) {
		ins := get[[]string](req, "inputs")
		outs := make([]map[string]any, len(ins))
		for i, s := range ins {
			toks, err := lexer.Tokenize(unb64(s), lexer.TokenizeOptions{})
			if err != nil {
				outs[i] = map[string]any{"err": err.Error()}
				continue
			}
			ti := make([]map[string]any, 0, len(toks))
			for _, t := range toks {
				ti = append(ti, map[string]any{"type": t.Type.String(), "text": s64(t.Text)})
			}
			outs[i] = map[string]any{"tokens": ti}
		}
		return map[string]any{"outputs": outs}, nil
	}
}
