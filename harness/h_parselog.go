//go:build verif

package main

import (
	"context"
	"errors"
	"io"
	"strings"

	"go.opentelemetry.io/collector/pdata/pcommon"

	"github.com/tdakkota/docker-logql/internal/dockerlog"
	"github.com/tdakkota/docker-logql/internal/logstorage"
	"github.com/tdakkota/docker-logql/internal/otelstorage"
)

var errInjected = errors.New("verif: injected read failure")

type evt struct {
	D    *string `json:"d,omitempty"`
	EOF  bool    `json:"eof,omitempty"`
	Fail bool    `json:"fail,omitempty"`
}

// evReader serves a scripted sequence of read events; Eof and Fail are sticky.
type evReader struct {
	evs      []evt
	cur      []byte
	loaded   bool
	closed   int
	reads    int
	cid      string
	closeErr bool
	ctx      context.Context // the context of the ContainerLogs request: like the real client's body, the stream dies with it
}

func (r *evReader) Read(p []byte) (int, error) {
	r.reads++
	if r.ctx != nil {
		if err := r.ctx.Err(); err != nil {
			return 0, err
		}
	}
	for {
		if len(r.evs) == 0 {
			return 0, io.EOF
		}
		e := r.evs[0]
		switch {
		case e.EOF:
			return 0, io.EOF
		case e.Fail:
			return 0, errInjected
		}
		if !r.loaded {
			r.cur = []byte(unb64(*e.D))
			r.loaded = true
		}
		if len(r.cur) == 0 {
			r.evs = r.evs[1:]
			r.loaded = false
			continue
		}
		n := copy(p, r.cur)
		r.cur = r.cur[n:]
		return n, nil
	}
}

// Close counts; a reader may report an error on Close (a connection that was reset): it is closed all the same, and so must the others be
func (r *evReader) Close() error {
	r.closed++
	if r.closeErr {
		return errors.New("verif: injected close failure")
	}
	return nil
}

func classifyStreamErr(err error) string {
	if err == nil {
		return "clean"
	}
	s := err.Error()
	switch {
	case strings.Contains(s, "read header"):
		return "header"
	case strings.Contains(s, "read message"):
		return "body"
	case strings.Contains(s, "daemon log stream error"):
		return "daemon"
	case strings.Contains(s, "no space between timestamp and message"):
		return "nospace"
	case strings.Contains(s, "parse timestamp"):
		return "timestamp"
	}
	return "other:" + s
}

func init() {
	handlers["parselog"] = func(req request) (map[string]any, error) {
		evs := get[[]evt](req, "events")
		rd := &evReader{evs: evs}
		it := dockerlog.ParseLog(rd, otelstorage.Attrs(pcommon.NewMap()))
		// A consumer keeps records while it pulls the next ones (mergeIter, groupEntries do): bodies are retained as
		// delivered and encoded only after the stream ended, so a body that aliases a reused buffer shows.
		type kept struct {
			ts   int64
			body string
		}
		var keep []kept
		var rec logstorage.Record
		for it.Next(&rec) {
			keep = append(keep, kept{int64(rec.Timestamp), rec.Body})
			if len(keep) > 100000 {
				break
			}
		}
		// A consumer may ask again after the end (rangeAggIterator does on every step): the answer must stay "no more
		// records", and the error must stay.
		for k := 0; k < 3 && len(keep) <= 100000; k++ {
			if it.Next(&rec) {
				keep = append(keep, kept{int64(rec.Timestamp), rec.Body})
			}
		}
		recs := make([]map[string]any, 0, len(keep))
		for _, r := range keep {
			recs = append(recs, map[string]any{"ts": r.ts, "line": s64(r.body)})
		}
		end := classifyStreamErr(it.Err())
		_ = it.Close()
		return map[string]any{"records": recs, "end": end, "closed": rd.closed}, nil
	}
}
