//go:build verif

package main

import (
	"context"
	"fmt"
	"math"
	"sort"
	"strconv"
	"strings"
	"time"

	"go.opentelemetry.io/collector/pdata/pcommon"

	"github.com/tdakkota/docker-logql/internal/iterators"
	"github.com/tdakkota/docker-logql/internal/logql"
	"github.com/tdakkota/docker-logql/internal/logql/logqlengine"
	"github.com/tdakkota/docker-logql/internal/logstorage"
	"github.com/tdakkota/docker-logql/internal/lokiapi"
	"github.com/tdakkota/docker-logql/internal/otelstorage"
)

// mockRecord: a stored log record. Attribute values are strings.
type mockRecord struct {
	TS    int64       `json:"ts"`
	Line  string      `json:"line"`
	Attrs [][2]string `json:"attrs"`
	Res   [][2]string `json:"res"`
}

// mockQuerier honours the storage contract exactly: records with start <= ts <= end that satisfy every
// offloaded selector matcher (under the engine's own label view of a record, absent label = "") and every
// offloaded line filter, in the given order.
type mockQuerier struct {
	recs     []mockRecord
	caps     logqlengine.QuerierCapabilities
	calls    []map[string]any
	failAt   int // >0: the iterator reports an error after delivering failAt records
	opened   int
	closed   int
	noWindow bool
}

func (q *mockQuerier) Capabilities() logqlengine.QuerierCapabilities { return q.caps }

func toAttrs(kv [][2]string) otelstorage.Attrs {
	m := pcommon.NewMap()
	for _, p := range kv {
		m.PutStr(unb64(p[0]), unb64(p[1]))
	}
	return otelstorage.Attrs(m)
}

func labelView(r mockRecord) map[string]string {
	m := map[string]string{}
	if b := unb64(r.Line); b != "" {
		m[logstorage.LabelBody] = b
	}
	for _, kv := range [][][2]string{r.Attrs, r.Res} {
		for _, p := range kv {
			m[otelstorage.KeyToLabel(unb64(p[0]))] = unb64(p[1])
		}
	}
	return m
}

func matchStr(op logql.BinOp, value string, re interface{ MatchString(string) bool }, s string, contains bool) bool {
	switch op {
	case logql.OpEq:
		if contains {
			return strings.Contains(s, value)
		}
		return s == value
	case logql.OpNotEq:
		if contains {
			return !strings.Contains(s, value)
		}
		return s != value
	case logql.OpRe:
		return re.MatchString(s)
	case logql.OpNotRe:
		return !re.MatchString(s)
	}
	return false
}

type mockIter struct {
	q    *mockQuerier
	recs []logstorage.Record
	n    int
	err  error
}

type mockErr struct{}

func (mockErr) Error() string { return "verif: injected storage iteration failure" }

func (i *mockIter) Next(r *logstorage.Record) bool {
	if i.q.failAt > 0 && i.n >= i.q.failAt-1 {
		i.err = mockErr{}
		return false
	}
	if i.n >= len(i.recs) {
		return false
	}
	*r = i.recs[i.n]
	i.n++
	return true
}
func (i *mockIter) Err() error   { return i.err }
func (i *mockIter) Close() error { i.q.closed++; return nil }

func (q *mockQuerier) SelectLogs(_ context.Context, start, end otelstorage.Timestamp, params logqlengine.SelectLogsParams) (iterators.Iterator[logstorage.Record], error) {
	call := map[string]any{"start": int64(start), "end": int64(end), "labels": len(params.Labels), "lines": len(params.Line)}
	q.calls = append(q.calls, call)
	q.opened++
	var out []logstorage.Record
	// as in a real storage (dockerlog.ParseLog: one resource per container), records of one resource share ONE attribute map
	shared := map[string]otelstorage.Attrs{}
	resOf := func(kv [][2]string) otelstorage.Attrs {
		key := fmt.Sprint(kv)
		if a, ok := shared[key]; ok {
			return a
		}
		a := toAttrs(kv)
		shared[key] = a
		return a
	}
recLoop:
	for _, r := range q.recs {
		if !q.noWindow && (r.TS < int64(start) || r.TS > int64(end)) {
			continue
		}
		view := labelView(r)
		for _, m := range params.Labels {
			if !matchStr(m.Op, m.Value, m.Re, view[string(m.Label)], false) {
				continue recLoop
			}
		}
		body := unb64(r.Line)
		for _, f := range params.Line {
			if !matchStr(f.Op, f.Value, f.Re, body, true) {
				continue recLoop
			}
		}
		out = append(out, logstorage.Record{
			Timestamp:     otelstorage.Timestamp(r.TS),
			Body:          body,
			Attrs:         toAttrs(r.Attrs),
			ResourceAttrs: resOf(r.Res),
		})
	}
	return &mockIter{q: q, recs: out}, nil
}

func capsOf(label, line []int) (c logqlengine.QuerierCapabilities) {
	for _, o := range label {
		c.Label.Add(logql.BinOp(o))
	}
	for _, o := range line {
		c.Line.Add(logql.BinOp(o))
	}
	return c
}

func labelPairs(ls lokiapi.LabelSet) [][2]string {
	out := make([][2]string, 0, len(ls))
	for k, v := range ls {
		out = append(out, [2]string{s64(k), s64(v)})
	}
	sort.Slice(out, func(i, j int) bool { return unb64(out[i][0]) < unb64(out[j][0]) })
	return out
}

func fbitsOfString(v string) string {
	f, err := strconv.ParseFloat(v, 64)
	if err != nil {
		return "err:" + v
	}
	b := math.Float64bits(f)
	if f != f {
		b = 9221120237041090560
	}
	return strconv.FormatUint(b, 10)
}

func dumpData(data lokiapi.QueryResponseData) map[string]any {
	out := map[string]any{"type": string(data.Type)}
	switch data.Type {
	case lokiapi.StreamsResultQueryResponseData:
		var streams []map[string]any
		for _, s := range data.StreamsResult.Result {
			var vals [][2]string
			for _, e := range s.Values {
				vals = append(vals, [2]string{strconv.FormatUint(e.T, 10), s64(e.V)})
			}
			streams = append(streams, map[string]any{"labels": labelPairs(s.Stream.Value), "values": vals})
		}
		out["streams"] = streams
	case lokiapi.VectorResultQueryResponseData:
		var ss []map[string]any
		for _, s := range data.VectorResult.Result {
			ss = append(ss, map[string]any{"labels": labelPairs(s.Metric.Value), "points": [][2]string{{strconv.FormatInt(int64(math.Round(s.Value.T*1000)), 10), fbitsOfString(s.Value.V)}}})
		}
		out["series"] = ss
	case lokiapi.MatrixResultQueryResponseData:
		var ss []map[string]any
		for _, s := range data.MatrixResult.Result {
			var pts [][2]string
			for _, p := range s.Values {
				pts = append(pts, [2]string{strconv.FormatInt(int64(math.Round(p.T*1000)), 10), fbitsOfString(p.V)})
			}
			ss = append(ss, map[string]any{"labels": labelPairs(s.Metric.Value), "points": pts})
		}
		out["series"] = ss
	case lokiapi.ScalarResultQueryResponseData:
		p := data.ScalarResult.Result
		out["scalar"] = [2]string{strconv.FormatInt(int64(math.Round(p.T*1000)), 10), fbitsOfString(p.V)}
	}
	return out
}

func errClass(err error) string {
	s := err.Error()
	switch {
	case strings.HasPrefix(s, "parse:"):
		return "parse"
	case strings.Contains(s, "build pipeline") || strings.Contains(s, "extract preconditions") || strings.HasPrefix(s, "build metric query"):
		return "build"
	case strings.Contains(s, "get logs") || strings.Contains(s, "fetch containers") || strings.Contains(s, "open container") || strings.Contains(s, "query logs"):
		return "storage"
	}
	return "eval"
}

func evalParams(req request) logqlengine.EvalParams {
	return logqlengine.EvalParams{
		Start: otelstorage.Timestamp(get[int64](req, "start")),
		End:   otelstorage.Timestamp(get[int64](req, "end")),
		Step:  time.Duration(get[int64](req, "step")),
		Limit: get[int](req, "limit"),
	}
}

func init() {
	// eval: Engine.Eval over the mock querier, once per capability set
	handlers["eval"] = func(req request) (map[string]any, error) {
		type capset struct {
			Label []int `json:"label"`
			Line  []int `json:"line"`
		}
		capsets := get[[]capset](req, "caps")
		if len(capsets) == 0 {
			capsets = []capset{{}}
		}
		recs := get[[]mockRecord](req, "records")
		var runs []map[string]any
		for _, cs := range capsets {
			q := &mockQuerier{recs: recs, caps: capsOf(cs.Label, cs.Line), failAt: get[int](req, "fail_at"), noWindow: get[bool](req, "no_window")}
			eng := logqlengine.NewEngine(q, logqlengine.Options{})
			data, err := eng.Eval(context.Background(), getBytes(req, "query"), evalParams(req))
			run := map[string]any{"opened": q.opened, "closed": q.closed, "calls": q.calls}
			if err != nil {
				run["error"] = err.Error()
				run["class"] = errClass(err)
			} else {
				for k, v := range dumpData(data) {
					run[k] = v
				}
			}
			runs = append(runs, run)
		}
		return map[string]any{"runs": runs}, nil
	}

	// evalmulti: several (query, capability set, params) evaluations over one record set
	handlers["evalmulti"] = func(req request) (map[string]any, error) {
		type ev struct {
			Query string `json:"query"`
			Label []int  `json:"label"`
			Line  []int  `json:"line"`
			Limit int    `json:"limit"`
			Start int64  `json:"start"`
			End   int64  `json:"end"`
			Step  int64  `json:"step"`
		}
		evs := get[[]ev](req, "evals")
		recs := get[[]mockRecord](req, "records")
		var runs []map[string]any
		for _, e := range evs {
			q := &mockQuerier{recs: recs, caps: capsOf(e.Label, e.Line), failAt: get[int](req, "fail_at"), noWindow: get[bool](req, "no_window")}
			eng := logqlengine.NewEngine(q, logqlengine.Options{})
			run := map[string]any{}
			func() {
				defer func() {
					if r := recover(); r != nil {
						run["panic"] = fmt.Sprint(r)
					}
				}()
				data, err := eng.Eval(context.Background(), unb64(e.Query), logqlengine.EvalParams{
					Start: otelstorage.Timestamp(e.Start), End: otelstorage.Timestamp(e.End), Step: time.Duration(e.Step), Limit: e.Limit})
				if err != nil {
					run["error"] = err.Error()
					run["class"] = errClass(err)
				} else {
					for k, v := range dumpData(data) {
						run[k] = v
					}
				}
			}()
			run["opened"] = q.opened
			run["closed"] = q.closed
			runs = append(runs, run)
		}
		return map[string]any{"runs": runs}, nil
	}
}
