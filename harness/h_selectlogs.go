//go:build verif

package main

import (
	"context"
	"sort"

	"github.com/tdakkota/docker-logql/internal/dockerlog"
	"github.com/tdakkota/docker-logql/internal/logql/logqlengine"
	"github.com/tdakkota/docker-logql/internal/logstorage"
	"github.com/tdakkota/docker-logql/internal/otelstorage"
)

func newFake(req request) *fakeDocker {
	return &fakeDocker{
		containers: get[[]fakeContainer](req, "containers"),
		listFail:   get[bool](req, "list_fail"),
		release:    get[[]int](req, "release"),
		lateLast:   get[bool](req, "late_last"),
	}
}

func attrsPairs(a otelstorage.Attrs) [][2]string {
	var out [][2]string
	if a.IsZero() {
		return out
	}
	a.AsMap().Range(func(k string, v pcommonValue) bool {
		out = append(out, [2]string{s64(k), s64(v.AsString())})
		return true
	})
	sort.Slice(out, func(i, j int) bool { return unb64(out[i][0]) < unb64(out[j][0]) })
	return out
}

func init() {
	// selectlogs: dockerlog.Querier.SelectLogs with empty params (all containers), drained to the end,
	// once per scripted completion order of the concurrent ContainerLogs calls
	handlers["selectlogs"] = func(req request) (map[string]any, error) {
		releases := get[[][]int](req, "releases")
		if len(releases) == 0 {
			releases = [][]int{nil}
		}
		var runs []map[string]any
		for _, rel := range releases {
			fd := newFake(req)
			fd.release = rel
			out, err := selectLogsOnce(req, fd)
			if err != nil {
				return nil, err
			}
			runs = append(runs, out)
		}
		return map[string]any{"runs": runs}, nil
	}
}

func selectLogsOnce(req request, fd *fakeDocker) (map[string]any, error) {
	q, err := dockerlog.NewQuerier(fd)
	if err != nil {
		return nil, err
	}
	start := otelstorage.Timestamp(get[int64](req, "start"))
	end := otelstorage.Timestamp(get[int64](req, "end"))
	it, err := q.SelectLogs(context.Background(), start, end, logqlengine.SelectLogsParams{})
	out := map[string]any{}
	if err != nil {
		out["select_error"] = err.Error()
		for k, v := range fd.stats() {
			out[k] = v
		}
		return out, nil
	}
	var recs []map[string]any
	var rec logstorage.Record
	for it.Next(&rec) {
		cid := ""
		if v, ok := rec.ResourceAttrs.AsMap().Get("container_id"); ok {
			cid = v.AsString()
		}
		recs = append(recs, map[string]any{"ts": int64(rec.Timestamp), "line": s64(rec.Body), "cid": s64(cid)})
		if len(recs) > 200000 {
			break
		}
	}
	out["records"] = recs
	out["end"] = classifyStreamErr(it.Err())
	_ = it.Close()
	for k, v := range fd.stats() {
		out[k] = v
	}
	return out, nil
}
