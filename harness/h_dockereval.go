//go:build verif

package main

import (
	"context"
	"fmt"
	"time"

	"github.com/tdakkota/docker-logql/internal/dockerlog"
	"github.com/tdakkota/docker-logql/internal/logql/logqlengine"
	"github.com/tdakkota/docker-logql/internal/otelstorage"
)

func init() {
	// dockereval: Engine.Eval over dockerlog.Querier over the fake Docker daemon, once per evaluation
	// (query, params, scripted completion order). Reports the result, the error class, the LogsOptions every
	// container received and the opened / closed reader counts per container.
	handlers["dockereval"] = func(req request) (map[string]any, error) {
		type ev struct {
			Query   string `json:"query"`
			Limit   int    `json:"limit"`
			Start   int64  `json:"start"`
			End     int64  `json:"end"`
			Step    int64  `json:"step"`
			Release []int  `json:"release"`
		}
		evs := get[[]ev](req, "evals")
		var runs []map[string]any
		for _, e := range evs {
			fd := newFake(req)
			fd.release = e.Release
			run := map[string]any{}
			func() {
				defer func() {
					if r := recover(); r != nil {
						run["panic"] = fmt.Sprint(r)
					}
				}()
				q, err := dockerlog.NewQuerier(fd)
				if err != nil {
					run["error"] = err.Error()
					return
				}
				eng := logqlengine.NewEngine(q, logqlengine.Options{})
				data, err := eng.Eval(context.Background(), unb64(e.Query), logqlengine.EvalParams{
					Start: otelstorage.Timestamp(e.Start), End: otelstorage.Timestamp(e.End), Step: time.Duration(e.Step), Limit: e.Limit})
				if err != nil {
					run["error"] = err.Error()
					run["class"] = errClass(err)
				} else {
					for k, v := range dumpData(data) {
						run[k] = v
					}
				}
			}()
			// every per-container request must have been joined when the evaluation returns
			run["inflight_at_return"] = fd.waitIdle(8 * time.Second)
			st := fd.stats()
			for k, v := range st {
				run[k] = v
			}
			// per-container open / close counts
			per := map[string][2]int{}
			fd.mu.Lock()
			for _, r := range fd.readers {
				c := per[r.cid]
				c[0]++
				if r.closed > 0 {
					c[1]++
				}
				per[r.cid] = c
			}
			fd.mu.Unlock()
			run["per_container"] = per
			runs = append(runs, run)
		}
		return map[string]any{"runs": runs}, nil
	}
}
