//go:build verif

package main

import (
	"context"
	"errors"
	"io"
	"sync"
	"time"

	"github.com/docker/docker/api/types"
	apicontainer "github.com/docker/docker/api/types/container"
	"github.com/docker/docker/client"
	"github.com/docker/docker/errdefs"
)

// fakeContainer describes one container of the fake daemon. All strings are base64 in JSON.
type fakeContainer struct {
	ID            string      `json:"id"`
	Names         []string    `json:"names"`
	Image         string      `json:"image"`
	ImageID       string      `json:"image_id"`
	Command       string      `json:"command"`
	State         string      `json:"state"`
	Status        string      `json:"status"`
	Created       int64       `json:"created"`
	Labels        [][2]string `json:"labels"`
	Events        []evt       `json:"events"`
	OpenFail      bool        `json:"open_fail"`
	OpenFailClass string      `json:"open_fail_class"`
	CloseErr      bool        `json:"close_err"`
}

type fakeDocker struct {
	client.APIClient // nil: any other API call panics (and is reported as such)

	containers []fakeContainer
	listFail   bool
	lateLast   bool // the last container starts after the first listing: the first ContainerList call does not show it, every later one does
	lists      int
	release    []int // completion order of the ContainerLogs calls (indices into containers)

	mu       sync.Mutex
	arrived  map[int]chan struct{}
	order    []int // order in which calls were actually released
	opts     map[string]apicontainer.LogsOptions
	readers  []*evReader
	opens    int
	coord    sync.Once
	inflight int // ContainerLogs calls that have not returned yet
}

var errOpenInjected = errors.New("verif: injected open failure")
var errListInjected = errors.New("verif: injected list failure")

// ContainerList answers as dockerd does: without All only running containers, and the label / status / id / name
// filters of the request are applied to the containers' ORIGINAL Docker labels and fields
func (f *fakeDocker) ContainerList(ctx context.Context, opts apicontainer.ListOptions) ([]types.Container, error) {
	if f.listFail {
		return nil, errListInjected
	}
	out := make([]types.Container, 0, len(f.containers))
	f.mu.Lock()
	f.lists++
	hide := f.lateLast && f.lists == 1
	f.mu.Unlock()
	for ci, c := range f.containers {
		if hide && ci == len(f.containers)-1 {
			continue
		}
		tc := types.Container{
			ID: unb64(c.ID), Image: unb64(c.Image), ImageID: unb64(c.ImageID), Command: unb64(c.Command),
			State: unb64(c.State), Status: unb64(c.Status), Created: c.Created,
		}
		for _, n := range c.Names {
			tc.Names = append(tc.Names, unb64(n))
		}
		if len(c.Labels) > 0 {
			tc.Labels = map[string]string{}
			for _, kv := range c.Labels {
				tc.Labels[unb64(kv[0])] = unb64(kv[1])
			}
		}
		if !opts.All && tc.State != "running" {
			continue
		}
		if fl := opts.Filters; fl.Len() > 0 {
			if !fl.MatchKVList("label", tc.Labels) || !fl.ExactMatch("status", tc.State) || !fl.Match("id", tc.ID) {
				continue
			}
			if fl.Contains("name") {
				ok := false
				for _, n := range tc.Names {
					ok = ok || fl.Match("name", n)
				}
				if !ok {
					continue
				}
			}
		}
		out = append(out, tc)
	}
	return out, nil
}

func (f *fakeDocker) index(id string) int {
	for i, c := range f.containers {
		if unb64(c.ID) == id {
			return i
		}
	}
	return -1
}

// coordinator releases blocked ContainerLogs calls in the scripted completion order.
func (f *fakeDocker) coordinator() {
	pending := append([]int(nil), f.release...)
	deadline := time.Now().Add(5 * time.Second)
	for len(pending) > 0 && time.Now().Before(deadline) {
		f.mu.Lock()
		ch, ok := f.arrived[pending[0]]
		var alt int = -1
		if !ok {
			for _, p := range pending {
				if _, ok2 := f.arrived[p]; ok2 {
					alt = p
					break
				}
			}
		}
		f.mu.Unlock()
		pick := -1
		if ok {
			pick = pending[0]
		} else if alt >= 0 {
			// the scripted next call has not arrived; give it a moment, then fall back
			time.Sleep(3 * time.Millisecond)
			f.mu.Lock()
			ch, ok = f.arrived[pending[0]]
			f.mu.Unlock()
			if ok {
				pick = pending[0]
			} else {
				pick = alt
				f.mu.Lock()
				ch = f.arrived[alt]
				f.mu.Unlock()
			}
		} else {
			time.Sleep(200 * time.Microsecond)
			continue
		}
		f.mu.Lock()
		f.order = append(f.order, pick)
		f.mu.Unlock()
		close(ch)
		for i, p := range pending {
			if p == pick {
				pending = append(pending[:i], pending[i+1:]...)
				break
			}
		}
		// let the released goroutine run to completion of its task before the next release
		time.Sleep(150 * time.Microsecond)
	}
}

func (f *fakeDocker) ContainerLogs(ctx context.Context, id string, options apicontainer.LogsOptions) (io.ReadCloser, error) {
	idx := f.index(id)
	if idx < 0 {
		return nil, errors.New("verif: no such container")
	}
	f.mu.Lock()
	f.inflight++
	defer func() {
		f.mu.Lock()
		f.inflight--
		f.mu.Unlock()
	}()
	if f.opts == nil {
		f.opts = map[string]apicontainer.LogsOptions{}
	}
	f.opts[f.containers[idx].ID] = options
	scripted := false
	for _, r := range f.release {
		if r == idx {
			scripted = true
		}
	}
	var ch chan struct{}
	if scripted {
		if f.arrived == nil {
			f.arrived = map[int]chan struct{}{}
		}
		if _, dup := f.arrived[idx]; !dup {
			ch = make(chan struct{})
			f.arrived[idx] = ch
		}
	}
	f.mu.Unlock()
	if ch != nil {
		f.coord.Do(func() { go f.coordinator() })
		select {
		case <-ch:
		case <-time.After(6 * time.Second):
		}
	}
	c := f.containers[idx]
	if c.OpenFail {
		switch c.OpenFailClass {
		case "notfound":
			return nil, errdefs.NotFound(errOpenInjected)
		case "unavailable":
			return nil, errdefs.Unavailable(errOpenInjected)
		case "eof":
			return nil, io.EOF
		case "ueof":
			return nil, io.ErrUnexpectedEOF
		case "canceled":
			return nil, context.Canceled
		}
		return nil, errOpenInjected
	}
	rd := &evReader{evs: append([]evt(nil), c.Events...), cid: c.ID, ctx: ctx, closeErr: c.CloseErr}
	f.mu.Lock()
	f.readers = append(f.readers, rd)
	f.opens++
	f.mu.Unlock()
	return rd, nil
}

// waitIdle reports how many ContainerLogs calls are still running (the evaluation has returned: every one of them should have
// been joined) and waits for them to finish, so that what they open afterwards is counted
func (f *fakeDocker) waitIdle(d time.Duration) int {
	f.mu.Lock()
	n := f.inflight
	f.mu.Unlock()
	deadline := time.Now().Add(d)
	for time.Now().Before(deadline) {
		f.mu.Lock()
		k := f.inflight
		f.mu.Unlock()
		if k == 0 {
			break
		}
		time.Sleep(200 * time.Microsecond)
	}
	return n
}

func (f *fakeDocker) stats() map[string]any {
	f.mu.Lock()
	defer f.mu.Unlock()
	closed, multi := 0, 0
	for _, r := range f.readers {
		if r.closed > 0 {
			closed++
		}
		if r.closed > 1 {
			multi++
		}
	}
	opts := map[string]any{}
	for id, o := range f.opts {
		opts[id] = map[string]any{"since": o.Since, "until": o.Until, "stdout": o.ShowStdout, "stderr": o.ShowStderr,
			"timestamps": o.Timestamps, "tail": o.Tail, "follow": o.Follow}
	}
	return map[string]any{"opened": f.opens, "closed": closed, "closed_twice": multi, "opts": opts, "released": f.order}
}
