(** Declarative readings of the metric properties (C09-C12), free of iterator state. *)
From LogQLV Require Import Base.Bytes Base.FloatX Base.LMap Model.Tables Model.Stages Model.Engine Model.Metric.

(** * C09: what a range aggregation reports at evaluation time T *)
Definition in_window (range offset T : Z) (e : sentry) : bool :=
  (T - offset - range <=? se_ts e) && (se_ts e <=? T - offset).

Definition series_key (g : grouping) (e : sentry) : lmap := key_of (apply_grouping g (se_set e)).

Fixpoint distinct_keys (l : list lmap) : list lmap :=
  match l with
  | [] => []
  | k :: t => k :: filter (fun k' => negb (lmap_eqb k k')) (distinct_keys t)
  end.

(** one (label set, value) per label set having at least one sample in [T-o-r, T-o]; the value is the aggregate of
    exactly that series' samples in the window, in arrival order *)
Definition range_spec_at (agg : list float -> float) (g : grouping) (range offset : Z) (ses : list sentry) (T : Z) : list (lmap * float) :=
  let inw := filter (in_window range offset T) ses in
  map (fun k => (k, agg (map se_val (filter (fun e => lmap_eqb (series_key g e) k) inw))))
      (distinct_keys (map (series_key g) inw)).

(** lookup in a step / spec row list by label set *)
Definition step_lookup (k : lmap) (s : step) : option float :=
  match find (fun sm : sample => lmap_eqb (key_of (snd sm)) k) (st_samples s) with Some sm => Some (fst sm) | None => None end.
Definition spec_lookup (k : lmap) (l : list (lmap * float)) : option float :=
  match find (fun kv => lmap_eqb (fst kv) k) l with Some kv => Some (snd kv) | None => None end.

(** * C11: a vector aggregation over one step, as a function of the input vector *)
Definition restrict (g : grouping) (ls : lmap) : lmap :=
  match g with
  | GNone => []
  | GBy l => lfilter (fun k _ => bmem k l) ls
  | GWithout l => lfilter (fun k _ => negb (bmem k l)) ls
  end.

(** input vector: (label set, value) in the order the aggregation sees it *)
Definition vagg_spec (k : aggkind) (g : grouping) (v : list (lmap * float)) : list (lmap * float) :=
  map (fun key => (key, agg_list k (map snd (filter (fun s => lmap_eqb (restrict g (fst s)) key) v))))
      (distinct_keys (map (fun s => restrict g (fst s)) v)).

(** * C12 *)
Definition binop_spec (op : binop) (retbool : bool) (l r : list (lmap * float)) : option (list (lmap * float)) :=
  opt_seq (flat_map (fun ls => match spec_lookup (fst ls) r with
                               | None => []
                               | Some rv => match sample_op op retbool (snd ls) rv with
                                            | Some (v, true) => [Some (fst ls, v)]
                                            | Some (_, false) => []
                                            | None => [None]
                                            end
                               end) l).
