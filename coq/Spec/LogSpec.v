(** Declarative reading of a log query (C01): what ONE record contributes to the result, as a function of that
    record alone -- no storage capabilities, no prefilter split, no iteration state, no limit accounting. *)
From LogQLV Require Import Base.Bytes Base.LMap Model.Tables Model.Stages Model.Engine.

(** a pipeline applied to one (line, label set); outer None = outside the executable fragment of a library model *)
Fixpoint apply_stages (o : oracles) (stages : list estage) (ts : Z) (line : bytes) (ls : lmap) : option (option (bytes * lmap)) :=
  match stages with
  | [] => Some (Some (line, ls))
  | s :: rest =>
    match process o s [] ts line ls with
    | None => None
    | Some (_, line', keep, ls') => if keep then apply_stages o rest ts line' ls' else Some None
    end
  end.

(** LogQL selector semantics: every matcher holds on the record's label view, an absent label reading as "" *)
Definition selected (q : equery) (r : record) : bool := forallb (sel_ok (set_from_record r)) (q_sel q).

Definition matches (o : oracles) (q : equery) (r : record) : option (option entry) :=
  if selected q r then
    match apply_stages o (q_pipe q) (r_ts r) (r_line r) (set_from_record r) with
    | None => None
    | Some None => Some None
    | Some (Some (l, ls)) => Some (Some {| e_ts := r_ts r; e_line := l; e_set := ls |})
    end
  else Some None.

(** the result of a distinct-free query: each record's contribution, in delivery order *)
Fixpoint spec_select (o : oracles) (q : equery) (recs : list record) : option (list entry) :=
  match recs with
  | [] => Some []
  | r :: t =>
    match matches o q r, spec_select o q t with
    | Some (Some e), Some es => Some (e :: es)
    | Some None, Some es => Some es
    | _, _ => None
    end
  end.

Definition is_distinct (s : estage) : bool := match s with EDistinct _ => true | _ => false end.
Definition distinct_free (q : equery) : bool := negb (existsb is_distinct (q_pipe q)).

(** stages that may replace the line *)
Definition rewrites_line (s : estage) : bool :=
  match s with ELineFormat _ | EDecolorize | EUnpack => true | _ => false end.

Definition no_caps : caps := {| c_label := fun _ => false; c_line := fun _ => false |}.
