(** Transliterations of the value parsers applied to LABEL VALUES by the label filters and the unwrap
    sampler: time.ParseDuration, humanize.ParseBytes, netip.ParseAddr (IPv4), on ASCII input. *)
From LogQLV Require Import Base.Bytes Base.FloatX Base.TimeFmt Model.Flags.

Inductive pres3 (A : Type) := VOk (a : A) | VErr | VUnmodelled.
Arguments VOk {A}. Arguments VErr {A}. Arguments VUnmodelled {A}.

(** * time.ParseDuration *)
Definition go_unit (u : bytes) : option Z :=
  if bytes_eqb u ["n"; "s"]%byte then Some 1
  else if bytes_eqb u ["u"; "s"]%byte then Some 1000
  else if bytes_eqb u [xc2; xb5; "s"]%byte then Some 1000          (* U+00B5 micro sign *)
  else if bytes_eqb u [xce; xbc; "s"]%byte then Some 1000          (* U+03BC greek mu *)
  else if bytes_eqb u ["m"; "s"]%byte then Some 1000000
  else if bytes_eqb u ["s"]%byte then Some 1000000000
  else if bytes_eqb u ["m"]%byte then Some 60000000000
  else if bytes_eqb u ["h"]%byte then Some 3600000000000
  else None.

Fixpoint span_unit (s : bytes) : bytes * bytes :=
  match s with
  | b :: t => if is_digit_b b || byte_eqb b "."%byte then ([], s) else let '(a, r) := span_unit t in (b :: a, r)
  | [] => ([], [])
  end.

(** one  <digits>[.<digits>]<unit>  group; accumulates nanoseconds; None = error *)
Fixpoint go_dur_loop (fuel : nat) (s : bytes) (acc : Z) : option Z :=
  match fuel with
  | O => None
  | S f =>
    match s with
    | [] => Some acc
    | _ =>
      let '(ip, r1) := span_digits s in
      let '(fp, r2) := match r1 with
                       | d :: r => if byte_eqb d "."%byte then span_digits r else ([], r1)
                       | [] => ([], r1)
                       end in
      let has_dot := match r1 with d :: _ => byte_eqb d "."%byte | [] => false end in
      if Nat.eqb (length ip + length fp) 0 then None else
      let '(u, r3) := span_unit r2 in
      match go_unit u with
      | None => None
      | Some unit =>
        match parse_uint_acc ip 0, parse_uint_acc fp 0 with
        | Some v, Some fr =>
          if (9223372036854775807 / unit <? v) then None else
          let base := v * unit in
          let extra := if has_dot && negb (fr =? 0)
                       then go_int64 (PrimFloat.mul (float_of_Z fr) (PrimFloat.div (float_of_Z unit) (float_of_Z (10 ^ Z.of_nat (length fp)))))
                       else 0 in
          if Nat.ltb 15 (length fp) then None (* outside fragment: treated as error; generator never emits *) else
          let tot := acc + base + extra in
          if 9223372036854775807 <? tot then None else go_dur_loop f r3 tot
        | _, _ => None
        end
      end
    end
  end.

Definition go_parse_duration (s : bytes) : option Z :=
  let '(neg, body) :=
    match s with
    | b :: t => if byte_eqb b "-"%byte then (true, t) else if byte_eqb b "+"%byte then (false, t) else (false, s)
    | [] => (false, s)
    end in
  if bytes_eqb body ["0"%byte] then Some 0 else
  match body with
  | [] => None
  | _ => match go_dur_loop (S (length body)) body 0 with
         | Some d => Some (if neg then - d else d)
         | None => None
         end
  end.

(** * humanize.ParseBytes *)
Definition size_mult (u : bytes) : option Z :=
  let tbl := [ (["b"], 1); (["k";"i";"b"], 1024); (["k";"b"], 1000); (["m";"i";"b"], 1048576); (["m";"b"], 1000000);
               (["g";"i";"b"], 1073741824); (["g";"b"], 1000000000); (["t";"i";"b"], 1099511627776); (["t";"b"], 1000000000000);
               (["p";"i";"b"], 1125899906842624); (["p";"b"], 1000000000000000); (["e";"i";"b"], 1152921504606846976); (["e";"b"], 1000000000000000000);
               ([], 1); (["k";"i"], 1024); (["k"], 1000); (["m";"i"], 1048576); (["m"], 1000000); (["g";"i"], 1073741824); (["g"], 1000000000);
               (["t";"i"], 1099511627776); (["t"], 1000000000000); (["p";"i"], 1125899906842624); (["p"], 1000000000000000);
               (["e";"i"], 1152921504606846976); (["e"], 1000000000000000000) ]%byte in
  match find (fun p => bytes_eqb (fst p) u) tbl with Some p => Some (snd p) | None => None end.

Fixpoint span_numish (s : bytes) : bytes * bytes :=
  match s with
  | b :: t => if is_digit_b b || byte_eqb b "."%byte || byte_eqb b ","%byte then let '(a, r) := span_numish t in (b :: a, r) else ([], s)
  | [] => ([], [])
  end.
Definition is_space_b (b : byte) : bool := (bz b =? 32) || ((9 <=? bz b) && (bz b <=? 13)).
Fixpoint ltrim (s : bytes) : bytes := match s with b :: t => if is_space_b b then ltrim t else s | [] => [] end.
Definition trim_space (s : bytes) : bytes := rev (ltrim (rev (ltrim s))).

Definition humanize_bytes (s : bytes) : pres3 Z :=
  if negb (forallb (fun b => bz b <? 128) s) then VUnmodelled else
  let '(num, rest) := span_numish s in
  let num' := filter (fun b => negb (byte_eqb b ","%byte)) num in
  match parse_float num' with
  | PFUnmodelled => VUnmodelled
  | PFErr => VErr
  | PF f =>
    match size_mult (map lower (trim_space rest)) with
    | None => VErr
    | Some m =>
      let v := PrimFloat.mul f (float_of_Z m) in
      match trunc_Z v with
      | Some z => if 18446744073709551615 <=? z then VErr else VOk z
      | None => VErr
      end
    end
  end.

(** * netip.ParseAddr for dotted-quad IPv4 *)
Fixpoint split_dots (s : bytes) (cur : bytes) : list bytes :=
  match s with
  | [] => [rev cur]
  | b :: t => if byte_eqb b "."%byte then rev cur :: split_dots t [] else split_dots t (b :: cur)
  end.

Definition parse_octet (f : bytes) : option Z :=
  match f with
  | [] => None
  | b :: t =>
    if negb (forallb is_digit_b f) then None
    else if Nat.ltb 3 (length f) then None
    else if byte_eqb b "0"%byte && negb (Nat.eqb (length f) 1) then None      (* no leading zeros *)
    else match parse_uint_acc f 0 with Some v => if v <=? 255 then Some v else None | None => None end
  end.

Definition parse_ipv4 (s : bytes) : option Z :=
  match map parse_octet (split_dots s []) with
  | [Some a; Some b; Some c; Some d] => Some (((a * 256 + b) * 256 + c) * 256 + d)
  | _ => None
  end.

Inductive ippat := IPEq (a : Z) | IPRange (lo hi : Z) | IPPrefix (a : Z) (bits : Z)
  | IPOut.      (* an IPv6 pattern: outside the modelled fragment (the evaluation is then judged on the observed results only) *)
Definition ip_match (p : ippat) (a : Z) : bool :=
  match p with
  | IPEq x => a =? x
  | IPRange lo hi => (lo <=? a) && (a <=? hi)
  | IPPrefix x bits => (a / 2 ^ (32 - bits)) =? (x / 2 ^ (32 - bits))
  | IPOut => false
  end.
Definition ip_out (p : ippat) : bool := match p with IPOut => true | _ => false end.
