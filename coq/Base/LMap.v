(** Label sets: finite maps bytes -> bytes as association lists kept strictly sorted by key
    (Go string order), so that extensionally equal maps are equal terms. *)
From LogQLV Require Import Base.Bytes.

Definition lmap := list (bytes * bytes).

Fixpoint lget (m : lmap) (k : bytes) : option bytes :=
  match m with
  | [] => None
  | (k', v) :: t =>
    match bytes_cmp k k' with
    | Eq => Some v
    | Lt => None
    | Gt => lget t k
    end
  end.

Fixpoint lset (m : lmap) (k v : bytes) : lmap :=
  match m with
  | [] => [(k, v)]
  | (k', v') :: t =>
    match bytes_cmp k k' with
    | Eq => (k, v) :: t
    | Lt => (k, v) :: m
    | Gt => (k', v') :: lset t k v
    end
  end.

Fixpoint ldel (m : lmap) (k : bytes) : lmap :=
  match m with
  | [] => []
  | (k', v') :: t =>
    match bytes_cmp k k' with
    | Eq => t
    | Lt => m
    | Gt => (k', v') :: ldel t k
    end
  end.

Definition lhas (m : lmap) (k : bytes) : bool := match lget m k with Some _ => true | None => false end.
Definition lget_or_empty (m : lmap) (k : bytes) : bytes := match lget m k with Some v => v | None => [] end.
Definition lfilter (f : bytes -> bytes -> bool) (m : lmap) : lmap := filter (fun p => f (fst p) (snd p)) m.
Definition lmap_of_list (l : list (bytes * bytes)) : lmap := fold_left (fun m p => lset m (fst p) (snd p)) l [].

Fixpoint lsorted (m : lmap) : bool :=
  match m with
  | (k1, _) :: ((k2, _) :: _) as t => bytes_ltb k1 k2 && lsorted t
  | _ => true
  end.

Fixpoint lmap_eqb (a b : lmap) : bool :=
  match a, b with
  | [], [] => true
  | (k1, v1) :: a', (k2, v2) :: b' => bytes_eqb k1 k2 && bytes_eqb v1 v2 && lmap_eqb a' b'
  | _, _ => false
  end.

Fixpoint lmap_cmp (a b : lmap) : comparison :=
  match a, b with
  | [], [] => Eq
  | [], _ => Lt
  | _, [] => Gt
  | (k1, v1) :: a', (k2, v2) :: b' =>
    match bytes_cmp k1 k2 with
    | Eq => match bytes_cmp v1 v2 with Eq => lmap_cmp a' b' | c => c end
    | c => c
    end
  end.
