(** A byte-level regular-expression matcher (Brzozowski derivatives) standing in for Go's regexp on the
    fragment the correspondence generator emits: literals, '.', classes, concatenation, alternation,
    * + ?, groups, an optional leading ^ and trailing $.  Subjects are ASCII (so '.' = one byte <> '\n'). *)
From LogQLV Require Import Base.Bytes.

Inductive re :=
| REmpty                       (* matches nothing *)
| REps                         (* matches the empty string *)
| RChar (b : byte)
| RAny                         (* '.' : any byte except newline *)
| RClass (neg : bool) (ranges : list (Z * Z))
| RCat (a b : re)
| RAlt (a b : re)
| RStar (a : re).

Definition rplus (a : re) : re := RCat a (RStar a).
Definition ropt (a : re) : re := RAlt a REps.

Fixpoint nullable (r : re) : bool :=
  match r with
  | REmpty => false | REps => true | RChar _ => false | RAny => false | RClass _ _ => false
  | RCat a b => nullable a && nullable b
  | RAlt a b => nullable a || nullable b
  | RStar _ => true
  end.

Definition in_ranges (z : Z) (rs : list (Z * Z)) : bool := existsb (fun p => (fst p <=? z) && (z <=? snd p)) rs.

Definition scat (a b : re) : re :=
  match a, b with
  | REmpty, _ => REmpty | _, REmpty => REmpty
  | REps, _ => b | _, REps => a
  | _, _ => RCat a b
  end.
Definition salt (a b : re) : re :=
  match a, b with
  | REmpty, _ => b | _, REmpty => a
  | _, _ => RAlt a b
  end.

Fixpoint deriv (c : byte) (r : re) : re :=
  match r with
  | REmpty => REmpty
  | REps => REmpty
  | RChar b => if byte_eqb b c then REps else REmpty
  | RAny => if bz c =? 10 then REmpty else REps
  | RClass neg rs => if xorb neg (in_ranges (bz c) rs) then REps else REmpty
  | RCat a b => if nullable a then salt (scat (deriv c a) b) (deriv c b) else scat (deriv c a) b
  | RAlt a b => salt (deriv c a) (deriv c b)
  | RStar a => scat (deriv c a) (RStar a)
  end.

(** whole-string match *)
Fixpoint matches (r : re) (s : bytes) : bool :=
  match s with
  | [] => nullable r
  | c :: t => match deriv c r with REmpty => false | r' => matches r' t end
  end.

(** does some prefix of [s] match (prefix must be all of s when [eol]) *)
Fixpoint prefix_matches (eol : bool) (r : re) (s : bytes) : bool :=
  match s with
  | [] => nullable r
  | c :: t => (negb eol && nullable r) ||
              match deriv c r with REmpty => false | r' => prefix_matches eol r' t end
  end.

Record regex := { bol : bool; body : re; eol : bool }.

(** regexp.MatchString: unanchored search *)
Fixpoint search_from (rx : regex) (s : bytes) : bool :=
  prefix_matches (eol rx) (body rx) s ||
  match s with
  | [] => false
  | _ :: t => search_from rx t
  end.
Definition re_search (rx : regex) (s : bytes) : bool :=
  if bol rx then prefix_matches (eol rx) (body rx) s else search_from rx s.

(** ^(?:re)$ as compiled by compileLabelRegex *)
Definition re_full (rx : regex) (s : bytes) : bool := matches (body rx) s.
