(** Outcomes of modelled Go functions: a value, an error return, or an explicit panic site. *)
Inductive outcome (A : Type) :=
| Ok (a : A)
| Err (c : nat)       (* error class *)
| Panic (site : nat). (* run-time panic (index out of range, nil map, ...) *)
Arguments Ok {A}. Arguments Err {A}. Arguments Panic {A}.

Definition obind {A B} (o : outcome A) (f : A -> outcome B) : outcome B :=
  match o with Ok a => f a | Err c => Err c | Panic s => Panic s end.
