(** Byte strings: Go [string] values are modelled as [list byte]. *)
From Coq Require Export List ZArith Bool Lia.
From Coq Require Export Strings.Byte.
Export ListNotations.
Open Scope Z_scope.

Definition bytes := list byte.

Definition bz (b : byte) : Z := Z.of_N (Byte.to_N b).

Lemma bz_range b : 0 <= bz b < 256.
Proof. unfold bz. pose proof (Byte.to_N_bounded b). lia. Qed.

Definition byte_eqb (a b : byte) : bool := Byte.eqb a b.

Lemma byte_eqb_eq a b : byte_eqb a b = true <-> a = b.
Proof. unfold byte_eqb. split; [apply Byte.byte_dec_bl | apply Byte.byte_dec_lb]. Qed.

Fixpoint bytes_eqb (a b : bytes) : bool :=
  match a, b with
  | [], [] => true
  | x :: a', y :: b' => byte_eqb x y && bytes_eqb a' b'
  | _, _ => false
  end.

Lemma bytes_eqb_eq a b : bytes_eqb a b = true <-> a = b.
Proof.
  revert b; induction a as [|x a IH]; intros [|y b]; cbn; split; intro H; try congruence; try discriminate.
  - apply andb_true_iff in H as [H1 H2]. apply byte_eqb_eq in H1. apply IH in H2. congruence.
  - inversion H; subst. apply andb_true_iff; split; [apply byte_eqb_eq; reflexivity | apply IH; reflexivity].
Qed.

Lemma bytes_eqb_refl a : bytes_eqb a a = true.
Proof. apply bytes_eqb_eq; reflexivity. Qed.

(** Go string comparison: bytewise lexicographic. *)
Fixpoint bytes_cmp (a b : bytes) : comparison :=
  match a, b with
  | [], [] => Eq
  | [], _ => Lt
  | _, [] => Gt
  | x :: a', y :: b' =>
      match Z.compare (bz x) (bz y) with
      | Eq => bytes_cmp a' b'
      | c => c
      end
  end.

Definition bytes_ltb (a b : bytes) : bool :=
  match bytes_cmp a b with Lt => true | _ => false end.
Definition bytes_leb (a b : bytes) : bool :=
  match bytes_cmp a b with Gt => false | _ => true end.

Lemma bz_inj a b : bz a = bz b -> a = b.
Proof.
  unfold bz; intro H. apply N2Z.inj in H.
  assert (Some a = Some b) as E.
  { rewrite <- (Byte.of_to_N a), <- (Byte.of_to_N b), H. reflexivity. }
  congruence.
Qed.

Lemma bytes_cmp_eq a b : bytes_cmp a b = Eq <-> a = b.
Proof.
  revert b; induction a as [|x a IH]; intros [|y b]; cbn; split; intro H; try congruence; try discriminate.
  - destruct (Z.compare_spec (bz x) (bz y)) as [E|E|E]; try discriminate.
    apply bz_inj in E. apply IH in H. congruence.
  - inversion H; subst. rewrite Z.compare_refl. apply IH; reflexivity.
Qed.

Lemma bytes_cmp_antisym a b : bytes_cmp b a = CompOpp (bytes_cmp a b).
Proof.
  revert b; induction a as [|x a IH]; intros [|y b]; cbn; try reflexivity.
  rewrite (Z.compare_antisym (bz x) (bz y)).
  destruct (bz x ?= bz y); cbn; auto.
Qed.

Lemma bytes_cmp_trans_lt a b c : bytes_cmp a b = Lt -> bytes_cmp b c = Lt -> bytes_cmp a c = Lt.
Proof.
  revert b c; induction a as [|x a IH]; intros [|y b] [|z c]; cbn; try congruence; try discriminate.
  destruct (Z.compare_spec (bz x) (bz y)) as [E1|E1|E1];
  destruct (Z.compare_spec (bz y) (bz z)) as [E2|E2|E2];
  destruct (Z.compare_spec (bz x) (bz z)) as [E3|E3|E3]; try lia; try congruence; try discriminate; eauto.
Qed.

(** prefix / search helpers used all over the models *)
Fixpoint is_prefix (p s : bytes) : bool :=
  match p, s with
  | [], _ => true
  | x :: p', y :: s' => byte_eqb x y && is_prefix p' s'
  | _, [] => false
  end.

Fixpoint contains (needle s : bytes) : bool :=
  is_prefix needle s ||
  match s with
  | [] => false
  | _ :: s' => contains needle s'
  end.

Lemma is_prefix_app p s : is_prefix p s = true <-> exists t, s = p ++ t.
Proof.
  revert s; induction p as [|x p IH]; intros s; cbn.
  - split; eauto.
  - destruct s as [|y s]; cbn.
    + split; [discriminate | intros [t H]; discriminate].
    + split.
      * intro H. apply andb_true_iff in H as [H1 H2]. apply byte_eqb_eq in H1. apply IH in H2 as [t ->]. subst. eauto.
      * intros [t H]. inversion H; subst. apply andb_true_iff; split; [apply byte_eqb_eq; reflexivity|]. apply IH; eauto.
Qed.

Lemma contains_spec needle s : contains needle s = true <-> exists a b, s = a ++ needle ++ b.
Proof.
  induction s as [|y s IH]; cbn.
  - rewrite orb_false_r. rewrite is_prefix_app. split.
    + intros [t H]. exists [], t. exact H.
    + intros [a [b H]]. destruct a; cbn in *.
      * eauto.
      * discriminate.
  - rewrite orb_true_iff, is_prefix_app, IH. split.
    + intros [[t H]|[a [b H]]].
      * exists [], t. exact H.
      * exists (y :: a), b. cbn. congruence.
    + intros [a [b H]]. destruct a as [|z a]; cbn in H.
      * left. eauto.
      * right. inversion H; subst. eauto.
Qed.

Lemma contains_nil s : contains [] s = true.
Proof. destruct s; reflexivity. Qed.
