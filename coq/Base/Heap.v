(** Transliteration of Go's container/heap (up, down, Push, Pop) over a slice modelled as a list,
    generic in the element type and in [less]. *)
From Coq Require Import List Arith Bool Lia.
Import ListNotations.

Section Heap.
  Variable A : Type.
  Variable less : A -> A -> bool.
  Variable d : A.

  Definition get (h : list A) (i : nat) : A := nth i h d.

  Fixpoint set_nth (h : list A) (i : nat) (x : A) : list A :=
    match h, i with
    | [], _ => []
    | _ :: t, O => x :: t
    | y :: t, S i' => y :: set_nth t i' x
    end.

  (** h[i], h[j] = h[j], h[i] *)
  Definition swap (h : list A) (i j : nat) : list A :=
    set_nth (set_nth h i (get h j)) j (get h i).

  (** func up(h, j): for { i := (j-1)/2; if i == j || !h.Less(j, i) { break }; h.Swap(i, j); j = i } *)
  Fixpoint up (fuel : nat) (h : list A) (j : nat) : list A :=
    match fuel with
    | O => h
    | S f =>
      let i := (j - 1) / 2 in
      if (i =? j) || negb (less (get h j) (get h i)) then h
      else up f (swap h i j) i
    end.

  (** func down(h, i0, n) *)
  Fixpoint down (fuel : nat) (h : list A) (i n : nat) : list A :=
    match fuel with
    | O => h
    | S f =>
      let j1 := 2 * i + 1 in
      if n <=? j1 then h else
      let j := if (j1 + 1 <? n) && less (get h (j1 + 1)) (get h j1) then j1 + 1 else j1 in
      if negb (less (get h j) (get h i)) then h
      else down f (swap h i j) j n
    end.

  (** heap.Push: append, then up(len-1) *)
  Definition heap_push (h : list A) (x : A) : list A :=
    let h' := h ++ [x] in up (length h') h' (length h' - 1).

  (** heap.Pop: n := len-1; swap(0, n); down(0, n); remove and return the last element *)
  Definition heap_pop (h : list A) : option (A * list A) :=
    match h with
    | [] => None
    | _ =>
      let n := length h - 1 in
      let h2 := down (length h) (swap h 0 n) 0 n in
      Some (get h2 n, firstn n h2)
    end.
End Heap.

Arguments get {A}. Arguments set_nth {A}. Arguments swap {A}. Arguments up {A}. Arguments down {A}.
Arguments heap_push {A}. Arguments heap_pop {A}.
