(** binary64 helpers on Coq's primitive floats: bit patterns, exact conversions to and from Z,
    Floor / Trunc / Round (math.Floor, int64(x), math.Round), decimal parsing on the exact fast path. *)
From Coq Require Export Floats.
From Coq Require Import ZArith Bool List.
From LogQLV Require Import Base.Bytes.
Open Scope Z_scope.

Definition prec := 53.
Definition emax := 1024.

(** correctly rounded (nearest-even) float of the integer [z * 2^e] *)
Definition float_of_Z2 (z e : Z) : float := SF2Prim (binary_normalize prec emax z e false).
Definition float_of_Z (z : Z) : float := float_of_Z2 z 0.

(** float from its IEEE-754 bit pattern (what math.Float64bits reports) *)
Definition fbits (b : Z) : float :=
  let sign := Z.testbit b 63 in
  let ex := (b / 4503599627370496) mod 2048 in
  let fr := b mod 4503599627370496 in
  if ex =? 2047 then (if fr =? 0 then (if sign then neg_infinity else infinity) else nan)
  else if ex =? 0 then
    (if fr =? 0 then (if sign then neg_zero else zero)
     else SF2Prim (S754_finite sign (Z.to_pos fr) (-1074)))
  else SF2Prim (S754_finite sign (Z.to_pos (fr + 4503599627370496)) (ex - 1075)).

(** bitwise identity up to NaN payload *)
Definition sf_eqb (a b : spec_float) : bool :=
  match a, b with
  | S754_zero s1, S754_zero s2 => Bool.eqb s1 s2
  | S754_infinity s1, S754_infinity s2 => Bool.eqb s1 s2
  | S754_nan, S754_nan => true
  | S754_finite s1 m1 e1, S754_finite s2 m2 e2 => Bool.eqb s1 s2 && Pos.eqb m1 m2 && (e1 =? e2)
  | _, _ => false
  end.
Definition float_same (a b : float) : bool := sf_eqb (Prim2SF a) (Prim2SF b).

(** exact integer views of a finite float: None for NaN / infinities *)
Definition trunc_Z (f : float) : option Z :=
  match Prim2SF f with
  | S754_zero _ => Some 0
  | S754_finite s m e =>
      let a := if 0 <=? e then Zpos m * 2 ^ e else Zpos m / 2 ^ (- e) in
      Some (if s then - a else a)
  | _ => None
  end.

Definition floor_Z (f : float) : option Z :=
  match Prim2SF f with
  | S754_zero _ => Some 0
  | S754_finite s m e =>
      if 0 <=? e then Some ((if s then -1 else 1) * Zpos m * 2 ^ e)
      else Some ((if s then - Zpos m else Zpos m) / 2 ^ (- e))      (* Z division floors *)
  | _ => None
  end.

(** math.Round: nearest integer, halves away from zero *)
Definition round_Z (f : float) : option Z :=
  match Prim2SF f with
  | S754_zero _ => Some 0
  | S754_finite s m e =>
      let a := if 0 <=? e then Zpos m * 2 ^ e
               else let k := 2 ^ (- e) in
                    let q := Zpos m / k in
                    if k <=? 2 * (Zpos m mod k) then q + 1 else q in
      Some (if s then - a else a)
  | _ => None
  end.

(** Go's int64(f) on amd64 (CVTTSD2SQ): truncation; NaN and out-of-range give the "integer indefinite" value *)
Definition int64_min := -9223372036854775808.
Definition go_int64 (f : float) : Z :=
  match trunc_Z f with
  | Some z => if (int64_min <=? z) && (z <=? 9223372036854775807) then z else int64_min
  | None => int64_min
  end.

(** math.Floor / math.Round as floats (exact: the result is an integer of at most 53 significant bits,
    or the argument itself when it is not finite) *)
Definition ffloor (f : float) : float := match floor_Z f with Some z => if (z =? 0) then (if PrimFloat.ltb f zero then neg_zero else f) else float_of_Z z | None => f end.
Definition fround (f : float) : float := match round_Z f with Some z => if (z =? 0) then (if get_sign f then neg_zero else zero) else float_of_Z z | None => f end.
Definition fmax (a b : float) : float :=            (* math.Max *)
  if is_nan a || is_nan b then nan
  else if is_infinity a && negb (get_sign a) then a
  else if is_infinity b && negb (get_sign b) then b
  else if is_zero a && is_zero b then (if get_sign a then b else a)
  else if PrimFloat.ltb a b then b else a.

(** decimal text on the exact ("Clinger") path: at most 15 significant digits and a scale of at most
    10^22 make both operands exact floats, so one IEEE division/multiplication is correctly rounded *)
Definition dec_to_float (neg : bool) (digits : Z) (scale10 : Z) : option float :=
  if (digits <? 1000000000000000) && (0 <=? scale10) && (scale10 <=? 22) then
    let v := PrimFloat.div (float_of_Z digits) (float_of_Z (10 ^ scale10)) in
    Some (if neg then PrimFloat.opp v else v)
  else None.
