(** Go's UTF-8 decoding as performed by [for _, r := range s] and
    [utf8.DecodeRuneInString]: returns the rune and its width; every invalid
    or truncated encoding yields RuneError (U+FFFD) with width 1. *)
From LogQLV Require Import Base.Bytes.
From Coq Require Import ZifyBool.

Definition rune_error : Z := 65533.

Definition in_range (lo hi : Z) (b : byte) : bool := (lo <=? bz b) && (bz b <=? hi).
Definition cont (b : byte) : Z := bz b - 128.

(** second-byte accept range for a leading byte (Go's acceptRanges table) *)
Definition accept2 (b0 : Z) : Z * Z :=
  if b0 =? 224 then (160, 191)        (* E0 *)
  else if b0 =? 237 then (128, 159)   (* ED *)
  else if b0 =? 240 then (144, 191)   (* F0 *)
  else if b0 =? 244 then (128, 143)   (* F4 *)
  else (128, 191).

Definition decode_rune (s : bytes) : option (Z * nat) :=
  match s with
  | [] => None
  | b0 :: r =>
    let z0 := bz b0 in
    if z0 <? 128 then Some (z0, 1%nat)
    else if (z0 <? 194) || (244 <? z0) then Some (rune_error, 1%nat)
    else
      let '(lo, hi) := accept2 z0 in
      match r with
      | [] => Some (rune_error, 1%nat)
      | b1 :: r1 =>
        if negb (in_range lo hi b1) then Some (rune_error, 1%nat)
        else if z0 <? 224 then Some ((z0 - 192) * 64 + cont b1, 2%nat)
        else match r1 with
        | [] => Some (rune_error, 1%nat)
        | b2 :: r2 =>
          if negb (in_range 128 191 b2) then Some (rune_error, 1%nat)
          else if z0 <? 240 then Some ((z0 - 224) * 4096 + cont b1 * 64 + cont b2, 3%nat)
          else match r2 with
          | [] => Some (rune_error, 1%nat)
          | b3 :: _ =>
            if negb (in_range 128 191 b3) then Some (rune_error, 1%nat)
            else Some ((z0 - 240) * 262144 + cont b1 * 4096 + cont b2 * 64 + cont b3, 4%nat)
          end
        end
      end
  end.

Lemma decode_rune_width s r w : decode_rune s = Some (r, w) -> (1 <= w <= length s)%nat.
Proof.
  unfold decode_rune. destruct s as [|b0 s]; [discriminate|].
  cbn [length].
  repeat match goal with
  | |- context [if ?c then _ else _] => destruct c
  | |- context [let '(_, _) := ?p in _] => destruct p
  | |- context [match ?l with [] => _ | _ :: _ => _ end] => destruct l; cbn [length]
  end; intro H; inversion H; subst; lia.
Qed.

Lemma decode_rune_ascii s r w : decode_rune s = Some (r, w) -> r < 128 ->
  w = 1%nat /\ exists b t, s = b :: t /\ bz b = r.
Proof.
  unfold decode_rune. destruct s as [|b0 s]; [discriminate|].
  pose proof (bz_range b0).
  destruct (bz b0 <? 128) eqn:E0.
  { intro H0; inversion H0; subst. intros _. split; eauto. }
  apply Z.ltb_ge in E0.
  unfold rune_error, in_range, cont, accept2.
  repeat match goal with
  | |- context [if ?c then _ else _] => destruct c eqn:?
  | |- context [let '(_, _) := ?p in _] => destruct p
  | |- context [match ?l with [] => _ | _ :: _ => _ end] => destruct l
  end; intro H0; inversion H0; subst; intro; try lia;
  repeat match goal with
  | b : byte |- _ => pose proof (bz_range b); revert b
  end; intros; 
  repeat match goal with
  | H : negb _ = false |- _ => apply negb_false_iff in H
  | H : (_ && _) = true |- _ => apply andb_true_iff in H as [? ?]
  | H : (_ || _) = false |- _ => apply orb_false_iff in H as [? ?]
  end; lia.
Qed.

(** all runes of a string, with the byte offset where each starts (Go's range loop) *)
Fixpoint runes_fuel (fuel : nat) (s : bytes) : list (Z * nat) :=
  match fuel with
  | O => []
  | S f =>
    match decode_rune s with
    | None => []
    | Some (r, w) => (r, w) :: runes_fuel f (skipn w s)
    end
  end.
Definition runes (s : bytes) : list (Z * nat) := runes_fuel (length s) s.
