(** Executable instance of the time.Format / time.Parse(RFC3339Nano) oracle for UTC instants.
    [fmt_ts] is what Docker writes (RFC3339Nano, UTC, trailing zeros of the fraction trimmed);
    [parse_ts] follows Go's parseRFC3339 fast path (the only path the correspondence generator
    exercises: spellings that only the lenient fallback parser accepts are outside the fragment). *)
From LogQLV Require Import Base.Bytes.

Definition days_from_civil (y m d : Z) : Z :=
  let y' := if m <=? 2 then y - 1 else y in
  let era := y' / 400 in
  let yoe := y' - era * 400 in
  let mp := (m + 9) mod 12 in
  let doy := (153 * mp + 2) / 5 + d - 1 in
  let doe := yoe * 365 + yoe / 4 - yoe / 100 + doy in
  era * 146097 + doe - 719468.

Definition civil_from_days (z0 : Z) : Z * Z * Z :=
  let z := z0 + 719468 in
  let era := z / 146097 in
  let doe := z - era * 146097 in
  let yoe := (doe - doe / 1460 + doe / 36524 - doe / 146096) / 365 in
  let y := yoe + era * 400 in
  let doy := doe - (365 * yoe + yoe / 4 - yoe / 100) in
  let mp := (5 * doy + 2) / 153 in
  let d := doy - (153 * mp + 2) / 5 + 1 in
  let m := if mp <? 10 then mp + 3 else mp - 9 in
  (if m <=? 2 then y + 1 else y, m, d).

Definition digit_byte (d : Z) : byte :=
  match Byte.of_N (Z.to_N (48 + d mod 10)) with Some b => b | None => x30 end.

(** [k] decimal digits of [n], most significant first *)
Fixpoint digits (k : nat) (n : Z) : bytes :=
  match k with
  | O => []
  | S k' => digits k' (n / 10) ++ [digit_byte n]
  end.

Fixpoint trim_zeros_rev (l : bytes) : bytes :=
  match l with
  | b :: t => if byte_eqb b "0"%byte then trim_zeros_rev t else l
  | [] => []
  end.
Definition trim_trailing_zeros (l : bytes) : bytes := rev (trim_zeros_rev (rev l)).

Definition fmt_ts (ns : Z) : bytes :=
  let secs := ns / 1000000000 in
  let frac := ns mod 1000000000 in
  let days := secs / 86400 in
  let sod := secs mod 86400 in
  let '(y, m, d) := civil_from_days days in
  digits 4 y ++ ["-"%byte] ++ digits 2 m ++ ["-"%byte] ++ digits 2 d ++ ["T"%byte] ++
  digits 2 (sod / 3600) ++ [":"%byte] ++ digits 2 ((sod / 60) mod 60) ++ [":"%byte] ++ digits 2 (sod mod 60) ++
  (if frac =? 0 then [] else "."%byte :: trim_trailing_zeros (digits 9 frac)) ++ ["Z"%byte].

Definition is_digit_b (b : byte) : bool := (48 <=? bz b) && (bz b <=? 57).

Fixpoint parse_uint_acc (s : bytes) (acc : Z) : option Z :=
  match s with
  | [] => Some acc
  | b :: t => if is_digit_b b then parse_uint_acc t (acc * 10 + (bz b - 48)) else None
  end.
Definition parse_uint (s : bytes) (lo hi : Z) : option Z :=
  match parse_uint_acc s 0 with
  | Some x => if (lo <=? x) && (x <=? hi) then Some x else None
  | None => None
  end.

Definition is_leap (y : Z) : bool := ((y mod 4 =? 0) && negb (y mod 100 =? 0)) || (y mod 400 =? 0).
Definition days_in (m y : Z) : Z :=
  if m =? 2 then (if is_leap y then 29 else 28)
  else if (m =? 4) || (m =? 6) || (m =? 9) || (m =? 11) then 30 else 31.

Fixpoint span_digits (s : bytes) : bytes * bytes :=
  match s with
  | b :: t => if is_digit_b b then let '(a, r) := span_digits t in (b :: a, r) else ([], s)
  | [] => ([], [])
  end.

(** parseNanoseconds: at most 9 digits are significant, right-padded with zeros *)
Definition frac_ns (ds : bytes) : Z :=
  let ds9 := firstn 9 ds in
  match parse_uint_acc ds9 0 with
  | Some x => x * 10 ^ (9 - Z.of_nat (length ds9))
  | None => 0
  end.

Definition parse_ts (s : bytes) : option Z :=
  match s with
  | y1 :: y2 :: y3 :: y4 :: d1 :: m1 :: m2 :: d2 :: a1 :: a2 :: tT :: h1 :: h2 :: c1 :: n1 :: n2 :: c2 :: s1 :: s2 :: rest =>
    match parse_uint [y1; y2; y3; y4] 0 9999 with None => None | Some year =>
    match parse_uint [m1; m2] 1 12 with None => None | Some month =>
    match parse_uint [a1; a2] 1 (days_in month year) with None => None | Some day =>
    match parse_uint [h1; h2] 0 23 with None => None | Some hour =>
    match parse_uint [n1; n2] 0 59 with None => None | Some mi =>
    match parse_uint [s1; s2] 0 59 with None => None | Some sec =>
    if negb (byte_eqb d1 "-"%byte && byte_eqb d2 "-"%byte && byte_eqb tT "T"%byte &&
             byte_eqb c1 ":"%byte && byte_eqb c2 ":"%byte) then None else
    let '(nsec, rest1) :=
      match rest with
      | dot :: r1 =>
          if byte_eqb dot "."%byte then
            let '(ds, r2) := span_digits r1 in
            match ds with [] => (0, rest) | _ => (frac_ns ds, r2) end
          else (0, rest)
      | [] => (0, rest)
      end in
    let base := ((days_from_civil year month day * 86400 + hour * 3600 + mi * 60 + sec) * 1000000000) + nsec in
    match rest1 with
    | [z] => if byte_eqb z "Z"%byte then Some base else None
    | [sg; o1; o2; oc; o3; o4] =>
        match parse_uint [o1; o2] 0 23, parse_uint [o3; o4] 0 59 with
        | Some hr, Some mm =>
            if byte_eqb oc ":"%byte then
              if byte_eqb sg "+"%byte then Some (base - (hr * 60 + mm) * 60 * 1000000000)
              else if byte_eqb sg "-"%byte then Some (base + (hr * 60 + mm) * 60 * 1000000000)
              else None
            else None
        | _, _ => None
        end
    | _ => None
    end
    end end end end end end
  | _ => None
  end.
