(** Correspondence + property judge for C05 / C13 (parser). *)
From LogQLV Require Export Base.Bytes Base.FloatX Model.Tables Model.Syntax Model.Parser.

Record case := mk {
  toks : list token;              (* Go's own token list, with the library results attached *)
  lex_ok : bool;                  (* lexer.Tokenize succeeded *)
  obs : option bytes;             (* canonical dump of the tree logql.Parse returned, None = rejected *)
  obs_np : option bytes;          (* the same tree dumped without its parenthesis nodes *)
  expect : option (option bytes); (* generator's expectation: None = none, Some None = must be rejected, Some (Some d) = must parse to d *)
}.

Definition model (c : case) : option bytes :=
  if negb (lex_ok c) then None else
  match parse_tokens (toks c) with
  | Parsed e => Some (dexpr e)
  | _ => None
  end.

Definition opt_bytes_eqb (a b : option bytes) : bool :=
  match a, b with
  | None, None => true
  | Some x, Some y => bytes_eqb x y
  | _, _ => false
  end.

Definition out_of_fuel (c : case) : bool :=
  match parse_tokens (toks c) with OutOfFuel => true | _ => false end.

Definition judge (c : case) : bool * bool * Z :=
  (opt_bytes_eqb (model c) (obs c) && negb (out_of_fuel c),
   match expect c with
   | None => true
   | Some e => opt_bytes_eqb e (obs_np c)
   end, 0).

(** token constructor with most fields defaulted (keeps generated case files small) *)
Definition tk (t : ttype) (s : bytes) : token :=
  {| ty := t; text := s; v_float := None; v_int := None; v_dur := None; v_bytes := None; v_re := None; v_re_anch := false |}.
Definition tnum (s : bytes) (f : option Z) (i : option Z) : token :=
  {| ty := TNumber; text := s; v_float := option_map fbits f; v_int := i; v_dur := None; v_bytes := None; v_re := None; v_re_anch := false |}.
Definition tdur (s : bytes) (d : option Z) : token :=
  {| ty := TDuration; text := s; v_float := None; v_int := None; v_dur := d; v_bytes := None; v_re := None; v_re_anch := false |}.
Definition tbytes (s : bytes) (d : option Z) : token :=
  {| ty := TBytes; text := s; v_float := None; v_int := None; v_dur := None; v_bytes := d; v_re := None; v_re_anch := false |}.
Definition tstr (s : bytes) (re : option (list bytes)) (anch : bool) : token :=
  {| ty := TString; text := s; v_float := None; v_int := None; v_dur := None; v_bytes := None; v_re := re; v_re_anch := anch |}.
