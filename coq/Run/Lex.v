(** Correspondence judge for the lexer model (C05, part lexer): text in, token types and texts out. *)
From LogQLV Require Export Base.Bytes Model.Tables Model.Lexer.
From LogQLV Require Import Run.C20.

Inductive lobs := LObsOk (ts : list (ttype * bytes)) | LObsErr.
Record lcase := mkl { l_in : bytes; l_obs : lobs }.
Record case := mk { items : list lcase }.

Definition tok_eqb (a b : ttype * bytes) : bool := ttype_eqb (fst a) (fst b) && bytes_eqb (snd a) (snd b).

Definition judge1 (c : lcase) : Z :=
  match lex (l_in c), l_obs c with
  | LexOk m, LObsOk o => if list_eqb tok_eqb m o then 0 else 1
  | LexErr, LObsErr => 0
  | LexUnmodelled, _ => 2
  | _, _ => 1
  end.

Definition judge (c : case) : bool * bool * Z :=
  let rs := map judge1 (items c) in
  (forallb (fun r => negb (r =? 1)) rs, true, if forallb (fun r => r =? 2) rs then 1000 else 0).
