(** Correspondence + property judges for queries over the Docker storage (C02, C14, C18). *)
From LogQLV Require Export Base.Bytes Base.FloatX Base.LMap Base.Regex Base.Units Base.TimeFmt Model.Tables Model.KeyToLabel Model.Frames Model.Stages Model.Engine
                           Model.Metric Model.Docker Spec.LogSpec Spec.MetricSpec.
From LogQLV Require Export Run.Met.
From LogQLV Require Import Run.C20.

Inductive dquery := DQLog (q : equery) (limit : Z) | DQMetric (e : mexpr).
Inductive doutcome := OStreams (ss : list stream) | OSeries (ss : list series) | OError.

Record dobs := mkdobs {
  ob_out : doutcome;
  ob_opts : list (bytes * (bytes * bytes));      (* container id -> (since, until) it was asked for *)
  ob_counts : list (bytes * (Z * Z));            (* container id -> (readers opened, readers closed) *)
}.

Record deval := mkdev {
  de_q : dquery;
  de_start : Z; de_end : Z; de_step : Z;
  (* expectations computed by the generator, independently of model and implementation *)
  de_exp_selected : list bytes;                  (* ids of the containers the selector(s) match; opened unless something fails earlier *)
  de_exp_opts : list (bytes * (bytes * bytes));  (* expected (since, until) per selected container *)
  de_must_err : bool;                            (* a fault that every evaluation order must meet *)
  de_must_ok : bool;                             (* nothing can fail *)
  de_obs : dobs;
}.

Record dcase := mkd {
  d_orc : oracles;
  d_inv : list container;                        (* what the daemon serves (faults included) *)
  d_inv_intended : list container;               (* the same inventory without stream / open faults *)
  d_list_fail : bool;
  d_evals : list deval;
  d_same : list (nat * nat);                     (* pairs of evaluations that differ only in the completion order of the opens *)
}.

Definition stream_sorted_labels (ss : list stream) : bool := forallb (fun s => lsorted (fst s)) ss.

Definition dparams (e : deval) : mparams := {| p_start := de_start e; p_end := de_end e; p_step := de_step e |}.

(** a stage the parser accepts and pipeline construction (BuildPipeline) rejects -- a template that does not compile, a pattern with
    adjacent captures, ip("not-an-ip"), a malformed path -- is written [EInvalid] by the generator (a label_format with an empty
    target, which no query text yields): whatever else the query holds, its evaluation is an error *)
Definition EInvalid : estage := ELabelFormat [] [([], [TFail])].
Definition is_invalid (s : estage) : bool :=
  match s with ELabelFormat [] [(l, _)] => match l with [] => true | _ => false end | _ => false end.
Fixpoint mexpr_invalid (e : mexpr) : bool :=
  match e with
  | MRange _ q _ _ _ _ _ => existsb is_invalid (q_pipe q)
  | MVecAgg _ e' _ _ => mexpr_invalid e'
  | MBin op _ l r =>
      (* a set operation with a scalar operand passes the parser when the scalar is parenthesised; building it fails (D38) *)
      (is_logic_op op && (match l with MLit _ => true | _ => false end || match r with MLit _ => true | _ => false end)) ||
      mexpr_invalid l || mexpr_invalid r
  | _ => false
  end.

(** model outcome on an inventory: Some true-ish structure; None = outside fragment *)
Definition model_out (c : dcase) (inv : list container) (lf : bool) (e : deval) : option doutcome :=
  match de_q e with
  | DQLog q lim =>
      if existsb is_invalid (q_pipe q) then Some OError else
      match docker_log (d_orc c) lf inv q lim with
      | DOk es => Some (OStreams (group_entries es))
      | DErr => Some OError
      | DOut => None
      end
  | DQMetric me =>
      if lf || mexpr_invalid me then Some OError else
      match docker_metric (d_orc c) inv (dparams e) me with
      | Some ss => Some (OSeries ss)
      | None => None
      end
  end.

Definition out_eqb (a b : doutcome) : bool :=
  match a, b with
  | OStreams x, OStreams y => list_eqb entry_eqb (canon_obs x) (canon_obs y)
  | OSeries x, OSeries y => list_eqb series_eqb (canon_series x) (canon_series y)
  | OError, OError => true
  | _, _ => false
  end.

(** order-sensitive equality: same streams / series in the same order with the same points in the same order *)
Definition stream_eqb_raw (a b : stream) : bool :=
  lmap_eqb (fst a) (fst b) && list_eqb (fun x y : Z * bytes => (fst x =? fst y) && bytes_eqb (snd x) (snd y)) (snd a) (snd b).
Definition out_eqb_raw (a b : doutcome) : bool :=
  match a, b with
  | OStreams x, OStreams y => list_eqb stream_eqb_raw x y
  | OSeries x, OSeries y => list_eqb series_eqb x y
  | OError, OError => true
  | _, _ => false
  end.

Definition is_err (o : doutcome) : bool := match o with OError => true | _ => false end.

Definition has_fault (inv : list container) : bool :=
  existsb (fun c => c_open_fail c || snd (decode_ctr c)) inv.

(** correspondence: exact for log queries (the model follows every read); for metric queries exact when no stream of
    the inventory is faulty, otherwise only the outcome class demanded by the generator is compared (see judge) *)
Definition dcorr (c : dcase) (e : deval) : Z :=
  match de_q e with
  | DQLog _ _ =>
      match model_out c (d_inv c) (d_list_fail c) e with
      | None => 2
      | Some m => if out_eqb m (ob_out (de_obs e)) then 0 else 1
      end
  | DQMetric _ =>
      if has_fault (d_inv c) || d_list_fail c then 0 else
      match model_out c (d_inv c) false e with
      | None => 2
      | Some m => if out_eqb m (ob_out (de_obs e)) then 0 else 1
      end
  end.

Fixpoint assocb {A} (l : list (bytes * A)) (k : bytes) : option A :=
  match l with [] => None | (k', v) :: t => if bytes_eqb k k' then Some v else assocb t k end.

Definition same_ids (a b : list bytes) : bool :=
  forallb (fun x => existsb (bytes_eqb x) b) a && forallb (fun x => existsb (bytes_eqb x) a) b.

Definition container_id_label : bytes := ["c";"o";"n";"t";"a";"i";"n";"e";"r";"_";"i";"d"]%byte.

(** every returned line carries the labels of the container that produced it: generated lines start with "<container id>:" *)
Definition origin_ok (c : dcase) (ss : list stream) : bool :=
  forallb (fun s =>
    match lget (fst s) container_id_label with
    | None => Nat.eqb (length (snd s)) 0
    | Some cid =>
        forallb (fun v => is_prefix (cid ++ [":"%byte]) (snd v)) (snd s) &&
        (* ... and exactly the labels of that container (plus what the pipeline adds is excluded: origin cases use no label-changing stage) *)
        match find (fun k => bytes_eqb (c_id k) cid) (d_inv c) with
        | Some k => forallb (fun kv => match lget (fst s) (fst kv) with Some v => bytes_eqb v (snd kv) | None => false end) (get_labels k)
        | None => false
        end
    end) ss.

Definition deval_ok (c : dcase) (e : deval) : bool :=
  let o := de_obs e in
  (* C14: every reader that was opened has been closed, exactly once *)
  forallb (fun kc => fst (snd kc) =? snd (snd kc)) (ob_counts o) &&
  (* C02: exactly the selected containers were asked for their logs (unless listing failed), each for the truncated window *)
  (if d_list_fail c then Nat.eqb (length (ob_opts o)) 0
   else (if is_err (ob_out o)
         then forallb (fun x => existsb (bytes_eqb x) (de_exp_selected e)) (map fst (ob_opts o))     (* a failure may stop the opening early *)
         else same_ids (map fst (ob_opts o)) (de_exp_selected e)) &&
        match de_exp_opts e with
        | [] => true                                             (* window expectations are C02's business *)
        | _ => forallb (fun kv => match assocb (de_exp_opts e) (fst kv) with
                                  | Some (s, u) => bytes_eqb s (fst (snd kv)) && bytes_eqb u (snd (snd kv))
                                  | None => false
                                  end) (ob_opts o)
        end) &&
  (* C14: failures surface *)
  (if de_must_err e then is_err (ob_out o) else true) &&
  (if de_must_ok e then negb (is_err (ob_out o)) else true) &&
  (* C14: an answer that is not an error is the fault-free answer *)
  (if is_err (ob_out o) then true else
   match model_out c (d_inv_intended c) false e with
   | Some m => out_eqb m (ob_out o)
   | None => true
   end) &&
  (* C02: origin *)
  match ob_out o with OStreams ss => origin_ok c ss | _ => true end.

Definition djudge (c : dcase) : bool * bool * Z :=
  let cs := map (dcorr c) (d_evals c) in
  (forallb (fun z => negb (z =? 1)) cs,
   forallb (deval_ok c) (d_evals c) &&
   (* C18: the completion order of the concurrent opens does not show *)
   forallb (fun ij => match nth_error (d_evals c) (fst ij), nth_error (d_evals c) (snd ij) with
                      | Some a, Some b => out_eqb_raw (ob_out (de_obs a)) (ob_out (de_obs b))
                      | _, _ => false
                      end) (d_same c),
   if existsb (Z.eqb 2) cs then 1000 else 0).

Definition case := dcase.
Definition judge := djudge.

(** helpers for generated terms *)
Definition ctr (id : bytes) (names : list bytes) (image image_id command : bytes) (created : Z) (state status : bytes)
               (labels : list (bytes * bytes)) (rd : reader) (open_fail : bool) : container :=
  mkctr id names image image_id command created state status labels rd open_fail.
