(** Correspondence + property judges for the log-query engine (C01, C06, C07, C08, C19). *)
From LogQLV Require Export Base.Bytes Base.FloatX Base.LMap Base.Regex Base.Units Model.Tables Model.KeyToLabel Model.Stages Model.Engine.
From LogQLV Require Import Run.C20.
From LogQLV Require Export Model.JsonPath Model.PatternParse.
From LogQLV Require Export Spec.LogSpec.

(** one evaluation of the case: a query under a capability set and a limit, with what the implementation returned *)
Record evaluation := mkev {
  ev_query : equery;
  ev_label_caps : list Z;            (* binop codes the storage evaluates for selector matchers *)
  ev_line_caps : list Z;             (* ... and for line filters *)
  ev_limit : Z;
  ev_obs : option (list stream);     (* observed streams in the order returned; None = error *)
}.

(** relations that the property demands between the OBSERVED results of the evaluations (by index) *)
Inductive relation :=
| RelEqual (i j : nat)               (* same multiset of (ts, line, labels) *)
| RelSub (i j : nat)                 (* i is a sub-multiset of j *)
| RelPartition (i j k : nat)         (* i and j are disjoint and together are k  (on (ts, line)) *)
| RelInter (i j k : nat)             (* k = i intersect j  (on (ts, line)) *)
| RelUnion (i j k : nat)             (* k = i union j as sets of (ts, line) with multiplicity max *)
| RelCount (i : nat) (n : Z)         (* exactly n entries *)
| RelLinesKept (i : nat)             (* every input record appears exactly once with its original line and timestamp *)
| RelPrefixOf (i j : nat) (n : Z)    (* i = the first min(n, |j|) entries of j in time order (unique timestamps) *)
| RelHasLabel (i : nat) (ts : Z) (k v : bytes)      (* the entry with timestamp ts carries label k = v *)
| RelNoLabel (i : nat) (ts : Z) (k : bytes)         (* the entry with timestamp ts has no label k *)
| RelLine (i : nat) (ts : Z) (l : bytes)            (* the entry with timestamp ts has line l *)
| RelSpec (i : nat)                                 (* the result is exactly what Spec.LogSpec.spec_select says (distinct-free, no limit) *)
| RelLabels (i : nat) (ts : Z) (ls : list (bytes * bytes))   (* the entry with timestamp ts carries exactly these labels (details masked) *)
| RelError (i : nat)                                (* the evaluation is rejected with an error *)
| RelTimestamps (i : nat) (tss : list Z).            (* exactly the entries with these timestamps (sorted, with multiplicity) are returned *)

Record case := mk {
  orc : oracles;
  recs : list record;
  evals : list evaluation;
  rels : list relation;
}.

Definition caps_of (l : list Z) : binop -> bool := fun o => existsb (Z.eqb (binop_code o)) l.

Definition mask_details (m : lmap) : lmap :=
  map (fun kv => if bytes_eqb (fst kv) error_details_label then (fst kv, details_placeholder) else kv) m.

(** canonical order on entries *)
Definition entry_cmp (a b : entry) : comparison :=
  match Z.compare (e_ts a) (e_ts b) with
  | Eq => match bytes_cmp (e_line a) (e_line b) with
          | Eq => lmap_cmp (e_set a) (e_set b)
          | c => c
          end
  | c => c
  end.
Fixpoint insert_entry (e : entry) (l : list entry) : list entry :=
  match l with
  | [] => [e]
  | x :: t => match entry_cmp e x with Gt => x :: insert_entry e t | _ => e :: l end
  end.
Definition sort_entries (l : list entry) : list entry := fold_right insert_entry [] l.
Definition entry_eqb (a b : entry) : bool := match entry_cmp a b with Eq => true | _ => false end.

Definition flatten_streams (ss : list stream) : list entry :=
  flat_map (fun s => map (fun v => {| e_ts := fst v; e_line := snd v; e_set := mask_details (fst s) |}) (snd s)) ss.

Definition canon_obs (ss : list stream) : list entry := sort_entries (flatten_streams ss).
Definition canon_model (es : list entry) : list entry :=
  sort_entries (map (fun e => {| e_ts := e_ts e; e_line := e_line e; e_set := mask_details (e_set e) |}) es).

Definition model_eval (c : case) (e : evaluation) : option (list entry) :=
  eval_log (orc c) {| c_label := caps_of (ev_label_caps e); c_line := caps_of (ev_line_caps e) |} (ev_query e) (ev_limit e) (recs c).

(** 0 = agrees, 1 = disagrees, 2 = outside the model fragment *)
Definition corr_eval (c : case) (e : evaluation) : Z :=
  match model_eval c e with
  | None => 2
  | Some es =>
    match ev_obs e with
    | None => 1
    | Some ss => if list_eqb entry_eqb (canon_model es) (canon_obs ss) then 0 else 1
    end
  end.

(** * Properties of a single observed result (C08 shape) *)
Fixpoint sorted_vals (l : list (Z * bytes)) : bool :=
  match l with
  | a :: (b :: _) as t => (fst a <=? fst b) && sorted_vals t
  | _ => true
  end.
Fixpoint nodup_sets (l : list lmap) : bool :=
  match l with
  | [] => true
  | x :: t => negb (existsb (lmap_eqb x) t) && nodup_sets t
  end.
Definition shape_ok (ss : list stream) : bool :=
  nodup_sets (map fst ss) && forallb (fun s => sorted_vals (snd s) && negb (Nat.eqb (length (snd s)) 0) && lsorted (fst s)) ss.

(** * Relations *)
Definition tl_pair := (Z * bytes)%type.
Definition tl_of (ss : list stream) : list tl_pair := map (fun e => (e_ts e, e_line e)) (canon_obs ss).
Definition tl_eqb (a b : tl_pair) : bool := (fst a =? fst b) && bytes_eqb (snd a) (snd b).
Fixpoint remove_one {A} (eqb : A -> A -> bool) (x : A) (l : list A) : option (list A) :=
  match l with
  | [] => None
  | y :: t => if eqb x y then Some t else match remove_one eqb x t with Some t' => Some (y :: t') | None => None end
  end.
(** multiset difference b - a when a is a sub-multiset of b *)
Fixpoint msub {A} (eqb : A -> A -> bool) (a b : list A) : option (list A) :=
  match a with
  | [] => Some b
  | x :: t => match remove_one eqb x b with Some b' => msub eqb t b' | None => None end
  end.
Definition meq {A} (eqb : A -> A -> bool) (a b : list A) : bool :=
  match msub eqb a b with Some [] => true | _ => false end.
Definition count_of {A} (eqb : A -> A -> bool) (x : A) (l : list A) : nat := length (filter (eqb x) l).

Definition obs_at (c : case) (i : nat) : option (list stream) :=
  match nth_error (evals c) i with Some e => ev_obs e | None => None end.

Definition find_ts (ss : list stream) (ts : Z) : list entry := filter (fun e => e_ts e =? ts) (flatten_streams ss).

Definition rel_ok (c : case) (r : relation) : bool :=
  match r with
  | RelEqual i j =>
      match obs_at c i, obs_at c j with
      | Some a, Some b => list_eqb entry_eqb (canon_obs a) (canon_obs b)
      | None, None => true
      | _, _ => false
      end
  | RelSub i j =>
      match obs_at c i, obs_at c j with
      | Some a, Some b => match msub tl_eqb (tl_of a) (tl_of b) with Some _ => true | None => false end
      | _, _ => false
      end
  | RelPartition i j k =>
      match obs_at c i, obs_at c j, obs_at c k with
      | Some a, Some b, Some w => meq tl_eqb (tl_of a ++ tl_of b) (tl_of w)
      | _, _, _ => false
      end
  | RelInter i j k =>
      match obs_at c i, obs_at c j, obs_at c k with
      | Some a, Some b, Some w =>
          let ta := tl_of a in let tb := tl_of b in let tw := tl_of w in
          forallb (fun x => Nat.eqb (count_of tl_eqb x tw) (Nat.min (count_of tl_eqb x ta) (count_of tl_eqb x tb))) (ta ++ tb ++ tw)
      | _, _, _ => false
      end
  | RelUnion i j k =>
      match obs_at c i, obs_at c j, obs_at c k with
      | Some a, Some b, Some w =>
          let ta := tl_of a in let tb := tl_of b in let tw := tl_of w in
          forallb (fun x => Nat.eqb (count_of tl_eqb x tw) (Nat.max (count_of tl_eqb x ta) (count_of tl_eqb x tb))) (ta ++ tb ++ tw)
      | _, _, _ => false
      end
  | RelCount i n => match obs_at c i with Some a => Z.of_nat (length (flatten_streams a)) =? n | None => false end
  | RelLinesKept i =>
      match obs_at c i with
      | Some a => meq tl_eqb (tl_of a) (map (fun r => (r_ts r, r_line r)) (recs c))
      | None => false
      end
  | RelPrefixOf i j n =>
      match obs_at c i, obs_at c j with
      | Some a, Some b =>
          let tb := tl_of b in
          list_eqb tl_eqb (tl_of a) (if 0 <? n then firstn (Z.to_nat n) tb else tb)
      | _, _ => false
      end
  | RelHasLabel i ts k v =>
      match obs_at c i with
      | Some a => match find_ts a ts with
                  | [e] => match lget (e_set e) k with Some v' => bytes_eqb v v' | None => false end
                  | _ => false
                  end
      | None => false
      end
  | RelNoLabel i ts k =>
      match obs_at c i with
      | Some a => match find_ts a ts with [e] => negb (lhas (e_set e) k) | _ => false end
      | None => false
      end
  | RelLine i ts l =>
      match obs_at c i with
      | Some a => match find_ts a ts with [e] => bytes_eqb (e_line e) l | _ => false end
      | None => false
      end
  | RelSpec i =>
      match nth_error (evals c) i with
      | Some e =>
          if distinct_free (ev_query e) && (ev_limit e <=? 0) then
            match spec_select (orc c) (ev_query e) (recs c), ev_obs e with
            | Some es, Some ss => list_eqb entry_eqb (canon_model es) (canon_obs ss)
            | Some _, None => false
            | None, _ => true
            end
          else true
      | None => false
      end
  | RelLabels i ts ls =>
      match obs_at c i with
      | Some a => match find_ts a ts with [e] => lmap_eqb (e_set e) (mask_details (lmap_of_list ls)) | _ => false end
      | None => false
      end
  | RelError i => match nth_error (evals c) i with Some e => match ev_obs e with None => true | Some _ => false end | None => false end
  | RelTimestamps i tss =>
      match obs_at c i with
      | Some a => list_eqb Z.eqb (map (fun e => e_ts e) (canon_obs a)) tss
      | None => false
      end
  end.

Definition judge (c : case) : bool * bool * Z :=
  let cs := map (corr_eval c) (evals c) in
  (forallb (fun z => negb (z =? 1)) cs,
   forallb (fun e => match ev_obs e with Some ss => shape_ok ss | None => true end) (evals c) && forallb (rel_ok c) (rels c),
   if existsb (Z.eqb 2) cs then 1000 else 0).

(** helpers for generated terms *)
(** a path expression / a pattern is given to the model AS TEXT and goes through the model of its parser (jsonexpr.Parse,
    logqlpattern.Parse) before the model of the stage uses it: parsing and evaluation are tied in one run *)
Definition jp (text : bytes) : list jsel := match parse_path text with PathOk p => p | _ => [] end.
Definition pat (text : bytes) : list ppart := match parse_pattern text with Some ps => ps | None => [] end.
Definition rx (b : bool) (r : re) (e : bool) : regex := {| bol := b; body := r; eol := e |}.
Definition no_rx : regex := rx false REmpty false.
Definition sm (o : binop) (v : bytes) (r : regex) : strm := {| sm_op := o; sm_value := v; sm_re := r |}.
Definition em (l : bytes) (m : strm) : ematcher := {| em_label := l; em_m := m |}.
Definition rcd (ts : Z) (line : bytes) (a r : list (bytes * bytes)) : record := {| r_ts := ts; r_line := line; r_attrs := a; r_res := r |}.
Definition lit (s : bytes) : re := fold_right (fun b r => scat (RChar b) r) REps s.
