(** Correspondence + property judge for C16 (time-range and step flags). *)
From LogQLV Require Export Base.Bytes Base.Outcome Base.FloatX Base.TimeFmt Model.Flags.

(** expectation computed by the generator from the property text:
    ENone = nothing demanded (correspondence only), EReject = must be an error, EVal = must be exactly this *)
Inductive expect (A : Type) := ENone | EReject | EVal (a : A).
Arguments ENone {A}. Arguments EReject {A}. Arguments EVal {A}.

Inductive case :=
| CRange (now : Z) (startp endp sincep : option bytes) (obs : option (Z * Z)) (ex : expect (Z * Z))
| CStep (param : option bytes) (start end_ : Z) (obs : option Z) (ex : expect Z)
(** the `query` command run with these flags against a daemon with one container: the wall clock before / after the run, and
    the (since, until) seconds the daemon was asked for (None: the command failed) *)
| CCmd (now_lo now_hi : Z) (startp endp sincep stepp : option bytes) (obs : option (Z * Z)) (ex : expect (Z * Z)).

Definition pair_eqb (a b : Z * Z) := (fst a =? fst b) && (snd a =? snd b).

Definition judge (c : case) : bool * bool * Z :=
  match c with
  | CRange now sp ep sn obs ex =>
      (match parse_time_range TimeFmt.parse_ts now sp ep sn, obs with
       | ROk' s e, Some o => pair_eqb (s, e) o
       | RErr, None => true
       | RUnmodelled, _ => true
       | _, _ => false
       end,
       match ex, obs with
       | ENone, _ => true
       | EReject, None => true
       | EVal v, Some o => pair_eqb v o
       | _, _ => false
       end, match parse_time_range TimeFmt.parse_ts now sp ep sn with RUnmodelled => 1000 | _ => 0 end)
  | CStep p s e obs ex =>
      (match parse_step p s e, obs with
       | DOk d, Some o => d =? o
       | DErr, None => true
       | DUnmodelled, _ => true
       | _, _ => false
       end,
       match ex, obs with
       | ENone, Some o => 0 <? o          (* whatever is accepted is strictly positive *)
       | ENone, None => true
       | EReject, None => true
       | EVal v, Some o => v =? o
       | _, _ => false
       end, match parse_step p s e with DUnmodelled => 1000 | _ => 0 end)
  | CCmd lo hi sp ep sn stp obs ex =>
      (* the resolved range is handed to the engine unchanged; a log query asks each container for the range in whole
         seconds (start rounded down, end rounded up: D35).  The clock is read somewhere between lo and hi, and the resolved bounds are monotone in it. *)
      let r1 := parse_time_range TimeFmt.parse_ts lo sp ep sn in
      let r2 := parse_time_range TimeFmt.parse_ts hi sp ep sn in
      (match r1, r2 with
       | ROk' s1 e1, ROk' s2 e2 =>
           match parse_step stp s1 e1, parse_step stp s2 e2 with
           | DOk _, DOk _ =>
               match obs with
               | Some (a, b) => (s1 / 1000000000 <=? a) && (a <=? s2 / 1000000000) && ((e1 + 999999999) / 1000000000 <=? b) && (b <=? (e2 + 999999999) / 1000000000)
               | None => false
               end
           | DErr, DErr => match obs with None => true | Some _ => false end
           | _, _ => true
           end
       | RErr, RErr => match obs with None => true | Some _ => false end
       | _, _ => true
       end,
       match ex, obs with
       | ENone, _ => true
       | EReject, None => true
       | EVal v, Some o => pair_eqb v o
       | _, _ => false
       end,
       match r1, r2 with
       | ROk' s1 e1, ROk' s2 e2 => match parse_step stp s1 e1, parse_step stp s2 e2 with DOk _, DOk _ | DErr, DErr => 0 | _, _ => 1000 end
       | RErr, RErr => 0
       | _, _ => 1000
       end)
  end.

Definition unmodelled (c : case) : bool :=
  match c with
  | CRange now sp ep sn _ _ => match parse_time_range TimeFmt.parse_ts now sp ep sn with RUnmodelled => true | _ => false end
  | CStep p s e _ _ => match parse_step p s e with DUnmodelled => true | _ => false end
  | CCmd lo hi sp ep sn stp _ _ =>
      match parse_time_range TimeFmt.parse_ts lo sp ep sn with
      | ROk' s e => match parse_step stp s e with DUnmodelled => true | _ => false end
      | RUnmodelled => true
      | RErr => false
      end
  end.
