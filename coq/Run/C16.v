(** Correspondence + property judge for C16 (time-range and step flags). *)
From LogQLV Require Export Base.Bytes Base.Outcome Base.FloatX Base.TimeFmt Model.Flags.

(** expectation computed by the generator from the property text:
    ENone = nothing demanded (correspondence only), EReject = must be an error, EVal = must be exactly this *)
Inductive expect (A : Type) := ENone | EReject | EVal (a : A).
Arguments ENone {A}. Arguments EReject {A}. Arguments EVal {A}.

Inductive case :=
| CRange (now : Z) (startp endp sincep : option bytes) (obs : option (Z * Z)) (ex : expect (Z * Z))
| CStep (param : option bytes) (start end_ : Z) (obs : option Z) (ex : expect Z).

Definition pair_eqb (a b : Z * Z) := (fst a =? fst b) && (snd a =? snd b).

Definition judge (c : case) : bool * bool * Z :=
  match c with
  | CRange now sp ep sn obs ex =>
      (match parse_time_range TimeFmt.parse_ts now sp ep sn, obs with
       | ROk' s e, Some o => pair_eqb (s, e) o
       | RErr, None => true
       | RUnmodelled, _ => true
       | _, _ => false
       end,
       match ex, obs with
       | ENone, _ => true
       | EReject, None => true
       | EVal v, Some o => pair_eqb v o
       | _, _ => false
       end, match parse_time_range TimeFmt.parse_ts now sp ep sn with RUnmodelled => 1000 | _ => 0 end)
  | CStep p s e obs ex =>
      (match parse_step p s e, obs with
       | DOk d, Some o => d =? o
       | DErr, None => true
       | DUnmodelled, _ => true
       | _, _ => false
       end,
       match ex, obs with
       | ENone, Some o => 0 <? o          (* whatever is accepted is strictly positive *)
       | ENone, None => true
       | EReject, None => true
       | EVal v, Some o => v =? o
       | _, _ => false
       end, match parse_step p s e with DUnmodelled => 1000 | _ => 0 end)
  end.

Definition unmodelled (c : case) : bool :=
  match c with
  | CRange now sp ep sn _ _ => match parse_time_range TimeFmt.parse_ts now sp ep sn with RUnmodelled => true | _ => false end
  | CStep p s e _ _ => match parse_step p s e with DUnmodelled => true | _ => false end
  end.
