(** Correspondence + property judges for metric queries (C09, C10, C11, C12; reused by C14/C17/C18). *)
From LogQLV Require Export Base.Bytes Base.FloatX Base.LMap Base.Regex Base.Units Model.Tables Model.KeyToLabel Model.Stages Model.Engine Model.Metric Spec.LogSpec Spec.MetricSpec.
From LogQLV Require Export Run.Eng.
From LogQLV Require Import Run.C20.

Record mevaluation := mkmev {
  me_expr : mexpr;
  me_start : Z; me_end : Z; me_step : Z;
  me_label_caps : list Z; me_line_caps : list Z;
  me_obs : option (list series);          (* observed series: labels, points (ms, value) in the order returned; None = error *)
}.

Inductive mrel :=
| MRelRangeSpec (i : nat)                                   (* C09: every grid point of a range aggregation is what range_spec_at says *)
| MRelSameAt (i j : nat) (Tms : Z)                          (* C09: the vectors at T coincide (grid independence, instant = range) *)
| MRelCountConserved (i : nat)                              (* C10: per step, the counts add up to the number of samples in the window *)
| MRelVagg (i j : nat) (k : aggkind) (g : grouping)         (* C11: j = aggregation of the OBSERVED vector of i, at every T *)
| MRelTopk (i j : nat) (kk : Z) (top : bool) (g : grouping) (* C11: j = the k largest/smallest of each group of i's observed vector, labels intact *)
| MRelSorted (i j : nat) (desc : bool)                      (* C11: j is i's vector, ordered by value (instant queries) *)
| MRelBin (i j k : nat) (op : binop) (rb : bool)            (* C12: k = op applied pointwise to the observed vectors of i and j *)
| MRelLit (i k : nat) (op : binop) (rb : bool) (lit : float) (left : bool)
| MRelSet (i j k : nat) (op : binop)                        (* C12: and / or / unless by label set *)
| MRelEqual (i j : nat)                                     (* same result *)
| MRelNoSeries (i : nat).

Record mcase := mkm {
  m_orc : oracles;
  m_recs : list record;
  m_evals : list mevaluation;
  m_rels : list mrel;
}.

(** canonical order of series: by label set *)
Fixpoint insert_series (s : series) (l : list series) : list series :=
  match l with
  | [] => [s]
  | x :: t => match lmap_cmp (fst s) (fst x) with Gt => x :: insert_series s t | _ => s :: l end
  end.
Definition canon_series (l : list series) : list series := fold_right insert_series [] l.
Definition point_eqb (a b : point) : bool := (fst a =? fst b) && float_same (snd a) (snd b).
Definition series_eqb (a b : series) : bool := lmap_eqb (fst a) (fst b) && list_eqb point_eqb (snd a) (snd b).

Definition mparams_of (e : mevaluation) : mparams := {| p_start := me_start e; p_end := me_end e; p_step := me_step e |}.
Definition caps_of_ev (e : mevaluation) : caps := {| c_label := caps_of (me_label_caps e); c_line := caps_of (me_line_caps e) |}.

Definition mmodel (c : mcase) (e : mevaluation) : option (list series) :=
  eval_metric (m_orc c) (caps_of_ev e) (m_recs c) (mparams_of e) (me_expr e).

Definition mcorr (c : mcase) (e : mevaluation) : Z :=
  match mmodel c e with
  | None => 2
  | Some ss => match me_obs e with
               | None => 1
               | Some os => if list_eqb series_eqb (canon_series ss) (canon_series os) then 0 else 1
               end
  end.

(** * Views of an observed result *)
Definition vec_at (obs : list series) (Tms : Z) : list (lmap * float) :=
  flat_map (fun s => match find (fun p : point => fst p =? Tms) (snd s) with Some p => [(fst s, snd p)] | None => [] end) obs.
Definition all_times (obs : list series) : list Z := nodup Z.eq_dec (flat_map (fun s => map fst (snd s)) obs).

Definition row_eqb (a b : lmap * float) : bool := lmap_eqb (fst a) (fst b) && float_same (snd a) (snd b).
Fixpoint insert_row (r : lmap * float) (l : list (lmap * float)) : list (lmap * float) :=
  match l with
  | [] => [r]
  | x :: t => match lmap_cmp (fst r) (fst x) with Gt => x :: insert_row r t | _ => r :: l end
  end.
Definition canon_rows (l : list (lmap * float)) : list (lmap * float) := fold_right insert_row [] l.
Definition rows_eq (a b : list (lmap * float)) : bool := list_eqb row_eqb (canon_rows a) (canon_rows b).

Definition mobs (c : mcase) (i : nat) : option (list series) := match nth_error (m_evals c) i with Some e => me_obs e | None => None end.

Definition nodup_series (obs : list series) : bool := nodup_sets (map fst obs).

(** samples of a range aggregation, computed from the log-query spec (no iterator involved) *)
Definition range_samples (c : mcase) (e : mevaluation) : option (list sentry * (list float -> float) * grouping * Z * Z) :=
  match me_expr e with
  | MRange op q range offset u param g =>
      match eval_log (m_orc c) no_caps q (-1) (m_recs c) with
      | Some es => match sample_entries op u g es with
                   | Some ses => Some (ses, batch_agg op (match u with Some _ => true | None => false end) range param, g, range, offset)
                   | None => None
                   end
      | None => None
      end
  | _ => None
  end.

Definition grid_of (e : mevaluation) : list Z :=
  grid (me_start e) (me_end e) (if me_step e =? 0 then 1000000000 else me_step e).

Definition is_sorted_by (le : float -> float -> bool) (l : list float) : bool :=
  (fix go (l : list float) := match l with a :: ((b :: _) as t) => le a b && go t | _ => true end) l.

Definition restrict_rows (g : grouping) (v : list (lmap * float)) : list lmap := distinct_keys (map (fun s => restrict g (fst s)) v).

Definition mrel_ok (c : mcase) (r : mrel) : bool :=
  match r with
  | MRelRangeSpec i =>
      match nth_error (m_evals c) i with
      | Some e =>
          match range_samples c e, me_obs e with
          | Some (ses, agg, g, range, offset), Some obs =>
              forallb (fun T => rows_eq (vec_at obs (ms_of T)) (range_spec_at agg g range offset ses T)) (grid_of e)
              && forallb (fun Tms => existsb (fun T => ms_of T =? Tms) (grid_of e)) (all_times obs)
          | None, _ => true
          | Some _, None => false
          end
      | None => false
      end
  | MRelSameAt i j Tms =>
      match mobs c i, mobs c j with
      | Some a, Some b => rows_eq (vec_at a Tms) (vec_at b Tms)
      | _, _ => false
      end
  | MRelCountConserved i =>
      match nth_error (m_evals c) i with
      | Some e =>
          match range_samples c e, me_obs e with
          | Some (ses, _, _, range, offset), Some obs =>
              forallb (fun T => float_same (fold_left PrimFloat.add (map snd (vec_at obs (ms_of T))) zero)
                                           (float_of_Z (Z.of_nat (length (filter (in_window range offset T) ses))))) (grid_of e)
          | None, _ => true
          | Some _, None => false
          end
      | None => false
      end
  | MRelVagg i j k g =>
      match mobs c i, mobs c j with
      | Some a, Some b => forallb (fun T => rows_eq (vec_at b T) (vagg_spec k g (vec_at a T))) (all_times a ++ all_times b)
      | _, _ => false
      end
  | MRelTopk i j kk top g =>
      match mobs c i, mobs c j with
      | Some a, Some b =>
          forallb (fun T =>
            let va := vec_at a T in let vb := vec_at b T in
            (* every returned series is an input series with its value and labels intact *)
            forallb (fun rb => existsb (row_eqb rb) va) vb &&
            forallb (fun key =>
              let ga := filter (fun s => lmap_eqb (restrict g (fst s)) key) va in
              let gb := filter (fun s => lmap_eqb (restrict g (fst s)) key) vb in
              (Z.of_nat (length gb) =? Z.min kk (Z.of_nat (length ga))) &&
              (* every omitted member is not better than every kept one *)
              forallb (fun o => existsb (row_eqb o) gb ||
                                forallb (fun kp => if top then PrimFloat.leb (snd o) (snd kp) else PrimFloat.leb (snd kp) (snd o)) gb) ga)
              (restrict_rows g va))
            (all_times a ++ all_times b)
      | _, _ => false
      end
  | MRelSorted i j desc =>
      match mobs c i, mobs c j with
      | Some a, Some b =>
          forallb (fun T => rows_eq (vec_at a T) (vec_at b T) &&
                            is_sorted_by (fun x y => if desc then PrimFloat.leb y x else PrimFloat.leb x y) (map snd (vec_at b T))) (all_times a ++ all_times b)
      | _, _ => false
      end
  | MRelBin i j k op rb =>
      match mobs c i, mobs c j, mobs c k with
      | Some a, Some b, Some w =>
          forallb (fun T => match binop_spec op rb (vec_at a T) (vec_at b T) with
                            | Some rows => rows_eq (vec_at w T) rows
                            | None => true
                            end) (all_times a ++ all_times b ++ all_times w)
      | _, _, _ => false
      end
  | MRelLit i k op rb lit onleft =>
      match mobs c i, mobs c k with
      | Some a, Some w =>
          forallb (fun T =>
            match opt_seq (flat_map (fun s : lmap * float =>
                                       match (if onleft then sample_op op rb lit (snd s) else sample_op op rb (snd s) lit) with
                                       | Some (v, true) => [Some (fst s, v)]
                                       | Some (_, false) => []
                                       | None => [None]
                                       end) (vec_at a T)) with
            | Some rows => rows_eq (vec_at w T) rows
            | None => true
            end) (all_times a ++ all_times w)
      | _, _ => false
      end
  | MRelSet i j k op =>
      match mobs c i, mobs c j, mobs c k with
      | Some a, Some b, Some w =>
          forallb (fun T =>
            let va := vec_at a T in let vb := vec_at b T in
            let inb (s : lmap * float) := existsb (fun x => lmap_eqb (fst x) (fst s)) vb in
            let ina (s : lmap * float) := existsb (fun x => lmap_eqb (fst x) (fst s)) va in
            rows_eq (vec_at w T)
              (match op with
               | OpAnd => filter inb va
               | OpOr => va ++ filter (fun s => negb (ina s)) vb
               | _ => filter (fun s => negb (inb s)) va
               end)) (all_times a ++ all_times b ++ all_times w)
      | _, _, _ => false
      end
  | MRelEqual i j =>
      match mobs c i, mobs c j with
      | Some a, Some b => list_eqb series_eqb (canon_series a) (canon_series b)
      | None, None => true
      | _, _ => false
      end
  | MRelNoSeries i => match mobs c i with Some [] => true | _ => false end
  end.

Definition mjudge (c : mcase) : bool * bool * Z :=
  let cs := map (mcorr c) (m_evals c) in
  (forallb (fun z => negb (z =? 1)) cs,
   forallb (fun e => match me_obs e with Some ss => nodup_series ss && forallb (fun s => lsorted (fst s)) ss | None => true end) (m_evals c)
   && forallb (mrel_ok c) (m_rels c),
   if existsb (Z.eqb 2) cs then 1000 else 0).

Definition case := mcase.
Definition judge := mjudge.
