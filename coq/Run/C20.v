(** Correspondence + property judge for C20 (KeyToLabel). *)
From LogQLV Require Export Base.Bytes Base.Utf8 Model.KeyToLabel.

Record case := mk { keys : list bytes; observed : list bytes }.

Definition list_eqb {A} (eqb : A -> A -> bool) :=
  fix go (a b : list A) : bool :=
    match a, b with
    | [], [] => true
    | x :: a', y :: b' => eqb x y && go a' b'
    | _, _ => false
    end.

(** the property evaluated on what the implementation returned *)
Definition spec_ok1 (k out : bytes) : bool :=
  valid_label out &&
  (if valid_label k then bytes_eqb out k else true).

Definition judge (c : case) : bool * bool * Z :=
  (list_eqb bytes_eqb (map key_to_label (keys c)) (observed c),
   (Nat.eqb (length (keys c)) (length (observed c))) &&
   forallb (fun '(k, o) => spec_ok1 k o) (combine (keys c) (observed c)),
   0).
