(** Correspondence + property judge for the pattern parser (C06, part pattern-parse). *)
From LogQLV Require Export Base.Bytes Model.Stages Model.PatternParse.
From LogQLV Require Import Run.C20.

Inductive ppobs := PObsOk (p : list ppart) | PObsErr.
Record ppcase := mkpp {
  pp_in : bytes;
  pp_exp : option (list ppart);     (* what the text denotes by construction; None for mutated / random inputs *)
  pp_obs : ppobs;
}.
Record case := mk { items : list ppcase }.

Definition ppart_eqb (a b : ppart) : bool :=
  match a, b with PLit x, PLit y => bytes_eqb x y | PCap x, PCap y => bytes_eqb x y | _, _ => false end.
Definition parts_eqb := list_eqb ppart_eqb.

Definition judge1 (c : ppcase) : Z * bool :=
  (match parse_pattern (pp_in c), pp_obs c with
   | Some m, PObsOk o => if parts_eqb m o then 0 else 1
   | None, PObsErr => 0
   | _, _ => 1
   end,
   match pp_exp c with
   | Some e => match pp_obs c with PObsOk o => parts_eqb e o | PObsErr => false end
   | None => true
   end).

Definition judge (c : case) : bool * bool * Z :=
  let rs := map judge1 (items c) in
  (forallb (fun r => negb (fst r =? 1)) rs, forallb snd rs, 0).
