(** Correspondence + property judge for the JSON path expression parser (C06, part jsonpath-parse). *)
From LogQLV Require Export Base.Bytes Model.Stages Model.JsonPath.
From LogQLV Require Import Run.C20.

Inductive pobs := ObsOk (p : list jsel) | ObsErr.

Record pcase := mkp {
  p_in : bytes;
  p_exp : option (list jsel);     (* what the text denotes by construction (generator's own reading); None for mutated / random inputs *)
  p_obs : pobs;
}.
Record case := mk { items : list pcase }.

Definition path_eqb (a b : list jsel) : bool := list_eqb jsel_eqb a b.

Definition judge1 (c : pcase) : Z * bool :=
  (* correspondence code: 0 agree, 1 disagree, 2 outside the model fragment *)
  (match parse_path (p_in c), p_obs c with
   | PathOk m, ObsOk o => if path_eqb m o then 0 else 1
   | PathErr, ObsErr => 0
   | PathUnmodelled, _ => 2
   | _, _ => 1
   end,
   match p_exp c with
   | Some e => match p_obs c with ObsOk o => path_eqb e o | ObsErr => false end
   | None => true
   end).

Definition judge (c : case) : bool * bool * Z :=
  let rs := map judge1 (items c) in
  (forallb (fun r => negb (fst r =? 1)) rs, forallb snd rs, if existsb (fun r => fst r =? 2) rs then 1000 else 0).
