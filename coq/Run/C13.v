(** Correspondence + property judge for C13 (operator chains through logql.Parse). *)
From LogQLV Require Export Base.Bytes Base.FloatX Model.Tables Model.Syntax Model.Parser Model.Prec.
From LogQLV Require Export Run.C05.

Record case := mk {
  ops : list binop;
  ops2 : list binop;            (* when one sub-chain is parenthesised: [ops] is the outer chain, [ops2] the inner one *)
  ptoks : list token;           (* Go's token list for the query text *)
  obs_np : option bytes;        (* Go's tree dumped without parenthesis nodes *)
  obs : option bytes;           (* Go's tree, exact *)
  expect_np : bytes;            (* the conventional tree (parentheses honoured), dumped without parenthesis nodes *)
}.

Definition model (c : case) : option bytes :=
  match parse_tokens (ptoks c) with Parsed e => Some (dexpr e) | _ => None end.

Definition judge (c : case) : bool * bool * Z :=
  (opt_bytes_eqb (model c) (obs c),
   opt_bytes_eqb (Some (expect_np c)) (obs_np c),
   if known_region (ops c) || known_region (ops2 c) then 1 else 0).
