(** Correspondence + property judge for C15 (rendering). *)
From LogQLV Require Export Base.Bytes Base.Outcome Base.TimeFmt Model.Render.
From LogQLV Require Import Run.C20.

Record case := mk { opts : ropts; streams : list rstream; out : bytes }.

Fixpoint strip (p s : bytes) : option bytes :=
  match p, s with
  | [], _ => Some s
  | x :: p', y :: s' => if byte_eqb x y then strip p' s' else None
  | _, [] => None
  end.

(** ESC '[' code 'm' with an arbitrary code *)
Fixpoint until_m (s : bytes) : option (bytes * bytes) :=
  match s with
  | [] => None
  | b :: t => if byte_eqb b "m"%byte then Some ([], t)
              else match until_m t with Some (c, r) => Some (b :: c, r) | None => None end
  end.
Definition take_code (s : bytes) : option (bytes * bytes) :=
  match s with
  | e :: l :: r => if byte_eqb e esc && byte_eqb l "["%byte then until_m r else None
  | _ => None
  end.

Definition obind' {A B} (o : option A) (f : A -> option B) : option B := match o with Some a => f a | None => None end.

(** match one rendered line of entry [e] at the head of [s]; with [wild] the container colour code is
    whatever the output shows (returned), otherwise it must be [code] *)
Definition match_entry (o : ropts) (wild : bool) (code : bytes) (e : rentry) (s : bytes) : option (bytes * bytes) :=
  obind' (if o_container o then
            obind' (if o_color o then
                      if wild then take_code s else option_map (fun r => ([], r)) (strip code s)
                    else Some ([], s)) (fun '(c, s1) =>
            obind' (strip (re_container e) s1) (fun s2 =>
            obind' (if o_color o then strip reset_color s2 else Some s2) (fun s3 =>
            option_map (fun r => (c, r)) (strip [space_b] s3))))
          else Some ([], s)) (fun '(c, s4) =>
  obind' (if o_timestamp o then
            obind' (if o_color o then strip blue s4 else Some s4) (fun s5 =>
            obind' (strip (fmt_ts (re_ts e)) s5) (fun s6 =>
            obind' (if o_color o then strip reset_color s6 else Some s6) (fun s7 => strip [space_b] s7)))
          else Some s4) (fun s8 =>
  obind' (strip (trim_right_crlf (re_msg e)) s8) (fun s9 =>
  option_map (fun r => (c, r)) (strip [x0a] s9)))).

Fixpoint remove_nth {A} (n : nat) (l : list A) : list A :=
  match n, l with
  | _, [] => []
  | O, _ :: t => t
  | S n', x :: t => x :: remove_nth n' t
  end.

Definition palette_code (c : bytes) : bool :=
  match c with
  | [a; b] => byte_eqb a "3"%byte && (48 <=? bz b) && (bz b <=? 55)
  | [a; b; s; i] => byte_eqb a "3"%byte && (48 <=? bz b) && (bz b <=? 55) && byte_eqb s ";"%byte && byte_eqb i "1"%byte
  | _ => false
  end.

(** one palette colour per container, used consistently *)
Definition consistent (acc : list (bytes * bytes)) : bool :=
  forallb (fun '(c, code) => palette_code code &&
             forallb (fun '(c', code') => if bytes_eqb c c' then bytes_eqb code code' else true) acc) acc.

Section Match.
  Variable o : ropts.
  Variable wild : bool.
  Variable codes : bytes -> bytes.     (* exact mode: the model's colour for a container *)

  (** two entries of one timestamp group that print the same line: trying the second after the first failed is redundant
      (without this pruning a wrong output makes the search factorial in the size of a tie group) *)
  Definition same_print (a b : rentry) : bool :=
    bytes_eqb (trim_right_crlf (re_msg a)) (trim_right_crlf (re_msg b)) &&
    (negb (o_container o) || bytes_eqb (re_container a) (re_container b)).

  Fixpoint try_each_from (f : nat -> rentry -> bool) (i : nat) (tried l : list rentry) : bool :=
    match l with
    | [] => false
    | e :: t => if existsb (same_print e) tried then try_each_from f (S i) tried t
                else if f i e then true else try_each_from f (S i) (e :: tried) t
    end.
  Definition try_each (f : nat -> rentry -> bool) (i : nat) (l : list rentry) : bool := try_each_from f i [] l.

  Fixpoint mg (fuel : nat) (cur : list rentry) (rest : list (list rentry)) (s : bytes) (acc : list (bytes * bytes)) : bool :=
    match fuel with
    | O => false
    | S f =>
      match cur with
      | [] => match rest with
              | [] => match s with [] => (if wild then consistent acc else true) | _ => false end
              | g :: rest' => mg f g rest' s acc
              end
      | _ => try_each (fun i e =>
               match match_entry o wild (codes (re_container e)) e s with
               | Some (c, s') =>
                   mg f (remove_nth i cur) rest s'
                      (if o_container o && o_color o then (re_container e, c) :: acc else acc)
               | None => false
               end) O cur
      end
    end.
End Match.

Fixpoint group_ts (l : list rentry) : list (list rentry) :=
  match l with
  | [] => []
  | e :: t =>
    match group_ts t with
    | (x :: g) :: gs => if re_ts e =? re_ts x then (e :: x :: g) :: gs else [e] :: (x :: g) :: gs
    | gs => [e] :: gs
    end
  end.

Definition entries_sorted (c : case) := sort_ts (flatten (streams c)).
Definition fuel_for (c : case) : nat := (2 * length (entries_sorted c) + 4)%nat.

(** the property on the observed bytes: the output is the concatenation of exactly one line per entry,
    in some non-decreasing timestamp order, each line in the documented format; with colour on every
    container name is wrapped in one palette colour used consistently *)
Definition spec_ok (c : case) : bool :=
  mg (opts c) true (fun _ => []) (fuel_for c) [] (group_ts (entries_sorted c)) (out c) [].

Definition model (c : case) := render (opts c) (streams c).

Definition corr_ok (c : case) : bool :=
  match (if o_color (opts c) then assign index_fixed (flatten (streams c)) [] else Ok []) with
  | Ok m => mg (opts c) false (code_for m) (fuel_for c) [] (group_ts (entries_sorted c)) (out c) []
  | _ => false
  end.

Definition judge (c : case) : bool * bool * Z := (corr_ok c, spec_ok c, 0).
