(** Judge for C17 (evaluation never panics or hangs).  The observable is the outcome class of Engine.Eval:
    0 = a result, 1 = an error, 2 = panic, 3 = no answer within the watchdog limit, 4 = the process died. *)
From LogQLV Require Export Base.Bytes.
From LogQLV Require Import Run.C20.

Record case := mk {
  outcomes : list Z;              (* one per evaluation of the case *)
  expect_error : bool;            (* the query contains a user mistake (bad regex / template / pattern / path / unsupported construct): must be an error *)
  expect_result : bool;           (* a valid query over whatever content: must be a result (bad lines degrade to __error__ labels) *)
}.

Definition judge (c : case) : bool * bool * Z :=
  (true,
   forallb (fun o => (o =? 0) || (o =? 1)) (outcomes c) &&
   (if expect_error c then forallb (Z.eqb 1) (outcomes c) else true) &&
   (if expect_result c then forallb (Z.eqb 0) (outcomes c) else true),
   0).
