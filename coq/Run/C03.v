(** Correspondence + property judge for C03 (Docker log stream decoding). *)
From LogQLV Require Export Base.Bytes Base.TimeFmt Model.Frames.
From LogQLV Require Import Run.C20.

Record case := mk {
  events : reader;
  obs_recs : list frec;
  obs_end : endstate;
  (* what the property demands, computed by the generator from the intended records and fault *)
  exp_recs : list frec;
  exp_clean : bool;
}.

Definition frec_eqb (a b : frec) : bool := (f_ts a =? f_ts b) && bytes_eqb (f_line a) (f_line b).
Definition end_eqb (a b : endstate) : bool :=
  match a, b with
  | CleanEnd, CleanEnd | ErrHeader, ErrHeader | ErrBody, ErrBody | ErrDaemon, ErrDaemon
  | ErrNoSpace, ErrNoSpace | ErrTimestamp, ErrTimestamp => true
  | _, _ => false
  end.

Definition model (c : case) := decode parse_ts (events c).

Definition judge (c : case) : bool * bool * Z :=
  let '(mr, me) := model c in
  (list_eqb frec_eqb mr (obs_recs c) && end_eqb me (obs_end c),
   list_eqb frec_eqb (obs_recs c) (exp_recs c) &&
   (if exp_clean c then end_eqb (obs_end c) CleanEnd else negb (end_eqb (obs_end c) CleanEnd)),
   0).
