(** Correspondence + property judge for C04 (multi-container merge). *)
From LogQLV Require Export Base.Bytes Base.Heap Model.Merge.
From LogQLV Require Import Run.C20.

(** a record is (timestamp, serial number within its source) *)
Definition R := (Z * Z)%type.
Definition rts (r : R) : Z := fst r.

Record case := mk {
  sources : list (list R);                 (* per container, in its own order *)
  runs : list (list (nat * R));            (* observed merged stream for every scripted completion order *)
}.

Definition model (c : case) : list (nat * R) :=
  fst (merge_all rts (0, 0) (map (fun s => (s, false)) (sources c))).

Definition elem_eqb (a b : nat * R) : bool :=
  Nat.eqb (fst a) (fst b) && (fst (snd a) =? fst (snd b)) && (snd (snd a) =? snd (snd b)).
Definition r_eqb (a b : R) : bool := (fst a =? fst b) && (snd a =? snd b).

Fixpoint sorted_z (l : list Z) : bool :=
  match l with
  | a :: (b :: _) as t => (a <=? b) && sorted_z t
  | _ => true
  end.

(** the property, evaluated on an observed stream: every source's records appear exactly, in the
    source's own order (hence every record exactly once), and the stream is time-ordered whenever
    every source is *)
Definition valid_merge (srcs : list (list R)) (out : list (nat * R)) : bool :=
  Nat.eqb (length out) (length (concat srcs)) &&
  forallb (fun '(k, s) => list_eqb r_eqb (map snd (filter (fun e => Nat.eqb (fst e) k) out)) s)
          (combine (seq 0 (length srcs)) srcs) &&
  forallb (fun e => Nat.ltb (fst e) (length srcs)) out &&
  (if forallb (fun s => sorted_z (map rts s)) srcs then sorted_z (map (fun e => rts (snd e)) out) else true).

Definition judge (c : case) : bool * bool * Z :=
  (forallb (fun o => list_eqb elem_eqb (model c) o) (runs c),
   forallb (valid_merge (sources c)) (runs c) &&
   match runs c with
   | [] => true
   | o :: rest => forallb (fun o' => list_eqb elem_eqb o o') rest     (* schedule independence *)
   end,
   0).
