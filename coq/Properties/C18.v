(** C18 -- Same query, same logs, same answer.  Statements only (proofs: Proofs/DetermP.v, Proofs/MergeP.v).
    The evaluation model (Model/Engine.v, Metric.v, Docker.v) is a FUNCTION of query, logs and parameters: it has no
    schedule or map-order argument.  What has to be shown is that the places where the implementation does have such
    freedom are neutralised; each is a theorem here, and the check demands bit-identical, order-identical results under
    every completion order and under repetition.  PARTIAL: absence of data races in the Go memory-model sense is a runtime
    property; the thorough tier runs the same scenarios on a harness built with -race as supporting evidence only. *)
From LogQLV Require Import Base.Bytes Base.FloatX Base.LMap Base.Heap Model.Tables Model.KeyToLabel Model.Stages Model.Engine Model.Metric Model.Docker Model.Merge
                           Proofs.MergeP Proofs.DetermP.
From Coq Require Import Permutation.

(** 1. completion order of the concurrent per-container opens: the slot array handed to the merge is the same for
    EVERY completion order *)
Theorem open_schedule_indep : forall (I : Type) (opened : list I) (sched1 sched2 : list nat),
  Permutation sched1 (seq 0 (length opened)) -> Permutation sched2 (seq 0 (length opened)) ->
  run_open opened sched1 = run_open opened sched2.
Proof. intros I opened s1 s2 P1 P2. rewrite (run_open_any_order I opened s1 P1), (run_open_any_order I opened s2 P2). reflexivity. Qed.
Print Assumptions open_schedule_indep.

(** ... and two open tasks touch different slots: their steps commute *)
Theorem open_writes_disjoint : forall (A : Type) (l : list A) i j x y, i <> j -> set_nth (set_nth l i x) j y = set_nth (set_nth l j y) i x.
Proof. intros A. exact (@set_nth_comm A). Qed.

(** 2. iteration order of the Docker label map: the container's label view does not depend on it (fix D28) *)
Theorem labels_order_indep : forall l1 l2, Permutation l1 l2 -> NoDup (map fst l1) -> sort_kv l1 = sort_kv l2.
Proof. exact labels_order_indep_lemma. Qed.
Theorem container_labels_deterministic : forall c1 c2,
  builtin_labels c1 = builtin_labels c2 -> Permutation (c_labels c1) (c_labels c2) -> NoDup (map fst (c_labels c1)) -> get_labels c1 = get_labels c2.
Proof. exact get_labels_order_indep. Qed.
Theorem prefix_labels_order_dependent : exists l1 l2, Permutation l1 l2 /\
  fold_left (fun m kv => lset m (key_to_label (fst kv)) (snd kv)) l1 [] <> fold_left (fun m kv => lset m (key_to_label (fst kv)) (snd kv)) l2 [].
Proof. exact DetermP.prefix_labels_order_dependent. Qed.
Print Assumptions labels_order_indep.

(** 3. iteration order of the window / group / result maps: float addition is not associative, so the order in which
    samples reach an aggregator matters (this is what D16 was) ... *)
Theorem float_sum_order_matters : float_same (agg_list ASum [f01; f02; f03]) (agg_list ASum [f03; f02; f01]) = false.
Proof. exact DetermP.float_sum_order_matters. Qed.
(** ... and since the fix that order is first appearance in the sample stream: every step of the model is a fold over a list *)
Theorem vagg_step_deterministic : forall op g s1 s2, s1 = s2 -> vagg_step vec_grouping op g s1 = vagg_step vec_grouping op g s2.
Proof. exact vagg_step_is_function. Qed.
Print Assumptions float_sum_order_matters.
