(** C07 -- Rewriting stages change exactly what LogQL says they change.  Statements only (proofs: Proofs/StagesP.v).
    In the model a rename pair is (source, target): `label_format dst=src` is the pair (src, dst); that the PARSER
    builds this pair from the text is the parser correspondence of C05 (fix D3). *)
From LogQLV Require Import Base.Bytes Base.LMap Model.Tables Model.Syntax Model.Stages Proofs.LMapP Proofs.StagesP.

(** label_format dst=src : dst takes src's value, src disappears, nothing else changes *)
Theorem rename_present : forall src dst v ls,
  lsorted ls = true -> src <> dst -> lget ls src = Some v ->
  let ls' := rename_labels [(src, dst)] ls in
  lget ls' dst = Some v /\ lget ls' src = None /\ (forall k, k <> src -> k <> dst -> lget ls' k = lget ls k) /\ lsorted ls' = true.
Proof. exact rename_present_lemma. Qed.
Theorem rename_absent : forall src dst ls, lget ls src = None -> rename_labels [(src, dst)] ls = ls.
Proof. exact rename_absent_lemma. Qed.
Theorem rename_self : forall a ls, rename_labels [(a, a)] ls = ls.
Proof. exact rename_self_lemma. Qed.
Theorem rename_self_prefix_refuted : exists a ls, lsorted ls = true /\ lget ls a <> None /\ lget (rename_labels_prefix [(a, a)] ls) a = None.
Proof. exact StagesP.rename_self_prefix_refuted. Qed.
Print Assumptions rename_present.

(** label_format dst="template" *)
Theorem label_tmpl_sem : forall dst t ts line ls v,
  lsorted ls = true -> expand t ts line ls = Some v ->
  exists ls', process_label_format [] [(dst, t)] ts line ls = Some (line, true, ls') /\
              lget ls' dst = Some v /\ forall k, k <> dst -> lget ls' k = lget ls k.
Proof. exact label_tmpl_sem_lemma. Qed.
Theorem label_tmpl_fail : forall dst t ts line ls,
  expand t ts line ls = None -> process_label_format [] [(dst, t)] ts line ls = Some (line, true, set_error ls E_tmpl).
Proof. exact label_tmpl_fail_lemma. Qed.
Print Assumptions label_tmpl_sem.

(** line_format: the line is replaced by the expansion, __line__ / __timestamp__ / .label bound to the current entry;
    a failing template leaves the line and flags __error__; labels untouched; never dropped *)
Theorem line_format_sem : forall t ts line ls,
  process_line_format t ts line ls =
  match expand t ts line ls with Some out => Some (out, true, ls) | None => Some (line, true, set_error ls E_tmpl) end.
Proof. exact line_format_sem_lemma. Qed.
Theorem template_bindings : forall ts line ls n,
  expand [TLine] ts line ls = Some line /\ expand [TTsNanos] ts line ls = Some (dec ts) /\ expand [TLabel n] ts line ls = Some (lget_or_empty ls n).
Proof. intros. split; [apply expand_line|split; [apply expand_ts|apply expand_label]]. Qed.
Theorem template_concat : forall a b ts line ls,
  expand (a ++ b) ts line ls = match expand a ts line ls, expand b ts line ls with Some x, Some y => Some (x ++ y) | _, _ => None end.
Proof. exact expand_app. Qed.
Print Assumptions line_format_sem.

(** drop removes exactly the named labels and those whose value matches a listed matcher; keep removes all others *)
Theorem selected_iff : forall names ms k v,
  pair_selected names ms k v = true <-> In k names \/ exists m, In (k, m) ms /\ str_match true m v = true.
Proof. exact pair_selected_iff. Qed.
Theorem drop_sem : forall names ms line ls, lsorted ls = true ->
  exists ls', process_drop names ms line ls = Some (line, true, ls') /\
    forall k, lget ls' k = match lget ls k with Some v => if pair_selected names ms k v then None else Some v | None => None end.
Proof. exact drop_sem_lemma. Qed.
Theorem keep_sem : forall names ms line ls, lsorted ls = true ->
  exists ls', process_keep names ms line ls = Some (line, true, ls') /\
    forall k, lget ls' k = match lget ls k with Some v => if pair_selected names ms k v then Some v else None | None => None end.
Proof. exact keep_sem_lemma. Qed.
Theorem selection_prefix_refuted : exists names ms k v, In k names /\ pair_selected_prefix names ms k v = false.
Proof. exact pair_selected_prefix_refuted. Qed.
Print Assumptions drop_sem.

(** decolorize: a line without ESC / CSI lead byte is untouched; otherwise the result is the ANSI-stripped line the
    library oracle reports; labels untouched *)
Theorem decolorize_plain : forall o line ls,
  existsb (fun b => (bz b =? 27) || (bz b =? 194)) line = false -> process_decolorize o line ls = Some (line, true, ls).
Proof. exact decolorize_plain_lemma. Qed.
Theorem decolorize_sem : forall o line ls out l' k ls',
  assoc (o_decolor o) line = Some out -> process_decolorize o line ls = Some (l', k, ls') ->
  k = true /\ ls' = ls /\ (l' = out \/ l' = line /\ existsb (fun b => (bz b =? 27) || (bz b =? 194)) line = false).
Proof. exact decolorize_sem_lemma. Qed.

(** none of these stages drops a line or carries state *)
Theorem rewriter_keeps : forall o s st ts line ls st' l' keep ls',
  is_rewriter s = true -> process o s st ts line ls = Some (st', l', keep, ls') -> keep = true /\ st' = st.
Proof. exact rewriter_keeps_lemma. Qed.
Print Assumptions rewriter_keeps.

Example c07_nonvacuous :
  let ls := [(["a"%byte], ["1"%byte]); (["b"%byte], ["2"%byte])] in
  lsorted ls = true /\ lget (rename_labels [(["a"%byte], ["c"%byte])] ls) ["c"%byte] = Some ["1"%byte] /\
  expand [TText ["x"%byte]; TLabel ["b"%byte]; TLine] 5 ["l"%byte] ls = Some ["x"; "2"; "l"]%byte.
Proof. vm_compute. repeat split. Qed.
