(** C19 -- Filters obey the algebra of sets.  Statements only (proofs: Proofs/AlgebraP.v).
    [filter_sem s = Some f] characterises the filter stages: line filters |= != |~ !~ with any needle / any regex
    (the regex matcher is whatever [sm_re] holds), and label filters built from string matchers with and/or.
    [q] is any distinct-free query (selector + any pipeline of the other stages); results are lists of entries
    (timestamp, line, label set), so multiset statements are Permutation statements.  Every conclusion is about
    what the ENGINE model returns under EVERY capability set. *)
From LogQLV Require Import Base.Bytes Base.LMap Model.Tables Model.Stages Model.Engine Spec.LogSpec Proofs.EngineP Proofs.AlgebraP.
From Coq Require Import Permutation.

Theorem filter_sub : forall o q s f recs es,
  distinct_free q = true -> filter_sem s = Some f -> spec_select o q recs = Some es ->
  exists es', (forall c, eval_log o c q 0 recs = Some es) /\ (forall c, eval_log o c (q_app q s) 0 recs = Some es') /\ sublist es' es.
Proof. exact filter_sub_lemma. Qed.
Print Assumptions filter_sub.

(** |= s and != s, |~ r and !~ r, label = and !=, =~ and !~ : two disjoint parts that together are q's result *)
Theorem neg_partition : forall o q s s' recs es,
  distinct_free q = true -> neg_stage s = Some s' -> spec_select o q recs = Some es ->
  exists e1 e2, (forall c, eval_log o c (q_app q s) 0 recs = Some e1) /\ (forall c, eval_log o c (q_app q s') 0 recs = Some e2) /\
                Permutation (e1 ++ e2) es /\ (forall e, In e e1 -> In e e2 -> False).
Proof. exact neg_partition_lemma. Qed.
Print Assumptions neg_partition.

Theorem filters_commute : forall o q s1 s2 f g recs es,
  distinct_free q = true -> filter_sem s1 = Some f -> filter_sem s2 = Some g -> spec_select o q recs = Some es ->
  exists r, (forall c, eval_log o c (q_app (q_app q s1) s2) 0 recs = Some r) /\ (forall c, eval_log o c (q_app (q_app q s2) s1) 0 recs = Some r).
Proof. exact filters_commute_lemma. Qed.
Print Assumptions filters_commute.

Theorem filter_idempotent : forall o q s f recs es,
  distinct_free q = true -> filter_sem s = Some f -> spec_select o q recs = Some es ->
  exists r, (forall c, eval_log o c (q_app q s) 0 recs = Some r) /\ (forall c, eval_log o c (q_app (q_app q s) s) 0 recs = Some r).
Proof. exact filter_idempotent_lemma. Qed.
Print Assumptions filter_idempotent.

(** `a and b` selects the intersection, `a or b` the union (with the inclusion-exclusion count) *)
Theorem and_inter_or_union : forall o q a b recs es,
  distinct_free q = true -> pure_pred a = true -> pure_pred b = true -> spec_select o q recs = Some es ->
  exists ra rb rand ror,
    (forall c, eval_log o c (q_app q (ELabelFilter a)) 0 recs = Some ra) /\
    (forall c, eval_log o c (q_app q (ELabelFilter b)) 0 recs = Some rb) /\
    (forall c, eval_log o c (q_app q (ELabelFilter (EPAnd a b))) 0 recs = Some rand) /\
    (forall c, eval_log o c (q_app q (ELabelFilter (EPOr a b))) 0 recs = Some ror) /\
    (forall e, In e rand <-> In e ra /\ In e rb) /\
    (forall e, In e ror <-> In e ra \/ In e rb) /\
    (length ror + length rand = length ra + length rb)%nat /\
    sublist rand es /\ sublist ror es.
Proof. exact and_or_lemma. Qed.
Print Assumptions and_inter_or_union.

(** |= "" changes nothing *)
Theorem empty_needle_id : forall o q r recs es,
  distinct_free q = true -> spec_select o q recs = Some es ->
  forall c, eval_log o c (q_app q (empty_needle_stage r)) 0 recs = Some es.
Proof. exact empty_needle_lemma. Qed.
Print Assumptions empty_needle_id.

Example c19_nonvacuous : exists s s' f, neg_stage s = Some s' /\ filter_sem s = Some f /\ distinct_free ex_query = true /\
                              exists es, spec_select ex_oracles ex_query ex_records = Some es /\ efilter f es <> [] /\ efilter f es <> es.
Proof. exact ex_c19. Qed.
