(** C20 — Every Docker label is addressable under a valid LogQL name.
    Statements only; proofs live in Proofs/KeyToLabelP.v (and Proofs/DockerP.v for
    the selectability corollary). *)
From LogQLV Require Import Base.Bytes Base.Utf8 Model.KeyToLabel Proofs.KeyToLabelP.

(** the result is always a valid label name: only [A-Za-z0-9_], not starting with a digit *)
Theorem ktl_valid : forall k : bytes, valid_label (key_to_label k) = true.
Proof. exact ktl_valid_lemma. Qed.
Print Assumptions ktl_valid.

(** names that are already valid are unchanged *)
Theorem ktl_id_on_valid : forall k : bytes, valid_label k = true -> key_to_label k = k.
Proof. exact ktl_id_lemma. Qed.
Print Assumptions ktl_id_on_valid.

(** the mapping is idempotent *)
Theorem ktl_idempotent : forall k : bytes, key_to_label (key_to_label k) = key_to_label k.
Proof. exact ktl_idem_lemma. Qed.
Print Assumptions ktl_idempotent.

(** rune-wise reading: the result is the concatenation, over the runes of the key as Go decodes
    them, of the rune itself when it is in [A-Za-z0-9_] and of one '_' otherwise (an invalid UTF-8
    byte is one rune), with one extra leading '_' exactly when the key starts with a digit *)
Theorem ktl_pointwise : forall k : bytes,
  key_to_label k =
    (if starts_digit k then [underscore] else []) ++ concat (chunks_fuel (length k) k).
Proof. intro k. rewrite ktl_spec. unfold spec_ktl, slow. rewrite slow_is_concat_chunks. reflexivity. Qed.
Print Assumptions ktl_pointwise.

Theorem ktl_chunk_shape : forall s r w, decode_rune s = Some (r, w) ->
  (ok_rune r = true /\ rune_image s r w = firstn 1 s /\ w = 1%nat) \/
  (ok_rune r = false /\ rune_image s r w = [underscore]).
Proof. exact chunk_is_rune_or_underscore. Qed.
Print Assumptions ktl_chunk_shape.

(** non-vacuity: a key that exercises digit prefix, multi-byte rune, invalid byte, dot *)
Example ktl_example :
  key_to_label ["0"; "a"; "."; xc3; xa9; xff; "_"; "Z"]%byte = ["_"; "0"; "a"; "_"; "_"; "_"; "_"; "Z"]%byte
  /\ valid_label ["a"; "_"; "9"]%byte = true.
Proof. split; vm_compute; reflexivity. Qed.
