(** C10 -- A metric series is identified by its label set, nothing else.  Statements only (proofs: Proofs/KeyP.v,
    Proofs/RangeP.v, Proofs/VaggP.v).  The 64-bit hash itself (xxhash) is abstracted: these theorems establish that
    what is hashed determines the visible label set and nothing else; collision-freedom of the hash is assumed. *)
From LogQLV Require Import Base.Bytes Base.FloatX Base.LMap Model.Tables Model.Stages Model.Engine Model.Metric Spec.MetricSpec Proofs.RangeP Proofs.KeyP Proofs.VaggP.
From Coq Require Import Permutation Sorted.

(** the bytes Key() feeds to the hash determine the visible label set: for ANY two label sets (values that are prefixes
    or concatenations of one another included), equal serialisations mean equal sets *)
Theorem serialise_inj : forall a b, short_map a -> short_map b -> serialise a = serialise b -> a = b.
Proof. exact serialise_inj_lemma. Qed.
Print Assumptions serialise_inj.

(** ... and the model's key (the visible set) puts two samples in one series iff their visible label sets are equal *)
Theorem key_iff_labels : forall a b, lmap_eqb (key_of a) (key_of b) = true <-> visible a = visible b.
Proof. exact key_iff_labels_lemma. Qed.

(** the pre-fix key violated both directions (D7: different sets, one key; D6: one set, order-dependent key) *)
Theorem prefix_key_collides : exists a b, a <> b /\ serialise_prefix a = serialise_prefix b.
Proof. exact serialise_prefix_refuted. Qed.
Theorem prefix_key_order_dependent : exists a b, Permutation a b /\ serialise_prefix a <> serialise_prefix b.
Proof. exact order_dependence_refuted. Qed.

(** no step of a range aggregation holds two series with one label set (part of [step_ok]), for every history *)
Theorem no_dup_series_range : forall agg g range offset ses Ts,
  StronglySorted ts_le ses -> StronglySorted Z.lt Ts ->
  Forall (fun st => NoDup (map (fun sm : sample => key_of (snd sm)) (st_samples st)))
         (range_run win_clear agg g range offset Ts {| rs_window := []; rs_rest := ses |}).
Proof. exact no_dup_series_range_lemma. Qed.
(** ... nor does any step of a vector aggregation *)
Theorem no_dup_series_vagg : forall op g s, is_heap_op op = false ->
  NoDup (map (fun sm : sample => key_of (snd sm)) (st_samples (vagg_step vec_grouping op g s))).
Proof. exact no_dup_series_vagg_lemma. Qed.
Print Assumptions no_dup_series_range.

(** per step the samples of the window are partitioned among the series: their numbers add up *)
Theorem count_conserved : forall g range offset ses T,
  let inw := filter (in_window range offset T) ses in
  sum_nat (map (fun k => length (filter (fun e => lmap_eqb (series_key g e) k) inw)) (distinct_keys (map (series_key g) inw))) = length inw.
Proof. exact count_conserved_lemma. Qed.
Print Assumptions count_conserved.

Example c10_nonvacuous :
  short_map [(["a";"b"]%byte, ["c"%byte])] /\ serialise [(["a";"b"]%byte, ["c"%byte])] <> serialise [(["a"%byte], ["b";"c"]%byte)].
Proof. split; [repeat constructor; unfold short; cbn; lia|vm_compute; discriminate]. Qed.
