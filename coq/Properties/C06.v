(** C06 -- Parser stages expose exactly the fields of a line and never drop it.  Statements only (proofs:
    Proofs/StagesP.v).  The text->document step of jx / go-logfmt is an oracle table [o]: the theorems hold for
    every content of the table, i.e. whatever document the library reports for a line. *)
From LogQLV Require Import Base.Bytes Base.LMap Model.Tables Model.KeyToLabel Model.Stages Proofs.LMapP Proofs.StagesP Model.JsonPath Proofs.JsonPathP Model.PatternParse Proofs.PatternParseP.

(** json, logfmt, regexp, pattern, unpack never remove a line; all but unpack never change it; unpack either keeps
    it or replaces it by the _entry string of the packed object *)
Theorem stage_keeps_line : forall o s st ts line ls st' l' keep ls',
  is_parser s = true -> process o s st ts line ls = Some (st', l', keep, ls') ->
  keep = true /\ st' = st /\
  (s <> EUnpack -> l' = line) /\
  (s = EUnpack -> l' = line \/ exists fields raw render, assoc (o_json o) line = Some (JDoc (JObj fields raw render)) /\ In (["_";"e";"n";"t";"r";"y"]%byte, JStr l') fields).
Proof. exact parser_keeps_lemma. Qed.
Print Assumptions stage_keeps_line.

(** | json : every field of a well-formed object line is exposed under its sanitised name with exactly its rendered
    value (the last one when a key repeats), overriding an existing label; every other label is untouched *)
Theorem json_all_exposes : forall o line ls fields raw render,
  assoc (o_json o) line = Some (JDoc (JObj fields raw render)) -> lsorted ls = true ->
  exists ls', process_json o [] [] line ls = Some (line, true, ls') /\ lsorted ls' = true /\
    forall k, lget ls' k = match last_binding k (json_bindings fields) None with Some r => Some r | None => lget ls k end.
Proof. exact json_all_exposes_lemma. Qed.
Print Assumptions json_all_exposes.

(** | json a, b : only the requested names are touched *)
Theorem json_some_only : forall o want line ls fields raw render,
  want <> [] -> assoc (o_json o) line = Some (JDoc (JObj fields raw render)) -> lsorted ls = true ->
  exists ls', process_json o want [] line ls = Some (line, true, ls') /\ lsorted ls' = true /\
    (forall k, lget ls' k = match last_binding k (json_some_bindings want fields) None with Some r => Some r | None => lget ls k end) /\
    (forall k, existsb (bytes_eqb k) want = false -> lget ls' k = lget ls k).
Proof. exact json_some_only_lemma. Qed.
Print Assumptions json_some_only.

(** | logfmt [labels / renames] : the pairs decoded before any error are exposed (under the requested label names
    when a list is given, later pairs overriding), everything else untouched; a decoding error flags the entry *)
Theorem logfmt_exposes : forall o table line ls kvs err,
  assoc (o_logfmt o) line = Some (kvs, err) -> lsorted ls = true ->
  exists ls1, process_logfmt o table line ls = Some (line, true, if err then set_error ls1 E_logfmt else ls1) /\ lsorted ls1 = true /\
    forall k, lget ls1 k = match last_binding k (logfmt_bindings table kvs) None with Some r => Some r | None => lget ls k end.
Proof. exact logfmt_exposes_lemma. Qed.
Print Assumptions logfmt_exposes.

(** a line the stage cannot parse is kept, unchanged, and flagged with __error__ (first error wins) *)
Theorem json_unparsable_flagged : forall o labels line ls,
  assoc (o_json o) line = Some JBad -> process_json o labels [] line ls = Some (line, true, set_error ls E_json).
Proof. exact json_unparsable_lemma. Qed.
Theorem json_not_object_flagged : forall o labels line ls v,
  assoc (o_json o) line = Some (JDoc v) -> is_obj v = None -> process_json o labels [] line ls = Some (line, true, set_error ls E_json).
Proof. exact json_not_object_lemma. Qed.
Theorem unpack_unparsable_flagged : forall o line ls,
  assoc (o_json o) line = Some JBad -> process_unpack o line ls = Some (line, true, set_error ls E_unpack).
Proof. exact unpack_unparsable_lemma. Qed.
Theorem error_label_set : forall ls t, lsorted ls = true -> lhas ls error_label = false ->
  lget (set_error ls t) error_label = Some t /\
  (forall k, k <> error_label -> k <> error_details_label -> lget (set_error ls t) k = lget ls k).
Proof. exact set_error_sets. Qed.
Theorem first_error_wins : forall ls t, lhas ls error_label = true -> set_error ls t = ls.
Proof. exact set_error_first. Qed.
Print Assumptions json_unparsable_flagged.
Print Assumptions error_label_set.

(** pattern: a capture takes exactly the text before the first occurrence of the literal that follows it *)
Theorem pattern_two_captures : forall a b d v1 v2 ls,
  cut_before d (v1 ++ d ++ v2) = (v1, true) -> a <> ["_"%byte] -> b <> ["_"%byte] ->
  pattern_match [PCap a; PLit d; PCap b] (v1 ++ d ++ v2) ls = lset (lset ls a v1) b v2.
Proof. exact pattern_two_captures_lemma. Qed.
Theorem capture_is_first_occurrence : forall sep s a, cut_before sep s = (a, true) ->
  (exists rest, s = a ++ sep ++ rest) /\ forall n, (n < length a)%nat -> is_prefix sep (skipn n s) = false.
Proof. intros sep s a H. split; [eapply cut_before_sound; eauto|eapply cut_before_first; eauto]. Qed.
Print Assumptions pattern_two_captures.

(** the path-expression parser (jsonexpr.Parse, Model/JsonPath.v): every expression written as a sequence of .field,
    ["quoted key"] (any printable ASCII, quote and backslash escaped) and [index] items denotes exactly those selectors *)
Theorem path_expression_roundtrip : forall l : list pitem, l <> [] -> Forall wf_item l ->
  parse_path (print_path l) = PathOk (map sel_of l).
Proof. exact path_roundtrip_lemma. Qed.
Print Assumptions path_expression_roundtrip.

Example path_expression_example :
  parse_path (print_path [PField ["a"%byte]; PQuoted ["k"%byte; "\"%byte]; PIndex ["0"%byte; "7"%byte]]) =
    PathOk [JKey ["a"%byte]; JKey ["k"%byte; "\"%byte]; JIdx 7].
Proof. vm_compute. reflexivity. Qed.

(** the pattern parser (logqlpattern.Parse, Model/PatternParse.v): a pattern written as alternating literals (non-empty, without
    '<') and <name> captures, with at least one capture and no name used twice (`_` excepted), denotes exactly those parts *)
Theorem pattern_roundtrip : forall ps : list ppart,
  Forall wf_part ps -> alternating ps -> existsb is_cap ps = true -> dup_capture ps [] = false ->
  parse_pattern (print_pattern ps) = Some ps.
Proof. exact pattern_roundtrip_lemma. Qed.
Print Assumptions pattern_roundtrip.

Example pattern_example :
  parse_pattern (print_pattern [PCap ["i"%byte; "p"%byte]; PLit [" "%byte; "-"%byte; " "%byte]; PCap ["_"%byte]; PLit ["]"%byte]]) =
    Some [PCap ["i"%byte; "p"%byte]; PLit [" "%byte; "-"%byte; " "%byte]; PCap ["_"%byte]; PLit ["]"%byte]].
Proof. vm_compute. reflexivity. Qed.

Example c06_nonvacuous :
  let o := {| o_json := [(["{"%byte], JDoc (JObj [(["a";"."; "b"]%byte, JStr ["1"%byte]); (["a";"_"; "b"]%byte, JNull); (["n"%byte], JNum ["7"%byte] ["7"%byte])] [] []))];
              o_logfmt := []; o_submatch := []; o_decolor := [] |} in
  exists ls', process_json o [] [] ["{"%byte] [(["n"%byte], ["0"%byte])] = Some (["{"%byte], true, ls') /\
              lget ls' ["a";"_";"b"]%byte = Some ["1"%byte] /\ lget ls' ["n"%byte] = Some ["7"%byte].
Proof. eexists. vm_compute. repeat split. Qed.
