(** C15 — Rendering prints every entry once, in time order, for any input.
    Statements only; proofs in Proofs/RenderP.v. *)
From LogQLV Require Import Base.Bytes Base.Outcome Base.TimeFmt Model.Render Proofs.RenderP.
From Coq Require Import Permutation.

(** rendering succeeds (no panic, no error) for ANY number of containers, any entries, any message
    bytes and all eight option combinations, and writes exactly one line per entry *)
Theorem render_total : forall (o : ropts) (ss : list rstream),
  exists lines, render o ss = Ok lines /\ length lines = length (flatten ss).
Proof. exact render_total_lemma. Qed.
Print Assumptions render_total.

(** the lines are the formatted entries of a timestamp-sorted permutation of all entries of all
    containers (each entry exactly once, non-decreasing timestamps); the colour code of a line depends
    on the container name alone (consistency) and is one of the palette entries 1..7 *)
Theorem render_lines : forall (o : ropts) (ss : list rstream),
  exists (codes : bytes -> bytes) (es : list rentry),
    render o ss = Ok (map (fun e => fmt_line o (codes (re_container e)) e) es) /\
    Permutation es (flatten ss) /\ sorted_ts es /\
    (o_color o = true -> forall e, In e es ->
       exists i, (1 <= i < palette_len)%nat /\ codes (re_container e) = color_of_index i).
Proof. exact render_shape_lemma. Qed.
Print Assumptions render_lines.

(** with colour off a line is: [name ' ']? [RFC3339Nano timestamp ' ']? trimmed-message '\n' — nothing else *)
Theorem colour_off_adds_nothing : forall o code e, o_color o = false ->
  fmt_line o code e =
    (if o_container o then re_container e ++ [space_b] else []) ++
    (if o_timestamp o then fmt_ts (re_ts e) ++ [space_b] else []) ++
    trim_right_crlf (re_msg e) ++ [x0a].
Proof. exact fmt_line_plain. Qed.
Print Assumptions colour_off_adds_nothing.

(** the message is printed with exactly its trailing CR/LF run removed *)
Theorem trim_is_trailing_crlf_only : forall s, exists tail,
  s = trim_right_crlf s ++ tail /\ forallb is_crlf tail = true /\
  (forall p b, trim_right_crlf s = p ++ [b] -> is_crlf b = false).
Proof. exact trim_spec. Qed.
Print Assumptions trim_is_trailing_crlf_only.

(** D14 (fixed by /repo commit "fix: palette index in renderResult ..."): the palette index expression
    of the original code panics at the eighth distinct container *)
Theorem render_total_refuted_before_fix : exists o ss, render_prefix o ss = Panic 1.
Proof.
  exists {| o_timestamp := false; o_container := true; o_color := true |}.
  exists (map (fun b => ([b], [(0, [b])])) ["a"; "b"; "c"; "d"; "e"; "f"; "g"; "h"]%byte).
  vm_compute. reflexivity.
Qed.
Print Assumptions render_total_refuted_before_fix.

(** non-vacuity: nine containers, ties, trailing CRLF *)
Example render_example :
  render {| o_timestamp := true; o_container := true; o_color := false |}
         [(["a"%byte], [(1000000000, ["x"; x0d; x0a; x0a]%byte)]); (["b"%byte], [(0, [])])]
  = Ok [ ["b"; " "; "1"; "9"; "7"; "0"; "-"; "0"; "1"; "-"; "0"; "1"; "T"; "0"; "0"; ":"; "0"; "0"; ":"; "0"; "0"; "Z"; " "; x0a]%byte;
         ["a"; " "; "1"; "9"; "7"; "0"; "-"; "0"; "1"; "-"; "0"; "1"; "T"; "0"; "0"; ":"; "0"; "0"; ":"; "0"; "1"; "Z"; " "; "x"; x0a]%byte ].
Proof. vm_compute. reflexivity. Qed.
