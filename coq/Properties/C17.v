(** C17 -- Evaluation never panics or hangs on any query or log content.  Statements only (proofs: Proofs/TotalP.v).
    Every model function is a total Coq function, so "terminates" holds of the model by construction; the theorems below
    are about the places where that totality has CONTENT: loops whose progress depends on the data, fuel that must be
    adequate, and the one indexing operation that is guarded by a length test.  PARTIAL: panics or unbounded loops inside
    third-party libraries (regexp, text/template + sprig, jx, go-logfmt) and Go-level stack exhaustion on extremely deep
    nesting are outside any model; the check observes them (recover + watchdog) on generated and mutated inputs. *)
From LogQLV Require Import Base.Bytes Base.FloatX Base.LMap Base.Heap Base.Units Model.Tables Model.Stages Model.Engine Model.Metric Proofs.TotalP.

(** the ip() line filter advances by a non-empty capture at every candidate: its scan loop cannot stall *)
Theorem ip_capture_progress : forall s cap rest, try_v4 s = Some (cap, rest) -> cap <> [] /\ s = cap ++ rest /\ (length rest < length s)%nat.
Proof. exact ip_capture_progress_lemma. Qed.
(** ... and the fuel the model gives the scan is never what stops it *)
Theorem ip_scan_fuel_adequate : forall pat s f1 f2, (length s < f1)%nat -> (length s < f2)%nat -> ip_scan f1 pat s = ip_scan f2 pat s.
Proof. exact ip_scan_fuel. Qed.
Print Assumptions ip_scan_fuel_adequate.

(** topk / bottomk look at heap.Min() only when the heap holds at least one sample *)
Theorem heap_min_guarded : forall (less greater : sample -> sample -> bool) limit h s,
  heap_offer less greater limit h s <> h ++ [s] -> heap_offer less greater limit h s <> heap_push greater dummy_sample h s ->
  0 < limit -> h <> [].
Proof. exact heap_min_guarded_lemma. Qed.

(** for a positive step the stepper visits every start + k*step <= end (and, by C09 grid_members, nothing else), then stops *)
Theorem grid_complete : forall start e stp k, 0 < stp -> 0 <= k -> start + k * stp <= e -> In (start + k * stp) (grid start e stp).
Proof. exact grid_complete_lemma. Qed.
Theorem zero_step_needs_guard : forall start e, start < e -> grid start e 0 = [].
Proof. exact TotalP.zero_step_needs_guard. Qed.
Print Assumptions grid_complete.
