(** C01 -- Log queries return exactly the matching lines.
    Statements only; proofs are in Proofs/EngineP.v.  [oracles] are arbitrary finite tables of library behaviour
    (jx, go-logfmt, FindStringSubmatch, ANSI stripping): every theorem holds for every content of those tables. *)
From LogQLV Require Import Base.Bytes Base.LMap Model.Tables Model.Stages Model.Engine Spec.LogSpec Proofs.EngineP.

(** The answer does not depend on which selector matchers and line filters the storage evaluates itself:
    whatever is computed when nothing is offloaded is computed under EVERY capability set, with any limit,
    including pipelines with [distinct]. *)
Theorem eval_log_caps_indep : forall o q lim recs es,
  eval_log o no_caps q lim recs = Some es -> forall c, eval_log o c q lim recs = Some es.
Proof. exact eval_log_caps_indep_lemma. Qed.
Print Assumptions eval_log_caps_indep.

(** Exactness: for a distinct-free query without limit the engine returns, under every capability set, the list
    [spec_select], i.e. each record's own contribution [matches q r] in delivery order. *)
Theorem eval_log_exact : forall o q recs es,
  distinct_free q = true -> spec_select o q recs = Some es -> forall c, eval_log o c q 0 recs = Some es.
Proof. exact eval_log_exact_lemma. Qed.
Print Assumptions eval_log_exact.

(** ... and that list is the comprehension [e | r <- recs, matches q r = Some e]: every matching record once, no
    non-matching record, no duplicate. *)
Theorem result_is_comprehension : forall o q recs es,
  spec_select o q recs = Some es -> es = flat_map (contribution o q) recs.
Proof. exact spec_select_flat_map. Qed.
Print Assumptions result_is_comprehension.

Theorem result_sound_complete : forall o q recs es,
  spec_select o q recs = Some es ->
  forall e, In e es <-> exists r, In r recs /\ matches o q r = Some (Some e).
Proof. exact spec_select_sound_complete. Qed.
Print Assumptions result_sound_complete.

(** a matching record keeps its timestamp, satisfies every selector matcher (absent label = ""), and keeps its
    line unless a line-rewriting stage (line_format, decolorize, unpack) is in the pipeline *)
Theorem match_preserves : forall o q r e,
  matches o q r = Some (Some e) ->
  e_ts e = r_ts r /\ selected q r = true /\ (existsb rewrites_line (q_pipe q) = false -> e_line e = r_line r).
Proof. exact matches_preserves. Qed.
Print Assumptions match_preserves.

(** the pre-fix offloading rule (D12) was NOT capability independent *)
Theorem prefix_offload_refuted : exists o q recs c,
  eval_log_prefix o no_caps q 0 recs <> eval_log_prefix o c q 0 recs.
Proof. exact d12_witness. Qed.
Print Assumptions prefix_offload_refuted.

(** non-vacuity: a three-stage query over four records inside the fragment *)
Example c01_nonvacuous : exists es, spec_select ex_oracles ex_query ex_records = Some es /\ length es = 2%nat /\ distinct_free ex_query = true.
Proof. exact ex_c01. Qed.
