(** C09 -- Range aggregations cover exactly their window at every step.  Statements only (proofs: Proofs/RangeP.v).
    [ses] is the stream of samples a range aggregation reads (timestamp, value, label set), delivered in
    non-decreasing timestamp order (what C04 establishes for the Docker storage; ties allowed).  [agg] is any batch
    aggregator (count, sum, avg, min, max, stddev, stdvar, quantile, first, last, rate ...), [g] the grouping clause.
    [step_ok ... T st] says: the step is stamped T, holds no two series with one label set, and for EVERY label set k
    reports exactly [range_spec_at]: agg of the samples of series k with timestamps in [T-o-r, T-o], in arrival order,
    and nothing when that window is empty. *)
From LogQLV Require Import Base.Bytes Base.FloatX Base.LMap Model.Tables Model.Stages Model.Engine Model.Metric Spec.MetricSpec Proofs.RangeP.
From Coq Require Import Sorted.

(** every step of every strictly increasing list of evaluation times (any start, any step, any subset of instants):
    the history of sliding the window never shows in the result *)
Theorem range_exact : forall agg g range offset ses Ts,
  StronglySorted ts_le ses -> StronglySorted Z.lt Ts ->
  Forall2 (step_ok agg g range offset ses) Ts (range_run win_clear agg g range offset Ts {| rs_window := []; rs_rest := ses |}).
Proof. exact range_exact_full. Qed.
Print Assumptions range_exact.

(** ... in particular on the grid the engine uses (start + k*step <= end) *)
Theorem range_on_grid : forall agg g range offset ses start e stp,
  StronglySorted ts_le ses ->
  Forall2 (step_ok agg g range offset ses) (grid start e stp)
          (range_run win_clear agg g range offset (grid start e stp) {| rs_window := []; rs_rest := ses |}).
Proof. exact range_on_grid_lemma. Qed.
Theorem grid_members : forall stp, 0 < stp -> forall fuel t e x, In x (grid_from fuel t e stp) -> x <= e /\ exists k, 0 <= k /\ x = t + k * stp.
Proof. exact grid_from_members. Qed.
Print Assumptions range_on_grid.

(** the value at T does not depend on where the grid starts, on the step, or on which other times were evaluated;
    with Ts2 = [T] this is "an instant query at T equals the range-query value at T" *)
Theorem grid_indep : forall agg g range offset ses Ts1 Ts2 T st1 st2,
  StronglySorted ts_le ses -> StronglySorted Z.lt Ts1 -> StronglySorted Z.lt Ts2 ->
  In (T, st1) (combine Ts1 (range_run win_clear agg g range offset Ts1 {| rs_window := []; rs_rest := ses |})) ->
  In (T, st2) (combine Ts2 (range_run win_clear agg g range offset Ts2 {| rs_window := []; rs_rest := ses |})) ->
  forall k, step_lookup k st1 = step_lookup k st2.
Proof. exact grid_indep_lemma. Qed.
Print Assumptions grid_indep.

(** the pre-fix eviction rule (D4) violated it: count over [2] at T=2 is 3 as an instant query and 2 after a step at T=1 *)
Theorem prefix_eviction_refuted :
  match value_at_2 [1; 2] 1, value_at_2 [2] 0 with Some a, Some b => float_same a b = false | _, _ => False end.
Proof. exact d4_refuted. Qed.

(** non-vacuity: three samples with a tie, two steps *)
Example c09_nonvacuous :
  let ses := [ {| se_ts := 1; se_val := one; se_set := empty_al |}; {| se_ts := 1; se_val := one; se_set := empty_al |}; {| se_ts := 3; se_val := one; se_set := empty_al |} ] in
  StronglySorted ts_le ses /\ StronglySorted Z.lt [1; 3] /\
  map (fun st => length (st_samples st)) (range_run win_clear count_agg GNone 2 0 [1; 3] {| rs_window := []; rs_rest := ses |}) = [1%nat; 1%nat].
Proof. cbn. split; [repeat constructor; unfold ts_le; cbn; lia|]. split; [repeat constructor; lia|]. vm_compute. reflexivity. Qed.
