(** C05 — Query text is parsed into the structure it denotes.
    Statements only; proofs in Proofs/ParserP.v.

    The token-level parser model (Model/Parser.v) is a transliteration of parser*.go and is compared with
    logql.Parse on every run (exact tree, including rejected inputs and single-token corruptions).
    PARTIAL: the round-trip theorem parse(print c) = abs c is proved here for the stream-selector
    sub-grammar with an unbounded number of matchers; for the rest of the grammar it is established by the
    correspondence against generator-computed expectations, not by a theorem (see DESIGN.md). *)
From LogQLV Require Import Base.Bytes Base.FloatX Model.Tables Model.Syntax Model.Parser Proofs.ParserP Proofs.PredP Proofs.PipelineP Proofs.LogRangeP Proofs.QueryP Proofs.UnwrapP Proofs.VecParamP Proofs.QuantileP Proofs.BinRangeP Proofs.BinModP Proofs.BinLitP Proofs.ParenP Model.Lexer Proofs.LexerP Proofs.LexerTightP Proofs.LexParseP Proofs.BinTextP.

(** every selector {l1 op1 "v1", ..., ln opn "vn"} with any number of matchers, all four operators, any value bytes (regex
    values that compile) and any label names -- whether the lexer classifies a name as Ident or as a keyword (by, on, json,
    drop, ...: [cls l] is that classification; a keyword is accepted when it is a valid label name, D29) -- is accepted and
    yields exactly those matchers in order, consuming exactly its own tokens (the consumed label tokens are left re-typed
    as Ident) *)
Theorem parse_print_selector_partial :
  forall (anch : bytes -> bool) (re_names : bytes -> option (list bytes)) (cls : bytes -> ttype) (ms : list matcher) (p r : list token) (fuel : nat),
  Forall (wf_lmatcher anch cls) ms -> (length ms < fuel)%nat ->
  Forall (fun m => ttype_eqb (cls (m_label m)) TCloseBrace = false) ms ->
  parse_selector fuel {| prev := p; rest := print_selector anch re_names cls ms ++ r |} =
    POk ms {| prev := rev (print_selector anch re_names (fun _ => TIdent) ms) ++ p; rest := r |}.
Proof. exact parse_selector_print. Qed.
Print Assumptions parse_print_selector_partial.

(** non-vacuity: {by="v", a=~"x"} with by lexed as the keyword token *)
Example selector_keyword_label :
  let anch := fun _ : bytes => true in
  let cls := fun l : bytes => if bytes_eqb l ["b"%byte; "y"%byte] then TBy else TIdent in
  let ms := [ {| m_label := ["b"%byte; "y"%byte]; m_op := OpEq; m_value := ["v"%byte] |}; {| m_label := ["a"%byte]; m_op := OpRe; m_value := ["x"%byte] |} ] in
  match parse_selector 5 {| prev := []; rest := print_selector anch (fun _ => None) cls ms |} with POk r _ => r = ms | _ => False end.
Proof. vm_compute. reflexivity. Qed.

(** label-filter predicates: string matchers, number / duration / bytes comparisons, ip() comparisons, parentheses and and / or chains in
    the shape the grammar gives them -- `and` binds tighter than `or` (D34), chains of one operator nest to the right:
    atom := comparison | ( predicate );  and-chain := atom | atom and and-chain;  predicate := and-chain | and-chain or predicate
    ([wf_pred]) -- are parsed into exactly themselves, whatever the texts of the numeric literals (ntxt, dtxt, btxt), consuming exactly
    their tokens; in particular  a and b or c  is  (a and b) or c *)
Theorem parse_print_labelfilter_partial :
  forall (anch : bytes -> bool) (re_names : bytes -> option (list bytes)) (ntxt : float -> bytes) (dtxt btxt : Z -> bytes)
         (p : pred) (fuel : nat) (pv r : list token),
  wf_pred anch p -> (psize p < fuel)%nat -> ends_pred r ->
  parse_label_predicate fuel {| prev := pv; rest := print_pred anch re_names ntxt dtxt btxt p ++ r |} =
    POk p {| prev := rev (print_pred anch re_names ntxt dtxt btxt p) ++ pv; rest := r |}.
Proof. exact pred_print_lemma. Qed.
Print Assumptions parse_print_labelfilter_partial.

(** non-vacuity:  a = "1" and ( n > 5 or d <= 5s ) and ip == ip("10.0.0.0/8") or b !~ "x"  is  (a and ((n or d)) and ip) or b *)
Example labelfilter_example :
  let anch := fun _ : bytes => true in
  let rn := fun _ : bytes => Some (@nil bytes) in
  let nt := fun _ : float => ["5"%byte] in let dt := fun _ : Z => ["5"%byte; "s"%byte] in let bt := fun _ : Z => ["1"%byte] in
  let a := PMatch {| m_label := ["a"%byte]; m_op := OpEq; m_value := ["1"%byte] |} in
  let n := PNum ["n"%byte] OpGt 5%float in let d := PDur ["d"%byte] OpLte 5000000000 in
  let i := PIP ["i"%byte] OpEq ["1"%byte] in
  let b := PMatch {| m_label := ["b"%byte]; m_op := OpNotRe; m_value := ["x"%byte] |} in
  let p := PBin (PBin a OpAnd (PBin (PParen (PBin n OpOr d)) OpAnd i)) OpOr b in
  wf_pred anch p /\
  match parse_label_predicate 20 {| prev := []; rest := print_pred anch rn nt dt bt p |} with POk q _ => q = p | _ => False end.
Proof. split; [cbn; repeat split; try reflexivity; left; reflexivity|vm_compute; reflexivity]. Qed.

(** pipelines over the stage fragment {line filters with a string or ip(), pattern, line_format, unpack, decolorize, drop / keep
    with label names, distinct, json / logfmt with or without a label list, label_format with renames and templates, label filters
    (the predicates of parse_print_labelfilter_partial, printed with empty texts for their numeric literals)}: any
    number of stages in any order is parsed into exactly those stages in order, consuming exactly their tokens.  [chain_ok]
    asks each stage to be well-formed (regex filters compile, name lists non-empty, label_format targets pairwise distinct)
    and to be followed by something it cannot absorb: a drop / keep list must not be followed by `!=` / `!~` (the grammar
    reads `| drop a != "x"` as a drop matcher), a json / logfmt list not by an identifier, comma or `=`, and the pipeline ends
    at a token that starts neither a filter nor a stage. *)
Theorem parse_print_pipeline_partial :
  forall (anch : bytes -> bool) (re_names : bytes -> option (list bytes)) (sts : list stage) (fuel : nat) (au : bool) (acc : list stage) (p r : list token),
  chain_ok anch re_names sts r -> (fuel_needed sts < fuel)%nat ->
  parse_pipeline fuel au acc {| prev := p; rest := print_stages anch re_names sts ++ r |} =
    POk (acc ++ sts) {| prev := rev (print_stages anch re_names sts) ++ p; rest := r |}.
Proof. exact pipeline_print_lemma. Qed.
Print Assumptions parse_print_pipeline_partial.

Example pipeline_roundtrip_example :
  let anch := fun _ : bytes => true in
  let rn := fun _ : bytes => Some (@nil bytes) in
  let sts := [SLine OpRe ["x"%byte] false; SDrop [["a"%byte]; ["b"%byte]] []; SLine OpEq ["1"%byte] true; SDistinct [["c"%byte]]; SUnpack; SLine OpNotEq ["y"%byte] false;
              SJson [["k"%byte]; ["l"%byte]] []; SLogfmt [] []; SLabelFormat [(["s"%byte], ["d"%byte])] [(["e"%byte], ["t"%byte]); (["f"%byte], [])]; SDecolorize] in
  chain_ok anch rn sts [] /\
  match parse_pipeline 40 false [] {| prev := []; rest := print_stages anch rn sts |} with POk r _ => r = sts | _ => False end.
Proof.
  split; [|vm_compute; reflexivity].
  cbn. unfold follows_ok, no_comma. cbn. repeat match goal with
       | |- _ /\ _ => split
       | |- forall _, _ => intro
       | H : _ :: _ = _ :: _ |- _ => injection H as <- <-
       end; try reflexivity; try discriminate; try (left; reflexivity); try (left; discriminate);
       try (repeat constructor; cbn; intuition discriminate); try exact I.
Qed.

(** log-range expressions, the operand of every range aggregation:  {selector} stage ... stage [range] offset d  (pipeline
    before the range) and  {selector} [range] offset d : selector, stages, range and offset come back exactly, consuming
    exactly the printed tokens ([dur_tok txt ns] is a Duration token whose text the lexer's ParseDuration read as ns). *)
Theorem parse_print_logrange_partial :
  forall (anch : bytes -> bool) (re_names : bytes -> option (list bytes)) (cls : bytes -> ttype)
         (sel : list matcher) (sts : list stage) (rtxt : bytes) (rns : Z) (off : option (bytes * Z)) (p r : list token) (fuel : nat),
  Forall (wf_lmatcher anch cls) sel -> Forall (fun m => ttype_eqb (cls (m_label m)) TCloseBrace = false) sel ->
  chain_ok anch re_names sts (print_range rtxt rns off ++ r) ->
  (length sel < fuel)%nat -> (fuel_needed sts < fuel)%nat ->
  (off = None -> not_offset r) -> (sts = [] -> closes_range r) ->
  parse_range_expr fuel {| prev := p; rest := print_logrange anch re_names cls sel sts rtxt rns off ++ r |} =
    POk {| r_sel := sel; r_range := rns; r_pipe := sts; r_unwrap := None; r_offset := option_map snd off |}
        {| prev := rev (print_logrange anch re_names (fun _ => TIdent) sel sts rtxt rns off) ++ p; rest := r |}.
Proof. exact logrange_print_lemma. Qed.
Print Assumptions parse_print_logrange_partial.

Example logrange_roundtrip_example :
  let anch := fun _ : bytes => true in
  let rn := fun _ : bytes => Some (@nil bytes) in
  let sel := [ {| m_label := ["a"%byte]; m_op := OpEq; m_value := ["v"%byte] |} ] in
  let sts := [SLine OpEq ["x"%byte] false; SJson [] []] in
  match parse_range_expr 9 {| prev := []; rest := print_logrange anch rn (fun _ => TIdent) sel sts ["5"%byte; "m"%byte] 300000000000 (Some (["1"%byte; "m"%byte], 60000000000)) ++ [punct TCloseParen] |} with
  | POk lr st => r_sel lr = sel /\ r_pipe lr = sts /\ r_range lr = 300000000000 /\ r_offset lr = Some 60000000000 /\ rest st = [punct TCloseParen]
  | _ => False
  end.
Proof. vm_compute. repeat split. Qed.

(** whole queries through [parse_tokens] (logql.Parse after tokenizing, fuel and the end-of-input check included):
    every log query  {selector} stage ... stage  over the fragment is accepted and denotes exactly its selector and stages *)
Theorem log_query_parse :
  forall (anch : bytes -> bool) (re_names : bytes -> option (list bytes)) (cls : bytes -> ttype) (sel : list matcher) (sts : list stage),
  Forall (wf_lmatcher anch cls) sel -> Forall (fun m => ttype_eqb (cls (m_label m)) TCloseBrace = false) sel ->
  chain_ok anch re_names sts [] ->
  parse_tokens (print_selector anch re_names cls sel ++ print_stages anch re_names sts) = Parsed (ELog sel sts).
Proof. exact log_query_parse_lemma. Qed.
Print Assumptions log_query_parse.

(** ... and every range aggregation without unwrap  op({selector} stage ... stage [range] offset d)  with
    op in count_over_time / rate / bytes_over_time / bytes_rate / absent_over_time (what validate() admits without unwrap,
    parameter or grouping) denotes exactly that operation over that log range *)
Theorem range_agg_parse :
  forall (anch : bytes -> bool) (re_names : bytes -> option (list bytes)) (cls : bytes -> ttype) (o : rangeop)
         (sel : list matcher) (sts : list stage) (rtxt : bytes) (rns : Z) (off : option (bytes * Z)),
  range_validate o None None false = true ->
  Forall (wf_lmatcher anch cls) sel -> Forall (fun m => ttype_eqb (cls (m_label m)) TCloseBrace = false) sel ->
  chain_ok anch re_names sts (print_range rtxt rns off ++ [punct TCloseParen]) ->
  parse_tokens (print_range_agg anch re_names cls o sel sts rtxt rns off) =
    Parsed (ERange o {| r_sel := sel; r_range := rns; r_pipe := sts; r_unwrap := None; r_offset := option_map snd off |} None None).
Proof. exact range_agg_parse_lemma. Qed.
Print Assumptions range_agg_parse.

(** ... and a vector aggregation with a grouping clause over it:  sum by (a, b) (count_over_time({..} .. [5m]))  (any of
    sum avg count max min stddev stdvar, `by` or `without`, any label list) denotes exactly that aggregation, grouping and operand *)
Theorem vec_agg_parse :
  forall (anch : bytes -> bool) (re_names : bytes -> option (list bytes)) (cls : bytes -> ttype) (v : vectorop) (g : grouping) (o : rangeop)
         (sel : list matcher) (sts : list stage) (rtxt : bytes) (rns : Z) (off : option (bytes * Z)),
  vector_validate v None (Some g) = true -> range_validate o None None false = true ->
  Forall (wf_lmatcher anch cls) sel -> Forall (fun m => ttype_eqb (cls (m_label m)) TCloseBrace = false) sel ->
  chain_ok anch re_names sts (print_range rtxt rns off ++ [punct TCloseParen; punct TCloseParen]) ->
  parse_tokens (print_vec_agg anch re_names cls v g o sel sts rtxt rns off) = Parsed (EVecAgg v (range_expr o sel sts rns off) None (Some g)).
Proof. exact vec_agg_parse_lemma. Qed.
Print Assumptions vec_agg_parse.

(** ... and every range aggregation over unwrapped values
      op({selector} stage ... stage | unwrap l [range] offset d)        op(... | unwrap bytes(l) [range]) by (a, b)
    (unwrap with or without a conversion function, optional grouping after the operand; op and grouping as validate()
    admits them: [range_validate o None g true]) denotes exactly that operation, unwrap, range, offset and grouping.
    [chain_mid] is [chain_ok] without the end-of-pipeline condition: the pipeline stops in front of `| unwrap`. *)
(** ... and with a parameter:  quantile_over_time ( 0.99 , {selector} stages | unwrap conv(l) [ 5m ] ) by ( a )  -- [ptxt] is the text of the
    number token and [pv] what strconv.ParseFloat read from it *)
Theorem unwrap_agg_param_parse :
  forall (anch : bytes -> bool) (re_names : bytes -> option (list bytes)) (cls : bytes -> ttype) (o : rangeop) (ptxt : bytes) (pv : float)
         (sel : list matcher) (sts : list stage) (cv l rtxt : bytes) (rns : Z) (off : option (bytes * Z)) (g : option grouping),
  range_validate o (Some pv) g true = true ->
  Forall (wf_lmatcher anch cls) sel -> Forall (fun m => ttype_eqb (cls (m_label m)) TCloseBrace = false) sel ->
  chain_mid anch re_names sts (unwrap_tail cv l rtxt rns off (plain TCloseParen (spelling TCloseParen) :: print_opt_grouping g)) ->
  wf_unwrap cv ->
  parse_tokens (print_unwrap_agg_p anch re_names cls o ptxt pv sel sts cv l rtxt rns off g) =
    Parsed (ERange o (unwrap_lr sel sts cv l rns off) (Some pv) g).
Proof. exact unwrap_agg_param_lemma. Qed.
Print Assumptions unwrap_agg_param_parse.

Example quantile_example :
  let anch := fun _ : bytes => true in
  let rn := fun _ : bytes => Some (@nil bytes) in
  let sel := [ {| m_label := ["a"%byte]; m_op := OpEq; m_value := ["x"%byte] |} ] in
  let m5 := ["5"%byte; "m"%byte] in
  let g := Some {| g_labels := [["a"%byte]]; g_without := false |} in
  range_validate RangeOpQuantile (Some 0.5%float) g true = true /\
  parse_tokens (print_unwrap_agg_p anch rn (fun _ => TIdent) RangeOpQuantile ["0"%byte; "."%byte; "5"%byte] 0.5%float sel [SLogfmt [] []] [] ["n"%byte] m5 300000000000 None g) =
    Parsed (ERange RangeOpQuantile (unwrap_lr sel [SLogfmt [] []] [] ["n"%byte] 300000000000 None) (Some 0.5%float) g).
Proof. split; vm_compute; reflexivity. Qed.

(** one binary operation between two range aggregations, for each of the fifteen operators of metric expressions (no modifier):
    rate ( .. ) / rate ( .. ),  count_over_time ( .. ) > count_over_time ( .. ),  a and b,  a or b,  a unless b  denote
    EBin left op (empty modifier) right.  (Chains of several operators are C13's subject: precedence, and the known finding D11.) *)
Theorem bin_range_parse :
  forall (anch : bytes -> bool) (re_names : bytes -> option (list bytes)) (cls : bytes -> ttype) (op : binop) (a b : operand),
  metric_op op = true ->
  wf_operand anch re_names cls a (plain (bin_tok op) (spelling (bin_tok op)) :: print_operand anch re_names cls b) -> wf_operand anch re_names cls b [] ->
  parse_tokens (print_bin anch re_names cls op a b) = Parsed (EBin (operand_expr a) op empty_mod (operand_expr b)).
Proof. exact bin_range_parse_lemma. Qed.
Print Assumptions bin_range_parse.

Example bin_range_example :
  let anch := fun _ : bytes => true in
  let rn := fun _ : bytes => Some (@nil bytes) in
  let sel := [ {| m_label := ["a"%byte]; m_op := OpEq; m_value := ["x"%byte] |} ] in
  let m5 := ["5"%byte; "m"%byte] in
  let a := {| a_op := RangeOpRate; a_sel := sel; a_sts := [SLine OpEq ["e"%byte] false]; a_rtxt := m5; a_rns := 300000000000; a_off := None |} in
  let b := {| a_op := RangeOpCount; a_sel := sel; a_sts := []; a_rtxt := m5; a_rns := 300000000000; a_off := None |} in
  parse_tokens (print_bin anch rn (fun _ => TIdent) OpDiv a b) = Parsed (EBin (operand_expr a) OpDiv empty_mod (operand_expr b)) /\
  parse_tokens (print_bin anch rn (fun _ => TIdent) OpUnless a b) = Parsed (EBin (operand_expr a) OpUnless empty_mod (operand_expr b)).
Proof. split; vm_compute; reflexivity. Qed.

(** ... and with a modifier between the operator and the right operand:  a > bool b,  a / on (x, y) b,  a * ignoring (x) b,
    a / on (x) group_left (y, z) b,  a + ignoring (x) group_right b  and their combinations denote  EBin left op modifier right,
    the modifier node holding exactly what was written (join kind, its labels, group side, included labels, bool) *)
Theorem bin_mod_parse :
  forall (anch : bytes -> bool) (re_names : bytes -> option (list bytes)) (cls : bytes -> ttype) (op : binop) (m : msrc) (a b : operand),
  metric_op op = true ->
  wf_operand anch re_names cls a (plain (bin_tok op) (spelling (bin_tok op)) :: print_mod m ++ print_operand anch re_names cls b) -> wf_operand anch re_names cls b [] ->
  parse_tokens (print_bin_mod anch re_names cls op m a b) = Parsed (EBin (operand_expr a) op (mod_of m) (operand_expr b)).
Proof. exact bin_mod_parse_lemma. Qed.
Print Assumptions bin_mod_parse.

Example bin_mod_example :
  let anch := fun _ : bytes => true in
  let rn := fun _ : bytes => Some (@nil bytes) in
  let sel := [ {| m_label := ["a"%byte]; m_op := OpEq; m_value := ["x"%byte] |} ] in
  let m5 := ["5"%byte; "m"%byte] in
  let a := {| a_op := RangeOpRate; a_sel := sel; a_sts := [SLine OpEq ["e"%byte] false]; a_rtxt := m5; a_rns := 300000000000; a_off := None |} in
  let b := {| a_op := RangeOpCount; a_sel := sel; a_sts := []; a_rtxt := m5; a_rns := 300000000000; a_off := None |} in
  let m1 := {| ms_bool := true; ms_join := None |} in
  let m2 := {| ms_bool := false; ms_join := Some (JOn, [["x"%byte]; ["y"%byte]], Some (GLeft, [["z"%byte]])) |} in
  let m3 := {| ms_bool := true; ms_join := Some (JIgnoring, [], Some (GRight, [])) |} in
  parse_tokens (print_bin_mod anch rn (fun _ => TIdent) OpGt m1 a b) = Parsed (EBin (operand_expr a) OpGt (mod_of m1) (operand_expr b)) /\
  parse_tokens (print_bin_mod anch rn (fun _ => TIdent) OpDiv m2 a b) = Parsed (EBin (operand_expr a) OpDiv (mod_of m2) (operand_expr b)) /\
  parse_tokens (print_bin_mod anch rn (fun _ => TIdent) OpMul m3 a b) = Parsed (EBin (operand_expr a) OpMul (mod_of m3) (operand_expr b)) /\
  bm_include (mod_of m2) = [["z"%byte]] /\ bm_bool (mod_of m3) = true /\ length (print_mod m2) = 10%nat.
Proof. repeat split; vm_compute; reflexivity. Qed.

(** ... and between a range aggregation and a NUMBER, on either side:  rate ( .. ) > 0.5,  count_over_time ( .. ) * 100,
    rate ( .. ) > bool 1,  rate ( .. ) - -5,  100 * rate ( .. ).  The number is one number token ([v] is what strconv.ParseFloat read
    from its text) with an optional sign token; the tree holds  ELit (copysign v sign).  Arithmetic and comparison operators only:
    and / or / unless reject a scalar operand ([scalar_logic_rejected]). *)
Theorem bin_lit_right_parse :
  forall (anch : bytes -> bool) (re_names : bytes -> option (list bytes)) (cls : bytes -> ttype) (op : binop) (m : msrc) (a : operand)
         (sign : option bool) (txt : bytes) (v : float),
  metric_op op = true -> is_logic op = false ->
  wf_operand anch re_names cls a (plain (bin_tok op) (spelling (bin_tok op)) :: print_mod m ++ print_lit sign txt v) ->
  parse_tokens (print_bin_lit_r anch re_names cls op m a sign txt v) = Parsed (EBin (operand_expr a) op (mod_of m) (ELit (lit_val sign v))).
Proof. exact bin_lit_right_parse_lemma. Qed.
Print Assumptions bin_lit_right_parse.

Theorem bin_lit_left_parse :
  forall (anch : bytes -> bool) (re_names : bytes -> option (list bytes)) (cls : bytes -> ttype) (op : binop) (m : msrc)
         (sign : option bool) (txt : bytes) (v : float) (b : operand),
  metric_op op = true -> is_logic op = false ->
  wf_operand anch re_names cls b [] ->
  parse_tokens (print_bin_lit_l anch re_names cls op m sign txt v b) = Parsed (EBin (ELit (lit_val sign v)) op (mod_of m) (operand_expr b)).
Proof. exact bin_lit_left_parse_lemma. Qed.
Print Assumptions bin_lit_left_parse.

Theorem scalar_logic_rejected :
  forall (anch : bytes -> bool) (re_names : bytes -> option (list bytes)) (cls : bytes -> ttype) (op : binop) (m : msrc) (a : operand)
         (sign : option bool) (txt : bytes) (v : float),
  metric_op op = true -> is_logic op = true ->
  wf_operand anch re_names cls a (plain (bin_tok op) (spelling (bin_tok op)) :: print_mod m ++ print_lit sign txt v) ->
  parse_tokens (print_bin_lit_r anch re_names cls op m a sign txt v) = Rejected.
Proof. exact scalar_logic_rejected_lemma. Qed.
Print Assumptions scalar_logic_rejected.

Example bin_lit_example :
  let anch := fun _ : bytes => true in
  let rn := fun _ : bytes => Some (@nil bytes) in
  let sel := [ {| m_label := ["a"%byte]; m_op := OpEq; m_value := ["x"%byte] |} ] in
  let m5 := ["5"%byte; "m"%byte] in
  let a := {| a_op := RangeOpRate; a_sel := sel; a_sts := [SLine OpEq ["e"%byte] false]; a_rtxt := m5; a_rns := 300000000000; a_off := None |} in
  let m0 := {| ms_bool := false; ms_join := None |} in
  let mb := {| ms_bool := true; ms_join := None |} in
  let half := ["0"%byte; "."%byte; "5"%byte] in
  parse_tokens (print_bin_lit_r anch rn (fun _ => TIdent) OpGt mb a None half 0.5%float) = Parsed (EBin (operand_expr a) OpGt (mod_of mb) (ELit 0.5%float)) /\
  parse_tokens (print_bin_lit_r anch rn (fun _ => TIdent) OpSub m0 a (Some true) half 0.5%float) = Parsed (EBin (operand_expr a) OpSub empty_mod (ELit (-0.5)%float)) /\
  parse_tokens (print_bin_lit_l anch rn (fun _ => TIdent) OpMul m0 None ["1"%byte; "0"%byte; "0"%byte] 100%float a) = Parsed (EBin (ELit 100%float) OpMul empty_mod (operand_expr a)) /\
  parse_tokens (print_bin_lit_r anch rn (fun _ => TIdent) OpAnd m0 a None half 0.5%float) = Rejected /\
  length (print_bin_lit_r anch rn (fun _ => TIdent) OpGt mb a None half 0.5%float) = 16%nat.
Proof. repeat split; vm_compute; reflexivity. Qed.

(** redundant parentheses around a metric expression are kept as a ParenExpr node:  ( rate ( {..} [5m] ) )  denotes
    EParen (range aggregation)  (the correspondence compares the trees of differently parenthesised texts modulo these nodes) *)
Theorem paren_parse :
  forall (anch : bytes -> bool) (re_names : bytes -> option (list bytes)) (cls : bytes -> ttype) (a : operand),
  wf_operand anch re_names cls a [plain TCloseParen (spelling TCloseParen)] ->
  parse_tokens (print_paren anch re_names cls a) = Parsed (EParen (operand_expr a)).
Proof. exact paren_parse_lemma. Qed.
Print Assumptions paren_parse.

Example paren_example :
  let anch := fun _ : bytes => true in
  let rn := fun _ : bytes => Some (@nil bytes) in
  let sel := [ {| m_label := ["a"%byte]; m_op := OpEq; m_value := ["x"%byte] |} ] in
  let a := {| a_op := RangeOpRate; a_sel := sel; a_sts := [SLine OpEq ["e"%byte] false]; a_rtxt := ["5"%byte; "m"%byte]; a_rns := 300000000000; a_off := None |} in
  parse_tokens (print_paren anch rn (fun _ => TIdent) a) = Parsed (EParen (operand_expr a)) /\ length (print_paren anch rn (fun _ => TIdent) a) = 15%nat.
Proof. split; vm_compute; reflexivity. Qed.

(** vector aggregations with the operand directly in parentheses, with or without a leading integer parameter:
    topk ( 3 , rate ( .. ) ), bottomk ( 1 , .. ), sort ( .. ), sort_desc ( .. ), sum ( .. )  -- [k] is the parameter token's text and
    the integer strconv.Atoi read from it; validate() decides which operators take one *)
Theorem vec_param_parse :
  forall (anch : bytes -> bool) (re_names : bytes -> option (list bytes)) (cls : bytes -> ttype) (v : vectorop) (k : option (bytes * Z)) (o : rangeop)
         (sel : list matcher) (sts : list stage) (rtxt : bytes) (rns : Z) (off : option (bytes * Z)),
  vector_validate v (option_map snd k) None = true -> range_validate o None None false = true ->
  Forall (wf_lmatcher anch cls) sel -> Forall (fun m => ttype_eqb (cls (m_label m)) TCloseBrace = false) sel ->
  chain_ok anch re_names sts (print_range rtxt rns off ++ [plain TCloseParen (spelling TCloseParen); plain TCloseParen (spelling TCloseParen)]) ->
  parse_tokens (print_vec_param anch re_names cls v k o sel sts rtxt rns off) =
    Parsed (EVecAgg v (range_expr o sel sts rns off) (option_map snd k) None).
Proof. exact vec_param_parse_lemma. Qed.
Print Assumptions vec_param_parse.

Example vec_param_example :
  let anch := fun _ : bytes => true in
  let rn := fun _ : bytes => Some (@nil bytes) in
  let sel := [ {| m_label := ["a"%byte]; m_op := OpEq; m_value := ["x"%byte] |} ] in
  let m5 := ["5"%byte; "m"%byte] in
  vector_validate VectorOpTopk (Some 3) None = true /\ vector_validate VectorOpSort None None = true /\
  parse_tokens (print_vec_param anch rn (fun _ => TIdent) VectorOpTopk (Some (["3"%byte], 3)) RangeOpRate sel [] m5 300000000000 None) =
    Parsed (EVecAgg VectorOpTopk (range_expr RangeOpRate sel [] 300000000000 None) (Some 3) None) /\
  parse_tokens (print_vec_param anch rn (fun _ => TIdent) VectorOpSort None RangeOpRate sel [] m5 300000000000 None) =
    Parsed (EVecAgg VectorOpSort (range_expr RangeOpRate sel [] 300000000000 None) None None).
Proof. repeat split; vm_compute; reflexivity. Qed.

Theorem unwrap_agg_parse :
  forall (anch : bytes -> bool) (re_names : bytes -> option (list bytes)) (cls : bytes -> ttype) (o : rangeop)
         (sel : list matcher) (sts : list stage) (cv l rtxt : bytes) (rns : Z) (off : option (bytes * Z)) (g : option grouping),
  range_validate o None g true = true ->
  Forall (wf_lmatcher anch cls) sel -> Forall (fun m => ttype_eqb (cls (m_label m)) TCloseBrace = false) sel ->
  chain_mid anch re_names sts (unwrap_tail cv l rtxt rns off (punct TCloseParen :: print_opt_grouping g)) ->
  wf_unwrap cv ->
  parse_tokens (print_unwrap_agg anch re_names cls o sel sts cv l rtxt rns off g) = Parsed (ERange o (unwrap_lr sel sts cv l rns off) None g).
Proof. exact unwrap_agg_parse_lemma. Qed.
Print Assumptions unwrap_agg_parse.

Example unwrap_agg_example :
  let anch := fun _ : bytes => true in
  let rn := fun _ : bytes => Some (@nil bytes) in
  let sel := [ {| m_label := ["a"%byte]; m_op := OpEq; m_value := ["v"%byte] |} ] in
  let g := Some {| g_labels := [["h"%byte]]; g_without := false |} in
  let cv := ["b"; "y"; "t"; "e"; "s"]%byte in
  range_validate RangeOpAvg None g true = true /\ wf_unwrap cv /\
  parse_tokens (print_unwrap_agg anch rn (fun _ => TIdent) RangeOpAvg sel [SLogfmt [] []] cv ["n"%byte] ["1"%byte; "m"%byte] 60000000000 None g) =
    Parsed (ERange RangeOpAvg (unwrap_lr sel [SLogfmt [] []] cv ["n"%byte] 60000000000 None) None g).
Proof. split; [vm_compute; reflexivity|]. split; [right; vm_compute; discriminate|vm_compute; reflexivity]. Qed.

Example range_agg_example :
  let anch := fun _ : bytes => true in
  let rn := fun _ : bytes => Some (@nil bytes) in
  let sel := [ {| m_label := ["a"%byte]; m_op := OpEq; m_value := ["v"%byte] |} ] in
  range_validate RangeOpBytesRate None None false = true /\
  parse_tokens (print_range_agg anch rn (fun _ => TIdent) RangeOpBytesRate sel [SLine OpNotRe ["x"%byte] false; SLogfmt [["k"%byte]] []] ["5"%byte; "m"%byte] 300000000000 None) =
    Parsed (ERange RangeOpBytesRate {| r_sel := sel; r_range := 300000000000; r_pipe := [SLine OpNotRe ["x"%byte] false; SLogfmt [["k"%byte]] []]; r_unwrap := None; r_offset := None |} None None).
Proof. split; vm_compute; reflexivity. Qed.

(** the lexer model (Model/Lexer.v, compared with lexer.Tokenize on every run): a text written as tokens -- identifiers,
    keywords, function keywords followed by an opening parenthesis ([fun_ok]), operators / punctuation, interpreted strings --
    each followed by ANY non-empty white space (blanks, tabs, newlines, carriage returns) lexes to exactly those tokens; hence the
    layout between tokens is insignificant *)
Theorem lex_layout : forall l : list (ltok * bytes), Forall LexerP.wf_item l -> fun_ok l ->
  lex (layout l) = LexOk (map (fun p => lres (fst p)) l).
Proof. exact lex_layout_lemma. Qed.
Print Assumptions lex_layout.

Theorem lex_layout_insignificant : forall l1 l2 : list (ltok * bytes),
  Forall LexerP.wf_item l1 -> Forall LexerP.wf_item l2 -> fun_ok l1 -> fun_ok l2 -> map fst l1 = map fst l2 -> lex (layout l1) = lex (layout l2).
Proof. exact lex_layout_indep. Qed.

Example lex_layout_example :
  let sp := [" "%byte] in let nl := [x0a; x09; " "%byte] in
  let l := [(LPunct TOpenBrace ["{"%byte], sp); (LId ["a"%byte; "p"%byte; "p"%byte], nl); (LPunct TRe ["="%byte; "~"%byte], sp); (LStr ["x"%byte; """"%byte], sp);
            (LPunct TCloseBrace ["}"%byte], nl); (LPunct TPipeExact ["|"%byte; "="%byte], sp); (LFun TIP ["i"%byte; "p"%byte], nl); (open_paren, sp);
            (LStr ["1"%byte], sp); (LPunct TCloseParen [")"%byte], sp); (LPunct TPipe ["|"%byte], sp); (LWord TJSON ["j"%byte; "s"%byte; "o"%byte; "n"%byte], sp)] in
  Forall LexerP.wf_item l /\ fun_ok l /\ lex (layout l) = LexOk (map (fun p => lres (fst p)) l).
Proof.
  split; [|split; [|vm_compute; reflexivity]].
  - repeat constructor; try discriminate; vm_compute; reflexivity.
  - cbn. tauto.
Qed.

(** ... and a separator (white space, `#` comments) is needed only where two tokens would otherwise run together: [seps_ok l] asks, for
    every token written with NOTHING after it, that the next character cannot continue it ([boundary]: after an identifier or keyword no identifier
    character, after a one-character operator nothing that forms a two-character operator, comment or flag with it, after a number
    no digit / letter / underscore / dot, after a duration no unit or digit; after a string or a two-character operator anything) *)
Theorem lex_layout_tight : forall l : list (ltok * bytes), Forall (fun x => wf_ltok (fst x)) l -> seps_ok l -> fun_ok l ->
  lex (layout l) = LexOk (map (fun p => lres (fst p)) l).
Proof. exact lex_layout_tight_lemma. Qed.
Print Assumptions lex_layout_tight.

(** hence the token sequence depends on the tokens only: not on the separators -- white space and `#` comments running to the end of their
    line ([is_sep]) -- and not on the quoting style of a string: "..." with quote and backslash escaped, or a raw string `...` *)
Theorem lex_layout_content : forall l1 l2 : list (ltok * bytes),
  Forall (fun x => wf_ltok (fst x)) l1 -> Forall (fun x => wf_ltok (fst x)) l2 -> seps_ok l1 -> seps_ok l2 -> fun_ok l1 -> fun_ok l2 ->
  map (fun p => lres (fst p)) l1 = map (fun p => lres (fst p)) l2 -> lex (layout l1) = lex (layout l2).
Proof. exact LexerTightP.lex_layout_content. Qed.
Print Assumptions lex_layout_content.

(** non-vacuity:  {app="x"}|json  and the same query over three lines, with comments, a tab and a raw string *)
Example lex_layout_content_example :
  let ob := LPunct TOpenBrace ["{"%byte] in let cb := LPunct TCloseBrace ["}"%byte] in let eq := LPunct TEq ["="%byte] in
  let pipe := LPunct TPipe ["|"%byte] in let js := LWord TJSON ["j"%byte; "s"%byte; "o"%byte; "n"%byte] in let app := LId ["a"%byte; "p"%byte; "p"%byte] in
  let l1 := [(ob, []); (app, []); (eq, []); (LStr ["x"%byte], []); (cb, []); (pipe, []); (js, [])] in
  let l2 := [(ob, [" "%byte]); (app, [x09]); (eq, []); (LRaw ["x"%byte], ["#"%byte; "s"%byte; "e"%byte; "l"%byte; x0a; " "%byte]); (cb, [x0a]);
             (pipe, [" "%byte; "#"%byte; " "%byte; "|"%byte; " "%byte; "x"%byte; x0a; " "%byte]); (js, [" "%byte])] in
  Forall (fun x => wf_ltok (fst x)) l1 /\ Forall (fun x => wf_ltok (fst x)) l2 /\ seps_ok l1 /\ seps_ok l2 /\
  layout l2 = [ "{"; " "; "a"; "p"; "p"; x09; "="; "`"; "x"; "`"; "#"; "s"; "e"; "l"; x0a; " "; "}"; x0a; "|"; " "; "#"; " "; "|"; " "; "x"; x0a; " "; "j"; "s"; "o"; "n"; " " ]%byte /\
  lex (layout l1) = lex (layout l2) /\ lex (layout l1) = LexOk (map (fun p => lres (fst p)) l1).
Proof.
  cbv zeta. split; [repeat constructor; vm_compute; reflexivity|]. split; [repeat constructor; vm_compute; reflexivity|].
  split; [vm_compute; repeat split; try reflexivity; intros _; repeat split; reflexivity|].
  split; [vm_compute; repeat split; try reflexivity; try discriminate; intros _; repeat split; reflexivity|].
  split; [vm_compute; reflexivity|]. split; vm_compute; reflexivity.
Qed.

Theorem spaced_layouts_qualify : forall l : list (ltok * bytes), Forall (fun x => all_space (snd x)) l -> seps_ok l.
Proof. exact seps_spaced. Qed.

(** lexer and parser composed.  [ltok_of t] is how a parser token is written (a string literal with quote and backslash escaped, an
    identifier, a keyword or operator by its spelling); [lexable t] says that this writing is in the lexer fragment above and that
    the token carries only what the driver attaches to a lexed token ([tok_of]: string tokens receive the results of compiling
    their text).  Lexable tokens, written one after the other with any non-empty white space after each, lex back to exactly those
    tokens. *)
Theorem lex_tokens :
  forall (anch : bytes -> bool) (re_names : bytes -> option (list bytes)) (dur : bytes -> option Z) (ts : list token) (l : list (ltok * bytes)),
  map fst l = map ltok_of ts -> seps_ok l -> Forall (lexable anch re_names dur) ts -> funs_ok (map ltok_of ts) ->
  exists toks, lex (layout l) = LexOk toks /\ map (tok_of anch re_names dur) toks = ts.
Proof. exact lex_tokens_lemma. Qed.
Print Assumptions lex_tokens.

(** from the TEXT of a stream selector to its matchers: the text is `{`, then label operator value groups separated by `,`,
    then `}`, every token followed by any non-empty white space; label names are valid identifiers, possibly keywords that are
    not function names (by, json, drop, ...: [kw_cls] is the lexer's classification); values are printable bytes; regex values
    compile ([text_matcher]).  The text lexes, and the parser returns exactly the matchers. *)
Theorem selector_text_parse :
  forall (anch : bytes -> bool) (re_names : bytes -> option (list bytes)) (dur : bytes -> option Z) (ms : list matcher) (l : list (ltok * bytes)) (p r : list token) (fuel : nat),
  map fst l = map ltok_of (print_selector anch re_names kw_cls ms) -> seps_ok l ->
  Forall (text_matcher anch) ms -> (length ms < fuel)%nat ->
  exists toks, lex (layout l) = LexOk toks /\
    parse_selector fuel {| prev := p; rest := map (tok_of anch re_names dur) toks ++ r |} =
      POk ms {| prev := rev (print_selector anch re_names (fun _ => TIdent) ms) ++ p; rest := r |}.
Proof. exact selector_text_lemma. Qed.
Print Assumptions selector_text_parse.

(** ... and from the TEXT of a whole log query -- selector, then any number of stages of the PipelineP fragment (line filters
    incl. ip(..), pattern, line_format, unpack, decolorize, drop / keep / distinct / json / logfmt with label lists, label_format)
    whose label names are identifiers that are not keywords and whose strings are printable ([text_stage]) -- to its tree,
    through parse_tokens (what logql.Parse does after tokenizing) *)
Theorem log_query_text_parse :
  forall (anch : bytes -> bool) (re_names : bytes -> option (list bytes)) (dur : bytes -> option Z) (sel : list matcher) (sts : list stage) (l : list (ltok * bytes)),
  map fst l = map ltok_of (print_selector anch re_names kw_cls sel ++ print_stages anch re_names sts) ->
  seps_ok l ->
  Forall (text_matcher anch) sel -> Forall text_stage sts -> chain_ok anch re_names sts [] ->
  exists toks, lex (layout l) = LexOk toks /\ parse_tokens (map (tok_of anch re_names dur) toks) = Parsed (ELog sel sts).
Proof. exact log_query_text_lemma. Qed.
Print Assumptions log_query_text_parse.

(** ... from the TEXT of a range aggregation without unwrap  op ( {selector} stages [ 5m ] offset 1h )  -- the range and the
    offset written as digits and one unit ([text_dur]: [dur] is lexerql.ParseDuration on the token text) -- to its tree *)
Theorem range_agg_text_parse :
  forall (anch : bytes -> bool) (re_names : bytes -> option (list bytes)) (dur : bytes -> option Z)
         (o : rangeop) (sel : list matcher) (sts : list stage) (rtxt : bytes) (rns : Z) (off : option (bytes * Z)) (l : list (ltok * bytes)),
  map fst l = map ltok_of (print_range_agg anch re_names kw_cls o sel sts rtxt rns off) ->
  seps_ok l ->
  range_validate o None None false = true ->
  Forall (text_matcher anch) sel -> Forall text_stage sts -> chain_ok anch re_names sts (print_range rtxt rns off ++ [plain TCloseParen (spelling TCloseParen)]) ->
  text_dur dur rtxt rns -> text_offset dur off ->
  exists toks, lex (layout l) = LexOk toks /\
    parse_tokens (map (tok_of anch re_names dur) toks) =
      Parsed (ERange o {| r_sel := sel; r_range := rns; r_pipe := sts; r_unwrap := None; r_offset := option_map snd off |} None None).
Proof. exact range_agg_text_lemma. Qed.
Print Assumptions range_agg_text_parse.

(** ... and of a grouped vector aggregation over it:  sum by ( a , b ) ( rate ( {selector} stages [ 5m ] ) )  (the function keyword
    keeps its type because by / without follows) *)
Theorem vec_agg_text_parse :
  forall (anch : bytes -> bool) (re_names : bytes -> option (list bytes)) (dur : bytes -> option Z)
         (v : vectorop) (g : grouping) (o : rangeop) (sel : list matcher) (sts : list stage) (rtxt : bytes) (rns : Z) (off : option (bytes * Z)) (l : list (ltok * bytes)),
  map fst l = map ltok_of (print_vec_agg anch re_names kw_cls v g o sel sts rtxt rns off) ->
  seps_ok l ->
  vector_validate v None (Some g) = true -> range_validate o None None false = true -> text_names (g_labels g) ->
  Forall (text_matcher anch) sel -> Forall text_stage sts ->
  chain_ok anch re_names sts (print_range rtxt rns off ++ [plain TCloseParen (spelling TCloseParen); plain TCloseParen (spelling TCloseParen)]) ->
  text_dur dur rtxt rns -> text_offset dur off ->
  exists toks, lex (layout l) = LexOk toks /\
    parse_tokens (map (tok_of anch re_names dur) toks) = Parsed (EVecAgg v (range_expr o sel sts rns off) None (Some g)).
Proof. exact vec_agg_text_lemma. Qed.
Print Assumptions vec_agg_text_parse.

(** ... and of an unwrapped range aggregation:  max_over_time ( {selector} stages | unwrap bytes ( n ) [ 5m ] ) by ( a )  (the conversion
    function keeps its type because the parenthesis follows) *)
Theorem unwrap_agg_text_parse :
  forall (anch : bytes -> bool) (re_names : bytes -> option (list bytes)) (dur : bytes -> option Z)
         (o : rangeop) (sel : list matcher) (sts : list stage) (cv lb rtxt : bytes) (rns : Z) (off : option (bytes * Z)) (g : option grouping)
         (l : list (ltok * bytes)),
  map fst l = map ltok_of (print_unwrap_agg anch re_names kw_cls o sel sts cv lb rtxt rns off g) ->
  seps_ok l ->
  range_validate o None g true = true ->
  Forall (text_matcher anch) sel -> Forall text_stage sts ->
  chain_mid anch re_names sts (unwrap_tail cv lb rtxt rns off (plain TCloseParen (spelling TCloseParen) :: print_opt_grouping g)) ->
  wf_unwrap cv -> text_name lb -> text_dur dur rtxt rns -> text_offset dur off ->
  match g with Some g0 => text_names (g_labels g0) | None => True end ->
  exists toks, lex (layout l) = LexOk toks /\
    parse_tokens (map (tok_of anch re_names dur) toks) = Parsed (ERange o (unwrap_lr sel sts cv lb rns off) None g).
Proof. exact unwrap_agg_text_lemma. Qed.
Print Assumptions unwrap_agg_text_parse.

(** ... and of ONE binary operation between two range aggregations, with or without a modifier:
    rate({..}[5m]) / on (x) group_left (y) rate({..}[5m]),  count_over_time(..) > bool count_over_time(..),  a unless b
    ([text_mod]: the labels a modifier lists are names that are not keywords; the empty modifier is  ms_bool = false, ms_join = None) *)
Theorem bin_op_text_parse :
  forall (anch : bytes -> bool) (re_names : bytes -> option (list bytes)) (dur : bytes -> option Z)
         (op : binop) (m : msrc) (a b : operand) (l : list (ltok * bytes)),
  map fst l = map ltok_of (print_bin_mod anch re_names kw_cls op m a b) ->
  seps_ok l ->
  metric_op op = true -> text_mod m ->
  text_operand anch re_names dur a (plain (bin_tok op) (spelling (bin_tok op)) :: print_mod m ++ print_operand anch re_names kw_cls b) ->
  text_operand anch re_names dur b [] ->
  exists toks, lex (layout l) = LexOk toks /\
    parse_tokens (map (tok_of anch re_names dur) toks) = Parsed (EBin (operand_expr a) op (mod_of m) (operand_expr b)).
Proof. exact bin_mod_text_lemma. Qed.
Print Assumptions bin_op_text_parse.

(** non-vacuity:  rate ( { app = "x" } [ 5m ] ) / on ( x ) group_left ( y ) count_over_time ( { app = "x" } [ 5m ] )  written with one
    space after every token *)
Example bin_op_text_example :
  let anch := fun _ : bytes => true in
  let rn := fun _ : bytes => Some (@nil bytes) in
  let m5 := ["5"%byte; "m"%byte] in
  let dur := fun t : bytes => if bytes_eqb t m5 then Some 300000000000 else None in
  let sel := [ {| m_label := ["a"%byte; "p"%byte; "p"%byte]; m_op := OpEq; m_value := ["x"%byte] |} ] in
  let a := {| a_op := RangeOpRate; a_sel := sel; a_sts := []; a_rtxt := m5; a_rns := 300000000000; a_off := None |} in
  let b := {| a_op := RangeOpCount; a_sel := sel; a_sts := []; a_rtxt := m5; a_rns := 300000000000; a_off := None |} in
  let m := {| ms_bool := false; ms_join := Some (JOn, [["x"%byte]], Some (GLeft, [["y"%byte]])) |} in
  let toks := print_bin_mod anch rn kw_cls OpDiv m a b in
  let l := map (fun t => (ltok_of t, [" "%byte])) toks in
  map fst l = map ltok_of toks /\ seps_ok l /\ text_mod m /\
  firstn 12 (layout l) = [ "r"; "a"; "t"; "e"; " "; "("; " "; "{"; " "; "a"; "p"; "p" ]%byte /\
  match lex (layout l) with
  | LexOk lexed => parse_tokens (map (tok_of anch rn dur) lexed) = Parsed (EBin (operand_expr a) OpDiv (mod_of m) (operand_expr b))
  | _ => False
  end.
Proof.
  cbv zeta. split; [vm_compute; reflexivity|]. split; [vm_compute; repeat constructor; discriminate|].
  split; [split; repeat constructor; vm_compute; reflexivity|]. split; vm_compute; reflexivity.
Qed.

(** non-vacuity, written without white space:  max_over_time({app="x"}|unwrap bytes(n)[5m])by(a) *)
Example unwrap_agg_text_example :
  let anch := fun _ : bytes => true in
  let rn := fun _ : bytes => Some (@nil bytes) in
  let m5 := ["5"%byte; "m"%byte] in
  let dur := fun t : bytes => if bytes_eqb t m5 then Some 300000000000 else None in
  let sel := [ {| m_label := ["a"%byte; "p"%byte; "p"%byte]; m_op := OpEq; m_value := ["x"%byte] |} ] in
  let cv := ["b"; "y"; "t"; "e"; "s"]%byte in
  let g := Some {| g_labels := [["a"%byte]]; g_without := false |} in
  let toks := print_unwrap_agg anch rn kw_cls RangeOpMax sel [] cv ["n"%byte] m5 300000000000 None g in
  let l := map (fun t => (ltok_of t, if ttype_eqb (ty t) TUnwrap then [" "%byte] else [])) toks in
  seps_ok l /\ wf_unwrap cv /\ text_name ["n"%byte] /\
  layout l = [ "m"; "a"; "x"; "_"; "o"; "v"; "e"; "r"; "_"; "t"; "i"; "m"; "e"; "("; "{"; "a"; "p"; "p"; "="; """"; "x"; """"; "}"; "|"; "u"; "n"; "w"; "r"; "a"; "p"; " ";
               "b"; "y"; "t"; "e"; "s"; "("; "n"; ")"; "["; "5"; "m"; "]"; ")"; "b"; "y"; "("; "a"; ")" ]%byte /\
  match lex (layout l) with
  | LexOk lexed => parse_tokens (map (tok_of anch rn dur) lexed) = Parsed (ERange RangeOpMax (unwrap_lr sel [] cv ["n"%byte] 300000000000 None) None g)
  | _ => False
  end.
Proof.
  cbv zeta. split; [vm_compute; repeat split; try reflexivity; try discriminate; intros _; repeat split; reflexivity|].
  split; [right; discriminate|]. split; [split; reflexivity|]. split; vm_compute; reflexivity.
Qed.

(** non-vacuity: the text of  sum without ( a , b ) ( rate ( { app = "x" } != "y" [ 5m ] offset 1h ) ) *)
Example vec_agg_text_example :
  let anch := fun _ : bytes => true in
  let rn := fun _ : bytes => Some (@nil bytes) in
  let m5 := ["5"%byte; "m"%byte] in let h1 := ["1"%byte; "h"%byte] in
  let dur := fun t : bytes => if bytes_eqb t m5 then Some 300000000000 else if bytes_eqb t h1 then Some 3600000000000 else None in
  let sel := [ {| m_label := ["a"%byte; "p"%byte; "p"%byte]; m_op := OpEq; m_value := ["x"%byte] |} ] in
  let sts := [SLine OpNotEq ["y"%byte] false] in
  let g := {| g_labels := [["a"%byte]; ["b"%byte]]; g_without := true |} in
  let off := Some (h1, 3600000000000) in
  let toks := print_vec_agg anch rn kw_cls VectorOpSum g RangeOpRate sel sts m5 300000000000 off in
  let l := map (fun t => (ltok_of t, if ttype_eqb (ty t) TComma then [x0a; x09] else [" "%byte])) toks in
  map fst l = map ltok_of toks /\ seps_ok l /\ Forall (text_matcher anch) sel /\ Forall text_stage sts /\
  text_names (g_labels g) /\ text_dur dur m5 300000000000 /\ text_offset dur off /\
  firstn 16 (layout l) = [ "s"; "u"; "m"; " "; "w"; "i"; "t"; "h"; "o"; "u"; "t"; " "; "("; " "; "a"; " " ]%byte /\
  match lex (layout l) with
  | LexOk lexed => parse_tokens (map (tok_of anch rn dur) lexed) =
                   Parsed (EVecAgg VectorOpSum (range_expr RangeOpRate sel sts 300000000000 off) None (Some g))
  | _ => False
  end.
Proof.
  cbv zeta. split; [vm_compute; reflexivity|]. split; [|split; [|split; [|split; [|split; [|split; [|split; vm_compute; reflexivity]]]]]].
  - vm_compute. repeat constructor; discriminate.
  - repeat constructor; vm_compute; reflexivity.
  - repeat constructor; vm_compute; reflexivity.
  - repeat constructor; vm_compute; reflexivity.
  - split; [vm_compute; reflexivity|]. vm_compute. repeat split; try reflexivity; try lia. tauto.
  - split; [vm_compute; reflexivity|]. vm_compute. repeat split; try reflexivity; try lia. tauto.
Qed.

(** non-vacuity: a selector with the keyword label names by and json (one value holding an escaped quote), then an ip filter,
    drop a , b and a label_format with a rename and a template, with a newline and a tab among the separators: the hypotheses hold, the layout is that text, and lexing then parsing it
    gives the tree *)
Example log_query_text_example :
  let anch := fun _ : bytes => true in
  let rn := fun _ : bytes => Some (@nil bytes) in
  let sel := [ {| m_label := ["b"%byte; "y"%byte]; m_op := OpEq; m_value := ["v"%byte; """"%byte] |};
               {| m_label := ["j"%byte; "s"%byte; "o"%byte; "n"%byte]; m_op := OpNotRe; m_value := ["x"%byte] |} ] in
  let sts := [SLine OpEq ["1"%byte] true; SDrop [["a"%byte]; ["b"%byte]] []; SLabelFormat [(["d"%byte], ["c"%byte])] [(["e"%byte], ["t"%byte])]] in
  let toks := print_selector anch rn kw_cls sel ++ print_stages anch rn sts in
  let l := map (fun t => (ltok_of t, if ttype_eqb (ty t) TComma then [x0a; x09] else [" "%byte])) toks in
  map fst l = map ltok_of toks /\ seps_ok l /\ Forall (text_matcher anch) sel /\ Forall text_stage sts /\
  chain_ok anch rn sts [] /\
  firstn 14 (layout l) = [ "{"; " "; "b"; "y"; " "; "="; " "; """"; "v"; "\"; """"; """"; " "; "," ]%byte /\
  match lex (layout l) with
  | LexOk lexed => parse_tokens (map (tok_of anch rn (fun _ => None)) lexed) = Parsed (ELog sel sts)
  | _ => False
  end.
Proof.
  cbv zeta. split; [vm_compute; reflexivity|]. split; [|split; [|split; [|split; [|split; vm_compute; reflexivity]]]].
  - vm_compute. repeat constructor; discriminate.
  - repeat constructor; vm_compute; reflexivity.
  - repeat constructor; vm_compute; reflexivity.
  - cbn. unfold follows_ok, no_comma. cbn. repeat match goal with
       | |- _ /\ _ => split
       | |- forall _, _ => intro
       | H : _ :: _ = _ :: _ |- _ => injection H as <- <-
       | |- NoDup _ => constructor
       | |- ~ _ => cbn; intuition discriminate
       | |- _ <> _ => discriminate
       end; try reflexivity; try exact I.
  all: try (left; reflexivity).
  all: try (left; discriminate).
Qed.

(** non-vacuity for layouts WITHOUT white space: the texts  {app="x",env=~"p"}|="err"|json|a="1"and b!="2"or c==ip("9")  and
    sum by(a)(rate({app="x"}[5m]))  (one blank, after sum) satisfy the hypotheses and denote their trees *)
Example tight_text_example :
  let anch := fun _ : bytes => true in
  let rn := fun _ : bytes => Some (@nil bytes) in
  let m5 := ["5"%byte; "m"%byte] in
  let dur := fun t : bytes => if bytes_eqb t m5 then Some 300000000000 else None in
  let app := ["a"%byte; "p"%byte; "p"%byte] in let env := ["e"%byte; "n"%byte; "v"%byte] in
  let sel2 := [ {| m_label := app; m_op := OpEq; m_value := ["x"%byte] |}; {| m_label := env; m_op := OpRe; m_value := ["p"%byte] |} ] in
  let fa := PMatch {| m_label := ["a"%byte]; m_op := OpEq; m_value := ["1"%byte] |} in
  let fb := PMatch {| m_label := ["b"%byte]; m_op := OpNotEq; m_value := ["2"%byte] |} in
  let fc := PIP ["c"%byte] OpEq ["9"%byte] in
  let sts := [SLine OpEq ["e"%byte; "r"%byte; "r"%byte] false; SJson [] []; SLabelFilter (PBin (PBin fa OpAnd fb) OpOr fc)] in
  let toks1 := print_selector anch rn kw_cls sel2 ++ print_stages anch rn sts in
  let l1 := map (fun t => (ltok_of t, if ttype_eqb (ty t) TAnd || ttype_eqb (ty t) TOr then [" "%byte] else
                                       match toks1 with _ => @nil byte end)) toks1 in
  let sel1 := [ {| m_label := app; m_op := OpEq; m_value := ["x"%byte] |} ] in
  let g := {| g_labels := [["a"%byte]]; g_without := false |} in
  let toks2 := print_vec_agg anch rn kw_cls VectorOpSum g RangeOpRate sel1 [] m5 300000000000 None in
  let l2 := map (fun t => (ltok_of t, if ttype_eqb (ty t) TSum then [" "%byte] else [])) toks2 in
  (seps_ok l1 /\
   firstn 30 (layout l1) = [ "{"; "a"; "p"; "p"; "="; """"; "x"; """"; ","; "e"; "n"; "v"; "="; "~"; """"; "p"; """"; "}"; "|"; "="; """"; "e"; "r"; "r"; """"; "|"; "j"; "s"; "o"; "n" ]%byte /\
   skipn 30 (layout l1) = [ "|"; "a"; "="; """"; "1"; """"; "a"; "n"; "d"; " "; "b"; "!"; "="; """"; "2"; """"; "o"; "r"; " "; "c"; "="; "="; "i"; "p"; "("; """"; "9"; """"; ")" ]%byte /\
   match lex (layout l1) with LexOk lexed => parse_tokens (map (tok_of anch rn dur) lexed) = Parsed (ELog sel2 sts) | _ => False end) /\
  (seps_ok l2 /\
   layout l2 = [ "s"; "u"; "m"; " "; "b"; "y"; "("; "a"; ")"; "("; "r"; "a"; "t"; "e"; "("; "{"; "a"; "p"; "p"; "="; """"; "x"; """"; "}"; "["; "5"; "m"; "]"; ")"; ")" ]%byte /\
   match lex (layout l2) with
   | LexOk lexed => parse_tokens (map (tok_of anch rn dur) lexed) = Parsed (EVecAgg VectorOpSum (range_expr RangeOpRate sel1 [] 300000000000 None) None (Some g))
   | _ => False end).
Proof.
  cbv zeta. split.
  - split; [|split; [|split]; vm_compute; reflexivity]. vm_compute. repeat split; try reflexivity; try discriminate; intros _; repeat split; reflexivity.
  - split; [|split; vm_compute; reflexivity]. vm_compute. repeat split; try reflexivity; try discriminate; intros _; repeat split; reflexivity.
Qed.

(** static rules *)
Theorem rule_parameter_only_for_quantile : forall op p g u,
  rangeop_code op <> rangeop_code RangeOpQuantile -> range_validate op (Some p) g u = false.
Proof. exact range_param_only_quantile. Qed.

Theorem rule_quantile_needs_parameter : forall g u, range_validate RangeOpQuantile None g u = false.
Proof. exact range_quantile_needs_param. Qed.

Theorem rule_range_grouping : forall op p g u, range_validate op p (Some g) u = true ->
  In op [RangeOpAvg; RangeOpStddev; RangeOpStdvar; RangeOpQuantile; RangeOpMax; RangeOpMin; RangeOpFirst; RangeOpLast].
Proof. exact range_grouping_rule. Qed.

Theorem rule_unwrap_required : forall op p g, range_validate op p g false = true ->
  In op [RangeOpBytes; RangeOpBytesRate; RangeOpCount; RangeOpRate; RangeOpAbsent].
Proof. exact range_unwrap_required. Qed.

Theorem rule_unwrap_forbidden : forall op p g, range_validate op p g true = true ->
  ~ In op [RangeOpBytes; RangeOpBytesRate; RangeOpCount].
Proof. exact range_unwrap_forbidden. Qed.

Theorem rule_topk_parameter : forall op k g, vector_validate op k g = true ->
  (In op [VectorOpTopk; VectorOpBottomk] -> exists v, k = Some v /\ 0 < v) /\
  (~ In op [VectorOpTopk; VectorOpBottomk] -> k = None).
Proof. exact vector_k_rule. Qed.

Theorem rule_sort_no_grouping : forall op k g, In op [VectorOpSort; VectorOpSortDesc] -> vector_validate op k (Some g) = false.
Proof. exact vector_sort_no_grouping. Qed.

Print Assumptions rule_parameter_only_for_quantile.
Print Assumptions rule_range_grouping.
Print Assumptions rule_unwrap_required.
Print Assumptions rule_unwrap_forbidden.
Print Assumptions rule_topk_parameter.
Print Assumptions rule_sort_no_grouping.

(** non-vacuity: the token list of  {a="b"} |= "x" | c > 5  parses to the denoted tree; a duplicate
    label_format target and an unwrap in a log query are rejected *)
Definition T (t : ttype) (s : bytes) : token :=
  {| ty := t; text := s; v_float := None; v_int := None; v_dur := None; v_bytes := None; v_re := None; v_re_anch := false |}.
Example parse_example :
  parse_tokens [T TOpenBrace []; T TIdent ["a"%byte]; T TEq []; T TString ["b"%byte]; T TCloseBrace [];
                T TPipeExact []; T TString ["x"%byte]; T TPipe []; T TIdent ["c"%byte]; T TGt [];
                {| ty := TNumber; text := ["5"%byte]; v_float := Some (float_of_Z 5); v_int := Some 5; v_dur := None; v_bytes := None; v_re := None; v_re_anch := false |}]
  = Parsed (ELog [{| m_label := ["a"%byte]; m_op := OpEq; m_value := ["b"%byte] |}]
                 [SLine OpEq ["x"%byte] false; SLabelFilter (PNum ["c"%byte] OpGt (float_of_Z 5))])
  /\ parse_tokens [T TOpenBrace []; T TCloseBrace []; T TPipe []; T TLabelFormat []; T TIdent ["x"%byte]; T TEq []; T TIdent ["y"%byte];
                   T TComma []; T TIdent ["x"%byte]; T TEq []; T TIdent ["z"%byte]] = Rejected
  /\ parse_tokens [T TOpenBrace []; T TCloseBrace []; T TPipe []; T TUnwrap []; T TIdent ["x"%byte]] = Rejected.
Proof. repeat split; vm_compute; reflexivity. Qed.
