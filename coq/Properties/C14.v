(** C14 -- Failures surface as errors and every opened log reader is closed.  Statements only (proofs:
    Proofs/DockerP.v; the stream-level "a fault is an error, never a clean end" theorems are C03's). *)
From LogQLV Require Import Base.Bytes Base.LMap Model.Tables Model.Frames Model.Stages Model.Engine Model.Metric Model.Docker Proofs.DockerP Proofs.FaultP.
From Coq Require Import Permutation.

(** for every query shape (one selection, aggregations over it, binary operations over sub-expressions, nested
    arbitrarily), whether listing fails, whichever opens fail: the readers closed by the time evaluation returns are
    exactly the readers that were opened (as multisets; on the failure path of a binary operation the left operand's
    readers are closed after the right operand's) *)
Theorem all_closed : forall lf inv s, Permutation (closed (eval_ledger lf inv s)) (opened (eval_ledger lf inv s)).
Proof. exact all_closed_lemma. Qed.
Print Assumptions all_closed.

(** before D13 the metric path closed nothing *)
Theorem prefix_ledger_refuted : exists inv s, opened (eval_ledger_prefix false inv s) <> [] /\ closed (eval_ledger_prefix false inv s) = [].
Proof. exact DockerP.prefix_ledger_refuted. Qed.

(** a failing container listing, or a failing open of any selected container, is an error *)
Theorem list_failure_is_error : forall o inv q lim, docker_log o true inv q lim = DErr.
Proof. exact DockerP.list_failure_is_error. Qed.
Theorem open_failure_is_error : forall o inv q lim, open_fails (selected (q_sel q) inv) = true -> docker_log o false inv q lim = DErr.
Proof. exact DockerP.open_failure_is_error. Qed.
Print Assumptions open_failure_is_error.

(** a faulty stream in any selected container makes an unlimited log query an error -- never a shortened result.
    [snd (decode_ctr c) = true] is exactly "the stream of c does not end cleanly": cut inside a frame body, daemon error
    frame, malformed timestamp, frame without a space, failing reader at any position (the C03 theorems say which streams
    those are).  The proof follows the iterator protocol call by call: the single-container stream, or mergeIter with its
    one-record read-ahead per container, sticky stream errors, and the engine's loop that asks the storage before it looks at the limit. *)
Theorem stream_fault_is_error : forall o inv q lim,
  lim <= 0 -> existsb (fun c => snd (decode_ctr c)) (selected (q_sel q) inv) = true ->
  forall es, docker_log o false inv q lim <> DOk es.
Proof. exact stream_fault_is_error_lemma. Qed.
Print Assumptions stream_fault_is_error.

Example c14_nonvacuous :
  let inv := [mk_ctr ["a"%byte]; mkctr ["b"%byte] [["b"%byte]] [] [] [] 0 [] [] [] [] true] in
  opened (eval_ledger false inv (ShBin (ShSel [mk_m ["c";"o";"n";"t";"a";"i";"n";"e";"r"]%byte OpEq ["a"%byte]]) (ShSel []))) = [["a"%byte]; ["a"%byte]] /\
  closed (eval_ledger false inv (ShBin (ShSel [mk_m ["c";"o";"n";"t";"a";"i";"n";"e";"r"]%byte OpEq ["a"%byte]]) (ShSel []))) = [["a"%byte]; ["a"%byte]].
Proof. vm_compute. split; reflexivity. Qed.
