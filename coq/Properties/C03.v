(** C03 — Docker log streams are decoded without loss or alteration.
    Statements only; proofs in Proofs/FramesP.v.

    [parse_ts]/[fmt_ts] stand for time.Parse / time.Format with RFC3339Nano (library oracle);
    the two hypotheses are exactly what the theorems need from the library.
    [frag cuts b] ranges over every way of cutting the byte string [b] into successive reads. *)
From LogQLV Require Import Base.Bytes Model.Frames Proofs.FramesP.

Section C03.
  Variable parse_ts : bytes -> option Z.
  Variable fmt_ts : Z -> bytes.
  Hypothesis fmt_parse : forall t, parse_ts (fmt_ts t) = Some t.
  Hypothesis fmt_no_space : forall t, ~ In space (fmt_ts t).

  Let ok := ok_rec fmt_ts.   (* frame type is not the daemon-error type; payload length fits 32 bits *)

  (** any record sequence (any message bytes, any timestamp), any fragmentation: decoded into exactly
      those records, in order, nanosecond- and byte-exact, ending cleanly *)
  Theorem decode_encode : forall rs cuts,
    Forall ok rs ->
    decode parse_ts (frag cuts (encode fmt_ts rs) ++ [Eof]) = (map e_rec rs, CleanEnd).
  Proof.
    intros rs cuts Hok. apply (decode_encode_lemma parse_ts fmt_ts fmt_parse fmt_no_space rs); [exact Hok|].
    rewrite flat_frag_app. cbn. rewrite app_nil_r. reflexivity.
  Qed.

  (** the decoder depends only on the byte stream and how it ends, never on the read boundaries *)
  Theorem decode_frag_indep : forall b cuts1 cuts2 tl,
    decode parse_ts (frag cuts1 b ++ tl) = decode parse_ts (frag cuts2 b ++ tl).
  Proof. intros. apply decode_indep_lemma. rewrite !flat_frag_app. reflexivity. Qed.

  (** cut inside a frame header (0..7 bytes of the next frame present): clean end after the whole records *)
  Theorem cut_in_header : forall rs h cuts,
    Forall ok rs -> (length h < 8)%nat ->
    decode parse_ts (frag cuts (encode fmt_ts rs ++ h) ++ [Eof]) = (map e_rec rs, CleanEnd).
  Proof.
    intros rs h cuts Hok Hh. apply (cut_in_header_lemma parse_ts fmt_ts fmt_parse fmt_no_space rs h); auto.
    rewrite flat_frag_app. cbn. rewrite app_nil_r. reflexivity.
  Qed.

  (** cut inside a frame body (header complete, fewer body bytes than announced): error, never clean *)
  Theorem cut_in_body : forall rs typ x1 x2 x3 n part cuts,
    Forall ok rs -> 0 <= n < 4294967296 -> Z.of_nat (length part) < n ->
    decode parse_ts (frag cuts (encode fmt_ts rs ++ ([typ; x1; x2; x3] ++ enc32 n ++ part)) ++ [Eof])
      = (map e_rec rs, ErrBody).
  Proof.
    intros rs typ x1 x2 x3 n part cuts Hok Hn Hp.
    apply (cut_in_body_lemma parse_ts fmt_ts fmt_parse fmt_no_space rs typ x1 x2 x3 n part REof); auto.
    rewrite flat_frag_app. cbn. rewrite app_nil_r. reflexivity.
  Qed.

  (** a read failure at any position: inside/between headers -> "read header" error, inside a body ->
      "read message" error; in both cases exactly the whole records before it were delivered *)
  Theorem reader_failure_header : forall rs h cuts tl,
    Forall ok rs -> (length h < 8)%nat ->
    decode parse_ts (frag cuts (encode fmt_ts rs ++ h) ++ Fail :: tl) = (map e_rec rs, ErrHeader).
  Proof.
    intros rs h cuts tl Hok Hh. apply (fail_in_header_lemma parse_ts fmt_ts fmt_parse fmt_no_space rs h); auto.
    rewrite flat_frag_app. cbn. rewrite app_nil_r. reflexivity.
  Qed.

  Theorem reader_failure_body : forall rs typ x1 x2 x3 n part cuts tl,
    Forall ok rs -> 0 <= n < 4294967296 -> Z.of_nat (length part) < n ->
    decode parse_ts (frag cuts (encode fmt_ts rs ++ ([typ; x1; x2; x3] ++ enc32 n ++ part)) ++ Fail :: tl)
      = (map e_rec rs, ErrBody).
  Proof.
    intros rs typ x1 x2 x3 n part cuts tl Hok Hn Hp.
    apply (cut_in_body_lemma parse_ts fmt_ts fmt_parse fmt_no_space rs typ x1 x2 x3 n part RFail); auto.
    rewrite flat_frag_app. cbn. rewrite app_nil_r. reflexivity.
  Qed.

  (** a daemon error frame at any position: error after exactly the records before it *)
  Theorem daemon_error_frame : forall rs payload rest cuts tl,
    Forall ok rs -> Z.of_nat (length payload) < 4294967296 ->
    decode parse_ts (frag cuts (encode fmt_ts rs ++ (encode_frame x03 payload ++ rest)) ++ tl)
      = (map e_rec rs, ErrDaemon).
  Proof.
    intros rs payload rest cuts tl Hok Hsz.
    apply (bad_frame_lemma parse_ts fmt_ts fmt_parse fmt_no_space rs x03 payload ErrDaemon
             (rest ++ fst (flat tl)) (snd (flat tl))); auto.
    rewrite flat_frag_app. rewrite <- !app_assoc. reflexivity.
  Qed.

  (** a frame whose timestamp does not parse: error, never dropped *)
  Theorem bad_timestamp : forall rs typ raw line rest cuts tl,
    Forall ok rs -> bz typ <> 3 -> ~ In space raw -> parse_ts raw = None ->
    Z.of_nat (length (raw ++ space :: line)) < 4294967296 ->
    decode parse_ts (frag cuts (encode fmt_ts rs ++ (encode_frame typ (raw ++ space :: line) ++ rest)) ++ tl)
      = (map e_rec rs, ErrTimestamp).
  Proof.
    intros rs typ raw line rest cuts tl Hok Ht Hsp Hp Hsz.
    apply (bad_frame_lemma parse_ts fmt_ts fmt_parse fmt_no_space rs typ (raw ++ space :: line) ErrTimestamp
             (rest ++ fst (flat tl)) (snd (flat tl))); auto.
    - unfold frame_outcome. destruct (bz typ =? 3) eqn:E; [apply Z.eqb_eq in E; contradiction|].
      unfold parse_line. rewrite (cut_space_app raw line Hsp), Hp. reflexivity.
    - rewrite flat_frag_app. rewrite <- !app_assoc. reflexivity.
  Qed.

  (** a frame without a space between timestamp and message: error *)
  Theorem no_space : forall rs typ payload rest cuts tl,
    Forall ok rs -> bz typ <> 3 -> ~ In space payload ->
    Z.of_nat (length payload) < 4294967296 ->
    decode parse_ts (frag cuts (encode fmt_ts rs ++ (encode_frame typ payload ++ rest)) ++ tl)
      = (map e_rec rs, ErrNoSpace).
  Proof.
    intros rs typ payload rest cuts tl Hok Ht Hsp Hsz.
    apply (bad_frame_lemma parse_ts fmt_ts fmt_parse fmt_no_space rs typ payload ErrNoSpace
             (rest ++ fst (flat tl)) (snd (flat tl))); auto.
    - unfold frame_outcome. destruct (bz typ =? 3) eqn:E; [apply Z.eqb_eq in E; contradiction|].
      unfold parse_line.
      assert (cut_space payload = None) as ->; [|reflexivity].
      clear -Hsp. induction payload as [|b t IH]; [reflexivity|]. cbn.
      destruct (byte_eqb b space) eqn:E.
      + apply byte_eqb_eq in E. subst. exfalso. apply Hsp. left. reflexivity.
      + rewrite IH; [reflexivity|]. intro H. apply Hsp. right. exact H.
    - rewrite flat_frag_app. rewrite <- !app_assoc. reflexivity.
  Qed.
End C03.

Print Assumptions decode_encode.
Print Assumptions decode_frag_indep.
Print Assumptions cut_in_header.
Print Assumptions cut_in_body.
Print Assumptions reader_failure_header.
Print Assumptions reader_failure_body.
Print Assumptions daemon_error_frame.
Print Assumptions bad_timestamp.
Print Assumptions no_space.

(** non-vacuity: the executable oracle instance of Base/TimeFmt.v on a concrete two-record stream with
    spaces, a newline and a 0xff byte, cut into reads of 3, 5 and 1 bytes *)
From LogQLV Require Import Base.TimeFmt.
Example decode_example :
  let rs := [ {| e_typ := x01; e_rec := {| f_ts := 1700000000123456789; f_line := [" "; "a"; xff; x0a]%byte |} |};
              {| e_typ := x02; e_rec := {| f_ts := -5; f_line := [] |} |} ] in
  decode TimeFmt.parse_ts (frag [3; 5; 1]%nat (encode TimeFmt.fmt_ts rs) ++ [Eof]) = (map e_rec rs, CleanEnd)
  /\ Forall (ok_rec TimeFmt.fmt_ts) rs.
Proof. split; [vm_compute; reflexivity|]. repeat constructor; vm_compute; congruence. Qed.
