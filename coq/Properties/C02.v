(** C02 -- Selectors pick exactly the matching containers; lines keep their origin.  Statements only (proofs:
    Proofs/DockerP.v). *)
From LogQLV Require Import Base.Bytes Base.LMap Base.Regex Model.Tables Model.Syntax Model.Frames Model.Stages Model.Engine Model.Docker Proofs.DockerP.

(** the containers whose logs are read are exactly those whose labels satisfy every selector matcher *)
Theorem select_exact : forall sel inv c,
  In c (selected sel inv) <-> In c inv /\ forall m, In m sel -> sel_ok (get_labels c) m = true.
Proof. exact select_exact_lemma. Qed.
Print Assumptions select_exact.

(** = and != are exact (in)equality, =~ and !~ fully anchored regular-expression (non-)match on the label's value *)
Theorem matcher_sem : forall c m,
  sel_ok (get_labels c) m =
  match sm_op (em_m m) with
  | OpEq => bytes_eqb (label_value c (em_label m)) (sm_value (em_m m))
  | OpNotEq => negb (bytes_eqb (label_value c (em_label m)) (sm_value (em_m m)))
  | OpRe => re_full (sm_re (em_m m)) (label_value c (em_label m))
  | OpNotRe => negb (re_full (sm_re (em_m m)) (label_value c (em_label m)))
  | _ => false
  end.
Proof. exact matcher_sem_lemma. Qed.
(** a label the container does not have behaves as the empty string *)
Theorem absent_label_is_empty : forall c name, lget (get_labels c) name = None -> label_value c name = [].
Proof. exact absent_label_empty. Qed.
Print Assumptions matcher_sem.

(** the pre-fix matching violated both (D1, D2) *)
Theorem prefix_match_refuted :
  ctr_match_prefix [mk_m ["c";"o";"n";"t";"a";"i";"n";"e";"r"]%byte OpNotEq ["a"%byte]] (mk_ctr ["a"%byte]) = true /\
  ctr_match [mk_m ["c";"o";"n";"t";"a";"i";"n";"e";"r"]%byte OpNotEq ["a"%byte]] (mk_ctr ["a"%byte]) = false /\
  ctr_match_prefix [mk_m ["n";"o"]%byte OpEq []] (mk_ctr ["a"%byte]) = false /\
  ctr_match [mk_m ["n";"o"]%byte OpEq []] (mk_ctr ["a"%byte]) = true.
Proof. exact DockerP.prefix_match_refuted. Qed.

(** the daemon is asked for the engine's window in whole seconds, never a narrower one: since = floor(start / 1s) and
    until = ceil(end / 1s) cover [start, end] and are less than a second wider on either side *)
Theorem window_truncated : forall s e, 0 <= s -> 0 <= e ->
  log_opts s e = (dec (s / 1000000000), dec (ceil_sec e)) /\
  (s / 1000000000) * 1000000000 <= s < (s / 1000000000 + 1) * 1000000000 /\
  (ceil_sec e - 1) * 1000000000 < e <= ceil_sec e * 1000000000.
Proof. exact window_covers_lemma. Qed.
Print Assumptions window_truncated.

(** until = floor(end / 1s), what openLog sent before the fix of D35, is narrower whenever the end is not on a whole second *)
Theorem floor_until_refuted : exists s e, 0 <= s /\ 0 <= e /\
  log_opts_floor s e = (dec (s / 1000000000), dec (e / 1000000000)) /\ (e / 1000000000) * 1000000000 < e.
Proof. exact floor_until_refuted_lemma. Qed.

(** every record handed to the engine carries the labels of the container whose stream produced it, its own
    timestamp and its own bytes (that the merge emits element (i, r) only for a record r of stream i is C04) *)
Theorem record_origin : forall ctrs i r c, nth_error ctrs i = Some c ->
  r_res (record_of ctrs (i, r)) = get_labels c /\ r_ts (record_of ctrs (i, r)) = f_ts r /\ r_line (record_of ctrs (i, r)) = f_line r.
Proof. exact record_origin_lemma. Qed.
Print Assumptions record_origin.

Example c02_nonvacuous :
  selected [mk_m ["c";"o";"n";"t";"a";"i";"n";"e";"r"]%byte OpNotEq ["a"%byte]] [mk_ctr ["a"%byte]; mk_ctr ["b"%byte]] = [mk_ctr ["b"%byte]].
Proof. vm_compute. reflexivity. Qed.
