(** C08 -- Log results are partitioned into ordered streams and honour the limit.  Statements only
    (proofs: Proofs/GroupP.v, Proofs/EngineP.v). *)
From LogQLV Require Import Base.Bytes Base.LMap Model.Tables Model.Stages Model.Engine Spec.LogSpec Proofs.EngineP Proofs.GroupP Proofs.KeyRenderP.
From Coq Require Import Permutation Sorted.

(** no two streams share a label set *)
Theorem streams_nodup : forall es, NoDup (map fst (group_entries es)).
Proof. exact streams_nodup_lemma. Qed.
Print Assumptions streams_nodup.

(** a stream holds exactly the entries carrying its label set (as a multiset), in timestamp order, and is never empty *)
Theorem stream_content : forall es L vs,
  In (L, vs) (group_entries es) ->
  Permutation vs (map val_of (filter (fun e => lmap_eqb (e_set e) L) es)) /\ Sorted le_ts vs /\ vs <> [].
Proof. exact stream_content_lemma. Qed.
Print Assumptions stream_content.

(** every entry sits in the stream carrying exactly its labels *)
Theorem entry_placed : forall es e, In e es -> exists vs, In (e_set e, vs) (group_entries es) /\ In (val_of e) vs.
Proof. exact entry_placed_lemma. Qed.
Print Assumptions entry_placed.

(** the total number of entries in the streams equals the number of emitted entries (= matching records, C01) *)
Theorem count_conserved : forall es, length (flat_map snd (group_entries es)) = length es.
Proof. exact count_conserved_lemma. Qed.
Print Assumptions count_conserved.

(** a positive limit L returns the first min(L, N) entries of the unlimited answer, under every capability set,
    for every pipeline (including distinct) *)
Theorem limit_prefix : forall o q lim recs es,
  0 < lim -> eval_log o no_caps q 0 recs = Some es ->
  forall c, eval_log o c q lim recs = Some (firstn (Z.to_nat lim) es).
Proof. exact eval_log_limit_lemma. Qed.
Print Assumptions limit_prefix.

(** a non-positive limit returns everything *)
Theorem nonpositive_limit_all : forall o c q lim recs, lim <= 0 -> eval_log o c q lim recs = eval_log o c q 0 recs.
Proof. exact eval_log_nonpositive_limit_lemma. Qed.
Print Assumptions nonpositive_limit_all.

(** ... and "first" means earliest: when the storage delivers in time order (what the Docker storage does, C04) the
    unlimited answer is in time order *)
Theorem result_time_ordered : forall o q recs es,
  spec_select o q recs = Some es -> StronglySorted rec_le recs -> StronglySorted ent_le es.
Proof. exact result_time_ordered_lemma. Qed.
Print Assumptions result_time_ordered.

(** groupEntries keys its map of streams by LabelSet.String() = {k1=<quoted v1>,...} over the sorted labels; the model groups by
    the label set itself.  They agree because the rendering is injective on label sets whose names hold no '=' -- given that
    the quoting function is a prefix code (strconv.Quote: a quoted string ends at its first unescaped quote), which is the
    one property of strconv.Quote this theorem takes as a hypothesis (it is not modelled: its escaping depends on
    unicode.IsPrint).  Label values that imitate the rendering of other labels are part of the correspondence run. *)
Theorem grouping_key_injective :
  forall (quote : bytes -> bytes),
  (forall a b r r', quote a ++ r = quote b ++ r' -> a = b /\ r = r') ->
  forall l1 l2, keys_ok l1 -> keys_ok l2 -> render quote l1 = render quote l2 -> l1 = l2.
Proof. exact render_inj_lemma. Qed.
Print Assumptions grouping_key_injective.

Example c08_nonvacuous : exists es, eval_log ex_oracles no_caps ex_query 0 ex_records = Some es /\ length es = 2%nat /\
                                    eval_log ex_oracles all_caps ex_query 1 ex_records = Some (firstn 1 es) /\ length (group_entries es) = 2%nat.
Proof. eexists. vm_compute. repeat split. Qed.
