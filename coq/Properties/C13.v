(** C13 — Operator precedence and associativity follow arithmetic convention.
    The property's quantifier is bounded (chains of up to five operands over the fifteen binary
    operators); the theorems below are proved for exactly that domain by complete enumeration inside
    Coq (reflection: [forallb ... = true] by [vm_compute], lifted with [forallb_forall]); the bound is
    part of each statement.  The precedence table and token tables are GENERATED from /repo's op.go and
    token.go on every run (Model/Tables.v), so these proofs are re-checked against the current code. *)
From LogQLV Require Import Base.Bytes Model.Tables Model.Syntax Model.Parser Model.Prec Proofs.PrecP Proofs.PrecAll.
From Coq Require Import Lia.

(** the precedence table is the conventional one:  ^  >  * / %  >  + -  >  comparisons  >  and unless  >  or *)
Theorem prec_table_conventional :
  precedence OpPow > precedence OpMul /\
  precedence OpMul = precedence OpDiv /\ precedence OpDiv = precedence OpMod /\
  precedence OpMod > precedence OpAdd /\ precedence OpAdd = precedence OpSub /\
  precedence OpSub > precedence OpEq /\
  precedence OpEq = precedence OpNotEq /\ precedence OpNotEq = precedence OpGt /\ precedence OpGt = precedence OpGte /\
  precedence OpGte = precedence OpLt /\ precedence OpLt = precedence OpLte /\
  precedence OpLte > precedence OpAnd /\ precedence OpAnd = precedence OpUnless /\
  precedence OpUnless > precedence OpOr /\ precedence OpOr > 0.
Proof. vm_compute. repeat split; congruence. Qed.
Print Assumptions prec_table_conventional.

(** complete characterisation of what the parser does on a chain  e0 op1 e1 ... opn en  (n <= 4):
    it builds the tree that splits at the FIRST weakest operator, i.e. precedence is honoured and
    operators of equal precedence group to the right *)
Theorem parse_as_is : forall ops : list binop,
  (length ops <= 4)%nat -> Forall (fun o => In o chain_ops) ops ->
  exists e, parse_tokens (chain_tokens ops) = Parsed e /\ dexpr e = dexpr (tree_expr (asis_tree ops)).
Proof.
  intros ops Hl Hf. pose proof (asis_bounded ops Hl Hf) as H. unfold asis_ok, parsed_tree_is in H.
  destruct (parse_tokens (chain_tokens ops)) as [e| |]; try discriminate.
  exists e. split; [reflexivity|]. apply bytes_eqb_eq. exact H.
Qed.
Print Assumptions parse_as_is.

(** PARTIAL form of the property: outside the region "two left-associative operators of equal precedence
    with nothing weaker between them" the parsed tree IS the conventional one
    (^ right-associative, precedence levels honoured) *)
Theorem parse_conv_partial : forall ops : list binop,
  (length ops <= 4)%nat -> Forall (fun o => In o chain_ops) ops -> known_region ops = false ->
  exists e, parse_tokens (chain_tokens ops) = Parsed e /\ dexpr e = dexpr (tree_expr (conv_tree ops)).
Proof.
  intros ops Hl Hf Hr. destruct (parse_as_is ops Hl Hf) as [e [H1 H2]].
  exists e. split; [exact H1|]. rewrite H2.
  pose proof (conv_bounded ops Hl Hf) as Hc. unfold conv_ok in Hc. rewrite Hr in Hc. cbn [orb] in Hc.
  assert (forall a b, tree_eqb a b = true -> a = b) as Teq.
  { induction a as [i|l IHl o r IHr]; intros [j|l2 o2 r2] E; cbn in E; try discriminate.
    - apply Nat.eqb_eq in E. congruence.
    - apply andb_true_iff in E as [E Er]. apply andb_true_iff in E as [El Eo].
      apply IHl in El. apply IHr in Er. unfold binop_eqb in Eo. apply Z.eqb_eq in Eo.
      assert (o = o2) by (destruct o, o2; cbn in Eo; congruence). congruence. }
  rewrite (Teq _ _ Hc). reflexivity.
Qed.
Print Assumptions parse_conv_partial.

(** The FULL statement is false of the code (finding D11, pinned by the repository's own TestParse,
    therefore recorded as a known finding): 0 - 1 + 2 is parsed as 0 - (1 + 2) *)
Theorem parse_conv_refuted : exists ops : list binop,
  (length ops <= 4)%nat /\ Forall (fun o => In o chain_ops) ops /\
  exists e, parse_tokens (chain_tokens ops) = Parsed e /\ dexpr e <> dexpr (tree_expr (conv_tree ops)).
Proof.
  exists [OpSub; OpAdd]. split; [cbn; lia|]. split; [repeat constructor; cbn; tauto|].
  eexists. split; [vm_compute; reflexivity|]. vm_compute. discriminate.
Qed.
Print Assumptions parse_conv_refuted.

(** non-vacuity of the partial theorem: a five-operand chain outside the region *)
Example conv_example : known_region [OpOr; OpAdd; OpMul; OpPow] = false /\ known_region [OpPow; OpPow; OpMul; OpAdd] = false
  /\ conv_tree [OpPow; OpPow; OpMul; OpAdd] =
     Node (Node (Node (Leaf 0) OpPow (Node (Leaf 1) OpPow (Leaf 2))) OpMul (Leaf 3)) OpAdd (Leaf 4).
Proof. repeat split; vm_compute; reflexivity. Qed.
