(** C16 — Time-range and step flags resolve as documented.
    Statements only; proofs in Proofs/FlagsP.v.  [p] is time.Parse(RFC3339Nano) (library oracle). *)
From LogQLV Require Import Base.Bytes Base.Outcome Base.FloatX Base.TimeFmt Model.Flags Proofs.FlagsP.

(** ** Defaults: --end = now, --start = min(end, now) - since, --since = 6h; explicit values honoured *)
Theorem range_defaults_all_absent : forall p now,
  parse_time_range p now None None None = ROk' (now - six_hours) now.
Proof. exact range_all_absent. Qed.

Theorem range_end_defaults_to_now : forall p now sp sn s e,
  parse_time_range p now sp None sn = ROk' s e -> e = now.
Proof. exact range_end_default. Qed.

Theorem range_start_defaults : forall p now ep sn s e,
  parse_time_range p now None ep sn = ROk' s e ->
  exists since, match sn with None => since = six_hours | Some v => prom_duration v = Some since end /\
                s = Z.min e now - since.
Proof. exact range_start_default. Qed.

Theorem range_explicit_honoured : forall p now sv ev sn s e, sv <> [] -> ev <> [] ->
  parse_time_range p now (Some sv) (Some ev) sn = ROk' s e ->
  parse_timestamp p ev 0 = TOk e /\ parse_timestamp p sv 0 = TOk s.
Proof. exact range_explicit. Qed.

(** ** The spellings of an instant *)
(** a decimal string of at most ten digits is unix seconds, a longer one unix nanoseconds; hence for
    every instant whose seconds have at most ten digits (year < 2286) and whose nanoseconds have more
    than ten (after 1970-01-01T00:00:10Z) the two spellings agree *)
Theorem secs_spelling : forall p ds def, ds <> [] -> forallb is_digit_b ds = true -> (length ds <= 10)%nat ->
  parse_timestamp p ds def = TOk (dec_value ds * sec).
Proof. exact secs_spelling_lemma. Qed.

Theorem nanos_spelling : forall p ds def, forallb is_digit_b ds = true -> (10 < length ds)%nat ->
  dec_value ds <= int64_max -> parse_timestamp p ds def = TOk (dec_value ds).
Proof. exact nanos_spelling_lemma. Qed.

Theorem spellings_agree : forall p ds1 ds2 d1 d2,
  ds1 <> [] -> forallb is_digit_b ds1 = true -> (length ds1 <= 10)%nat ->
  forallb is_digit_b ds2 = true -> (10 < length ds2)%nat -> dec_value ds2 <= int64_max ->
  dec_value ds2 = dec_value ds1 * sec ->
  parse_timestamp p ds1 d1 = parse_timestamp p ds2 d2.
Proof.
  intros. rewrite secs_spelling_lemma, nanos_spelling_lemma by assumption. congruence.
Qed.

(** every text containing ':' (all RFC3339 spellings) is decided by the time parser alone *)
Theorem rfc_spelling : forall p v def, In ":"%byte v ->
  parse_timestamp p v def = match p v with Some t => TOk t | None => TErr end.
Proof. exact rfc_spelling_lemma. Qed.

(** fractional seconds: the final conversion int64(frac * 1e9) is exact for all 1000 millisecond values
    (complete enumeration); that ParseFloat is correctly rounded and that Round(frac*1000) recovers the
    millisecond count is validated by correspondence only (partial) *)
Theorem frac_ms_final_step : forall m, 0 <= m < 1000 -> ms_step_ok m = true.
Proof. exact ms_step_lemma. Qed.

(** ** Step *)
Theorem default_step_formula : forall s e, int64_min <= e - s <= int64_max ->
  default_step s e = Z.max 1 ((e - s) / (250 * sec)) * sec.
Proof. exact default_step_spec_lemma. Qed.

Theorem explicit_step_positive : forall v s e d, parse_step (Some v) s e = DOk d -> 0 < d.
Proof. exact parse_step_positive. Qed.

(** ** Malformed values are rejected, never replaced by a default *)
Theorem malformed_since_rejected : forall p now sp ep v,
  prom_duration v = None -> parse_time_range p now sp ep (Some v) = RErr.
Proof. exact range_bad_since. Qed.

Theorem malformed_end_rejected : forall p now sp ev sn since,
  match sn with None => Some six_hours | Some v => prom_duration v end = Some since ->
  parse_timestamp p ev now = TErr -> parse_time_range p now sp (Some ev) sn = RErr.
Proof. exact range_bad_end. Qed.

Theorem malformed_step_rejected : forall v s e, parse_duration v = DErr -> parse_step (Some v) s e = DErr.
Proof. exact parse_step_malformed. Qed.

(** ** Findings fixed in /repo, kept as refutations of the pre-fix code *)
(** D15: "--step 0" and "--step NaN" were accepted *)
Theorem explicit_step_positive_refuted_before_fix :
  parse_step_prefix (Some ["0"%byte]) 0 0 = DOk 0 /\
  parse_step_prefix (Some ["N"; "a"; "N"]%byte) 0 0 = DOk int64_min.
Proof. split; vm_compute; reflexivity. Qed.

(** D22: the float computation of the default step is off by one second just below a multiple of 250s *)
Theorem default_step_refuted_before_fix :
  default_step_prefix 0 (250 * 100000 * sec - 1) = 100000 * sec /\
  default_step 0 (250 * 100000 * sec - 1) = 99999 * sec.
Proof. split; vm_compute; reflexivity. Qed.

Print Assumptions range_defaults_all_absent.
Print Assumptions range_end_defaults_to_now.
Print Assumptions range_start_defaults.
Print Assumptions range_explicit_honoured.
Print Assumptions spellings_agree.
Print Assumptions rfc_spelling.
Print Assumptions frac_ms_final_step.
Print Assumptions default_step_formula.
Print Assumptions explicit_step_positive.
Print Assumptions malformed_since_rejected.
Print Assumptions malformed_end_rejected.
Print Assumptions malformed_step_rejected.
Print Assumptions explicit_step_positive_refuted_before_fix.
Print Assumptions default_step_refuted_before_fix.

(** non-vacuity *)
Example flags_example :
  parse_time_range TimeFmt.parse_ts 1700000000000000000
     (Some ["1";"6";"9";"9";"9";"9";"9";"0";"0";"0";".";"5"]%byte) None (Some ["1";"h";"3";"0";"m"]%byte)
    = ROk' 1699999000500000000 1700000000000000000
  /\ parse_step (Some ["1";"m";"3";"0";"s"]%byte) 0 0 = DOk (90 * sec)
  /\ parse_step (Some ["0";".";"5"]%byte) 0 0 = DOk 500000000.
Proof. repeat split; vm_compute; reflexivity. Qed.
