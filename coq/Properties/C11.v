(** C11 -- Vector aggregations aggregate exactly their group.  Statements only (proofs: Proofs/VaggP.v). *)
From LogQLV Require Import Base.Bytes Base.FloatX Base.LMap Model.Tables Model.Stages Model.Engine Model.Metric Spec.MetricSpec Proofs.VaggP Proofs.TopkP.
From Coq Require Import Permutation Sorted.

(** sum avg min max count stddev stdvar with by(L) / without(L) / no clause: at each step one series per distinct
    combination of retained labels ([restrict g] of the input's label set); its value is the aggregate of exactly the input
    series of that group, in arrival order; a label set with no member yields nothing; the step keeps its timestamp *)
Theorem vagg_groups : forall op g s k,
  is_heap_op op = false ->
  let out := vagg_step vec_grouping op g s in
  st_ts out = st_ts s /\
  NoDup (map (fun sm : sample => key_of (snd sm)) (st_samples out)) /\
  step_lookup k out =
    match map fst (filter (fun sm => lmap_eqb (restrict g (visible (snd sm))) k) (st_samples s)) with
    | [] => None
    | vs => Some (agg_list (kind_of op) vs)
    end.
Proof. exact vagg_groups_lemma. Qed.
Print Assumptions vagg_groups.

(** the label set of a group is the input's label set restricted by the clause: by(L) keeps L, without(L) removes L *)
Theorem group_labels : forall g a, visible (vec_grouping g a) = restrict g (visible a).
Proof. exact visible_vec_grouping. Qed.
(** without a grouping clause all input series form one group with an empty label set; by () likewise *)
Theorem no_grouping_single_group : forall a, visible (vec_grouping GNone a) = [].
Proof. exact no_grouping_empty. Qed.
Theorem by_nothing : forall a, visible (vec_grouping (GBy []) a) = [].
Proof. exact by_empty. Qed.
(** nested aggregations compose: labels removed by an inner aggregation cannot reappear *)
Theorem nested_no_reappear : forall g1 g2 a kv,
  In kv (visible (vec_grouping g2 (vec_grouping g1 a))) -> In kv (visible (vec_grouping g1 a)) /\ In kv (visible a).
Proof. exact nested_no_reappear_lemma. Qed.
Print Assumptions nested_no_reappear.

(** the pre-fix grouping (D8, D9, D10) violated all three *)
Theorem prefix_grouping_refuted :
  let a := {| al_entries := [(["a"%byte], ["1"%byte]); (["b"%byte], ["2"%byte])]; al_without := []; al_by := None |} in
  visible (vec_grouping_prefix GNone a) <> [] /\ visible (vec_grouping_prefix (GBy []) a) <> [] /\
  visible (vec_grouping_prefix (GBy [["a"%byte]]) (vec_grouping_prefix (GBy [["b"%byte]]) a)) = al_entries a.
Proof. exact VaggP.prefix_grouping_refuted. Qed.

(** sort / sort_desc return all series (a permutation of the input vector), same timestamp ... *)
Theorem sort_permutation : forall op s, (op = VSort \/ op = VSortDesc) ->
  Permutation (st_samples (vheap_step vec_grouping op (-1) GNone s)) (st_samples s) /\ st_ts (vheap_step vec_grouping op (-1) GNone s) = st_ts s.
Proof. exact sort_permutation_lemma. Qed.
Print Assumptions sort_permutation.

(** ... ordered by value: ascending for sort, descending for sort_desc ([rank_le op a b] is [a <= b] resp. [b <= a] on the
    float values), for every vector without NaN values (NaN ordering is excluded by the property). *)
Theorem sort_sorted : forall op s, (op = VSort \/ op = VSortDesc) ->
  Forall (fun sm => nonnan sm = true) (st_samples s) ->
  StronglySorted (rank_le op) (st_samples (vheap_step vec_grouping op (-1) GNone s)).
Proof. exact sort_sorted_lemma. Qed.
Print Assumptions sort_sorted.

(** topk(k) / bottomk(k), k > 0, with any grouping clause, on a NaN-free vector: restricted to any one group key, the output
    is a sub-multiset [out] of the group's members -- the samples themselves, so values and full label sets are untouched --
    with |out| = min(k, |members|), every kept sample ranking at or before every omitted one (largest first for topk,
    smallest first for bottomk), listed in rank order.  (k = 0 yields the empty vector by definition of [vheap_step];
    which of several equal-valued candidates at the cut is kept is not constrained, as in the property.) *)
Theorem topk_groups : forall op k g s key,
  (0 < k)%Z -> Forall (fun sm => nonnan sm = true) (st_samples s) ->
  let keyf := fun sm : sample => key_of (vec_grouping g (snd sm)) in
  let members := filter (fun sm => lmap_eqb (keyf sm) key) (st_samples s) in
  let out := filter (fun sm => lmap_eqb (keyf sm) key) (st_samples (vheap_step vec_grouping op k g s)) in
  exists dropped,
    Permutation (out ++ dropped) members /\
    Z.of_nat (length out) = Z.min k (Z.of_nat (length members)) /\
    (forall d y, In d dropped -> In y out -> rank_le op y d) /\
    StronglySorted (rank_le op) out.
Proof. exact topk_groups_lemma. Qed.
Print Assumptions topk_groups.

Example c11_topk_nonvacuous :
  let al v := {| al_entries := [(["a"%byte], [v])]; al_without := []; al_by := None |} in
  let s := {| st_ts := 5; st_samples := [(one, al "1"%byte); (float_of_Z 3, al "2"%byte); (float_of_Z 2, al "3"%byte)] |} in
  forallb nonnan (st_samples s) = true /\
  map (fun sm : sample => visible (snd sm)) (st_samples (vheap_step vec_grouping VTopk 2 GNone s)) = [[(["a"%byte], ["2"%byte])]; [(["a"%byte], ["3"%byte])]].
Proof. vm_compute. split; reflexivity. Qed.

Example c11_nonvacuous :
  let al k v := {| al_entries := [(["a"%byte], [k]); (["b"%byte], [v])]; al_without := []; al_by := None |} in
  let s := {| st_ts := 5; st_samples := [(one, al "1"%byte "x"%byte); (one, al "1"%byte "y"%byte); (one, al "2"%byte "x"%byte)] |} in
  map (fun sm : sample => visible (snd sm)) (st_samples (vagg_step vec_grouping VSum (GBy [["a"%byte]]) s)) = [[(["a"%byte], ["1"%byte])]; [(["a"%byte], ["2"%byte])]].
Proof. vm_compute. reflexivity. Qed.
