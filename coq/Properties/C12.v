(** C12 -- Binary operations combine matching series pointwise.  Statements only (proofs: Proofs/BinopP.v). *)
From LogQLV Require Import Base.Bytes Base.FloatX Base.LMap Model.Tables Model.Stages Model.Engine Model.Metric Spec.MetricSpec Proofs.BinopP.

(** + - * / between two samples: always kept, the IEEE operation with the operands on the sides they were written *)
Theorem arith_op : forall op rb l r, is_arith op = true -> sample_op op rb l r = Some (arith_sem op l r, true).
Proof. exact arith_op_lemma. Qed.
(** x / 0 and x % 0 give NaN *)
Theorem div0_mod0_nan : forall rb l r, PrimFloat.eqb r zero = true -> sample_op OpDiv rb l r = Some (nan, true) /\ sample_op OpMod rb l r = Some (nan, true).
Proof. exact div0_nan_lemma. Qed.
(** a comparison gives 1 exactly where it holds; elsewhere 0 (or, with the modifier as coded, no sample) *)
Theorem cmp_one_iff : forall op rb l r, is_cmp op = true ->
  sample_op op rb l r = if cmp_sem op l r then Some (one, true) else Some (zero, negb rb).
Proof. exact cmp_op_lemma. Qed.
Print Assumptions cmp_one_iff.

(** vector (op) scalar literal: one output per input series, labels untouched, scalar on the side it was written *)
Theorem lit_binop : forall op rb lit onleft s s', is_arith op = true ->
  lit_step op rb lit onleft s = Some s' ->
  st_ts s' = st_ts s /\
  st_samples s' = map (fun sm : sample => (if onleft then arith_sem op lit (fst sm) else arith_sem op (fst sm) lit, snd sm)) (st_samples s).
Proof. exact lit_arith_lemma. Qed.
Print Assumptions lit_binop.

(** vector (op) vector: one output per label set present on both sides, left labels, both values; same timestamp *)
Theorem vec_binop : forall op rb l r out, is_arith op = true ->
  binop_step op rb l r = Some out ->
  st_ts out = st_ts l /\
  st_samples out = flat_map (fun rs : sample => match find_sample (key_of (snd rs)) (st_samples l) with
                                              | Some ls => [(arith_sem op (fst ls) (fst rs), snd ls)]
                                              | None => []
                                              end) (st_samples r).
Proof. exact vec_binop_lemma. Qed.
Print Assumptions vec_binop.

(** and / unless / or are intersection, difference and union (left side wins) by label set *)
Theorem set_ops : forall l r s,
  (In s (st_samples (merge_step OpAnd l r)) <-> In s (st_samples l) /\ has_key (key_of (snd s)) (st_samples r) = true) /\
  (In s (st_samples (merge_step OpUnless l r)) <-> In s (st_samples l) /\ has_key (key_of (snd s)) (st_samples r) = false) /\
  (In s (st_samples (merge_step OpOr l r)) <-> In s (st_samples l) \/ (In s (st_samples r) /\ has_key (key_of (snd s)) (st_samples l) = false)) /\
  st_ts (merge_step OpAnd l r) = st_ts l /\ st_ts (merge_step OpOr l r) = st_ts l /\ st_ts (merge_step OpUnless l r) = st_ts l.
Proof. exact set_ops_lemma. Qed.
Print Assumptions set_ops.

(** vector(c) carries the empty label set, the same key as an aggregation whose visible label set is empty (fix D21) *)
Theorem vector_joins_empty_groups : forall a, key_of (vec_grouping GNone a) = key_of empty_al.
Proof. reflexivity. Qed.

Example c12_nonvacuous :
  let s := {| st_ts := 1; st_samples := [(fbits 4611686018427387904 (* 2.0 *), empty_al)] |} in
  exists s', lit_step OpDiv false (fbits 4616189618054758400 (* 4.0 *)) true s = Some s' /\ map (fun sm : sample => float_same (fst sm) (fbits 4611686018427387904)) (st_samples s') = [true].
Proof. eexists. vm_compute. split; reflexivity. Qed.
