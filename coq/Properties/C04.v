(** C04 — Multi-container merge conserves records and time order.
    Statements only; proofs in Proofs/HeapP.v, Proofs/MergeP.v. *)
From Coq Require Import List Arith Permutation.
Import ListNotations.
From LogQLV Require Import Base.Heap Model.Merge Proofs.HeapP Proofs.MergeP.

(** The result of the concurrent open does not depend on the order in which the per-container
    requests complete: for EVERY completion order (any permutation of the task indices) the slot
    array handed to the merge is the index-addressed list of opened iterators. *)
Theorem open_schedule_indep : forall (I : Type) (opened : list I) (sched1 sched2 : list nat),
  Permutation sched1 (seq 0 (length opened)) ->
  Permutation sched2 (seq 0 (length opened)) ->
  run_open opened sched1 = run_open opened sched2 /\ run_open opened sched1 = map Some opened.
Proof.
  intros I opened s1 s2 P1 P2. rewrite (run_open_any_order I opened s1 P1), (run_open_any_order I opened s2 P2). auto.
Qed.
Print Assumptions open_schedule_indep.

(** container/heap as used by mergeIter never loses or duplicates an element:
    Push adds exactly the pushed element, Pop removes exactly the returned one (any [less]). *)
Theorem heap_push_conserves : forall (A : Type) (less : A -> A -> bool) (d : A) (h : list A) (x : A),
  Permutation (heap_push less d h x) (x :: h).
Proof. exact heap_push_perm. Qed.
Print Assumptions heap_push_conserves.

Theorem heap_pop_conserves : forall (A : Type) (less : A -> A -> bool) (d : A) (h : list A) (x : A) (h' : list A),
  heap_pop less d h = Some (x, h') -> Permutation h (x :: h').
Proof. exact heap_pop_perm. Qed.
Print Assumptions heap_pop_conserves.

(** The faithful mergeIter loop (init primes one record per source; Next pops the minimum and refills from the same
    source; container/heap's exact up / down) on sources that end regularly: *)
From LogQLV Require Import Proofs.HeapOrderP Proofs.MergeOrderP.
From Coq Require Import Sorted ZArith.

(** every record of every source is delivered exactly once, and nothing else *)
Theorem merge_perm : forall (R : Type) (ts : R -> Z) (dflt : R) (lists : list (list R)),
  Permutation (map snd (fst (merge_all ts dflt (clean_srcs R lists)))) (concat lists).
Proof. exact merge_perm_lemma. Qed.
Print Assumptions merge_perm.

(** each source's records keep their own order, are tagged with the source's index, and the run ends without error flag *)
Theorem merge_keeps_source_order : forall (R : Type) (ts : R -> Z) (dflt : R) (lists : list (list R)),
  let r := merge_all ts dflt (clean_srcs R lists) in
  snd r = false /\ forall k, of_src R k (fst r) = nth k lists [].
Proof. exact merge_keeps_source_order_lemma. Qed.
Print Assumptions merge_keeps_source_order.

(** if every source is in time order (ties allowed), the merged stream is in time order *)
Theorem merge_sorted : forall (R : Type) (ts : R -> Z) (dflt : R) (lists : list (list R)),
  Forall (StronglySorted (tle R ts)) lists -> StronglySorted (etle R ts) (fst (merge_all ts dflt (clean_srcs R lists))).
Proof. exact merge_sorted_lemma. Qed.
Print Assumptions merge_sorted.

(** container/heap keeps the heap property (any [less] whose negation is transitive and total): the root is a minimum *)
Theorem heap_push_keeps_order : forall (A : Type) (less : A -> A -> bool) (d : A),
  (forall x y z, le A less x y -> le A less y z -> le A less x z) -> (forall x y, le A less x y \/ le A less y x) ->
  forall h x, heap_ok A less d h -> heap_ok A less d (heap_push less d h x).
Proof. exact heap_push_ok. Qed.
Theorem heap_pop_returns_min : forall (A : Type) (less : A -> A -> bool) (d : A),
  (forall x y z, le A less x y -> le A less y z -> le A less x z) -> (forall x y, le A less x y \/ le A less y x) ->
  forall h x h', heap_ok A less d h -> heap_pop less d h = Some (x, h') -> heap_ok A less d h' /\ forall y, In y h' -> le A less x y.
Proof. exact heap_pop_ok. Qed.
Print Assumptions heap_pop_returns_min.

(** non-vacuity / concrete run of the faithful model: three sources with ties *)
From LogQLV Require Import Base.Bytes.
Example merge_example :
  fst (merge_all (fun r : Z * Z => fst r) (0, 0)
        [ ([(1, 0); (3, 1)], false); ([(4, 0)], false); ([(2, 0); (3, 1)], false) ])
  = [ (0%nat, (1, 0)); (2%nat, (2, 0)); (0%nat, (3, 1)); (2%nat, (3, 1)); (1%nat, (4, 0)) ].
Proof. vm_compute. reflexivity. Qed.
