(** C04 — Multi-container merge conserves records and time order.
    Statements only; proofs in Proofs/HeapP.v, Proofs/MergeP.v. *)
From Coq Require Import List Arith Permutation.
Import ListNotations.
From LogQLV Require Import Base.Heap Model.Merge Proofs.HeapP Proofs.MergeP.

(** The result of the concurrent open does not depend on the order in which the per-container
    requests complete: for EVERY completion order (any permutation of the task indices) the slot
    array handed to the merge is the index-addressed list of opened iterators. *)
Theorem open_schedule_indep : forall (I : Type) (opened : list I) (sched1 sched2 : list nat),
  Permutation sched1 (seq 0 (length opened)) ->
  Permutation sched2 (seq 0 (length opened)) ->
  run_open opened sched1 = run_open opened sched2 /\ run_open opened sched1 = map Some opened.
Proof.
  intros I opened s1 s2 P1 P2. rewrite (run_open_any_order I opened s1 P1), (run_open_any_order I opened s2 P2). auto.
Qed.
Print Assumptions open_schedule_indep.

(** container/heap as used by mergeIter never loses or duplicates an element:
    Push adds exactly the pushed element, Pop removes exactly the returned one (any [less]). *)
Theorem heap_push_conserves : forall (A : Type) (less : A -> A -> bool) (d : A) (h : list A) (x : A),
  Permutation (heap_push less d h x) (x :: h).
Proof. exact heap_push_perm. Qed.
Print Assumptions heap_push_conserves.

Theorem heap_pop_conserves : forall (A : Type) (less : A -> A -> bool) (d : A) (h : list A) (x : A) (h' : list A),
  heap_pop less d h = Some (x, h') -> Permutation h (x :: h').
Proof. exact heap_pop_perm. Qed.
Print Assumptions heap_pop_conserves.

(** non-vacuity / concrete run of the faithful model: three sources with ties *)
From LogQLV Require Import Base.Bytes.
Example merge_example :
  fst (merge_all (fun r : Z * Z => fst r) (0, 0)
        [ ([(1, 0); (3, 1)], false); ([(4, 0)], false); ([(2, 0); (3, 1)], false) ])
  = [ (0%nat, (1, 0)); (2%nat, (2, 0)); (0%nat, (3, 1)); (2%nat, (3, 1)); (1%nat, (4, 0)) ].
Proof. vm_compute. reflexivity. Qed.
