(** C11: a vector aggregation groups by the retained labels and aggregates exactly the members of each group. *)
From LogQLV Require Import Base.Bytes Base.FloatX Base.LMap Model.Tables Model.Stages Model.Engine Model.Metric Spec.MetricSpec Proofs.EngineP Proofs.GroupP Proofs.RangeP.
From Coq Require Import Permutation.

(** * Grouping restricts the visible label set; nothing can reappear *)
Lemma lfilter_lfilter f g (m : lmap) : lfilter f (lfilter g m) = lfilter (fun k v => g k v && f k v) m.
Proof.
  unfold lfilter. induction m as [|[k v] t IH]; cbn; [reflexivity|].
  destruct (g k v); cbn; [destruct (f k v); cbn; rewrite IH; reflexivity|exact IH].
Qed.

Lemma lfilter_ext f g (m : lmap) : (forall k v, f k v = g k v) -> lfilter f m = lfilter g m.
Proof. intro H. unfold lfilter. apply filter_ext. intros [k v]; apply H. Qed.

Lemma bmem_filter k b l : bmem k (filter (fun x => bmem x b) l) = bmem k l && bmem k b.
Proof.
  unfold bmem. induction l as [|x t IH]; cbn; [reflexivity|].
  destruct (existsb (bytes_eqb x) b) eqn:Ex; cbn.
  - destruct (bytes_eqb k x) eqn:E; cbn; [|exact IH]. apply bytes_eqb_eq in E. subst x. rewrite Ex. reflexivity.
  - rewrite IH. destruct (bytes_eqb k x) eqn:E; cbn; [|reflexivity]. apply bytes_eqb_eq in E. subst x. rewrite Ex.
    rewrite andb_false_r. reflexivity.
Qed.

Lemma bmem_app k a b : bmem k (a ++ b) = bmem k a || bmem k b.
Proof. unfold bmem. apply existsb_app. Qed.

(** the label set of a group is the input's visible label set restricted by the clause *)
Lemma visible_vec_grouping g a : visible (vec_grouping g a) = restrict g (visible a).
Proof.
  destruct g as [|l|l]; unfold vec_grouping, restrict.
  - reflexivity.
  - unfold visible, al_by_op. cbn [al_entries al_without al_by]. rewrite lfilter_lfilter. apply lfilter_ext. intros k v.
    destruct (al_by a) as [b|].
    + rewrite bmem_filter. destruct (bmem k (al_without a)); cbn; [reflexivity|]. destruct (bmem k b); destruct (bmem k l); reflexivity.
    + destruct (bmem k (al_without a)); cbn; [reflexivity|]. destruct (bmem k l); reflexivity.
  - destruct l as [|x l].
    + unfold al_without_op. unfold lfilter. symmetry. rewrite (filter_ext _ (fun _ => true)) by reflexivity. apply filter_all.
    + unfold visible, al_without_op. cbn [al_entries al_without al_by]. rewrite lfilter_lfilter. apply lfilter_ext. intros k v.
      rewrite bmem_app. destruct (bmem k (al_without a)); cbn [negb orb andb]; [reflexivity|].
      destruct (al_by a) as [b|]; [destruct (bmem k b)|]; cbn [negb orb andb]; destruct (bmem k (x :: l)); reflexivity.
Qed.

Lemma restrict_sub g m kv : In kv (restrict g m) -> In kv m.
Proof. destruct g; cbn; [contradiction| |]; unfold lfilter; intro H; apply filter_In in H; apply H. Qed.

(** labels removed by an inner aggregation cannot reappear in an outer one *)
Theorem nested_no_reappear_lemma g1 g2 a kv :
  In kv (visible (vec_grouping g2 (vec_grouping g1 a))) -> In kv (visible (vec_grouping g1 a)) /\ In kv (visible a).
Proof.
  intro H. rewrite visible_vec_grouping in H. apply restrict_sub in H. split; [exact H|].
  rewrite visible_vec_grouping in H. apply restrict_sub in H. exact H.
Qed.

(** without a grouping clause: one group, empty label set *)
Lemma no_grouping_empty a : visible (vec_grouping GNone a) = [].
Proof. reflexivity. Qed.

(** by () keeps nothing; a non-existent label contributes nothing *)
Lemma by_empty a : visible (vec_grouping (GBy []) a) = [].
Proof. rewrite visible_vec_grouping. cbn. unfold lfilter. induction (visible a) as [|x t IH]; cbn; auto. Qed.

(** ... whereas the pre-fix grouping (D8, D9, D10) kept everything / let labels reappear *)
Lemma prefix_grouping_refuted :
  let a := {| al_entries := [(["a"%byte], ["1"%byte]); (["b"%byte], ["2"%byte])]; al_without := []; al_by := None |} in
  visible (vec_grouping_prefix GNone a) <> [] /\ visible (vec_grouping_prefix (GBy []) a) <> [] /\
  visible (vec_grouping_prefix (GBy [["a"%byte]]) (vec_grouping_prefix (GBy [["b"%byte]]) a)) = al_entries a.
Proof. vm_compute. repeat split; discriminate. Qed.

(** * The groups of one step *)
Fixpoint vstate (gs : list vgroup) (k : lmap) : option aggstate :=
  match gs with
  | [] => None
  | (k0, (_, a)) :: t => if lmap_eqb k0 k then Some a else vstate t k
  end.

Definition vwf (gs : list vgroup) : Prop := NoDup (map fst gs) /\ Forall (fun g : vgroup => key_of (fst (snd g)) = fst g) gs.

Lemma vg_apply_state kind gs key metric v k :
  vstate (vg_apply kind gs key metric v) k =
  if lmap_eqb key k then Some (agg_apply kind (match vstate gs k with Some a => a | None => agg_init end) v) else vstate gs k.
Proof.
  induction gs as [|[k0 [m a]] t IH]; cbn.
  - destruct (lmap_eqb key k); reflexivity.
  - destruct (lmap_eqb k0 key) eqn:E1; cbn.
    + apply lmap_eqb_eq in E1. subst k0. destruct (lmap_eqb key k); reflexivity.
    + destruct (lmap_eqb k0 k) eqn:E2; [|exact IH].
      apply lmap_eqb_eq in E2. subst k0. destruct (lmap_eqb key k) eqn:E3; [|reflexivity].
      apply lmap_eqb_eq in E3. subst k. rewrite lmap_eqb_refl in E1. discriminate.
Qed.

Lemma vg_apply_keys kind gs key metric v :
  map fst (vg_apply kind gs key metric v) = if existsb (fun l => lmap_eqb l key) (map fst gs) then map fst gs else map fst gs ++ [key].
Proof.
  induction gs as [|[k0 [m a]] t IH]; cbn; [reflexivity|].
  destruct (lmap_eqb k0 key) eqn:E1; cbn; [reflexivity|]. rewrite IH.
  destruct (existsb (fun l => lmap_eqb l key) (map fst t)); reflexivity.
Qed.

Lemma vg_apply_wf kind gs key metric v : key_of metric = key -> vwf gs -> vwf (vg_apply kind gs key metric v).
Proof.
  intros Hk [Hn Hf]. split.
  - rewrite vg_apply_keys. destruct (existsb (fun l => lmap_eqb l key) (map fst gs)) eqn:E; [exact Hn|].
    apply NoDup_snoc; [exact Hn|]. intro Hin. apply existsb_lmap_in in Hin. congruence.
  - clear Hn. induction gs as [|[k0 [m a]] t IH]; cbn.
    + constructor; [exact Hk|constructor].
    + inversion Hf as [|x l Hx Hl]. subst x l. destruct (lmap_eqb k0 key); constructor; auto.
Qed.

Definition group_key (grp : grouping -> alabels -> alabels) (g : grouping) (sm : sample) : lmap := key_of (grp g (snd sm)).

Lemma vagg_fold grp kind g : forall samples gs, vwf gs ->
  let r := fold_left (fun gs (sm : sample) => let metric := grp g (snd sm) in vg_apply kind gs (key_of metric) metric (fst sm)) samples gs in
  vwf r /\ forall k, vstate r k =
    match map fst (filter (fun sm => lmap_eqb (group_key grp g sm) k) samples), vstate gs k with
    | [], s => s
    | vs, s => Some (fold_left (agg_apply kind) vs (match s with Some a => a | None => agg_init end))
    end.
Proof.
  induction samples as [|sm t IH]; intros gs Hw; cbn [fold_left].
  - split; [exact Hw|]. intro k. cbn. destruct (vstate gs k); reflexivity.
  - destruct (IH (vg_apply kind gs (key_of (grp g (snd sm))) (grp g (snd sm)) (fst sm)) (vg_apply_wf _ _ _ _ _ eq_refl Hw)) as [A B].
    split; [exact A|]. intro k. rewrite B, vg_apply_state. cbn [filter map]. unfold group_key at 2.
    destruct (lmap_eqb (key_of (grp g (snd sm))) k); cbn [map fold_left].
    + destruct (map fst (filter (fun sm0 => lmap_eqb (group_key grp g sm0) k) t)); reflexivity.
    + reflexivity.
Qed.

(** lookup of a group's value in the output step *)
Lemma vagg_lookup kind (gs : list vgroup) k T : vwf gs ->
  step_lookup k {| st_ts := T; st_samples := map (fun gr : vgroup => (agg_result kind (snd (snd gr)), fst (snd gr))) gs |} =
  match vstate gs k with Some a => Some (agg_result kind a) | None => None end.
Proof.
  intros [Hn Hf]. unfold step_lookup. cbn [st_samples]. induction gs as [|[k0 [m a]] t IH]; cbn; [reflexivity|].
  inversion Hn; inversion Hf as [|x0 l0 Hx Hl]; subst. cbn in Hx. rewrite Hx.
  destruct (lmap_eqb k0 k); [reflexivity|apply IH; assumption].
Qed.

(** one series per distinct combination of retained labels; its value is the aggregate of exactly the group's members, in arrival order *)
Theorem vagg_groups_lemma op g s k :
  is_heap_op op = false ->
  let out := vagg_step vec_grouping op g s in
  st_ts out = st_ts s /\
  NoDup (map (fun sm : sample => key_of (snd sm)) (st_samples out)) /\
  step_lookup k out =
    match map fst (filter (fun sm => lmap_eqb (restrict g (visible (snd sm))) k) (st_samples s)) with
    | [] => None
    | vs => Some (agg_list (kind_of op) vs)
    end.
Proof.
  intros _. unfold vagg_step. cbn zeta.
  destruct (vagg_fold vec_grouping (kind_of op) g (st_samples s) [] (conj (NoDup_nil _) (Forall_nil _))) as [Hw Hs].
  cbn zeta in Hw, Hs. split; [reflexivity|]. split.
  - cbn [st_samples]. rewrite map_map. cbn [snd]. destruct Hw as [Hn Hf].
    assert (Heq : map (fun x : lmap * (alabels * aggstate) => key_of (fst (snd x))) (fold_left (fun gs (sm : sample) => vg_apply (kind_of op) gs (key_of (vec_grouping g (snd sm))) (vec_grouping g (snd sm)) (fst sm)) (st_samples s) []) =
                  map fst (fold_left (fun gs (sm : sample) => vg_apply (kind_of op) gs (key_of (vec_grouping g (snd sm))) (vec_grouping g (snd sm)) (fst sm)) (st_samples s) [])).
    { apply map_ext_in. intros a Ha. rewrite Forall_forall in Hf. apply (Hf a Ha). }
    rewrite Heq. exact Hn.
  - etransitivity; [apply (vagg_lookup (kind_of op) _ k (st_ts s) Hw)|]. rewrite Hs. cbn [vstate].
    assert (Hf : filter (fun sm : sample => lmap_eqb (group_key vec_grouping g sm) k) (st_samples s) =
                 filter (fun sm : sample => lmap_eqb (restrict g (visible (snd sm))) k) (st_samples s)).
    { apply filter_ext. intro sm. unfold group_key, key_of. rewrite visible_vec_grouping. reflexivity. }
    rewrite Hf. unfold sample in *. destruct (map fst (filter (fun sm : float * alabels => lmap_eqb (restrict g (visible (snd sm))) k) (st_samples s))); reflexivity.
Qed.

(** * sort / sort_desc return a permutation of their input *)
Lemma insert_s_perm less x l : Permutation (insert_s less x l) (x :: l).
Proof.
  induction l as [|y t IH]; cbn; [reflexivity|]. destruct (less x y); [reflexivity|].
  eapply Permutation_trans; [apply perm_skip; exact IH|apply perm_swap].
Qed.
Lemma sort_s_perm less l : Permutation (sort_s less l) l.
Proof. unfold sort_s. induction l as [|x t IH]; cbn; [reflexivity|]. eapply Permutation_trans; [apply insert_s_perm|apply perm_skip; exact IH]. Qed.

Lemma hg_offer_single less greater gs s : forall h, gs = [([], h)] -> hg_offer less greater (-1) gs [] s = [([], h ++ [s])].
Proof. intros h ->. reflexivity. Qed.

Lemma heap_sort_all (less greater : sample -> sample -> bool) samples :
  flat_map (fun gr : hgroup => sort_s less (snd gr))
           (fold_left (fun gs (sm : sample) => hg_offer less greater (-1) gs (key_of (vec_grouping GNone (snd sm))) sm) samples []) = sort_s less samples.
Proof.
  assert (Hfold : forall samples h,
            fold_left (fun gs (sm : sample) => hg_offer less greater (-1) gs (key_of (vec_grouping GNone (snd sm))) sm) samples [([], h)] = [([], h ++ samples)]).
  { induction samples0 as [|sm t IH]; intro h; cbn [fold_left]; [rewrite app_nil_r; reflexivity|].
    cbn [vec_grouping]. change (key_of empty_al) with (@nil (bytes * bytes)). cbn [hg_offer lmap_eqb heap_offer Z.ltb Z.compare].
    rewrite IH, <- app_assoc. reflexivity. }
  destruct samples as [|sm t]; [reflexivity|].
  cbn [fold_left vec_grouping]. change (key_of empty_al) with (@nil (bytes * bytes)). cbn [hg_offer heap_offer Z.ltb Z.compare app].
  rewrite Hfold. cbn [flat_map snd app]. rewrite app_nil_r. reflexivity.
Qed.

Theorem sort_permutation_lemma op s :
  (op = VSort \/ op = VSortDesc) ->
  Permutation (st_samples (vheap_step vec_grouping op (-1) GNone s)) (st_samples s) /\ st_ts (vheap_step vec_grouping op (-1) GNone s) = st_ts s.
Proof.
  intros [-> | ->]; unfold vheap_step; cbn [Z.eqb st_samples st_ts]; rewrite heap_sort_all; (split; [apply sort_s_perm|reflexivity]).
Qed.
