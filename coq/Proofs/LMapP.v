(** Finite-map laws of the sorted association lists of Base/LMap.v. *)
From LogQLV Require Import Base.Bytes Base.LMap.

Lemma cmp_refl k : bytes_cmp k k = Eq.
Proof. apply bytes_cmp_eq; reflexivity. Qed.

Lemma cmp_gt_lt a b : bytes_cmp a b = Gt -> bytes_cmp b a = Lt.
Proof. intro H. rewrite bytes_cmp_antisym, H. reflexivity. Qed.

Lemma cmp_lt_gt a b : bytes_cmp a b = Lt -> bytes_cmp b a = Gt.
Proof. intro H. rewrite bytes_cmp_antisym, H. reflexivity. Qed.

(** lower bound: k is strictly below the first key of m *)
Definition lb (k : bytes) (m : lmap) : Prop :=
  match m with [] => True | (k1, _) :: _ => bytes_cmp k k1 = Lt end.

Lemma lsorted_cons k v t : lsorted ((k, v) :: t) = true <-> lb k t /\ lsorted t = true.
Proof.
  destruct t as [|[k1 v1] t']; cbn; [tauto|].
  unfold bytes_ltb. destruct (bytes_cmp k k1); cbn; split; intro H; try discriminate; try tauto; destruct H; discriminate.
Qed.

Lemma lb_trans a b t : bytes_cmp a b = Lt -> lb b t -> lb a t.
Proof. destruct t as [|[k1 v1] t']; cbn; [tauto|]. intros H1 H2. eapply bytes_cmp_trans_lt; eauto. Qed.

Lemma lget_below k m : lb k m -> lget m k = None.
Proof. destruct m as [|[k1 v1] t]; cbn; [reflexivity|]. intros ->. reflexivity. Qed.

Lemma lget_lset_same m k v : lget (lset m k v) k = Some v.
Proof.
  induction m as [|[k0 v0] t IH]; cbn; [rewrite cmp_refl; reflexivity|].
  destruct (bytes_cmp k k0) eqn:E; cbn; rewrite ?cmp_refl, ?E; auto.
Qed.

Lemma lget_lset_other m k k' v : k <> k' -> lsorted m = true -> lget (lset m k v) k' = lget m k'.
Proof.
  intros Hne. induction m as [|[k0 v0] t IH]; intro Hs; cbn.
  - destruct (bytes_cmp k' k) eqn:E; auto. apply bytes_cmp_eq in E. congruence.
  - apply lsorted_cons in Hs as [Hlb Hs].
    destruct (bytes_cmp k k0) eqn:E; cbn.
    + apply bytes_cmp_eq in E. subst k0. destruct (bytes_cmp k' k) eqn:E2; auto. apply bytes_cmp_eq in E2. congruence.
    + destruct (bytes_cmp k' k) eqn:E2.
      * apply bytes_cmp_eq in E2. congruence.
      * rewrite (bytes_cmp_trans_lt _ _ _ E2 E). reflexivity.
      * reflexivity.
    + destruct (bytes_cmp k' k0); auto.
Qed.

Lemma lb_lset k0 t k v : lb k0 t -> bytes_cmp k0 k = Lt -> lb k0 (lset t k v).
Proof. destruct t as [|[k1 v1] t']; cbn; [auto|]. intros H1 H2. destruct (bytes_cmp k k1); cbn; auto. Qed.

Lemma lsorted_lset m k v : lsorted m = true -> lsorted (lset m k v) = true.
Proof.
  induction m as [|[k0 v0] t IH]; intro Hs; [reflexivity|].
  pose proof Hs as Hs0. apply lsorted_cons in Hs as [Hlb Hs]. cbn [lset].
  destruct (bytes_cmp k k0) eqn:E.
  - apply bytes_cmp_eq in E. subst k0. apply lsorted_cons. auto.
  - apply lsorted_cons. split; [exact E|exact Hs0].
  - apply lsorted_cons. split; [apply lb_lset; [exact Hlb|apply cmp_gt_lt; exact E]|apply IH; exact Hs].
Qed.

Lemma lget_ldel_same m k : lsorted m = true -> lget (ldel m k) k = None.
Proof.
  induction m as [|[k0 v0] t IH]; intro Hs; [reflexivity|].
  apply lsorted_cons in Hs as [Hlb Hs]. cbn [ldel].
  destruct (bytes_cmp k k0) eqn:E.
  - apply bytes_cmp_eq in E. subst k0. apply lget_below; exact Hlb.
  - cbn. rewrite E. reflexivity.
  - cbn. rewrite E. apply IH; exact Hs.
Qed.

Lemma lget_ldel_other m k k' : k <> k' -> lsorted m = true -> lget (ldel m k) k' = lget m k'.
Proof.
  intro Hne. induction m as [|[k0 v0] t IH]; intro Hs; [reflexivity|].
  apply lsorted_cons in Hs as [Hlb Hs]. cbn [ldel].
  destruct (bytes_cmp k k0) eqn:E.
  - apply bytes_cmp_eq in E. subst k0. cbn. destruct (bytes_cmp k' k) eqn:E2.
    + apply bytes_cmp_eq in E2. congruence.
    + apply lget_below. eapply lb_trans; eauto.
    + reflexivity.
  - reflexivity.
  - cbn. destruct (bytes_cmp k' k0); auto.
Qed.

Lemma lb_ldel k0 t k : lsorted t = true -> lb k0 t -> lb k0 (ldel t k).
Proof.
  destruct t as [|[k1 v1] t']; [cbn; auto|]. intros Hs H. cbn [ldel].
  destruct (bytes_cmp k k1); [|exact H|exact H].
  apply lsorted_cons in Hs as [Hlb _]. eapply lb_trans; eauto.
Qed.

Lemma lsorted_ldel m k : lsorted m = true -> lsorted (ldel m k) = true.
Proof.
  induction m as [|[k0 v0] t IH]; intro Hs; [reflexivity|].
  pose proof Hs as Hs0. apply lsorted_cons in Hs as [Hlb Hs]. cbn [ldel].
  destruct (bytes_cmp k k0); auto.
  apply lsorted_cons. split; [apply lb_ldel; assumption|apply IH; exact Hs].
Qed.

Lemma lb_lfilter f k0 t : lsorted t = true -> lb k0 t -> lb k0 (lfilter f t).
Proof.
  unfold lfilter. induction t as [|[k1 v1] t' IH]; [cbn; auto|]. intros Hs H. cbn [filter fst snd].
  destruct (f k1 v1); [exact H|].
  apply lsorted_cons in Hs as [Hlb Hs]. apply IH; [exact Hs|eapply lb_trans; eauto].
Qed.

Lemma lsorted_lfilter f m : lsorted m = true -> lsorted (lfilter f m) = true.
Proof.
  induction m as [|[k0 v0] t IH]; intro Hs; [reflexivity|].
  apply lsorted_cons in Hs as [Hlb Hs]. unfold lfilter in *. cbn [filter fst snd].
  destruct (f k0 v0); [|apply IH; exact Hs].
  apply lsorted_cons. split; [apply (lb_lfilter f); assumption|apply IH; exact Hs].
Qed.

Lemma lget_lfilter f m k : lsorted m = true ->
  lget (lfilter f m) k = match lget m k with Some v => if f k v then Some v else None | None => None end.
Proof.
  induction m as [|[k0 v0] t IH]; intro Hs; [reflexivity|].
  apply lsorted_cons in Hs as [Hlb Hs]. unfold lfilter in *. cbn [filter fst snd lget].
  destruct (f k0 v0) eqn:Ef; cbn [lget].
  - destruct (bytes_cmp k k0) eqn:E; auto. apply bytes_cmp_eq in E. subst k0. rewrite Ef. reflexivity.
  - destruct (bytes_cmp k k0) eqn:E.
    + apply bytes_cmp_eq in E. subst k0. rewrite Ef. rewrite (IH Hs). rewrite (lget_below k t Hlb). reflexivity.
    + rewrite (IH Hs). rewrite (lget_below k t); [reflexivity|eapply lb_trans; eauto].
    + apply IH; exact Hs.
Qed.

Lemma lhas_lget m k : lhas m k = match lget m k with Some _ => true | None => false end.
Proof. reflexivity. Qed.

Lemma lmap_of_list_sorted l : lsorted (lmap_of_list l) = true.
Proof.
  unfold lmap_of_list. assert (H : forall m, lsorted m = true -> lsorted (fold_left (fun m p => lset m (fst p) (snd p)) l m) = true).
  { induction l as [|p t IH]; intros m Hm; cbn; [exact Hm|]. apply IH. apply lsorted_lset; exact Hm. }
  apply H. reflexivity.
Qed.
