(** C05: one arithmetic or comparison operation between a range aggregation and a number, on either side, with or without a modifier:
      rate ( {..} [5m] ) > 0.5      count_over_time ( .. ) * 100      rate ( .. ) > bool 1      rate ( .. ) - -5      100 * rate ( .. )
    The number is one number token (its value is what strconv.ParseFloat read from it) with an optional sign token in front; the tree is
    EBin (range aggregation) op modifier (ELit (copysign value sign))  resp. with the literal on the left.  The set operations
    and / or / unless reject a scalar operand ([scalar_logic_rejected]). *)
From LogQLV Require Import Base.Bytes Base.FloatX Model.Tables Model.Syntax Model.Parser Proofs.ParserP Proofs.PipelineP Proofs.LogRangeP Proofs.QueryP
  Proofs.BinRangeP Proofs.BinModP.
From Coq Require Import Lia.

(** a literal as written: optional sign, then a number token *)
Definition print_lit (sign : option bool) (txt : bytes) (v : float) : list token :=
  match sign with None => [] | Some false => [punct TAdd] | Some true => [punct TSub] end ++ [num_tok txt v].
Definition lit_val (sign : option bool) (v : float) : float := copysign v (match sign with Some true => true | _ => false end).

Section BinLit.
  Variable anch : bytes -> bool.
  Variable re_names : bytes -> option (list bytes).

  Ltac stepb := erewrite bind_POk by reflexivity; cbv beta; cbn [rest prev].

  Definition print_bin_lit_r cls (op : binop) (m : msrc) (a : operand) sign txt v : list token :=
    print_operand anch re_names cls a ++ punct (bin_tok op) :: print_mod m ++ print_lit sign txt v.
  Definition print_bin_lit_l cls (op : binop) (m : msrc) sign txt v (b : operand) : list token :=
    print_lit sign txt v ++ punct (bin_tok op) :: print_mod m ++ print_operand anch re_names cls b.

  Lemma lit_head sign txt v : exists t tl, print_lit sign txt v = t :: tl /\ nomod t /\ is_ty t TOpenBrace = false.
  Proof. destruct sign as [[|]|]; cbn [print_lit app]; eexists; eexists; (split; [reflexivity|split; [repeat split; reflexivity|reflexivity]]). Qed.

  (** parseMetricExpr1 on a literal *)
  Lemma lit_core f sign txt v p r :
    parse_core (S f) CMetric1 {| prev := p; rest := print_lit sign txt v ++ r |} =
      POk (ELit (lit_val sign v)) {| prev := rev (print_lit sign txt v) ++ p; rest := r |}.
  Proof. destruct sign as [[|]|]; reflexivity. Qed.

  Lemma print_lit_len sign txt v : (1 <= length (print_lit sign txt v))%nat.
  Proof. destruct sign as [[|]|]; cbn; lia. Qed.

  Theorem bin_lit_right_parse_lemma cls op m a sign txt v :
    metric_op op = true -> is_logic op = false ->
    wf_operand anch re_names cls a (punct (bin_tok op) :: print_mod m ++ print_lit sign txt v) ->
    parse_tokens (print_bin_lit_r cls op m a sign txt v) = Parsed (EBin (operand_expr a) op (mod_of m) (ELit (lit_val sign v))).
  Proof.
    intros Hop Hlg [Hva [Hsa [Hna Hca]]]. unfold parse_tokens.
    set (toks := print_bin_lit_r cls op m a sign txt v).
    assert (Hlen : (length (a_sel a) + fuel_needed (a_sts a) + mod_fuel m + 4 <= 2 * length toks)%nat).
    { unfold toks, print_bin_lit_r, print_operand, QueryP.print_range_agg, print_logrange. repeat (rewrite app_length || cbn [length]).
      pose proof (print_selector_len anch re_names cls (a_sel a)). pose proof (stages_fuel anch re_names (a_sts a) _ Hca).
      pose proof (print_mod_len m). lia. }
    remember (16 * length toks + 64)%nat as fuel eqn:Ef.
    do 8 (destruct fuel as [|fuel]; [lia|]).
    assert (Hf : (length (a_sel a) < fuel /\ fuel_needed (a_sts a) < fuel /\ mod_fuel m <= fuel)%nat) by lia.
    destruct Hf as [Hf1 [Hf2 Hf5]].
    destruct (bin_tok_facts op Hop) as [Hpk [Hby Hwo]].
    clear Ef Hlen. subst toks.
    destruct (operand_head anch re_names cls a) as [tla Ea].
    destruct (rangeop_tok_not (a_op a)) as [Hba Hpa].
    assert (Hhead : match print_bin_lit_r cls op m a sign txt v with [] => eof_tok | t :: _ => t end = punct (rangeop_tok (a_op a))) by (unfold print_bin_lit_r; rewrite Ea; reflexivity).
    rewrite core_expr_metric by (rewrite Hhead; exact Hba).
    rewrite core_metric. unfold bind at 1. unfold print_bin_lit_r. unfold print_operand at 1.
    rewrite (range_agg_core anch re_names cls (a_op a) (a_sel a) (a_sts a) (a_rtxt a) (a_rns a) (a_off a) (S (S (S (S (S fuel))))) [] _ Hva Hsa Hna Hca);
      [|lia|lia|split; [exact Hby|exact Hwo]].
    rewrite core_binop_unfold. stepb. rewrite Hpk.
    assert (Hprec : (precedence op <? 0) = false) by (destruct op; reflexivity). rewrite Hprec.
    stepb.
    destruct (lit_head sign txt v) as [t [tl [El [Hnm _]]]].
    rewrite El.
    erewrite bind_POk by (apply (modifier_print m _ _ _ _ Hnm); lia). cbv beta. rewrite <- El.
    rewrite <- (app_nil_r (print_lit sign txt v)).
    erewrite bind_POk by (apply lit_core). cbv beta.
    rewrite Hlg. cbn [andb].
    erewrite bind_POk by (apply core_inner_end). cbv beta.
    rewrite core_binop_end by exact I. reflexivity.
  Qed.

  Theorem bin_lit_left_parse_lemma cls op m sign txt v b :
    metric_op op = true -> is_logic op = false ->
    wf_operand anch re_names cls b [] ->
    parse_tokens (print_bin_lit_l cls op m sign txt v b) = Parsed (EBin (ELit (lit_val sign v)) op (mod_of m) (operand_expr b)).
  Proof.
    intros Hop Hlg [Hvb [Hsb [Hnb Hcb]]]. unfold parse_tokens.
    set (toks := print_bin_lit_l cls op m sign txt v b).
    assert (Hlen : (length (a_sel b) + fuel_needed (a_sts b) + mod_fuel m + 4 <= 2 * length toks)%nat).
    { unfold toks, print_bin_lit_l, print_operand, QueryP.print_range_agg, print_logrange. repeat (rewrite app_length || cbn [length]).
      pose proof (print_selector_len anch re_names cls (a_sel b)). pose proof (stages_fuel anch re_names (a_sts b) _ Hcb).
      pose proof (print_mod_len m). lia. }
    remember (16 * length toks + 64)%nat as fuel eqn:Ef.
    do 8 (destruct fuel as [|fuel]; [lia|]).
    assert (Hf : (length (a_sel b) < fuel /\ fuel_needed (a_sts b) < fuel /\ mod_fuel m <= fuel)%nat) by lia.
    destruct Hf as [Hf3 [Hf4 Hf5]].
    destruct (bin_tok_facts op Hop) as [Hpk [Hby Hwo]].
    clear Ef Hlen. subst toks.
    destruct (operand_head anch re_names cls b) as [tlb Eb].
    destruct (lit_head sign txt v) as [t [tl [El [_ Hnb2]]]].
    assert (Hhead : is_ty (match print_bin_lit_l cls op m sign txt v b with [] => eof_tok | t0 :: _ => t0 end) TOpenBrace = false).
    { unfold print_bin_lit_l. rewrite El. exact Hnb2. }
    rewrite core_expr_metric by exact Hhead.
    rewrite core_metric. unfold bind at 1. unfold print_bin_lit_l.
    rewrite (lit_core _ sign txt v [] _).
    rewrite core_binop_unfold. stepb. rewrite Hpk.
    assert (Hprec : (precedence op <? 0) = false) by (destruct op; reflexivity). rewrite Hprec.
    stepb.
    rewrite Eb.
    erewrite bind_POk by (apply (modifier_print m _ _ _ _ (rangeop_nomod (a_op b))); lia). cbv beta. rewrite <- Eb.
    rewrite <- (app_nil_r (print_operand anch re_names cls b)). unfold print_operand at 1.
    erewrite bind_POk by (apply (range_agg_core anch re_names cls (a_op b) (a_sel b) (a_sts b) (a_rtxt b) (a_rns b) (a_off b) (S (S (S (S fuel)))) _ [] Hvb Hsb Hnb Hcb); [lia|lia|exact I]).
    cbv beta.
    rewrite Hlg. cbn [andb].
    erewrite bind_POk by (apply core_inner_end). cbv beta.
    rewrite core_binop_end by exact I. reflexivity.
  Qed.

  (** and / or / unless with a number on the right are rejected, whatever the aggregation and the modifier (the D36 check) *)
  Theorem scalar_logic_rejected_lemma cls op m a sign txt v :
    metric_op op = true -> is_logic op = true ->
    wf_operand anch re_names cls a (punct (bin_tok op) :: print_mod m ++ print_lit sign txt v) ->
    parse_tokens (print_bin_lit_r cls op m a sign txt v) = Rejected.
  Proof.
    intros Hop Hlg [Hva [Hsa [Hna Hca]]]. unfold parse_tokens.
    set (toks := print_bin_lit_r cls op m a sign txt v).
    assert (Hlen : (length (a_sel a) + fuel_needed (a_sts a) + mod_fuel m + 4 <= 2 * length toks)%nat).
    { unfold toks, print_bin_lit_r, print_operand, QueryP.print_range_agg, print_logrange. repeat (rewrite app_length || cbn [length]).
      pose proof (print_selector_len anch re_names cls (a_sel a)). pose proof (stages_fuel anch re_names (a_sts a) _ Hca).
      pose proof (print_mod_len m). lia. }
    remember (16 * length toks + 64)%nat as fuel eqn:Ef.
    do 8 (destruct fuel as [|fuel]; [lia|]).
    assert (Hf : (length (a_sel a) < fuel /\ fuel_needed (a_sts a) < fuel /\ mod_fuel m <= fuel)%nat) by lia.
    destruct Hf as [Hf1 [Hf2 Hf5]].
    destruct (bin_tok_facts op Hop) as [Hpk [Hby Hwo]].
    clear Ef Hlen. subst toks.
    destruct (operand_head anch re_names cls a) as [tla Ea].
    destruct (rangeop_tok_not (a_op a)) as [Hba Hpa].
    assert (Hhead : match print_bin_lit_r cls op m a sign txt v with [] => eof_tok | t :: _ => t end = punct (rangeop_tok (a_op a))) by (unfold print_bin_lit_r; rewrite Ea; reflexivity).
    rewrite core_expr_metric by (rewrite Hhead; exact Hba).
    rewrite core_metric. unfold bind at 1. unfold print_bin_lit_r. unfold print_operand at 1.
    rewrite (range_agg_core anch re_names cls (a_op a) (a_sel a) (a_sts a) (a_rtxt a) (a_rns a) (a_off a) (S (S (S (S (S fuel))))) [] _ Hva Hsa Hna Hca);
      [|lia|lia|split; [exact Hby|exact Hwo]].
    rewrite core_binop_unfold. stepb. rewrite Hpk.
    assert (Hprec : (precedence op <? 0) = false) by (destruct op; reflexivity). rewrite Hprec.
    stepb.
    destruct (lit_head sign txt v) as [t [tl [El [Hnm _]]]].
    rewrite El.
    erewrite bind_POk by (apply (modifier_print m _ _ _ _ Hnm); lia). cbv beta. rewrite <- El.
    rewrite <- (app_nil_r (print_lit sign txt v)).
    erewrite bind_POk by (apply lit_core). cbv beta.
    change (is_lit (range_expr (a_op a) (a_sel a) (a_sts a) (a_rns a) (a_off a))) with false. rewrite andb_false_r.
    erewrite bind_POk by (apply core_inner_end). cbv beta.
    rewrite Hlg. cbn [andb is_lit]. unfold fail. reflexivity.
  Qed.
End BinLit.
