(** C04: the faithful mergeIter loop (exact container/heap operations) delivers every record of every source exactly
    once and keeps each source's own order.  No property of [less] is needed for these two conclusions: they hold
    for ANY heap discipline that never loses or duplicates an element (HeapP). *)
From Coq Require Import List Arith Bool Lia Permutation ZArith.
Import ListNotations.
From LogQLV Require Import Base.Heap Model.Merge Proofs.HeapP Proofs.MergeP Proofs.HeapOrderP.
From Coq Require Import Sorted.

Section MergeOrder.
  Variable R : Type.
  Variable ts : R -> Z.
  Variable dflt : R.

  Notation elem := (nat * R)%type.
  Notation source := (Merge.source R).
  Notation hpush := (hpush R ts dflt).
  Notation hpop := (hpop R ts dflt).
  Notation pull := (pull R).
  Notation merge_next := (merge_next ts dflt).
  Notation merge_loop := (merge_loop ts dflt).
  Notation init_from := (init_from R ts dflt).

  Definition of_src (k : nat) (l : list elem) : list R := map snd (filter (fun e => Nat.eqb (fst e) k) l).
  Definition rest_of (srcs : list source) (k : nat) : list R := match nth_error srcs k with Some (l, _) => l | None => [] end.
  Definition clean (srcs : list source) : Prop := Forall (fun s => snd s = false) srcs.

  (** * Small facts *)
  Lemma filter_key_le1 k (h : list elem) : NoDup (map fst h) -> length (filter (fun e => Nat.eqb (fst e) k) h) <= 1.
  Proof.
    induction h as [|[i r] t IH]; cbn; intro Hn; [lia|]. inversion Hn; subst.
    destruct (Nat.eqb_spec i k); cbn; [|apply IH; assumption]. subst i.
    assert (filter (fun e : elem => Nat.eqb (fst e) k) t = []) as ->; [|cbn; lia].
    clear -H1. induction t as [|[j x] t IH]; cbn; [reflexivity|]. destruct (Nat.eqb_spec j k).
    - subst. exfalso. apply H1. left; reflexivity.
    - apply IH. intro; apply H1; right; assumption.
  Qed.

  Lemma perm_le1 {A} (a b : list A) : Permutation a b -> length a <= 1 -> a = b.
  Proof.
    intros P Hl. destruct a as [|x [|y a]]; cbn in Hl; try lia.
    - apply Permutation_nil in P. subst; reflexivity.
    - apply Permutation_length_1_inv in P. subst; reflexivity.
  Qed.

  Lemma of_src_perm k h1 h2 : Permutation h1 h2 -> NoDup (map fst h1) -> of_src k h1 = of_src k h2.
  Proof.
    intros P Hn. unfold of_src. f_equal. apply perm_le1; [|apply filter_key_le1; exact Hn].
    clear Hn. induction P; cbn; auto.
    - destruct (Nat.eqb (fst x) k); [constructor|]; exact IHP.
    - destruct (Nat.eqb (fst x) k); destruct (Nat.eqb (fst y) k); try reflexivity. apply perm_swap.
    - eapply Permutation_trans; eassumption.
  Qed.

  Lemma nodup_fst_perm (h1 h2 : list elem) : Permutation h1 h2 -> NoDup (map fst h1) -> NoDup (map fst h2).
  Proof. intros P Hn. eapply Permutation_NoDup; [apply Permutation_map; exact P|exact Hn]. Qed.

  Lemma of_src_absent k (h : list elem) : ~ In k (map fst h) -> of_src k h = [].
  Proof.
    unfold of_src. induction h as [|[i r] t IH]; cbn; intro H; [reflexivity|].
    destruct (Nat.eqb_spec i k); [subst; exfalso; apply H; left; reflexivity|]. apply IH. intro; apply H; right; assumption.
  Qed.

  (** * pull *)
  Lemma rest_set_nth_eq srcs i (s : source) : i < length srcs -> rest_of (set_nth srcs i s) i = fst s.
  Proof. intro H. unfold rest_of. rewrite (nth_error_set_nth_eq srcs i s H). destruct s; reflexivity. Qed.
  Lemma rest_set_nth_neq srcs i k (s : source) : i <> k -> rest_of (set_nth srcs i s) k = rest_of srcs k.
  Proof. intro H. unfold rest_of. rewrite (nth_error_set_nth_neq srcs i k s H). reflexivity. Qed.

  Lemma nth_error_lt {A} (l : list A) i x : nth_error l i = Some x -> i < length l.
  Proof. intro H. apply nth_error_Some. congruence. Qed.

  Lemma clean_set_nth srcs i l : clean srcs -> clean (set_nth srcs i (l, false)).
  Proof.
    unfold clean. revert i; induction srcs as [|s t IH]; intros [|i] H; cbn; auto; inversion H; subst; constructor; auto.
  Qed.

  Lemma pull_some srcs idx r srcs' : clean srcs -> pull srcs idx = (Some r, srcs') ->
    rest_of srcs idx = r :: rest_of srcs' idx /\ (forall k, k <> idx -> rest_of srcs' k = rest_of srcs k) /\ clean srcs' /\
    total R srcs = S (total R srcs') /\ length srcs' = length srcs.
  Proof.
    intros Hc H. unfold Merge.pull in H. destruct (nth_error srcs idx) as [[l e]|] eqn:En; [|discriminate].
    destruct l as [|x rest]; [discriminate|]. inversion H; subst. clear H.
    pose proof (nth_error_lt _ _ _ En) as Hlt.
    assert (e = false) as -> by (unfold clean in Hc; rewrite Forall_forall in Hc; apply (Hc (r :: rest, e)); eapply nth_error_In; exact En).
    repeat split.
    - unfold rest_of at 1. rewrite En. rewrite rest_set_nth_eq by exact Hlt. reflexivity.
    - intros k Hk. apply rest_set_nth_neq. congruence.
    - apply clean_set_nth; exact Hc.
    - clear Hc. revert idx En Hlt. induction srcs as [|s t IH]; intros [|i] En Hlt; cbn [nth_error length set_nth] in *; try lia.
      + inversion En; subst. unfold total. cbn. lia.
      + unfold total in *. cbn [fold_right]. rewrite (IH i En ltac:(lia)). lia.
    - apply set_nth_len.
  Qed.

  Lemma pull_none srcs idx srcs' : pull srcs idx = (None, srcs') -> srcs' = srcs /\ rest_of srcs idx = [].
  Proof.
    unfold Merge.pull, rest_of. destruct (nth_error srcs idx) as [[l e]|]; [destruct l|]; intro H; inversion H; auto.
  Qed.

  Lemma clean_not_failed srcs idx : clean srcs -> src_failed R srcs idx = false.
  Proof.
    intro Hc. unfold src_failed. destruct (nth_error srcs idx) as [[l e]|] eqn:En; [|reflexivity].
    assert (e = false) as -> by (unfold clean in Hc; rewrite Forall_forall in Hc; apply (Hc (l, e)); eapply nth_error_In; exact En).
    destruct l; reflexivity.
  Qed.

  (** every source that still has records has its next record in the heap *)
  Definition fed (heap : list elem) (srcs : list source) : Prop := forall k, In k (map fst heap) \/ rest_of srcs k = [].

  Lemma in_fst_perm (h1 h2 : list elem) k : Permutation h1 h2 -> In k (map fst h1) -> In k (map fst h2).
  Proof. intros P H. eapply Permutation_in; [apply Permutation_map; exact P|exact H]. Qed.

  (** * The loop: per-source order *)
  Lemma loop_order : forall fuel heap srcs out,
    clean srcs -> NoDup (map fst heap) -> fed heap srcs ->
    merge_loop fuel heap srcs = (out, false) ->
    forall k, of_src k out = of_src k heap ++ rest_of srcs k.
  Proof.
    induction fuel as [|f IH]; intros heap srcs out Hc Hn Hfed H k; cbn in H; [discriminate|].
    unfold Merge.merge_next in H.
    destruct (hpop heap) as [[[idx r] heap']|] eqn:Ep.
    - pose proof (heap_pop_perm _ _ _ _ _ _ Ep) as P.
      assert (Hn' : NoDup (map fst ((idx, r) :: heap'))) by (eapply nodup_fst_perm; eassumption).
      cbn in Hn'. inversion Hn' as [|? ? Hnotin Hn2]; subst.
      rewrite (of_src_perm k _ _ P Hn).
      destruct (pull srcs idx) as [[r'|] srcs'] eqn:Epull.
      + destruct (pull_some _ _ _ _ Hc Epull) as [Hr [Hoth [Hc' _]]].
        destruct (merge_loop f (hpush heap' (idx, r')) srcs') as [out' err] eqn:El. inversion H; subst.
        assert (Pp : Permutation (hpush heap' (idx, r')) ((idx, r') :: heap')) by apply heap_push_perm.
        assert (Hnp : NoDup (map fst (hpush heap' (idx, r')))).
        { eapply nodup_fst_perm; [apply Permutation_sym; exact Pp|]. cbn. constructor; assumption. }
        assert (Hfed' : fed (hpush heap' (idx, r')) srcs').
        { intro j. destruct (Nat.eq_dec j idx) as [->|Hj].
          - left. eapply in_fst_perm; [apply Permutation_sym; exact Pp|]. left; reflexivity.
          - destruct (Hfed j) as [Hin|Hre].
            + left. eapply in_fst_perm; [apply Permutation_sym; exact Pp|]. right.
              pose proof (in_fst_perm _ _ j P Hin) as Hin2. cbn in Hin2. destruct Hin2 as [Heq|Hin2]; [congruence|exact Hin2].
            + right. rewrite (Hoth j Hj). exact Hre. }
        specialize (IH _ _ _ Hc' Hnp Hfed' El k). rewrite (of_src_perm k _ _ Pp Hnp) in IH.
        unfold of_src in *. cbn [filter map fst snd] in *.
        destruct (Nat.eqb_spec idx k) as [->|Hne]; cbn [map] in *.
        * rewrite IH, Hr. rewrite (of_src_absent k heap' Hnotin : map snd (filter (fun e : elem => Nat.eqb (fst e) k) heap') = []). reflexivity.
        * rewrite IH, (Hoth k ltac:(congruence)). reflexivity.
      + destruct (pull_none _ _ _ Epull) as [-> Hr]. rewrite (clean_not_failed srcs idx Hc) in H.
        destruct (merge_loop f heap' srcs) as [out' err] eqn:El. inversion H; subst.
        assert (Hfed' : fed heap' srcs).
        { intro j. destruct (Nat.eq_dec j idx) as [->|Hj]; [right; exact Hr|].
          destruct (Hfed j) as [Hin|Hre]; [left|right; exact Hre].
          pose proof (in_fst_perm _ _ j P Hin) as Hin2. cbn in Hin2. destruct Hin2 as [Heq|Hin2]; [congruence|exact Hin2]. }
        specialize (IH _ _ _ Hc Hn2 Hfed' El k).
        unfold of_src in *. cbn [filter map fst snd] in *.
        destruct (Nat.eqb_spec idx k) as [->|Hne]; cbn [map] in *.
        * rewrite IH, Hr. rewrite (of_src_absent k heap' Hnotin : map snd (filter (fun e : elem => Nat.eqb (fst e) k) heap') = []). reflexivity.
        * exact IH.
    - inversion H; subst. apply heap_pop_none in Ep. subst heap. cbn.
      destruct (Hfed k) as [[]|Hre]. rewrite Hre. reflexivity.
  Qed.

  (** * The loop: fuel *)
  Lemma loop_fuel : forall fuel heap srcs, clean srcs -> length heap + total R srcs < fuel -> snd (merge_loop fuel heap srcs) = false.
  Proof.
    induction fuel as [|f IH]; intros heap srcs Hc Hlt; [lia|]. cbn. unfold Merge.merge_next.
    destruct (hpop heap) as [[[idx r] heap']|] eqn:Ep; [|reflexivity].
    pose proof (heap_pop_length _ _ _ _ _ _ Ep) as Hl.
    destruct (pull srcs idx) as [[r'|] srcs'] eqn:Epull.
    - destruct (pull_some _ _ _ _ Hc Epull) as [_ [_ [Hc' [Ht _]]]].
      assert (Hlen : length (hpush heap' (idx, r')) = S (length heap')) by (apply (Permutation_length (heap_push_perm _ _ _ _ _))).
      specialize (IH (hpush heap' (idx, r')) srcs' Hc' ltac:(lia)).
      destruct (merge_loop f (hpush heap' (idx, r')) srcs'). exact IH.
    - destruct (pull_none _ _ _ Epull) as [-> _]. rewrite (clean_not_failed srcs idx Hc).
      specialize (IH heap' srcs Hc ltac:(lia)). destruct (merge_loop f heap' srcs). exact IH.
  Qed.

  (** * init *)
  Lemma init_spec : forall n idx heap srcs heap' srcs',
    clean srcs -> NoDup (map fst heap) -> (forall j, In j (map fst heap) -> j < idx) ->
    (forall j, j < idx -> In j (map fst heap) \/ rest_of srcs j = []) ->
    init_from n idx heap srcs = (heap', srcs') ->
    clean srcs' /\ NoDup (map fst heap') /\ (forall j, In j (map fst heap') -> j < idx + n) /\
    (forall j, j < idx + n -> In j (map fst heap') \/ rest_of srcs' j = []) /\
    (forall j, idx + n <= j -> rest_of srcs' j = rest_of srcs j) /\
    length heap' + total R srcs' = length heap + total R srcs /\
    forall k, of_src k heap' ++ rest_of srcs' k = of_src k heap ++ rest_of srcs k.
  Proof.
    induction n as [|n IH]; intros idx heap srcs heap' srcs' Hc Hn Hlt Hfed H; cbn in H.
    - inversion H; subst. rewrite Nat.add_0_r. split; [exact Hc|]. split; [exact Hn|]. split; [exact Hlt|]. split; [exact Hfed|]. split; [reflexivity|]. split; reflexivity.
    - destruct (pull srcs idx) as [[r|] srcs1] eqn:Epull.
      + destruct (pull_some _ _ _ _ Hc Epull) as [Hr [Hoth [Hc1 [Ht _]]]].
        assert (Pp : Permutation (hpush heap (idx, r)) ((idx, r) :: heap)) by apply heap_push_perm.
        assert (Hnotin : ~ In idx (map fst heap)) by (intro Hi; apply Hlt in Hi; lia).
        assert (Hnp : NoDup (map fst (hpush heap (idx, r)))).
        { eapply nodup_fst_perm; [apply Permutation_sym; exact Pp|]. cbn. constructor; assumption. }
        destruct (IH (S idx) (hpush heap (idx, r)) srcs1 heap' srcs' Hc1 Hnp) as [A [B [C [D [E [F G]]]]]]; [| |exact H|].
        * intros j Hj. pose proof (in_fst_perm _ _ j Pp Hj) as Hj2. cbn in Hj2. destruct Hj2 as [<-|Hj2]; [lia|]. apply Hlt in Hj2. lia.
        * intros j Hj. destruct (Nat.eq_dec j idx) as [->|Hne].
          -- left. eapply in_fst_perm; [apply Permutation_sym; exact Pp|]. left; reflexivity.
          -- destruct (Hfed j ltac:(lia)) as [Hin|Hre]; [left; eapply in_fst_perm; [apply Permutation_sym; exact Pp|right; exact Hin]|right; rewrite (Hoth j Hne); exact Hre].
        * replace (idx + S n) with (S idx + n) by lia.
          split; [exact A|]. split; [exact B|]. split; [exact C|]. split; [exact D|].
          split; [intros j Hj; rewrite (E j Hj); apply Hoth; lia|].
          split; [pose proof (Permutation_length Pp) as Hl; cbn [length] in Hl; rewrite F, Ht; unfold Merge.elem in *; rewrite Hl; lia|].
          intro k. rewrite G, (of_src_perm k _ _ Pp Hnp). unfold of_src. cbn [filter map fst snd].
          destruct (Nat.eqb_spec idx k) as [->|Hne]; cbn [map].
          -- rewrite Hr. rewrite (of_src_absent k heap Hnotin : map snd (filter (fun e : elem => Nat.eqb (fst e) k) heap) = []). reflexivity.
          -- rewrite (Hoth k ltac:(congruence)). reflexivity.
      + destruct (pull_none _ _ _ Epull) as [-> Hr].
        destruct (IH (S idx) heap srcs heap' srcs' Hc Hn) as [A [B [C [D [E [F G]]]]]]; [| |exact H|].
        * intros j Hj. apply Hlt in Hj. lia.
        * intros j Hj. destruct (Nat.eq_dec j idx) as [->|Hne]; [right; exact Hr|]. apply Hfed. lia.
        * replace (idx + S n) with (S idx + n) by lia.
          split; [exact A|]. split; [exact B|]. split; [exact C|]. split; [exact D|].
          split; [intros j Hj; apply E; lia|]. split; [exact F|exact G].
  Qed.

  (** * The theorems *)
  Definition clean_srcs (lists : list (list R)) : list source := map (fun l => (l, false)) lists.

  Lemma clean_clean lists : clean (clean_srcs lists).
  Proof. unfold clean, clean_srcs. apply Forall_forall. intros s Hs. apply in_map_iff in Hs as [l [<- _]]. reflexivity. Qed.

  Lemma rest_clean lists k : rest_of (clean_srcs lists) k = nth k lists [].
  Proof.
    unfold rest_of, clean_srcs. revert k; induction lists as [|l t IH]; intros [|k]; cbn; auto.
  Qed.

  Lemma rest_beyond (srcs : list source) k : length srcs <= k -> rest_of srcs k = [].
  Proof. intro H. unfold rest_of. apply nth_error_None in H. rewrite H. reflexivity. Qed.

  (** every source's records come out in the source's own order, nothing else comes out under its index, and the run
      ends regularly (no failure flag) *)
  Theorem merge_keeps_source_order_lemma lists :
    let r := merge_all ts dflt (clean_srcs lists) in
    snd r = false /\ forall k, of_src k (fst r) = nth k lists [].
  Proof.
    cbn zeta. unfold merge_all, Merge.merge_init.
    destruct (init_from (length (clean_srcs lists)) 0 [] (clean_srcs lists)) as [heap srcs'] eqn:Ei.
    destruct (init_spec _ 0 [] (clean_srcs lists) heap srcs' (clean_clean lists) (NoDup_nil _) (fun j (H : In j []) => match H with end)
                (fun j (H : j < 0) => ltac:(lia)) Ei) as [A [B [C [D [E [F G]]]]]].
    cbn [plus] in *.
    assert (Hfed : fed heap srcs').
    { intro j. destruct (Nat.lt_ge_cases j (length (clean_srcs lists))) as [Hj|Hj]; [apply D; exact Hj|].
      right. rewrite (E j Hj). apply rest_beyond. exact Hj. }
    pose proof (loop_fuel (S (total R (clean_srcs lists))) heap srcs' A) as Hfuel.
    cbn [length] in F. rewrite Nat.add_0_l in F.
    specialize (Hfuel ltac:(lia)).
    destruct (merge_loop (S (total R (clean_srcs lists))) heap srcs') as [out stopped] eqn:El. cbn in Hfuel. subst stopped.
    cbn [fst snd]. split.
    - cbn. clear. induction lists as [|l t IH]; cbn; auto.
    - intro k. rewrite (loop_order _ _ _ _ A B Hfed El k), G. cbn. apply rest_clean.
  Qed.

  (** * Every record exactly once *)
  Lemma concat_insert (f : nat -> list R) x i : forall n s, s <= i < s + n ->
    Permutation (x :: concat (map f (seq s n))) (concat (map (fun k => if Nat.eqb k i then x :: f k else f k) (seq s n))).
  Proof.
    induction n as [|n IH]; intros s H; [lia|]. cbn [seq map concat].
    destruct (Nat.eqb_spec s i) as [->|Hne].
    - cbn. apply perm_skip. apply Permutation_app_head.
      assert (Hext : forall m s', i < s' -> map (fun k => if Nat.eqb k i then x :: f k else f k) (seq s' m) = map f (seq s' m)).
      { induction m as [|m IHm]; intros s' Hs'; cbn; [reflexivity|]. destruct (Nat.eqb_spec s' i); [lia|]. rewrite IHm by lia. reflexivity. }
      rewrite Hext by lia. reflexivity.
    - eapply Permutation_trans; [apply Permutation_middle|]. apply Permutation_app_head. apply IH. lia.
  Qed.

  Lemma partition_perm n : forall out : list elem, (forall e, In e out -> fst e < n) ->
    Permutation (map snd out) (concat (map (fun k => of_src k out) (seq 0 n))).
  Proof.
    induction out as [|[i x] t IH]; intro Hlt.
    - cbn. assert (H : forall m s, concat (map (fun k => of_src k (@nil elem)) (seq s m)) = []) by (induction m; intros; cbn; auto). rewrite H. constructor.
    - cbn [map snd]. eapply Permutation_trans; [apply perm_skip; apply IH; intros e He; apply Hlt; right; exact He|].
      eapply Permutation_trans; [apply (concat_insert (fun k => of_src k t) x i n 0); specialize (Hlt (i, x) (or_introl eq_refl)); cbn in Hlt; lia|].
      assert (Heq : map (fun k => if Nat.eqb k i then x :: of_src k t else of_src k t) (seq 0 n) = map (fun k => of_src k ((i, x) :: t)) (seq 0 n)).
      { apply map_ext. intro k. unfold of_src. cbn [filter fst]. rewrite Nat.eqb_sym. destruct (Nat.eqb i k); reflexivity. }
      rewrite Heq. reflexivity.
  Qed.

  Lemma concat_nth_seq (lists : list (list R)) : concat (map (fun k => nth k lists []) (seq 0 (length lists))) = concat lists.
  Proof.
    assert (H : forall s (l : list (list R)) pre, length pre = s -> concat (map (fun k => nth k (pre ++ l) []) (seq s (length l))) = concat l).
    { intros s l; revert s. induction l as [|x t IH]; intros s pre Hp; cbn; [reflexivity|].
      rewrite app_nth2 by lia. replace (s - length pre) with 0 by lia. cbn. f_equal.
      specialize (IH (S s) (pre ++ [x]) ltac:(rewrite app_length; cbn; lia)). rewrite <- app_assoc in IH. exact IH. }
    apply (H 0 lists []). reflexivity.
  Qed.

  Theorem merge_perm_lemma lists : Permutation (map snd (fst (merge_all ts dflt (clean_srcs lists)))) (concat lists).
  Proof.
    destruct (merge_keeps_source_order_lemma lists) as [_ Hk]. cbn zeta in Hk.
    set (out := fst (merge_all ts dflt (clean_srcs lists))) in *.
    assert (Hlt : forall e, In e out -> fst e < length lists).
    { intros [i x] Hin. cbn. destruct (Nat.lt_ge_cases i (length lists)) as [H|H]; [exact H|]. exfalso.
      specialize (Hk i). rewrite nth_overflow in Hk by exact H.
      unfold of_src in Hk. apply map_eq_nil in Hk.
      assert (In (i, x) (filter (fun e : elem => Nat.eqb (fst e) i) out)) as Hc by (apply filter_In; split; [exact Hin|apply Nat.eqb_refl]).
      rewrite Hk in Hc. exact Hc. }
    eapply Permutation_trans; [apply (partition_perm (length lists) out Hlt)|].
    rewrite (map_ext _ (fun k => nth k lists []) Hk). rewrite concat_nth_seq. reflexivity.
  Qed.

  (** * Time order *)
  Notation eless := (eless R ts).
  Notation edflt := (edflt R dflt).
  Definition tle (a b : R) : Prop := (ts a <= ts b)%Z.
  Definition etle (a b : elem) : Prop := (ts (snd a) <= ts (snd b))%Z.

  Lemma ele_iff x y : le elem eless x y <-> etle x y.
  Proof. unfold le, Merge.eless, etle. rewrite Z.ltb_ge. reflexivity. Qed.
  Lemma ele_trans x y z : le elem eless x y -> le elem eless y z -> le elem eless x z.
  Proof. rewrite !ele_iff. unfold etle. lia. Qed.
  Lemma ele_total x y : le elem eless x y \/ le elem eless y x.
  Proof. rewrite !ele_iff. unfold etle. lia. Qed.

  Definition guarded (heap : list elem) (srcs : list source) : Prop :=
    forall k x, In (k, x) heap -> Forall (tle x) (rest_of srcs k).
  Definition sorted_srcs (srcs : list source) : Prop := forall k, StronglySorted tle (rest_of srcs k).

  Lemma loop_sorted : forall fuel heap srcs out e,
    clean srcs -> heap_ok elem eless edflt heap -> guarded heap srcs -> sorted_srcs srcs ->
    merge_loop fuel heap srcs = (out, e) ->
    StronglySorted etle out /\ forall b, (forall x, In x heap -> (b <= ts (snd x))%Z) -> Forall (fun x => (b <= ts (snd x))%Z) out.
  Proof.
    induction fuel as [|f IH]; intros heap srcs out e Hc Hok Hg Hs H; cbn in H.
    - inversion H; subst. split; constructor.
    - unfold Merge.merge_next in H.
      destruct (hpop heap) as [[[idx r] heap']|] eqn:Ep; [|inversion H; subst; split; constructor].
      pose proof (heap_pop_perm _ _ _ _ _ _ Ep) as P.
      destruct (heap_pop_ok elem eless edflt ele_trans ele_total heap (idx, r) heap' Hok Ep) as [Hok' Hmin].
      assert (Hin : In (idx, r) heap) by (eapply Permutation_in; [apply Permutation_sym; exact P|left; reflexivity]).
      assert (Hsub : forall x, In x heap' -> In x heap) by (intros x Hx; eapply Permutation_in; [apply Permutation_sym; exact P|right; exact Hx]).
      destruct (pull srcs idx) as [[r'|] srcs'] eqn:Epull.
      + destruct (pull_some _ _ _ _ Hc Epull) as [Hr [Hoth [Hc' _]]].
        destruct (merge_loop f (hpush heap' (idx, r')) srcs') as [out' err] eqn:El. inversion H; subst.
        assert (Pp : Permutation (hpush heap' (idx, r')) ((idx, r') :: heap')) by apply heap_push_perm.
        pose proof (Hg idx r Hin) as Hgr. rewrite Hr in Hgr. inversion Hgr as [|? ? Hrr' Hrest]; subst.
        pose proof (Hs idx) as Hsi. rewrite Hr in Hsi. inversion Hsi as [|? ? Hs' Hall']; subst.
        assert (Hg' : guarded (hpush heap' (idx, r')) srcs').
        { intros k x Hkx. eapply Permutation_in in Hkx; [|exact Pp]. destruct Hkx as [Heq|Hkx].
          - inversion Heq; subst. exact Hall'.
          - destruct (Nat.eq_dec k idx) as [->|Hk].
            + pose proof (Hg idx x (Hsub _ Hkx)) as Hx. rewrite Hr in Hx. inversion Hx; assumption.
            + rewrite (Hoth k Hk). apply Hg. apply Hsub. exact Hkx. }
        assert (Hs2 : sorted_srcs srcs').
        { intro k. destruct (Nat.eq_dec k idx) as [->|Hk]; [exact Hs'|rewrite (Hoth k Hk); apply Hs]. }
        destruct (IH _ _ _ _ Hc' (heap_push_ok elem eless edflt ele_trans ele_total heap' (idx, r') Hok') Hg' Hs2 El) as [Hso Hlb].
        assert (Hb : Forall (fun x => (ts r <= ts (snd x))%Z) out').
        { apply Hlb. intros x Hx. eapply Permutation_in in Hx; [|exact Pp]. destruct Hx as [<-|Hx]; [exact Hrr'|].
          exact (proj1 (ele_iff (idx, r) x) (Hmin x Hx)). }
        split; [constructor; [exact Hso|exact Hb]|].
        intros b Hbh. constructor; [apply (Hbh (idx, r) Hin)|].
        eapply Forall_impl; [|exact Hb]. intros a Ha. cbn in Ha. specialize (Hbh (idx, r) Hin). cbn in Hbh. lia.
      + destruct (pull_none _ _ _ Epull) as [-> Hr]. rewrite (clean_not_failed srcs idx Hc) in H.
        destruct (merge_loop f heap' srcs) as [out' err] eqn:El. inversion H; subst.
        assert (Hg' : guarded heap' srcs) by (intros k x Hkx; apply Hg; apply Hsub; exact Hkx).
        destruct (IH _ _ _ _ Hc Hok' Hg' Hs El) as [Hso Hlb].
        assert (Hb : Forall (fun x => (ts r <= ts (snd x))%Z) out') by (apply Hlb; intros x Hx; exact (proj1 (ele_iff (idx, r) x) (Hmin x Hx))).
        split; [constructor; [exact Hso|exact Hb]|].
        intros b Hbh. constructor; [apply (Hbh (idx, r) Hin)|].
        eapply Forall_impl; [|exact Hb]. intros a Ha. cbn in Ha. specialize (Hbh (idx, r) Hin). cbn in Hbh. lia.
  Qed.

  Lemma init_sorted : forall n idx heap srcs heap' srcs',
    clean srcs -> heap_ok elem eless edflt heap -> guarded heap srcs -> sorted_srcs srcs ->
    init_from n idx heap srcs = (heap', srcs') ->
    clean srcs' /\ heap_ok elem eless edflt heap' /\ guarded heap' srcs' /\ sorted_srcs srcs'.
  Proof.
    induction n as [|n IH]; intros idx heap srcs heap' srcs' Hc Hok Hg Hs H; cbn in H.
    - inversion H; subst. auto.
    - destruct (pull srcs idx) as [[r|] srcs1] eqn:Epull.
      + destruct (pull_some _ _ _ _ Hc Epull) as [Hr [Hoth [Hc1 _]]].
        assert (Pp : Permutation (hpush heap (idx, r)) ((idx, r) :: heap)) by apply heap_push_perm.
        pose proof (Hs idx) as Hsi. rewrite Hr in Hsi. inversion Hsi as [|? ? Hs' Hall']; subst.
        eapply IH; [exact Hc1|apply (heap_push_ok elem eless edflt ele_trans ele_total); exact Hok| | |exact H].
        * intros k x Hkx. eapply Permutation_in in Hkx; [|exact Pp]. destruct Hkx as [Heq|Hkx].
          -- inversion Heq; subst. exact Hall'.
          -- destruct (Nat.eq_dec k idx) as [->|Hk].
             ++ pose proof (Hg idx x Hkx) as Hx. rewrite Hr in Hx. inversion Hx; assumption.
             ++ rewrite (Hoth k Hk). apply Hg. exact Hkx.
        * intro k. destruct (Nat.eq_dec k idx) as [->|Hk]; [exact Hs'|rewrite (Hoth k Hk); apply Hs].
      + destruct (pull_none _ _ _ Epull) as [-> _]. eapply IH; eauto.
  Qed.

  (** when every source is in time order, so is the merged stream (ties allowed within and across sources) *)
  Theorem merge_sorted_lemma lists :
    Forall (StronglySorted tle) lists -> StronglySorted etle (fst (merge_all ts dflt (clean_srcs lists))).
  Proof.
    intro Hsorted. unfold merge_all, Merge.merge_init.
    destruct (init_from (length (clean_srcs lists)) 0 [] (clean_srcs lists)) as [heap srcs'] eqn:Ei.
    assert (Hs0 : sorted_srcs (clean_srcs lists)).
    { intro k. rewrite rest_clean. destruct (Nat.lt_ge_cases k (length lists)) as [Hk|Hk].
      - rewrite Forall_forall in Hsorted. apply Hsorted. apply nth_In. exact Hk.
      - rewrite nth_overflow by exact Hk. constructor. }
    destruct (init_sorted (length (clean_srcs lists)) 0 [] (clean_srcs lists) heap srcs' (clean_clean lists)) as [A [B [C D]]]; [| |exact Hs0|exact Ei|].
    - intros i Hi. cbn in Hi. lia.
    - intros k x [].
    - destruct (merge_loop (S (total R (clean_srcs lists))) heap srcs') as [out stopped] eqn:El. cbn [fst].
      apply (loop_sorted _ _ _ _ _ A B C D El).
  Qed.
End MergeOrder.
