(** C19: filters obey the algebra of sets.  Everything follows from one lemma: appending a filter stage to a
    query filters the query's result ([spec_select_filter]). *)
From LogQLV Require Import Base.Bytes Base.LMap Model.Tables Model.Stages Model.Engine Spec.LogSpec Proofs.EngineP.
From Coq Require Import Permutation.

Definition q_app (q : equery) (s : estage) : equery := {| q_sel := q_sel q; q_pipe := q_pipe q ++ [s] |}.

(** * Pure predicates: and/or over string matchers *)
Fixpoint pure_pred (p : epred) : bool :=
  match p with
  | EPMatch _ _ => true
  | EPAnd a b | EPOr a b => pure_pred a && pure_pred b
  | _ => false
  end.

Fixpoint pred_eval (p : epred) (ls : lmap) : bool :=
  match p with
  | EPMatch l m => str_match true m (lget_or_empty ls l)
  | EPAnd a b => pred_eval a ls && pred_eval b ls
  | EPOr a b => pred_eval a ls || pred_eval b ls
  | _ => false
  end.

Lemma process_pred_pure p : pure_pred p = true -> forall line ls, process_pred p line ls = Some (line, pred_eval p ls, ls).
Proof.
  induction p as [l m|l o v|l o ns|l o n|l neg pat|a IHa b IHb|a IHa b IHb]; intro Hp; cbn in Hp; try discriminate; intros line ls.
  - reflexivity.
  - apply andb_true_iff in Hp as [Ha Hb]. cbn. rewrite (IHa Ha). destruct (pred_eval a ls); cbn; [apply IHb; exact Hb|reflexivity].
  - apply andb_true_iff in Hp as [Ha Hb]. cbn. rewrite (IHa Ha). destruct (pred_eval a ls); cbn; [reflexivity|apply IHb; exact Hb].
Qed.

(** * Filter stages and their meaning as a predicate on (line, labels) *)
Definition filter_sem (s : estage) : option (bytes -> lmap -> bool) :=
  match s with
  | ELine m => Some (fun line _ => str_match false m line)
  | ELabelFilter p => if pure_pred p then Some (fun _ ls => pred_eval p ls) else None
  | _ => None
  end.

Lemma process_filter o s f : filter_sem s = Some f ->
  forall st ts line ls, process o s st ts line ls = Some (st, line, f line ls, ls).
Proof.
  destruct s; cbn; try discriminate.
  - intros H st ts line ls. inversion H; reflexivity.
  - destruct (pure_pred p) eqn:Hp; [|discriminate]. intros H st ts line ls. inversion H; subst.
    unfold process. cbv beta iota zeta. rewrite (process_pred_pure p Hp). reflexivity.
Qed.

Lemma filter_sem_not_distinct s f : filter_sem s = Some f -> is_distinct s = false.
Proof. destruct s; cbn; try discriminate; reflexivity. Qed.

Lemma distinct_free_app q s f : filter_sem s = Some f -> distinct_free q = true -> distinct_free (q_app q s) = true.
Proof.
  intros Hf Hq. unfold distinct_free in *. cbn. rewrite existsb_app. cbn.
  rewrite (filter_sem_not_distinct s f Hf). apply negb_true_iff in Hq. rewrite Hq. reflexivity.
Qed.

Lemma apply_stages_app o ts : forall p s line ls,
  apply_stages o (p ++ [s]) ts line ls =
  match apply_stages o p ts line ls with
  | Some (Some (l', ls')) => apply_stages o [s] ts l' ls'
  | r => r
  end.
Proof.
  induction p as [|x p IH]; intros s line ls.
  - cbn [app]. change (apply_stages o [] ts line ls) with (Some (Some (line, ls))). reflexivity.
  - cbn [app apply_stages]. destruct (process o x [] ts line ls) as [[[[st1 l1] k1] ls1]|]; [|reflexivity].
    destruct k1; [apply IH|reflexivity].
Qed.

Definition efilter (f : bytes -> lmap -> bool) (es : list entry) : list entry := filter (fun e => f (e_line e) (e_set e)) es.

(** the central lemma: q | f  =  filter f (q) *)
Lemma spec_select_filter o q s f : filter_sem s = Some f ->
  forall recs es, spec_select o q recs = Some es -> spec_select o (q_app q s) recs = Some (efilter f es).
Proof.
  intros Hf. induction recs as [|r t IH]; intros es H; cbn in H; [inversion H; reflexivity|].
  cbn [spec_select].
  assert (Hm : matches o (q_app q s) r =
               match matches o q r with
               | Some (Some e) => if f (e_line e) (e_set e) then Some (Some e) else Some None
               | x => x
               end).
  { unfold matches, selected. cbn [q_app q_sel q_pipe]. destruct (forallb (sel_ok (set_from_record r)) (q_sel q)); [|reflexivity].
    rewrite apply_stages_app. destruct (apply_stages o (q_pipe q) (r_ts r) (r_line r) (set_from_record r)) as [[[l ls]|]|]; try reflexivity.
    cbn [apply_stages]. rewrite (process_filter o s f Hf). cbn. destruct (f l ls); reflexivity. }
  rewrite Hm.
  destruct (matches o q r) as [[e|]|]; try discriminate;
  destruct (spec_select o q t) as [es'|] eqn:Es; try discriminate; inversion H; subst; rewrite (IH _ eq_refl).
  - unfold efilter; cbn [filter]. destruct (f (e_line e) (e_set e)); reflexivity.
  - reflexivity.
Qed.

(** * Negation pairs *)
Definition neg_op (o : binop) : binop :=
  match o with OpEq => OpNotEq | OpNotEq => OpEq | OpRe => OpNotRe | OpNotRe => OpRe | x => x end.
Definition is_str_op (o : binop) : bool := match o with OpEq | OpNotEq | OpRe | OpNotRe => true | _ => false end.
Definition neg_strm (m : strm) : strm := {| sm_op := neg_op (sm_op m); sm_value := sm_value m; sm_re := sm_re m |}.

Lemma str_match_neg label m s : is_str_op (sm_op m) = true -> str_match label (neg_strm m) s = negb (str_match label m s).
Proof.
  unfold str_match, neg_strm; cbn. destruct (sm_op m); cbn; try discriminate; intros _; try reflexivity; rewrite negb_involutive; reflexivity.
Qed.

(** the negation of a filter stage: |= s / != s, |~ r / !~ r on lines; = / != and =~ / !~ on a label *)
Definition neg_stage (s : estage) : option estage :=
  match s with
  | ELine m => if is_str_op (sm_op m) then Some (ELine (neg_strm m)) else None
  | ELabelFilter (EPMatch l m) => if is_str_op (sm_op m) then Some (ELabelFilter (EPMatch l (neg_strm m))) else None
  | _ => None
  end.

Lemma neg_stage_sem s s' : neg_stage s = Some s' ->
  exists f f', filter_sem s = Some f /\ filter_sem s' = Some f' /\ forall l ls, f' l ls = negb (f l ls).
Proof.
  destruct s; cbn; try discriminate.
  - destruct (is_str_op (sm_op m)) eqn:Ho; [|discriminate]. intro H; inversion H; subst.
    do 2 eexists; split; [reflexivity|split; [reflexivity|]]. intros l ls. apply str_match_neg; exact Ho.
  - destruct p; try discriminate. destruct (is_str_op (sm_op m)) eqn:Ho; [|discriminate]. intro H; inversion H; subst.
    do 2 eexists; split; [reflexivity|split; [reflexivity|]]. intros l0 ls. apply str_match_neg; exact Ho.
Qed.

Lemma efilter_ext f g es : (forall l ls, f l ls = g l ls) -> efilter f es = efilter g es.
Proof. intro H. unfold efilter. apply filter_ext. intro e; apply H. Qed.

(** * The laws, on lists of entries *)
Lemma efilter_sublist f es : sublist (efilter f es) es.
Proof. unfold efilter. induction es as [|e t IH]; cbn; [constructor|]. destruct (f (e_line e) (e_set e)); constructor; exact IH. Qed.

Lemma efilter_partition f es : Permutation (efilter f es ++ efilter (fun l ls => negb (f l ls)) es) es.
Proof.
  unfold efilter. induction es as [|e t IH]; cbn; [constructor|].
  destruct (f (e_line e) (e_set e)); cbn.
  - constructor; exact IH.
  - apply Permutation_sym. eapply Permutation_trans; [|apply Permutation_middle]. constructor. apply Permutation_sym; exact IH.
Qed.

Lemma efilter_disjoint f es e : In e (efilter f es) -> In e (efilter (fun l ls => negb (f l ls)) es) -> False.
Proof. unfold efilter. rewrite !filter_In. intros [_ H1] [_ H2]. rewrite H1 in H2. discriminate. Qed.

Lemma efilter_comm f g es : efilter f (efilter g es) = efilter g (efilter f es).
Proof.
  unfold efilter. induction es as [|e t IH]; cbn; [reflexivity|].
  destruct (g (e_line e) (e_set e)) eqn:Eg; destruct (f (e_line e) (e_set e)) eqn:Ef; cbn; rewrite ?Eg, ?Ef, IH; reflexivity.
Qed.

Lemma efilter_idem f es : efilter f (efilter f es) = efilter f es.
Proof.
  unfold efilter. induction es as [|e t IH]; cbn; [reflexivity|].
  destruct (f (e_line e) (e_set e)) eqn:Ef; cbn; rewrite ?Ef, IH; reflexivity.
Qed.

Lemma efilter_and f g es : efilter (fun l ls => f l ls && g l ls) es = efilter g (efilter f es).
Proof.
  unfold efilter. induction es as [|e t IH]; cbn; [reflexivity|].
  destruct (f (e_line e) (e_set e)) eqn:Ef; cbn; [destruct (g (e_line e) (e_set e)) eqn:Eg|]; rewrite IH; reflexivity.
Qed.

Lemma efilter_and_in f g es e : In e (efilter (fun l ls => f l ls && g l ls) es) <-> In e (efilter f es) /\ In e (efilter g es).
Proof. unfold efilter. rewrite !filter_In, andb_true_iff. tauto. Qed.

Lemma efilter_or_in f g es e : In e (efilter (fun l ls => f l ls || g l ls) es) <-> In e (efilter f es) \/ In e (efilter g es).
Proof. unfold efilter. rewrite !filter_In, orb_true_iff. tauto. Qed.

Lemma efilter_or_count f g es :
  (length (efilter (fun l ls => f l ls || g l ls) es) + length (efilter (fun l ls => f l ls && g l ls) es)
   = length (efilter f es) + length (efilter g es))%nat.
Proof.
  unfold efilter. induction es as [|e t IH]; cbn; [reflexivity|].
  destruct (f (e_line e) (e_set e)); destruct (g (e_line e) (e_set e)); cbn; lia.
Qed.

Lemma efilter_true f es : (forall l ls, f l ls = true) -> efilter f es = es.
Proof. intro H. unfold efilter. induction es as [|e t IH]; cbn; [reflexivity|]. rewrite H, IH. reflexivity. Qed.

(** * Lifting to the engine: both queries evaluate, under every capability set, to lists related as stated *)
Lemma both_evaluate o q s f recs es :
  distinct_free q = true -> filter_sem s = Some f -> spec_select o q recs = Some es ->
  (forall c, eval_log o c q 0 recs = Some es) /\ (forall c, eval_log o c (q_app q s) 0 recs = Some (efilter f es)).
Proof.
  intros Hd Hf Hs. split; intro c.
  - apply eval_log_exact_lemma; assumption.
  - apply eval_log_exact_lemma; [eapply distinct_free_app; eassumption|apply spec_select_filter; assumption].
Qed.

(** * The property-level statements *)
Lemma filter_sub_lemma o q s f recs es :
  distinct_free q = true -> filter_sem s = Some f -> spec_select o q recs = Some es ->
  exists es', (forall c, eval_log o c q 0 recs = Some es) /\ (forall c, eval_log o c (q_app q s) 0 recs = Some es') /\ sublist es' es.
Proof.
  intros Hd Hf Hs. destruct (both_evaluate o q s f recs es Hd Hf Hs) as [H1 H2].
  exists (efilter f es). repeat split; auto. apply efilter_sublist.
Qed.

Lemma neg_partition_lemma o q s s' recs es :
  distinct_free q = true -> neg_stage s = Some s' -> spec_select o q recs = Some es ->
  exists e1 e2, (forall c, eval_log o c (q_app q s) 0 recs = Some e1) /\ (forall c, eval_log o c (q_app q s') 0 recs = Some e2) /\
                Permutation (e1 ++ e2) es /\ (forall e, In e e1 -> In e e2 -> False).
Proof.
  intros Hd Hn Hs. destruct (neg_stage_sem s s' Hn) as [f [f' [Hf [Hf' Hneg]]]].
  destruct (both_evaluate o q s f recs es Hd Hf Hs) as [_ H1].
  destruct (both_evaluate o q s' f' recs es Hd Hf' Hs) as [_ H2].
  exists (efilter f es), (efilter (fun l ls => negb (f l ls)) es).
  split; [exact H1|]. split; [intro c; rewrite <- (efilter_ext f' _ es Hneg); apply H2|].
  split; [apply efilter_partition|apply efilter_disjoint].
Qed.

Lemma filters_commute_lemma o q s1 s2 f g recs es :
  distinct_free q = true -> filter_sem s1 = Some f -> filter_sem s2 = Some g -> spec_select o q recs = Some es ->
  exists r, (forall c, eval_log o c (q_app (q_app q s1) s2) 0 recs = Some r) /\ (forall c, eval_log o c (q_app (q_app q s2) s1) 0 recs = Some r).
Proof.
  intros Hd Hf Hg Hs.
  pose proof (spec_select_filter o q s1 f Hf recs es Hs) as H1.
  pose proof (spec_select_filter o q s2 g Hg recs es Hs) as H2.
  destruct (both_evaluate o (q_app q s1) s2 g recs _ (distinct_free_app q s1 f Hf Hd) Hg H1) as [_ A].
  destruct (both_evaluate o (q_app q s2) s1 f recs _ (distinct_free_app q s2 g Hg Hd) Hf H2) as [_ B].
  exists (efilter g (efilter f es)). split; [exact A|]. rewrite efilter_comm. exact B.
Qed.

Lemma filter_idempotent_lemma o q s f recs es :
  distinct_free q = true -> filter_sem s = Some f -> spec_select o q recs = Some es ->
  exists r, (forall c, eval_log o c (q_app q s) 0 recs = Some r) /\ (forall c, eval_log o c (q_app (q_app q s) s) 0 recs = Some r).
Proof.
  intros Hd Hf Hs.
  destruct (both_evaluate o q s f recs es Hd Hf Hs) as [_ A].
  pose proof (spec_select_filter o q s f Hf recs es Hs) as H1.
  destruct (both_evaluate o (q_app q s) s f recs _ (distinct_free_app q s f Hf Hd) Hf H1) as [_ B].
  exists (efilter f es). split; [exact A|]. intro c. rewrite B. rewrite efilter_idem. reflexivity.
Qed.

Lemma and_or_lemma o q a b recs es :
  distinct_free q = true -> pure_pred a = true -> pure_pred b = true -> spec_select o q recs = Some es ->
  exists ra rb rand ror,
    (forall c, eval_log o c (q_app q (ELabelFilter a)) 0 recs = Some ra) /\
    (forall c, eval_log o c (q_app q (ELabelFilter b)) 0 recs = Some rb) /\
    (forall c, eval_log o c (q_app q (ELabelFilter (EPAnd a b))) 0 recs = Some rand) /\
    (forall c, eval_log o c (q_app q (ELabelFilter (EPOr a b))) 0 recs = Some ror) /\
    (forall e, In e rand <-> In e ra /\ In e rb) /\
    (forall e, In e ror <-> In e ra \/ In e rb) /\
    (length ror + length rand = length ra + length rb)%nat /\
    sublist rand es /\ sublist ror es.
Proof.
  intros Hd Ha Hb Hs.
  assert (Fa : filter_sem (ELabelFilter a) = Some (fun _ ls => pred_eval a ls)) by (cbn; rewrite Ha; reflexivity).
  assert (Fb : filter_sem (ELabelFilter b) = Some (fun _ ls => pred_eval b ls)) by (cbn; rewrite Hb; reflexivity).
  assert (Fand : filter_sem (ELabelFilter (EPAnd a b)) = Some (fun _ ls => pred_eval (EPAnd a b) ls)) by (cbn; rewrite Ha, Hb; reflexivity).
  assert (For : filter_sem (ELabelFilter (EPOr a b)) = Some (fun _ ls => pred_eval (EPOr a b) ls)) by (cbn; rewrite Ha, Hb; reflexivity).
  destruct (both_evaluate o q _ _ recs es Hd Fa Hs) as [_ A].
  destruct (both_evaluate o q _ _ recs es Hd Fb Hs) as [_ B].
  destruct (both_evaluate o q _ _ recs es Hd Fand Hs) as [_ C].
  destruct (both_evaluate o q _ _ recs es Hd For Hs) as [_ D].
  do 4 eexists. split; [exact A|]. split; [exact B|]. split; [exact C|]. split; [exact D|]. cbn [pred_eval].
  split; [intro e; apply (efilter_and_in (fun _ ls => pred_eval a ls) (fun _ ls => pred_eval b ls))|].
  split; [intro e; apply (efilter_or_in (fun _ ls => pred_eval a ls) (fun _ ls => pred_eval b ls))|].
  split; [apply (efilter_or_count (fun _ ls => pred_eval a ls) (fun _ ls => pred_eval b ls))|].
  split; apply efilter_sublist.
Qed.

Definition empty_needle_stage (r : Regex.regex) : estage := ELine {| sm_op := OpEq; sm_value := []; sm_re := r |}.

Lemma empty_needle_lemma o q r recs es :
  distinct_free q = true -> spec_select o q recs = Some es ->
  forall c, eval_log o c (q_app q (empty_needle_stage r)) 0 recs = Some es.
Proof.
  intros Hd Hs c.
  destruct (both_evaluate o q (empty_needle_stage r) _ recs es Hd eq_refl Hs) as [_ A].
  rewrite A. f_equal. apply efilter_true. intros l ls. cbn. apply contains_nil.
Qed.

(** non-vacuity *)
Lemma ex_c19 : exists s s' f, neg_stage s = Some s' /\ filter_sem s = Some f /\ distinct_free ex_query = true /\
                              exists es, spec_select ex_oracles ex_query ex_records = Some es /\ efilter f es <> [] /\ efilter f es <> es.
Proof.
  exists (ELine (sm' OpEq ["x"%byte])). do 2 eexists. split; [reflexivity|]. split; [reflexivity|]. split; [reflexivity|].
  eexists. split; [vm_compute; reflexivity|]. split; vm_compute; discriminate.
Qed.
