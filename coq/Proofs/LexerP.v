(** C05: the lexer model on texts written as tokens separated by white space: identifiers, keywords that are not function
    names, operators and punctuation, interpreted strings.  Whatever (non-empty) white space separates the tokens, the token
    sequence is the same -- the text layout is insignificant. *)
From LogQLV Require Import Base.Bytes Base.TimeFmt Model.Tables Model.Parser Model.Lexer.
From Coq Require Import Lia.

Inductive ltok :=
| LId (name : bytes)                 (* an identifier that is not a keyword *)
| LWord (ty : ttype) (w : bytes)     (* a keyword spelled with identifier characters (by, json, or, ...), not a function name *)
| LPunct (ty : ttype) (w : bytes)    (* an operator / punctuation token of one or two characters *)
| LStr (v : bytes)                   (* "..." with quote and backslash escaped *)
| LFun (ty : ttype) (w : bytes)      (* a function keyword (rate, sum, ip, ...): keeps its type when ( or by / without follows *)
| LNum (ds : bytes)                  (* a number written as digits *)
| LDur (ds u : bytes)                (* a duration written as digits and ONE unit: 5m, 30s, 250ms *)
| LRaw (v : bytes).                  (* a raw string `...` (no escapes; the content holds no back quote) *)

Fixpoint esc (k : bytes) : bytes :=
  match k with
  | [] => []
  | c :: t => if byte_eqb c """"%byte || byte_eqb c "\"%byte then "\"%byte :: c :: esc t else c :: esc t
  end.

Definition ltext (t : ltok) : bytes :=
  match t with LId n => n | LWord _ w => w | LPunct _ w => w | LStr v => """"%byte :: esc v ++ [""""%byte] | LFun _ w => w | LNum ds => ds | LDur ds u => ds ++ u | LRaw v => "`"%byte :: v ++ ["`"%byte] end.
Definition lres (t : ltok) : ttype * bytes :=
  match t with LId n => (TIdent, n) | LWord ty w => (ty, w) | LPunct ty w => (ty, w) | LStr v => (TString, v) | LFun ty w => (ty, w) | LNum ds => (TNumber, ds) | LDur ds u => (TDuration, ds ++ u) | LRaw v => (TString, v) end.

Definition printable (c : byte) : bool := (32 <=? bz c) && (bz c <=? 126).
(** a punctuation character: in the alphabet, and none of the characters the lexer treats specially before the table lookup *)
Definition punct_char (c : byte) : bool :=
  printable c && negb (is_space_b c) && negb (ident_start c) && negb (is_digit_b c) &&
  negb (existsb (byte_eqb c) ["#"; "'"; """"; "`"]%byte).

(** decimal digits without a superfluous leading zero *)
Definition digits_ok (ds : bytes) : Prop :=
  match ds with
  | [] => False
  | c :: t => is_digit_b c = true /\ forallb is_digit_b t = true /\ (byte_eqb c "0"%byte = true -> t = [])
  end.

Definition wf_ltok (t : ltok) : Prop :=
  match t with
  | LId n => is_valid_label n = true /\ lookup_kw n keyword_table = None
  | LWord ty w => is_valid_label w = true /\ lookup_kw w keyword_table = Some ty /\ is_function ty = false
  | LPunct ty w =>
      match w with
      | [c] => punct_char c = true /\ lookup_kw [c] keyword_table = Some ty
      | [c; d] => punct_char c = true /\ lookup_kw [c; d] keyword_table = Some ty
      | _ => False
      end
  | LStr v => forallb printable v = true
  | LFun ty w => is_valid_label w = true /\ lookup_kw w keyword_table = Some ty /\ is_function ty = true
  | LNum ds => digits_ok ds
  | LDur ds u => digits_ok ds /\ match ds with c :: _ => byte_eqb c "0"%byte = false | [] => False end /\ (length ds <= 9)%nat /\ In u duration_units
  | LRaw v => forallb (fun b => in_alphabet b && negb (byte_eqb b "`"%byte)) v = true
  end.

Definition all_space (ws : bytes) : Prop := ws <> [] /\ forallb is_space_b ws = true.

(** text: token, white space, token, white space, ... *)
Fixpoint layout (l : list (ltok * bytes)) : bytes :=
  match l with [] => [] | (t, ws) :: r => ltext t ++ ws ++ layout r end.

Lemma space_in_alphabet c : is_space_b c = true -> in_alphabet c = true.
Proof. unfold is_space_b, in_alphabet. intro H. repeat (apply orb_true_iff in H; destruct H as [H|H]); apply Z.eqb_eq in H; rewrite H; reflexivity. Qed.

Lemma skip_spaces ws : forall fuel s acc, forallb is_space_b ws = true -> (length (ws ++ s) < fuel)%nat ->
  exists fuel', (length s < fuel')%nat /\ lex_loop fuel (ws ++ s) acc = lex_loop fuel' s acc.
Proof.
  induction ws as [|c t IH]; intros fuel s acc Hw Hf.
  - exists fuel. split; [exact Hf|reflexivity].
  - cbn in Hw. apply andb_true_iff in Hw. destruct Hw as [Hc Ht]. destruct fuel as [|f]; [cbn in Hf; lia|].
    cbn [app lex_loop]. rewrite (space_in_alphabet c Hc). cbn [negb]. rewrite Hc.
    apply IH; [exact Ht|cbn in Hf; lia].
Qed.

Lemma span_stop (f : byte -> bool) k : forall r, forallb f k = true -> match r with [] => True | b :: _ => f b = false end -> span f (k ++ r) = (k, r).
Proof.
  induction k as [|c t IH]; intros r Hk Hr; cbn [app span].
  - destruct r as [|b r']; [reflexivity|]. cbn. rewrite Hr. reflexivity.
  - cbn in Hk. apply andb_true_iff in Hk. destruct Hk as [Hc Ht]. rewrite Hc, (IH r Ht Hr). reflexivity.
Qed.

Lemma space_not_ident c : is_space_b c = true -> ident_rune c = false.
Proof. unfold is_space_b. intro H. repeat (apply orb_true_iff in H; destruct H as [H|H]); apply Z.eqb_eq in H; unfold ident_rune, ident_start; rewrite H; reflexivity. Qed.

Lemma ident_start_facts c : ident_start c = true ->
  in_alphabet c = true /\ is_space_b c = false /\ byte_eqb c "#"%byte = false /\ byte_eqb c "'"%byte = false /\ byte_eqb c "/"%byte = false /\
  byte_eqb c "."%byte = false /\ byte_eqb c "-"%byte = false /\ is_digit_b c = false /\ byte_eqb c """"%byte = false /\ byte_eqb c "`"%byte = false.
Proof. destruct c; intro H; try discriminate H; repeat split; reflexivity. Qed.

(** one identifier-shaped token followed by white space *)
Lemma word_step w sp r f acc : is_valid_label w = true -> is_space_b sp = true ->
  lex_loop (S f) (w ++ sp :: r) acc =
    match lookup_kw w keyword_table with
    | Some ty => if is_function ty then lex_loop (S f) (w ++ sp :: r) acc else lex_loop f (sp :: r) (acc ++ [(ty, w)])
    | None => lex_loop f (sp :: r) (acc ++ [(TIdent, w)])
    end.
Proof.
  intros Hw Hsp. unfold is_valid_label in Hw. destruct w as [|c t]; [discriminate|].
  apply andb_true_iff in Hw. destruct Hw as [Hc Hall].
  destruct (ident_start_facts c Hc) as [H1 [H2 [H3 [H4 [H5 [H6 [H7 [H8 [H9 H10]]]]]]]]].
  destruct (lookup_kw (c :: t) keyword_table) as [ty|] eqn:E; [destruct (is_function ty) eqn:Ef; [reflexivity|]|].
  - cbn [app lex_loop]. rewrite H1, H2, H3, H4, H5, H6, H7, H8, H9, H10. cbn [negb andb]. rewrite Hc.
    change (c :: t ++ sp :: r) with ((c :: t) ++ sp :: r). rewrite (span_stop ident_rune (c :: t) (sp :: r) Hall (space_not_ident sp Hsp)).
    rewrite E, Ef. reflexivity.
  - cbn [app lex_loop]. rewrite H1, H2, H3, H4, H5, H6, H7, H8, H9, H10. cbn [negb andb]. rewrite Hc.
    change (c :: t ++ sp :: r) with ((c :: t) ++ sp :: r). rewrite (span_stop ident_rune (c :: t) (sp :: r) Hall (space_not_ident sp Hsp)).
    rewrite E. reflexivity.
Qed.

Lemma lookup_in k : forall tbl ty, lookup_kw k tbl = Some ty -> In (k, ty) tbl.
Proof.
  induction tbl as [|[w t] r IH]; intros ty H; cbn in H; [discriminate|].
  destruct (bytes_eqb w k) eqn:E; [apply bytes_eqb_eq in E; subst; injection H as <-; left; reflexivity|right; apply IH; exact H].
Qed.

(** facts about the generated keyword table, by evaluation *)
Definition kw_guard (e : bytes * ttype) : bool :=
  negb (existsb is_space_b (fst e)) &&
  match fst e with
  | [c; d] => negb (byte_eqb c "/"%byte && (byte_eqb d "/"%byte || byte_eqb d "*"%byte)) && negb (byte_eqb c "."%byte && is_digit_b d) &&
              negb (byte_eqb c "-"%byte && byte_eqb d "-"%byte)
  | _ => true
  end.
Lemma kw_table_guard : forallb kw_guard keyword_table = true.
Proof. vm_compute. reflexivity. Qed.

Lemma kw_no_space c sp : is_space_b sp = true -> lookup_kw [c; sp] keyword_table = None.
Proof.
  intro Hs. destruct (lookup_kw [c; sp] keyword_table) as [ty|] eqn:E; [|reflexivity].
  apply lookup_in in E. pose proof kw_table_guard as G. rewrite forallb_forall in G. specialize (G _ E).
  unfold kw_guard in G. cbn [fst existsb] in G. rewrite Hs in G. rewrite orb_true_r in G. discriminate G.
Qed.

Lemma punct_facts c : punct_char c = true ->
  in_alphabet c = true /\ is_space_b c = false /\ byte_eqb c "#"%byte = false /\ byte_eqb c "'"%byte = false /\
  is_digit_b c = false /\ byte_eqb c """"%byte = false /\ byte_eqb c "`"%byte = false /\ ident_start c = false.
Proof. destruct c; intro H; try discriminate H; repeat split; reflexivity. Qed.

Lemma space_facts sp : is_space_b sp = true ->
  byte_eqb sp "/"%byte = false /\ byte_eqb sp "*"%byte = false /\ is_digit_b sp = false /\ byte_eqb sp "-"%byte = false.
Proof. destruct sp; intro H; try discriminate H; repeat split; reflexivity. Qed.

Lemma punct1_step c ty sp r f acc : punct_char c = true -> lookup_kw [c] keyword_table = Some ty -> is_space_b sp = true ->
  lex_loop (S f) (c :: sp :: r) acc = lex_loop f (sp :: r) (acc ++ [(ty, [c])]).
Proof.
  intros Hc Hk Hs. destruct (punct_facts c Hc) as [H1 [H2 [H3 [H4 [H5 [H6 [H7 H8]]]]]]].
  destruct (space_facts sp Hs) as [S1 [S2 [S3 S4]]].
  cbn [lex_loop]. rewrite H1, H2, H3, H4, H5, H6, H7, H8, S1, S2, S3, S4. cbn [negb orb andb]. rewrite !andb_false_r. cbn iota.
  rewrite (kw_no_space c sp Hs), Hk. reflexivity.
Qed.

Lemma punct2_step c d ty sp r f acc : punct_char c = true -> lookup_kw [c; d] keyword_table = Some ty ->
  lex_loop (S f) (c :: d :: sp :: r) acc = lex_loop f (sp :: r) (acc ++ [(ty, [c; d])]).
Proof.
  intros Hc Hk. destruct (punct_facts c Hc) as [H1 [H2 [H3 [H4 [H5 [H6 [H7 H8]]]]]]].
  pose proof (lookup_in _ _ _ Hk) as Hin. pose proof kw_table_guard as G. rewrite forallb_forall in G. specialize (G _ Hin).
  unfold kw_guard in G. cbn [fst] in G. apply andb_true_iff in G. destruct G as [_ G].
  apply andb_true_iff in G. destruct G as [G12 G3]. apply andb_true_iff in G12. destruct G12 as [G1 G2].
  apply negb_true_iff in G1, G2, G3.
  cbn [lex_loop]. rewrite H1, H2, H3, H4, H5, H6, H7, H8, G1, G2, G3. cbn [negb]. cbn iota. rewrite Hk. reflexivity.
Qed.

Lemma scan_dq_esc v : forall fuel acc r, forallb printable v = true -> (length (esc v) < fuel)%nat ->
  scan_dq fuel (esc v ++ """"%byte :: r) acc = Some (acc ++ esc v, r).
Proof.
  induction v as [|c t IH]; intros fuel acc r Hv Hf; (destruct fuel as [|f]; [cbn in Hf; lia|]).
  - cbn. rewrite app_nil_r. reflexivity.
  - cbn in Hv. apply andb_true_iff in Hv. destruct Hv as [Hc Ht]. cbn [esc].
    destruct (byte_eqb c """"%byte || byte_eqb c "\"%byte) eqn:E.
    + cbn [app scan_dq]. change (byte_eqb "\"%byte """"%byte) with false. change (bz "\"%byte =? 10) with false. change (byte_eqb "\"%byte "\"%byte) with true. cbn iota.
      destruct f as [|f']; [cbn [esc length] in Hf; rewrite E in Hf; cbn in Hf; lia|].
      rewrite IH; [|exact Ht|cbn [esc length] in Hf; rewrite E in Hf; cbn [length] in Hf; lia]. rewrite <- app_assoc. reflexivity.
    + apply orb_false_iff in E. destruct E as [E1 E2]. cbn [app scan_dq]. rewrite E1, E2.
      assert (Hn : (bz c =? 10) = false) by (unfold printable in Hc; apply andb_true_iff in Hc; destruct Hc as [Hlo _]; apply Z.leb_le in Hlo; apply Z.eqb_neq; lia).
      rewrite Hn. rewrite IH; [|exact Ht|cbn [esc length] in Hf; rewrite E1, E2 in Hf; cbn [orb length] in Hf; lia]. rewrite <- app_assoc. reflexivity.
Qed.

Lemma unquote_esc v : forallb printable v = true -> unquote_frag (esc v) = Some (Some v).
Proof.
  induction v as [|c t IH]; intro H; [reflexivity|].
  cbn in H. apply andb_true_iff in H. destruct H as [Hc Ht]. cbn [esc].
  destruct (byte_eqb c """"%byte || byte_eqb c "\"%byte) eqn:E.
  - cbn [unquote_frag]. change (byte_eqb "\"%byte "\"%byte) with true. cbn iota.
    apply orb_true_iff in E. destruct E as [E|E].
    + rewrite E. rewrite (IH Ht). reflexivity.
    + destruct (byte_eqb c """"%byte); [rewrite (IH Ht); reflexivity|]. rewrite E. rewrite (IH Ht). reflexivity.
  - apply orb_false_iff in E. destruct E as [E1 E2]. cbn [unquote_frag]. rewrite E2. unfold printable in Hc. rewrite Hc. rewrite (IH Ht). reflexivity.
Qed.

Lemma str_step v r f acc : forallb printable v = true ->
  lex_loop (S f) (""""%byte :: esc v ++ """"%byte :: r) acc = lex_loop f r (acc ++ [(TString, v)]).
Proof.
  intro Hv. cbn [lex_loop]. change (in_alphabet """"%byte) with true. change (is_space_b """"%byte) with false.
  change (byte_eqb """"%byte "#"%byte) with false. change (byte_eqb """"%byte "'"%byte) with false. change (byte_eqb """"%byte "/"%byte) with false.
  change (byte_eqb """"%byte "."%byte) with false. change (byte_eqb """"%byte "-"%byte) with false. change (is_digit_b """"%byte) with false.
  change (byte_eqb """"%byte """"%byte) with true. cbn [negb andb]. cbn iota.
  rewrite (scan_dq_esc v _ [] r Hv); [|rewrite app_length; cbn; lia]. cbn [app]. rewrite (unquote_esc v Hv). reflexivity.
Qed.

(** numbers and durations *)
Lemma digit_facts c : is_digit_b c = true ->
  in_alphabet c = true /\ is_space_b c = false /\ byte_eqb c "#"%byte = false /\ byte_eqb c "'"%byte = false /\ byte_eqb c "/"%byte = false /\
  byte_eqb c "."%byte = false /\ byte_eqb c "-"%byte = false.
Proof. destruct c; intro H; try discriminate H; repeat split; reflexivity. Qed.

Lemma space_facts2 sp : is_space_b sp = true ->
  is_letter_b sp = false /\ byte_eqb sp "_"%byte = false /\ byte_eqb sp "e"%byte = false /\ byte_eqb sp "E"%byte = false /\
  byte_eqb sp "."%byte = false /\ is_value_rune sp = false /\ is_digit_b sp = false.
Proof. destruct sp; intro H; try discriminate H; repeat split; reflexivity. Qed.

Lemma digits_all c t : is_digit_b c = true -> forallb is_digit_b t = true -> forallb is_digit_b (c :: t) = true.
Proof. intros H1 H2. cbn. rewrite H1. exact H2. Qed.

Lemma num_step ds sp r f acc : digits_ok ds -> is_space_b sp = true ->
  lex_loop (S f) (ds ++ sp :: r) acc = lex_loop f (sp :: r) (acc ++ [(TNumber, ds)]).
Proof.
  intros Hd Hs. destruct ds as [|c t]; [contradiction|]. destruct Hd as [Hc [Ht Hz]].
  destruct (digit_facts c Hc) as [H1 [H2 [H3 [H4 [H5 [H6 H7]]]]]].
  destruct (space_facts2 sp Hs) as [S1 [S2 [S3 [S4 [S5 [S6 S7]]]]]].
  cbn [app lex_loop]. rewrite H1, H2, H3, H4, H5, H6, H7, Hc. cbn [negb andb].
  change (c :: t ++ sp :: r) with ((c :: t) ++ sp :: r).
  rewrite (span_stop is_digit_b (c :: t) (sp :: r) (digits_all c t Hc Ht) S7).
  assert (Hlead : (byte_eqb c "0"%byte && match c :: t with [_] => match sp :: r with d :: _ => is_letter_b d || byte_eqb d "_"%byte | [] => false end | _ => true end) = false).
  { destruct (byte_eqb c "0"%byte) eqn:E0; [|reflexivity]. rewrite (Hz eq_refl). cbn. rewrite S1, S2. reflexivity. }
  rewrite Hlead. rewrite S2, S3, S4, S5. cbn [orb]. unfold scan_unit. rewrite S6. reflexivity.
Qed.

Lemma scan_unit_dur ds u sp r : In u duration_units -> is_space_b sp = true -> (length ds <= 9)%nat ->
  scan_unit ds false (u ++ sp :: r) = UOk TDuration (ds ++ u) (sp :: r).
Proof.
  intros Hu Hs Hl. destruct (space_facts2 sp Hs) as [_ [_ [_ [_ [_ [S6 _]]]]]].
  assert (Hsu : is_unit_rune sp = false).
  { unfold is_value_rune in S6. apply orb_false_iff in S6. destruct S6 as [_ S6]. exact S6. }
  assert (Hlen : (Z.of_nat (length ds) <=? 9) = true) by (apply Z.leb_le; lia).
  cbn in Hu. repeat (destruct Hu as [<-|Hu]; [unfold scan_unit; cbn [app span is_value_rune is_unit_rune is_duration_rune is_bytes_rune existsb byte_eqb is_digit_b bz orb andb negb]; cbn; rewrite ?S6, ?Hsu; cbn; rewrite ?Hlen; reflexivity|]).
  contradiction.
Qed.

Lemma dur_step ds u sp r f acc : digits_ok ds -> match ds with c :: _ => byte_eqb c "0"%byte = false | [] => False end ->
  (length ds <= 9)%nat -> In u duration_units -> is_space_b sp = true ->
  lex_loop (S f) ((ds ++ u) ++ sp :: r) acc = lex_loop f (sp :: r) (acc ++ [(TDuration, ds ++ u)]).
Proof.
  intros Hd Hnz Hl Hu Hs. destruct ds as [|c t]; [contradiction|]. destruct Hd as [Hc [Ht _]].
  destruct (digit_facts c Hc) as [H1 [H2 [H3 [H4 [H5 [H6 H7]]]]]].
  rewrite <- app_assoc. cbn [app lex_loop]. rewrite H1, H2, H3, H4, H5, H6, H7, Hc. cbn [negb andb].
  change (c :: t ++ u ++ sp :: r) with ((c :: t) ++ (u ++ sp :: r)).
  assert (Hu0 : match u ++ sp :: r with [] => True | b :: _ => is_digit_b b = false end).
  { cbn in Hu. repeat (destruct Hu as [<-|Hu]; [reflexivity|]). contradiction. }
  rewrite (span_stop is_digit_b (c :: t) (u ++ sp :: r) (digits_all c t Hc Ht) Hu0).
  rewrite Hnz. cbn [andb].
  pose proof (scan_unit_dur (c :: t) u sp r Hu Hs Hl) as Hsc.
  assert (Hd1 : match u ++ sp :: r with
                | d :: r1 => (byte_eqb d "_"%byte || byte_eqb d "e"%byte || byte_eqb d "E"%byte) = false /\ byte_eqb d "."%byte = false
                | [] => False end).
  { cbn in Hu. repeat (destruct Hu as [<-|Hu]; [split; reflexivity|]). contradiction. }
  destruct (u ++ sp :: r) as [|d r1] eqn:Er; [contradiction|]. destruct Hd1 as [D1 D2]. rewrite D1, D2. rewrite Hsc. reflexivity.
Qed.

(** raw strings *)
Lemma scan_raw_app v : forall acc r, forallb (fun b => in_alphabet b && negb (byte_eqb b "`"%byte)) v = true ->
  scan_raw (v ++ "`"%byte :: r) acc = Some (acc ++ v, r).
Proof.
  induction v as [|c t IH]; intros acc r H.
  - cbn. rewrite app_nil_r. reflexivity.
  - cbn in H. apply andb_true_iff in H. destruct H as [Hc Ht]. apply andb_true_iff in Hc. destruct Hc as [_ Hq]. apply negb_true_iff in Hq.
    cbn [app scan_raw]. rewrite Hq. rewrite IH by exact Ht. rewrite <- app_assoc. reflexivity.
Qed.

Lemma raw_alphabet v : forallb (fun b => in_alphabet b && negb (byte_eqb b "`"%byte)) v = true -> forallb in_alphabet v = true.
Proof.
  induction v as [|c t IH]; intro H; [reflexivity|]. cbn in H. apply andb_true_iff in H. destruct H as [Hc Ht].
  apply andb_true_iff in Hc. destruct Hc as [Ha _]. cbn. rewrite Ha. apply IH. exact Ht.
Qed.

Lemma raw_step v r f acc : forallb (fun b => in_alphabet b && negb (byte_eqb b "`"%byte)) v = true ->
  lex_loop (S f) ("`"%byte :: v ++ "`"%byte :: r) acc = lex_loop f r (acc ++ [(TString, v)]).
Proof.
  intro Hv. cbn [lex_loop]. change (in_alphabet "`"%byte) with true. change (is_space_b "`"%byte) with false.
  change (byte_eqb "`"%byte "#"%byte) with false. change (byte_eqb "`"%byte "'"%byte) with false. change (byte_eqb "`"%byte "/"%byte) with false.
  change (byte_eqb "`"%byte "."%byte) with false. change (byte_eqb "`"%byte "-"%byte) with false. change (is_digit_b "`"%byte) with false.
  change (byte_eqb "`"%byte """"%byte) with false. change (byte_eqb "`"%byte "`"%byte) with true. cbn [negb andb]. cbn iota.
  rewrite (scan_raw_app v [] r Hv). cbn [app]. rewrite (raw_alphabet v Hv). reflexivity.
Qed.

Definition wf_item (p : ltok * bytes) : Prop := wf_ltok (fst p) /\ all_space (snd p).

Lemma ltext_len t : wf_ltok t -> (1 <= length (ltext t))%nat.
Proof.
  destruct t as [n|ty w|ty w|v|ty w|ds|ds u|v]; cbn [wf_ltok ltext].
  - intros [H _]. unfold is_valid_label in H. destruct n; [discriminate|cbn; lia].
  - intros [H _]. unfold is_valid_label in H. destruct w; [discriminate|cbn; lia].
  - destruct w as [|c [|d [|e w']]]; try contradiction; cbn; lia.
  - intros _. cbn. lia.
  - intros [H _]. unfold is_valid_label in H. destruct w; [discriminate|cbn; lia].
  - destruct ds; [contradiction|]. intros _. cbn. lia.
  - destruct ds; [intros [[] _]|]. intros _. cbn. lia.
  - intros _. cbn. lia.
Qed.

(** a function keyword keeps its type when the next token (after the white space) starts with an opening parenthesis, or with b / w
    (by, without) *)
Definition open_paren : ltok := LPunct TOpenParen ["("%byte].
Definition keep_char (d : byte) : bool := byte_eqb d "("%byte || byte_eqb d "b"%byte || byte_eqb d "w"%byte.
Definition fun_next (t2 : ltok) : Prop := match ltext t2 with d :: _ => keep_char d = true | [] => False end.
Fixpoint fun_ok (l : list (ltok * bytes)) : Prop :=
  match l with
  | [] => True
  | (LFun _ _, _) :: r => match r with (t2, _) :: _ => fun_next t2 | [] => False end /\ fun_ok r
  | _ :: r => fun_ok r
  end.

Lemma keep_char_facts d : keep_char d = true -> is_space_b d = false /\ byte_eqb d "#"%byte = false.
Proof. destruct d; intro H; try discriminate H; split; reflexivity. Qed.

Lemma skip_wsc_spaces ws : forall fuel d r, forallb is_space_b ws = true -> (length ws < fuel)%nat -> keep_char d = true ->
  skip_ws_comments fuel (ws ++ d :: r) = d :: r.
Proof.
  induction ws as [|c t IH]; intros fuel d r Hw Hf Hd; (destruct fuel as [|f]; [cbn in Hf; lia|]).
  - destruct (keep_char_facts d Hd) as [K1 K2]. cbn [app skip_ws_comments]. rewrite K1, K2. reflexivity.
  - cbn in Hw. apply andb_true_iff in Hw. destruct Hw as [Hc Ht]. cbn [app skip_ws_comments]. rewrite Hc. apply IH; [exact Ht|cbn in Hf; lia|exact Hd].
Qed.

Lemma fun_step w ty sp ws d r f acc : is_valid_label w = true -> lookup_kw w keyword_table = Some ty -> is_function ty = true ->
  is_space_b sp = true -> forallb is_space_b ws = true -> keep_char d = true ->
  lex_loop (S f) (w ++ (sp :: ws) ++ d :: r) acc = lex_loop f (d :: r) (acc ++ [(ty, w)]).
Proof.
  intros Hw E Ef Hsp Hws Hd. unfold is_valid_label in Hw. destruct w as [|c t]; [discriminate|].
  apply andb_true_iff in Hw. destruct Hw as [Hc Hall].
  destruct (ident_start_facts c Hc) as [H1 [H2 [H3 [H4 [H5 [H6 [H7 [H8 [H9 H10]]]]]]]]].
  cbn [app lex_loop]. rewrite H1, H2, H3, H4, H5, H6, H7, H8, H9, H10. cbn [negb andb]. rewrite Hc.
  change (c :: t ++ sp :: ws ++ d :: r) with ((c :: t) ++ sp :: (ws ++ d :: r)).
  rewrite (span_stop ident_rune (c :: t) (sp :: ws ++ d :: r) Hall (space_not_ident sp Hsp)).
  rewrite E, Ef. cbv zeta.
  change (sp :: ws ++ d :: r) with ((sp :: ws) ++ d :: r).
  rewrite (skip_wsc_spaces (sp :: ws)); [|cbn; rewrite Hsp; exact Hws|rewrite app_length; cbn; lia|exact Hd].
  unfold keep_char in Hd. rewrite Hd. reflexivity.
Qed.

Lemma fun_ok_tail t ws r : fun_ok ((t, ws) :: r) -> fun_ok r.
Proof. destruct t; cbn; tauto. Qed.

Lemma lex_layout_gen l : forall fuel acc, Forall wf_item l -> fun_ok l -> (length (layout l) < fuel)%nat ->
  lex_loop fuel (layout l) acc = LexOk (acc ++ map (fun p => lres (fst p)) l).
Proof.
  induction l as [|[t ws] r IH]; intros fuel acc Hw Hfn Hf; (destruct fuel as [|f]; [lia|]).
  - cbn. rewrite app_nil_r. reflexivity.
  - inversion Hw as [|? ? [Ht [Hne Hsp]] Hr]; subst. cbn [fst snd] in *. pose proof (fun_ok_tail _ _ _ Hfn) as Hfr.
    destruct ws as [|sp ws']; [congruence|]. cbn in Hsp. apply andb_true_iff in Hsp. destruct Hsp as [Hs Hws].
    cbn [layout] in *. cbn [map fst].
    assert (Hcont : forall f' acc', (length ((sp :: ws') ++ layout r) < f')%nat ->
              lex_loop f' ((sp :: ws') ++ layout r) acc' = LexOk (acc' ++ map (fun p => lres (fst p)) r)).
    { intros f' acc' Hf'. destruct (skip_spaces (sp :: ws') f' (layout r) acc') as [f'' [Hlt ->]]; [cbn; rewrite Hs; exact Hws|exact Hf'|].
      apply IH; assumption. }
    pose proof (ltext_len t Ht) as Hlen. rewrite app_length in Hf.
    destruct t as [n|ty w|ty w|v|ty w|ds|ds u|v]; cbn [wf_ltok ltext lres] in *.
    all: try change ((sp :: ws') ++ layout r) with (sp :: (ws' ++ layout r)).
    + destruct Ht as [Hv Hk]. rewrite (word_step n sp _ f acc Hv Hs), Hk.
      change (sp :: ws' ++ layout r) with ((sp :: ws') ++ layout r). rewrite Hcont; [|cbn [app length] in *; rewrite app_length in *; lia].
      rewrite <- app_assoc. reflexivity.
    + destruct Ht as [Hv [Hk Hnf]]. rewrite (word_step w sp _ f acc Hv Hs), Hk, Hnf.
      change (sp :: ws' ++ layout r) with ((sp :: ws') ++ layout r). rewrite Hcont; [|cbn [app length] in *; rewrite app_length in *; lia].
      rewrite <- app_assoc. reflexivity.
    + destruct w as [|c [|d [|e w']]]; try contradiction; destruct Ht as [Hc Hk]; cbn [app].
      * rewrite (punct1_step c ty sp _ f acc Hc Hk Hs).
        change (sp :: ws' ++ layout r) with ((sp :: ws') ++ layout r). rewrite Hcont; [|cbn [app length] in *; rewrite app_length in *; lia].
        rewrite <- app_assoc. reflexivity.
      * rewrite (punct2_step c d ty sp _ f acc Hc Hk).
        change (sp :: ws' ++ layout r) with ((sp :: ws') ++ layout r). rewrite Hcont; [|cbn [app length] in *; rewrite app_length in *; lia].
        rewrite <- app_assoc. reflexivity.
    + cbn [app]. rewrite <- app_assoc. cbn [app]. rewrite (str_step v _ f acc Ht).
      change (sp :: ws' ++ layout r) with ((sp :: ws') ++ layout r). rewrite Hcont; [|cbn [app length] in *; rewrite !app_length in *; cbn [length] in *; lia].
      rewrite <- app_assoc. reflexivity.
    + change (sp :: (ws' ++ layout r)) with ((sp :: ws') ++ layout r).
      destruct Ht as [Hv [Hk Hfun]]. cbn [fun_ok] in Hfn. destruct Hfn as [Hnext _].
      destruct r as [|[t2 ws2] r2]; [contradiction|]. unfold fun_next in Hnext. cbn [layout] in *.
      destruct (ltext t2) as [|d rest] eqn:E2; [contradiction|]. cbn [app].
      change (w ++ sp :: ws' ++ d :: rest ++ ws2 ++ layout r2) with (w ++ (sp :: ws') ++ d :: (rest ++ ws2 ++ layout r2)).
      rewrite (fun_step w ty sp ws' d _ f acc Hv Hk Hfun Hs Hws Hnext).
      change (d :: rest ++ ws2 ++ layout r2) with ((d :: rest) ++ ws2 ++ layout r2).
      rewrite IH; [|exact Hr|exact Hfr|repeat (rewrite app_length in * || cbn [length app] in * ); lia].
      rewrite <- app_assoc. reflexivity.
    + rewrite (num_step ds sp _ f acc Ht Hs).
      change (sp :: ws' ++ layout r) with ((sp :: ws') ++ layout r). rewrite Hcont; [|cbn [app length] in *; rewrite app_length in *; lia].
      rewrite <- app_assoc. reflexivity.
    + destruct Ht as [Hd [Hnz [Hl Hu]]]. rewrite (dur_step ds u sp _ f acc Hd Hnz Hl Hu Hs).
      change (sp :: ws' ++ layout r) with ((sp :: ws') ++ layout r). rewrite Hcont; [|cbn [app length] in *; rewrite !app_length in *; lia].
      rewrite <- app_assoc. reflexivity.
    + cbn [app]. rewrite <- app_assoc. cbn [app]. rewrite (raw_step v _ f acc Ht).
      change (sp :: ws' ++ layout r) with ((sp :: ws') ++ layout r). rewrite Hcont; [|cbn [app length] in *; rewrite !app_length in *; cbn [length] in *; lia].
      rewrite <- app_assoc. reflexivity.
Qed.

(** the layout is insignificant: tokens separated by any non-empty white space lex to the same token sequence *)
Theorem lex_layout_lemma l : Forall wf_item l -> fun_ok l -> lex (layout l) = LexOk (map (fun p => lres (fst p)) l).
Proof. intros H Hf. unfold lex. apply (lex_layout_gen l _ [] H Hf). lia. Qed.

Corollary lex_layout_indep l1 l2 : Forall wf_item l1 -> Forall wf_item l2 -> fun_ok l1 -> fun_ok l2 -> map fst l1 = map fst l2 -> lex (layout l1) = lex (layout l2).
Proof.
  intros H1 H2 F1 F2 E. rewrite (lex_layout_lemma l1 H1 F1), (lex_layout_lemma l2 H2 F2). f_equal.
  rewrite <- !(map_map fst lres). rewrite E. reflexivity.
Qed.
