From LogQLV Require Import Base.Bytes Base.Outcome Base.FloatX Base.TimeFmt Model.Flags.
From Coq Require Import ZifyBool Lia.

(** * Step *)
Lemma parse_step_positive v s e d : parse_step (Some v) s e = DOk d -> 0 < d.
Proof.
  unfold parse_step. destruct (parse_duration v) as [d'| |]; try discriminate.
  destruct (d' <=? 0) eqn:E; [discriminate|]. intro H. inversion H; subst. lia.
Qed.

Lemma parse_step_malformed v s e : parse_duration v = DErr -> parse_step (Some v) s e = DErr.
Proof. unfold parse_step. intros ->. reflexivity. Qed.

Lemma default_step_spec_lemma s e :
  int64_min <= e - s <= int64_max ->
  default_step s e = Z.max 1 ((e - s) / (250 * sec)) * sec.
Proof.
  intro H. unfold default_step, sat64.
  destruct (e - s <? int64_min) eqn:E1; [lia|]. destruct (int64_max <? e - s) eqn:E2; [lia|].
  f_equal. unfold sec. destruct (Z_lt_le_dec (e - s) 0) as [Hn|Hp].
  - assert (Z.quot (e - s) (250 * 1000000000) <= 0).
    { replace (e - s) with (- (s - e)) by lia. rewrite Z.quot_opp_l by lia.
      pose proof (Z.quot_pos (s - e) (250 * 1000000000)). lia. }
    assert ((e - s) / (250 * 1000000000) < 0) by (apply Z.div_lt_upper_bound; lia).
    lia.
  - rewrite Z.quot_div_nonneg by lia. lia.
Qed.

(** * Decimal digit strings *)
Lemma parse_uint_acc_digits ds : forall acc, forallb is_digit_b ds = true -> exists v, parse_uint_acc ds acc = Some v.
Proof.
  induction ds as [|b t IH]; intros acc H; cbn; [eauto|].
  cbn in H. apply andb_true_iff in H as [H1 H2]. rewrite H1. apply IH, H2.
Qed.

Lemma parse_uint_acc_some ds : forall acc v, parse_uint_acc ds acc = Some v -> forallb is_digit_b ds = true.
Proof.
  induction ds as [|b t IH]; intros acc v H; cbn in *; [reflexivity|].
  destruct (is_digit_b b); [|discriminate]. cbn. eapply IH, H.
Qed.

Lemma parse_uint_acc_bound ds : forall acc v, 0 <= acc -> parse_uint_acc ds acc = Some v ->
  acc * 10 ^ Z.of_nat (length ds) <= v < (acc + 1) * 10 ^ Z.of_nat (length ds).
Proof.
  induction ds as [|b t IH]; intros acc v Ha H; cbn [parse_uint_acc length] in *.
  - inversion H; subst. cbn. lia.
  - destruct (is_digit_b b) eqn:Ed; [|discriminate].
    unfold is_digit_b in Ed.
    apply IH in H; [|lia].
    rewrite Nat2Z.inj_succ, Z.pow_succ_r by lia.
    assert (0 < 10 ^ Z.of_nat (length t)) by (apply Z.pow_pos_nonneg; lia).
    nia.
Qed.

Lemma digits_no_dot ds : forallb is_digit_b ds = true -> contains_byte "."%byte ds = false.
Proof.
  unfold contains_byte.
  induction ds as [|b t IH]; cbn [existsb forallb]; [reflexivity|]. intro H. apply andb_true_iff in H as [H1 H2].
  rewrite (IH H2), orb_false_r. unfold is_digit_b in H1.
  destruct (byte_eqb "."%byte b) eqn:E; [|reflexivity]. apply byte_eqb_eq in E. subst b. vm_compute in H1. discriminate.
Qed.

Lemma digits_head ds : ds <> [] -> forallb is_digit_b ds = true ->
  match ds with b :: _ => byte_eqb b "-"%byte = false /\ byte_eqb b "+"%byte = false | [] => True end.
Proof.
  destruct ds as [|b t]; [congruence|]. intros _ H. cbn [forallb] in H. apply andb_true_iff in H as [H1 _].
  unfold is_digit_b in H1. split.
  - destruct (byte_eqb b "-"%byte) eqn:E; [|reflexivity]. apply byte_eqb_eq in E. subst. vm_compute in H1. discriminate.
  - destruct (byte_eqb b "+"%byte) eqn:E; [|reflexivity]. apply byte_eqb_eq in E. subst. vm_compute in H1. discriminate.
Qed.

Definition dec_value (ds : bytes) : Z := match parse_uint_acc ds 0 with Some v => v | None => 0 end.

Lemma parse_int_digits ds : ds <> [] -> forallb is_digit_b ds = true -> dec_value ds <= int64_max ->
  parse_int ds = Some (dec_value ds).
Proof.
  intros Hne Hd Hb. unfold parse_int, dec_value in *.
  pose proof (digits_head ds Hne Hd) as Hh.
  destruct ds as [|b t]; [congruence|]. destruct Hh as [-> ->].
  destruct (parse_uint_acc_digits (b :: t) 0 Hd) as [v Hv]. rewrite Hv in *.
  pose proof (parse_uint_acc_bound (b :: t) 0 v ltac:(lia) Hv).
  cbv beta iota in Hb. destruct ((int64_min <=? v) && (v <=? int64_max)) eqn:E; [reflexivity|]. unfold int64_min, int64_max in *. lia.
Qed.

Section TSP.
  Variable p : bytes -> option Z.

  (** up to ten digits: unix seconds *)
  Lemma secs_spelling_lemma ds def : ds <> [] -> forallb is_digit_b ds = true -> (length ds <= 10)%nat ->
    parse_timestamp p ds def = TOk (dec_value ds * sec).
  Proof.
    intros Hne Hd Hl. unfold parse_timestamp.
    rewrite (digits_no_dot ds Hd).
    assert (dec_value ds <= int64_max) as Hb.
    { unfold dec_value. destruct (parse_uint_acc_digits ds 0 Hd) as [v Hv]. rewrite Hv.
      pose proof (parse_uint_acc_bound ds 0 v ltac:(lia) Hv) as B.
      assert (10 ^ Z.of_nat (length ds) <= 10 ^ 10) by (apply Z.pow_le_mono_r; lia).
      unfold int64_max. lia. }
    rewrite (parse_int_digits ds Hne Hd Hb).
    destruct ds; [congruence|]. destruct (Nat.leb_spec (length (b :: ds)) 10); [reflexivity|lia].
  Qed.

  (** more than ten digits: unix nanoseconds *)
  Lemma nanos_spelling_lemma ds def : forallb is_digit_b ds = true -> (10 < length ds)%nat -> dec_value ds <= int64_max ->
    parse_timestamp p ds def = TOk (dec_value ds).
  Proof.
    intros Hd Hl Hb. unfold parse_timestamp.
    rewrite (digits_no_dot ds Hd).
    assert (ds <> []) as Hne by (destruct ds; [cbn in Hl; lia|congruence]).
    rewrite (parse_int_digits ds Hne Hd Hb).
    destruct ds; [congruence|]. destruct (Nat.leb_spec (length (b :: ds)) 10); [lia|reflexivity].
  Qed.

  (** anything containing ':' (every RFC3339 text) is neither a float nor an integer: the time parser decides *)
  Lemma float_char_colon : float_char ":"%byte = false.
  Proof. reflexivity. Qed.

  Lemma parse_float_colon v : In ":"%byte v -> parse_float v = PFErr.
  Proof.
    intro H. unfold parse_float.
    assert (forallb float_char v = false) as ->; [|reflexivity].
    apply not_true_is_false. intro Hf. rewrite forallb_forall in Hf. specialize (Hf _ H). rewrite float_char_colon in Hf. discriminate.
  Qed.

  Lemma parse_int_colon v : In ":"%byte v -> parse_int v = None.
  Proof.
    intro H. unfold parse_int.
    assert (forall s acc, In ":"%byte s -> parse_uint_acc s acc = None) as Hn.
    { intros s acc Hin. destruct (parse_uint_acc s acc) eqn:E; [|reflexivity].
      apply parse_uint_acc_some in E. rewrite forallb_forall in E. specialize (E _ Hin). discriminate. }
    destruct v as [|b t]; [destruct H|].
    destruct (byte_eqb b "-"%byte) eqn:E1.
    { apply byte_eqb_eq in E1; subst. destruct H as [H|H]; [discriminate|]. destruct t; [destruct H|]. rewrite Hn by exact H. reflexivity. }
    destruct (byte_eqb b "+"%byte) eqn:E2.
    { apply byte_eqb_eq in E2; subst. destruct H as [H|H]; [discriminate|]. destruct t; [destruct H|]. rewrite Hn by exact H. reflexivity. }
    rewrite Hn by exact H. reflexivity.
  Qed.

  Lemma rfc_spelling_lemma v def : In ":"%byte v ->
    parse_timestamp p v def = match p v with Some t => TOk t | None => TErr end.
  Proof.
    intro H. unfold parse_timestamp. destruct v as [|b t]; [destruct H|].
    rewrite (parse_float_colon _ H), (parse_int_colon _ H).
    destruct (contains_byte "."%byte (b :: t)); reflexivity.
  Qed.

  (** * Defaults *)
  Lemma range_all_absent now : parse_time_range p now None None None = ROk' (now - six_hours) now.
  Proof. unfold parse_time_range. cbn. rewrite Z.ltb_irrefl. reflexivity. Qed.

  Lemma range_end_default now sp sn s e : parse_time_range p now sp None sn = ROk' s e -> e = now.
  Proof.
    unfold parse_time_range. destruct (match sn with None => _ | Some v => _ end); [|discriminate].
    cbn [parse_timestamp]. rewrite Z.ltb_irrefl.
    destruct (parse_timestamp p _ _); try discriminate. intro H. inversion H. reflexivity.
  Qed.

  Lemma range_start_default now ep sn s e : parse_time_range p now None ep sn = ROk' s e ->
    exists since, match sn with None => since = six_hours | Some v => prom_duration v = Some since end /\
                  s = Z.min e now - since.
  Proof.
    unfold parse_time_range. destruct sn as [v|].
    - destruct (prom_duration v) as [since|]; [|discriminate].
      destruct (parse_timestamp p _ now) as [e'| |]; try discriminate.
      cbn [parse_timestamp]. intro H. inversion H; subst. exists since. split; [reflexivity|].
      destruct (now <? e) eqn:E; lia.
    - destruct (parse_timestamp p _ now) as [e'| |]; try discriminate.
      cbn [parse_timestamp]. intro H. inversion H; subst. exists six_hours. split; [reflexivity|].
      destruct (now <? e) eqn:E; lia.
  Qed.

  Lemma range_explicit now sv ev sn s e : sv <> [] -> ev <> [] ->
    parse_time_range p now (Some sv) (Some ev) sn = ROk' s e ->
    parse_timestamp p ev 0 = TOk e /\ parse_timestamp p sv 0 = TOk s.
  Proof.
    intros Hs He. unfold parse_time_range.
    destruct (match sn with None => _ | Some v => _ end); [|discriminate].
    assert (forall v d1 d2, v <> [] -> parse_timestamp p v d1 = parse_timestamp p v d2) as Hd.
    { intros v d1 d2 Hv. destruct v; [congruence|reflexivity]. }
    rewrite (Hd ev now 0 He).
    destruct (parse_timestamp p ev 0) as [e'| |]; try discriminate.
    rewrite (Hd sv _ 0 Hs). destruct (parse_timestamp p sv 0) as [s'| |]; try discriminate.
    intro H. inversion H; subst. auto.
  Qed.

  Lemma range_bad_since now sp ep v : prom_duration v = None -> parse_time_range p now sp ep (Some v) = RErr.
  Proof. unfold parse_time_range. intros ->. reflexivity. Qed.

  Lemma range_bad_end now sp ev sn since :
    match sn with None => Some six_hours | Some v => prom_duration v end = Some since ->
    parse_timestamp p ev now = TErr -> parse_time_range p now sp (Some ev) sn = RErr.
  Proof. unfold parse_time_range. intros -> ->. reflexivity. Qed.
End TSP.

(** the last float step of the fractional-seconds path is exact for every millisecond value:
    int64((m/1000) * 1e9) = m * 10^6 for all 0 <= m < 1000 (complete enumeration) *)
Definition ms_step_ok (m : Z) : bool :=
  go_int64 (PrimFloat.mul (PrimFloat.div (float_of_Z m) (float_of_Z 1000)) (float_of_Z sec)) =? m * 1000000.

Lemma ms_step_all : forallb ms_step_ok (map Z.of_nat (seq 0 1000)) = true.
Proof. vm_compute. reflexivity. Qed.

Lemma ms_step_lemma m : 0 <= m < 1000 -> ms_step_ok m = true.
Proof.
  intro H. pose proof ms_step_all as A. rewrite forallb_forall in A. apply A.
  apply in_map_iff. exists (Z.to_nat m). split; [lia|]. apply in_seq. lia.
Qed.
