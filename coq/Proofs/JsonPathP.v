(** C06: every JSON path expression built from field names, quoted keys and indexes is parsed (jsonexpr.Parse) into exactly
    its selectors. *)
From LogQLV Require Import Base.Bytes Base.TimeFmt Model.Parser Model.Stages Model.JsonPath.
From Coq Require Import Lia.

Inductive pitem :=
| PField (k : bytes)          (* .k        k an identifier *)
| PQuoted (k : bytes)         (* ["k"]     k printable ASCII, quote and backslash escaped *)
| PIndex (ds : bytes).        (* [ds]      ds a string of 1..18 digits *)

Fixpoint escape (k : bytes) : bytes :=
  match k with
  | [] => []
  | c :: t => if byte_eqb c dquote || byte_eqb c bslash then bslash :: c :: escape t else c :: escape t
  end.

Definition print_item (i : pitem) : bytes :=
  match i with
  | PField k => dot :: k
  | PQuoted k => lbrack :: dquote :: escape k ++ [dquote; rbrack]
  | PIndex ds => lbrack :: ds ++ [rbrack]
  end.

Definition idx_value (ds : bytes) : Z := match parse_uint_acc ds 0 with Some n => n | None => 0 end.
Definition sel_of (i : pitem) : jsel :=
  match i with PField k | PQuoted k => JKey k | PIndex ds => JIdx (idx_value ds) end.

Definition printable (c : byte) : bool := (32 <=? bz c) && (bz c <=? 126).
Definition wf_item (i : pitem) : Prop :=
  match i with
  | PField k => is_valid_label k = true
  | PQuoted k => forallb printable k = true
  | PIndex ds => ds <> [] /\ forallb is_digit_b ds = true /\ (length ds <= 18)%nat
  end.

Definition print_path (l : list pitem) : bytes := flat_map print_item l.

(** what follows an item: nothing, or the next item -- which starts with '.' or '[' *)
Definition item_follows (r : bytes) : Prop := match r with [] => True | b :: _ => b = dot \/ b = lbrack end.

Lemma print_path_follows l : item_follows (print_path l).
Proof. destruct l as [|i t]; cbn; [exact I|]. destruct i; cbn; auto. Qed.

Lemma not_ident_follow r : item_follows r -> match r with [] => True | b :: _ => ident_rune b = false end.
Proof. destruct r as [|b t]; [auto|]. intros [-> | ->]; reflexivity. Qed.

Lemma span_ident_app k : forall r, forallb ident_rune k = true -> match r with [] => True | b :: _ => ident_rune b = false end ->
  span_ident (k ++ r) = (k, r).
Proof.
  induction k as [|c t IH]; intros r Hk Hr; cbn [app span_ident].
  - destruct r as [|b r']; [reflexivity|]. cbn. rewrite Hr. reflexivity.
  - cbn in Hk. apply andb_true_iff in Hk. destruct Hk as [Hc Ht]. rewrite Hc, (IH r Ht Hr). reflexivity.
Qed.

Lemma scan_field_app k r : is_valid_label k = true -> item_follows r -> scan_field (k ++ r) = Some (k, r).
Proof.
  intros Hk Hr. unfold is_valid_label in Hk. destruct k as [|b t]; [discriminate|].
  apply andb_true_iff in Hk. destruct Hk as [Hb Hall].
  unfold scan_field. rewrite (span_ident_app (b :: t) r Hall (not_ident_follow r Hr)). rewrite Hb. reflexivity.
Qed.

Lemma span_digits_app ds : forall r, forallb is_digit_b ds = true -> span_digits (ds ++ rbrack :: r) = (ds, rbrack :: r).
Proof.
  induction ds as [|c t IH]; intros r H; cbn [app span_digits]; [reflexivity|].
  cbn in H. apply andb_true_iff in H. destruct H as [Hc Ht]. rewrite Hc, (IH r Ht). reflexivity.
Qed.

Lemma parse_uint_digits ds : forall acc, forallb is_digit_b ds = true -> exists v, parse_uint_acc ds acc = Some v.
Proof.
  induction ds as [|c t IH]; intros acc H; cbn; [eauto|].
  cbn in H. apply andb_true_iff in H. destruct H as [Hc Ht]. rewrite Hc. apply IH. exact Ht.
Qed.

Lemma scan_integer_app ds r : ds <> [] -> forallb is_digit_b ds = true -> (length ds <= 18)%nat ->
  scan_integer (ds ++ rbrack :: r) = IntOk (idx_value ds) (rbrack :: r).
Proof.
  intros Hne Hd Hl. unfold scan_integer. rewrite (span_digits_app ds r Hd).
  destruct ds as [|c t]; [congruence|].
  assert (Hlt : (18 <? Z.of_nat (length (c :: t))) = false) by (apply Z.ltb_ge; lia). rewrite Hlt.
  unfold idx_value. destruct (parse_uint_digits (c :: t) 0 Hd) as [v ->]. reflexivity.
Qed.

Lemma find_close_escape k : forall fuel acc r, (length (escape k) < fuel)%nat ->
  find_close fuel (escape k ++ dquote :: r) acc = Some (acc ++ escape k, r).
Proof.
  induction k as [|c t IH]; intros fuel acc r Hf; (destruct fuel as [|f]; [cbn in Hf; lia|]).
  - cbn. rewrite app_nil_r. reflexivity.
  - cbn [escape]. destruct (byte_eqb c dquote || byte_eqb c bslash) eqn:E.
    + cbn [app find_close]. change (byte_eqb bslash bslash) with true. cbn iota.
      destruct f as [|f']; [cbn [escape length] in Hf; rewrite E in Hf; cbn in Hf; lia|].
      rewrite IH; [|cbn [escape length] in Hf; rewrite E in Hf; cbn [length] in Hf; lia]. rewrite <- app_assoc. reflexivity.
    + cbn [app find_close]. apply orb_false_iff in E. destruct E as [E1 E2]. rewrite E2, E1.
      rewrite IH; [|cbn [escape length] in Hf; rewrite E1, E2 in Hf; cbn [orb length] in Hf; lia]. rewrite <- app_assoc. reflexivity.
Qed.

Lemma unquote_escape k : forallb printable k = true -> unquote_simple (escape k) = Some (Some k).
Proof.
  induction k as [|c t IH]; intro H; [reflexivity|].
  cbn in H. apply andb_true_iff in H. destruct H as [Hc Ht]. cbn [escape].
  destruct (byte_eqb c dquote || byte_eqb c bslash) eqn:E.
  - cbn [unquote_simple]. change (byte_eqb bslash bslash) with true. cbn iota. rewrite E. rewrite (IH Ht). reflexivity.
  - cbn [unquote_simple]. apply orb_false_iff in E. destruct E as [E1 E2]. rewrite E2. unfold printable in Hc. rewrite Hc. rewrite (IH Ht). reflexivity.
Qed.

Lemma scan_string_app k r : forallb printable k = true -> scan_string (dquote :: escape k ++ dquote :: r) = StrOk k r.
Proof.
  intro Hk. unfold scan_string. rewrite (find_close_escape k _ [] r); [|rewrite app_length; cbn; lia].
  cbn [app]. rewrite (unquote_escape k Hk). reflexivity.
Qed.

Lemma escape_head k r : match escape k ++ dquote :: r with [] => False | _ => True end.
Proof. destruct k as [|c t]; cbn; [exact I|]. destruct (byte_eqb c dquote || byte_eqb c bslash); exact I. Qed.

(** one item *)
Lemma item_step i : forall f r acc, wf_item i -> item_follows r ->
  parse_path_loop (S f) (print_item i ++ r) acc =
    match r with [] => PathOk (acc ++ [sel_of i]) | _ => parse_path_loop f r (acc ++ [sel_of i]) end.
Proof.
  intros f r acc Hw Hr. destruct i as [k|k|ds]; cbn [print_item sel_of wf_item] in *.
  - cbn [app parse_path_loop]. change (byte_eqb dot dot) with true. cbn iota. rewrite (scan_field_app k r Hw Hr). reflexivity.
  - cbn [app parse_path_loop]. change (byte_eqb lbrack dot) with false. change (ident_start lbrack) with false. change (byte_eqb lbrack lbrack) with true. cbn iota.
    change (is_digit_b dquote) with false. change (byte_eqb dquote dquote) with true. cbn iota.
    rewrite <- app_assoc. cbn [app]. rewrite (scan_string_app k (rbrack :: r) Hw).
    change (byte_eqb rbrack rbrack) with true. cbn iota. reflexivity.
  - destruct Hw as [Hne [Hd Hl]]. cbn [app parse_path_loop]. change (byte_eqb lbrack dot) with false. change (ident_start lbrack) with false. change (byte_eqb lbrack lbrack) with true. cbn iota.
    destruct ds as [|c t]; [congruence|]. cbn [app]. assert (Hc : is_digit_b c = true) by (cbn in Hd; apply andb_true_iff in Hd; apply Hd).
    rewrite Hc. change (c :: t ++ [rbrack] ++ r) with ((c :: t) ++ rbrack :: r).
    rewrite <- app_assoc. cbn [app]. change (c :: t ++ rbrack :: r) with ((c :: t) ++ rbrack :: r).
    rewrite (scan_integer_app (c :: t) r Hne Hd Hl). change (byte_eqb rbrack rbrack) with true. cbn iota. reflexivity.
Qed.

Theorem path_roundtrip_lemma l : l <> [] -> Forall wf_item l -> parse_path (print_path l) = PathOk (map sel_of l).
Proof.
  intros Hne Hw. unfold parse_path.
  assert (Hgen : forall l acc fuel, l <> [] -> Forall wf_item l -> (length l <= fuel)%nat ->
            parse_path_loop fuel (print_path l) acc = PathOk (acc ++ map sel_of l)).
  { clear. induction l as [|i t IH]; intros acc fuel Hne Hw Hf; [congruence|].
    destruct fuel as [|f]; [cbn in Hf; lia|]. inversion Hw as [|? ? Hi Ht]; subst.
    change (print_path (i :: t)) with (print_item i ++ print_path t).
    rewrite (item_step i f (print_path t) acc Hi (print_path_follows t)).
    destruct t as [|i2 t'].
    - cbn. reflexivity.
    - remember (print_path (i2 :: t')) as pp eqn:E. destruct pp as [|b bs]; [exfalso; destruct i2; cbn in E; discriminate|].
      rewrite IH; [|discriminate|exact Ht|cbn in *; lia]. rewrite <- app_assoc. reflexivity. }
  rewrite (Hgen l [] _ Hne Hw); [reflexivity|].
  clear Hgen. induction Hw as [|i t Hi Ht IH]; [congruence|].
  change (print_path (i :: t)) with (print_item i ++ print_path t). rewrite app_length. cbn [length].
  assert (Hi1 : (1 <= length (print_item i))%nat) by (destruct i; cbn; lia).
  destruct t as [|i2 t']; [cbn; lia|]. specialize (IH ltac:(discriminate)). cbn [length] in *. lia.
Qed.
