(** C17: the places where the implementation could panic or fail to terminate, and why the model shows it cannot. *)
From LogQLV Require Import Base.Bytes Base.FloatX Base.LMap Base.Heap Base.TimeFmt Base.Units Model.Tables Model.Stages Model.Engine Model.Metric Proofs.HeapP Proofs.RangeP.

(** * The IP line filter always makes progress: a captured address candidate is never empty *)
Lemma span_v4_split s : let '(a, r) := span_v4 s in s = a ++ r.
Proof. induction s as [|b t IH]; cbn; [reflexivity|]. destruct (is_digit_b b || byte_eqb b "."%byte); [|reflexivity]. destruct (span_v4 t) as [a r]. cbn. f_equal. exact IH. Qed.

Lemma span_v4_digit_nonempty b t a r : is_digit_b b = true -> span_v4 (b :: t) = (a, r) -> a <> [].
Proof.
  intros Hd H. cbn [span_v4] in H. rewrite Hd in H. cbn [orb] in H. destruct (span_v4 t) as [a' r']. inversion H; subst. discriminate.
Qed.

Lemma try_v4_some s cap rest : try_v4 s = Some (cap, rest) -> exists b t, s = b :: t /\ is_digit_b b = true /\ span_v4 s = (cap, rest).
Proof.
  unfold try_v4. destruct s as [|b0 [|b1 [|b2 [|b3 t]]]]; try discriminate.
  destruct (is_digit_b b0) eqn:Ed; cbn [andb]; [|discriminate].
  destruct (byte_eqb b1 "."%byte || byte_eqb b2 "."%byte || byte_eqb b3 "."%byte); [|discriminate].
  intro H. exists b0, (b1 :: b2 :: b3 :: t). split; [reflexivity|]. split; [exact Ed|]. congruence.
Qed.

Theorem ip_capture_progress_lemma s cap rest : try_v4 s = Some (cap, rest) -> cap <> [] /\ s = cap ++ rest /\ (length rest < length s)%nat.
Proof.
  intro H. destruct (try_v4_some s cap rest H) as [b [t [-> [Ed Hs]]]].
  pose proof (span_v4_split (b :: t)) as Hsplit. rewrite Hs in Hsplit.
  pose proof (span_v4_digit_nonempty b t cap rest Ed Hs) as Hne.
  split; [exact Hne|]. split; [exact Hsplit|].
  apply (f_equal (@length byte)) in Hsplit. rewrite app_length in Hsplit. destruct cap; [congruence|]. cbn [length] in *. lia.
Qed.

(** the scan's fuel (line length + 1) is never the reason it stops: with enough fuel the answer no longer depends on it *)
Lemma ip_scan_fuel pat : forall s f1 f2, (length s < f1)%nat -> (length s < f2)%nat -> ip_scan f1 pat s = ip_scan f2 pat s.
Proof.
  intros s. remember (length s) as n eqn:Hn. revert s Hn.
  induction n as [n IH] using lt_wf_ind. intros s Hn [|f1] [|f2] H1 H2; try lia. cbn [ip_scan].
  destruct s as [|c t]; [reflexivity|]. cbn [length] in Hn.
  assert (Ht : forall t', (length t' < n)%nat -> ip_scan f1 pat t' = ip_scan f2 pat t') by (intros t' Ht'; eapply IH; eauto; lia).
  destruct (negb (is_hex_b c || byte_eqb c ":"%byte)); [apply Ht; lia|].
  destruct (try_v4 (c :: t)) as [[cap rest]|] eqn:Et.
  - destruct (ip_capture_progress_lemma _ _ _ Et) as [_ [_ Hlt]]. cbn [length] in Hlt.
    destruct (parse_ipv4 cap); [destruct (ip_match pat z); [reflexivity|]|]; apply Ht; lia.
  - destruct (v6_starts (c :: t)); [reflexivity|apply Ht; lia].
Qed.

(** * heap.Min is only consulted on a non-empty heap *)
Theorem heap_min_guarded_lemma (less greater : sample -> sample -> bool) limit h s :
  heap_offer less greater limit h s <> h ++ [s] -> heap_offer less greater limit h s <> heap_push greater dummy_sample h s ->
  0 < limit -> h <> [].
Proof.
  unfold heap_offer. destruct (limit <? 0) eqn:E1; [intros H; congruence|].
  destruct (Z.of_nat (length h) <? limit) eqn:E2; [intros _ H; congruence|].
  intros _ _ Hl Hh. subst h. cbn in E2. apply Z.ltb_ge in E2. lia.
Qed.

(** * The stepper terminates for a positive step and visits exactly start + k*step <= end *)
Lemma grid_from_complete stp : 0 < stp -> forall fuel t e k, 0 <= k -> t + k * stp <= e -> (Z.to_nat k < fuel)%nat -> In (t + k * stp) (grid_from fuel t e stp).
Proof.
  intros Hs. induction fuel as [|f IH]; intros t e k Hk Hle Hf; [lia|]. cbn.
  destruct (Z.ltb_spec e t); [nia|].
  destruct (Z.eq_dec k 0) as [->|Hne]; [left; lia|]. right.
  replace (t + k * stp) with ((t + stp) + (k - 1) * stp) by lia. apply IH; try lia.
Qed.

Theorem grid_complete_lemma start e stp k : 0 < stp -> 0 <= k -> start + k * stp <= e -> In (start + k * stp) (grid start e stp).
Proof.
  intros Hs Hk Hle. unfold grid. destruct (Z.leb_spec stp 0); [lia|].
  apply grid_from_complete; try assumption.
  assert (k <= (e - start) / stp) by (apply Z.div_le_lower_bound; lia). lia.
Qed.

(** with step 0 and start < end the real stepper never advances; the model records that as an empty grid, and the property
    carries the positive-step precondition (enforced for the CLI by C16 / fix D15) *)
Lemma zero_step_needs_guard start e : start < e -> grid start e 0 = [].
Proof. intro H. unfold grid. cbn. destruct (Z.eqb_spec start e); [lia|reflexivity]. Qed.

(** * Stages are total on every line: whatever the bytes, a stage returns (the model functions are total by construction);
    the content-dependent loops are the ones above plus pattern matching, which consumes its pattern *)
Lemma pattern_match_total parts : forall input ls, exists ls', pattern_match parts input ls = ls'.
Proof. intros. eexists. reflexivity. Qed.
