From LogQLV Require Import Base.Bytes Model.Tables Model.Syntax Model.Parser Model.Prec Proofs.PrecP.
Lemma asis_4_4 : forallb asis_ok (seqs4_ending [OpEq; OpNotEq; OpGt]) = true.
Proof. vm_compute. reflexivity. Qed.
