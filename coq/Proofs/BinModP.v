(** C05: binary-operation modifiers.  One binary operation between two range aggregations (without unwrap) written WITH a modifier:
      a > bool b      a / on (x, y) b      a * ignoring (x) b      a / on (x) group_left (y, z) b      a + ignoring (x) group_right b
    (bool, on / ignoring with a label list, group_left / group_right with or without an include list, and their combinations);
    the tree is  EBin left op (the modifier) right. *)
From LogQLV Require Import Base.Bytes Base.FloatX Model.Tables Model.Syntax Model.Parser Proofs.ParserP Proofs.PipelineP Proofs.LogRangeP Proofs.QueryP Proofs.BinRangeP.
From Coq Require Import Lia.

Inductive mjoin := JOn | JIgnoring.
Inductive mgroup := GLeft | GRight.
(** a modifier as it is written: [bool]? [ (on|ignoring) (labels) [ (group_left|group_right) [(labels)] ]? ]? *)
Record msrc := { ms_bool : bool; ms_join : option (mjoin * list bytes * option (mgroup * list bytes)) }.

Definition join_tok (j : mjoin) : ttype := match j with JOn => TOn | JIgnoring => TIgnoring end.
Definition join_name (j : mjoin) : bytes := match j with JOn => ["o"; "n"]%byte | JIgnoring => ["i"; "g"; "n"; "o"; "r"; "i"; "n"; "g"]%byte end.
Definition group_tok (g : mgroup) : ttype := match g with GLeft => TGroupLeft | GRight => TGroupRight end.
Definition group_name (g : mgroup) : bytes := match g with GLeft => ["l"; "e"; "f"; "t"]%byte | GRight => ["r"; "i"; "g"; "h"; "t"]%byte end.

(** the modifier node the parser must build *)
Definition mod_of (m : msrc) : modifier :=
  match ms_join m with
  | None => {| bm_op := []; bm_oplabels := []; bm_group := []; bm_include := []; bm_bool := ms_bool m |}
  | Some (j, ls, None) => {| bm_op := join_name j; bm_oplabels := ls; bm_group := []; bm_include := []; bm_bool := ms_bool m |}
  | Some (j, ls, Some (g, inc)) => {| bm_op := join_name j; bm_oplabels := ls; bm_group := group_name g; bm_include := inc; bm_bool := ms_bool m |}
  end.

Definition print_group (g : option (mgroup * list bytes)) : list token :=
  match g with
  | None => []
  | Some (gd, inc) => punct (group_tok gd) :: match inc with [] => [] | _ :: _ => print_labels inc end
  end.
Definition print_join (j : option (mjoin * list bytes * option (mgroup * list bytes))) : list token :=
  match j with None => [] | Some (jn, ls, g) => punct (join_tok jn) :: print_labels ls ++ print_group g end.
Definition print_mod (m : msrc) : list token := (if ms_bool m then [punct TBool] else []) ++ print_join (ms_join m).

Definition join_fuel (j : option (mjoin * list bytes * option (mgroup * list bytes))) : nat :=
  match j with None => 0 | Some (_, ls, None) => length ls | Some (_, ls, Some (_, inc)) => length ls + length inc end.

(** the token after the modifier is not part of one *)
Definition nomod (t : token) : Prop :=
  is_ty t TBool = false /\ is_ty t TOn = false /\ is_ty t TIgnoring = false /\ is_ty t TGroupLeft = false /\ is_ty t TGroupRight = false /\
  is_ty t TOpenParen = false.

(** parseBinOpModifier after the optional bool *)
Definition after_bool (fuel : nat) (rb : bool) : M modifier :=
  do t <- peek;
  if negb (is_ty t TOn || is_ty t TIgnoring) then ret {| bm_op := []; bm_oplabels := []; bm_group := []; bm_include := []; bm_bool := rb |}
  else
    let opname := if is_ty t TOn then ["o"; "n"]%byte else ["i"; "g"; "n"; "o"; "r"; "i"; "n"; "g"]%byte in
    next ;;
    do ols <- parse_labels fuel;
    do t2 <- peek;
    if negb (is_ty t2 TGroupLeft || is_ty t2 TGroupRight) then
      ret {| bm_op := opname; bm_oplabels := ols; bm_group := []; bm_include := []; bm_bool := rb |}
    else
      let grp := if is_ty t2 TGroupLeft then ["l"; "e"; "f"; "t"]%byte else ["r"; "i"; "g"; "h"; "t"]%byte in
      let base := {| bm_op := opname; bm_oplabels := ols; bm_group := grp; bm_include := []; bm_bool := rb |} in
      next ;;
      do t3 <- peek;
      if negb (is_ty t3 TOpenParen) then ret base else
      next ;;
      do t4 <- peek;
      if is_ty t4 TCloseParen then next ;; ret base
      else if is_ty t4 TIdent then
        unread ;; do inc <- parse_labels fuel;
        ret {| bm_op := opname; bm_oplabels := ols; bm_group := grp; bm_include := inc; bm_bool := rb |}
      else unread ;; ret base.

Lemma parse_modifier_split fuel :
  parse_modifier fuel = (do t0 <- peek; do rb <- (if is_ty t0 TBool then next ;; ret true else ret false); after_bool fuel rb).
Proof. reflexivity. Qed.

Ltac isty := repeat match goal with
                    | |- context [is_ty (plain ?k ?s) ?k'] => let b := eval vm_compute in (is_ty (plain k s) k') in change (is_ty (plain k s) k') with b
                    end.
Ltac stepb := erewrite bind_POk by reflexivity; cbv beta; cbn [rest prev].

Lemma after_bool_print j fuel rb p t tl : nomod t -> (join_fuel j <= fuel)%nat ->
  after_bool fuel rb {| prev := p; rest := print_join j ++ t :: tl |} =
    POk (mod_of {| ms_bool := rb; ms_join := j |}) {| prev := rev (print_join j) ++ p; rest := t :: tl |}.
Proof.
  intros [Hb [Hon [Hig [Hgl [Hgr Hop]]]]] Hf. unfold after_bool.
  destruct j as [[[jn ls] g]|]; cbn [print_join app rev].
  2:{ stepb. rewrite Hon, Hig. reflexivity. }
  stepb.
  assert (Hj : (is_ty (punct (join_tok jn)) TOn || is_ty (punct (join_tok jn)) TIgnoring) = true) by (destruct jn; reflexivity).
  rewrite Hj. cbn [negb]. cbv zeta.
  stepb.
  rewrite <- app_assoc.
  assert (Hls : (length ls <= fuel)%nat) by (destruct g as [[gd inc]|]; cbn [join_fuel] in Hf; lia).
  erewrite bind_POk by (apply (labels_print ls fuel _ _ Hls)). cbv beta.
  assert (Hname : (if is_ty (punct (join_tok jn)) TOn then ["o"; "n"]%byte else ["i"; "g"; "n"; "o"; "r"; "i"; "n"; "g"]%byte) = join_name jn) by (destruct jn; reflexivity).
  rewrite Hname.
  destruct g as [[gd inc]|]; cbn [print_group app].
  2:{ stepb. rewrite Hgl, Hgr. cbn [negb orb]. unfold ret, mod_of. cbn [ms_join ms_bool]. f_equal. f_equal.
      rewrite app_nil_r. cbn [rev]. rewrite <- app_assoc. reflexivity. }
  stepb.
  assert (Hg : (is_ty (punct (group_tok gd)) TGroupLeft || is_ty (punct (group_tok gd)) TGroupRight) = true) by (destruct gd; reflexivity).
  rewrite Hg. cbn [negb]. cbv zeta.
  assert (Hgn : (if is_ty (punct (group_tok gd)) TGroupLeft then ["l"; "e"; "f"; "t"]%byte else ["r"; "i"; "g"; "h"; "t"]%byte) = group_name gd) by (destruct gd; reflexivity).
  rewrite Hgn.
  stepb.
  destruct inc as [|l inc']; cbn [app].
  - stepb. rewrite Hop. cbn [negb]. unfold ret, mod_of. cbn [ms_join ms_bool]. f_equal. f_equal.
    cbn [rev]. rewrite rev_app_distr. cbn [rev app]. rewrite <- !app_assoc. reflexivity.
  - assert (Hh : exists tl2, print_labels (l :: inc') ++ t :: tl = punct TOpenParen :: plain TIdent l :: tl2).
    { unfold print_labels. destruct inc'; cbn; eauto. }
    destruct Hh as [tl2 Htl2]. rewrite Htl2.
    stepb. isty. cbn [negb].
    stepb. stepb. isty. cbn iota.
    erewrite bind_POk by reflexivity. cbv beta.
    cbn [rest prev]. rewrite <- Htl2.
    assert (Hinc : (length (l :: inc') <= fuel)%nat) by (cbn [join_fuel] in Hf; lia).
    erewrite bind_POk by (apply (labels_print (l :: inc') fuel _ _ Hinc)). cbv beta.
    unfold ret, mod_of. cbn [ms_join ms_bool]. f_equal. f_equal.
    cbn [rev]. rewrite !rev_app_distr. cbn [rev app]. rewrite <- !app_assoc. cbn [app]. reflexivity.
Qed.

Definition mod_fuel (m : msrc) : nat := join_fuel (ms_join m).

Lemma modifier_print m fuel p t tl : nomod t -> (mod_fuel m <= fuel)%nat ->
  parse_modifier fuel {| prev := p; rest := print_mod m ++ t :: tl |} = POk (mod_of m) {| prev := rev (print_mod m) ++ p; rest := t :: tl |}.
Proof.
  intros Hn Hf. rewrite parse_modifier_split. destruct m as [b j]. unfold print_mod. cbn [ms_bool ms_join]. unfold mod_fuel in Hf. cbn [ms_join] in Hf.
  destruct b.
  - cbn [app]. stepb. isty. cbn iota.
    erewrite bind_POk by reflexivity. cbv beta.
    rewrite (after_bool_print j fuel true _ t tl Hn Hf). f_equal. f_equal. cbn [rev]. rewrite <- app_assoc. reflexivity.
  - cbn [app].
    assert (Hh : is_ty (match print_join j ++ t :: tl with [] => eof_tok | t0 :: _ => t0 end) TBool = false).
    { destruct j as [[[jn ls] g]|]; cbn [print_join app]; [destruct jn; reflexivity|exact (proj1 Hn)]. }
    unfold bind at 1, peek at 1. cbn [rest]. rewrite Hh. unfold bind at 1. cbn [ret].
    apply (after_bool_print j fuel false p t tl Hn Hf).
Qed.

Section BinMod.
  Variable anch : bytes -> bool.
  Variable re_names : bytes -> option (list bytes).

  Ltac stepb2 := erewrite bind_POk by reflexivity; cbv beta; cbn [rest prev].

  Definition print_bin_mod cls (op : binop) (m : msrc) (a b : operand) : list token :=
    print_operand anch re_names cls a ++ punct (bin_tok op) :: print_mod m ++ print_operand anch re_names cls b.

  Lemma rangeop_nomod o : nomod (punct (rangeop_tok o)).
  Proof. destruct o; repeat split; reflexivity. Qed.

  Lemma print_mod_len m : (mod_fuel m <= length (print_mod m))%nat.
  Proof.
    destruct m as [b [[[jn ls] [[gd [|l inc']]|]]|]]; unfold print_mod, mod_fuel; cbn [ms_bool ms_join join_fuel print_join print_group]; unfold print_labels;
      repeat (rewrite app_length || cbn [length]); try pose proof (print_names_len ls); try pose proof (print_names_len (l :: inc')); cbn [length] in *; lia.
  Qed.

  Theorem bin_mod_parse_lemma cls op m a b :
    metric_op op = true ->
    wf_operand anch re_names cls a (punct (bin_tok op) :: print_mod m ++ print_operand anch re_names cls b) -> wf_operand anch re_names cls b [] ->
    parse_tokens (print_bin_mod cls op m a b) = Parsed (EBin (operand_expr a) op (mod_of m) (operand_expr b)).
  Proof.
    intros Hop [Hva [Hsa [Hna Hca]]] [Hvb [Hsb [Hnb Hcb]]]. unfold parse_tokens.
    set (toks := print_bin_mod cls op m a b).
    assert (Hlen : (length (a_sel a) + fuel_needed (a_sts a) + length (a_sel b) + fuel_needed (a_sts b) + mod_fuel m + 4 <= 2 * length toks)%nat).
    { unfold toks, print_bin_mod, print_operand, QueryP.print_range_agg, print_logrange. repeat (rewrite app_length || cbn [length]).
      pose proof (print_selector_len anch re_names cls (a_sel a)). pose proof (print_selector_len anch re_names cls (a_sel b)).
      pose proof (stages_fuel anch re_names (a_sts a) _ Hca). pose proof (stages_fuel anch re_names (a_sts b) _ Hcb).
      pose proof (print_mod_len m). lia. }
    remember (16 * length toks + 64)%nat as fuel eqn:Ef.
    do 8 (destruct fuel as [|fuel]; [lia|]).
    assert (Hf : (length (a_sel a) < fuel /\ fuel_needed (a_sts a) < fuel /\ length (a_sel b) < fuel /\ fuel_needed (a_sts b) < fuel /\ mod_fuel m <= fuel)%nat) by lia.
    destruct Hf as [Hf1 [Hf2 [Hf3 [Hf4 Hf5]]]].
    destruct (bin_tok_facts op Hop) as [Hpk [Hby Hwo]].
    clear Ef Hlen. subst toks.
    destruct (operand_head anch re_names cls a) as [tla Ea]. destruct (operand_head anch re_names cls b) as [tlb Eb].
    destruct (rangeop_tok_not (a_op a)) as [Hba Hpa].
    assert (Hhead : match print_bin_mod cls op m a b with [] => eof_tok | t :: _ => t end = punct (rangeop_tok (a_op a))) by (unfold print_bin_mod; rewrite Ea; reflexivity).
    rewrite core_expr_metric by (rewrite Hhead; exact Hba).
    rewrite core_metric. unfold bind at 1. unfold print_bin_mod. unfold print_operand at 1.
    (* left operand *)
    rewrite (range_agg_core anch re_names cls (a_op a) (a_sel a) (a_sts a) (a_rtxt a) (a_rns a) (a_off a) (S (S (S (S (S fuel))))) [] _ Hva Hsa Hna Hca);
      [|lia|lia|split; [exact Hby|exact Hwo]].
    (* the operator *)
    rewrite core_binop_unfold. stepb2. rewrite Hpk.
    assert (Hprec : (precedence op <? 0) = false) by (destruct op; reflexivity). rewrite Hprec.
    stepb2.
    (* the modifier *)
    rewrite Eb.
    erewrite bind_POk by (apply (modifier_print m _ _ _ _ (rangeop_nomod (a_op b))); lia). cbv beta. rewrite <- Eb.
    (* right operand *)
    rewrite <- (app_nil_r (print_operand anch re_names cls b)). unfold print_operand at 1.
    erewrite bind_POk by (apply (range_agg_core anch re_names cls (a_op b) (a_sel b) (a_sts b) (a_rtxt b) (a_rns b) (a_off b) (S (S (S (S fuel)))) _ [] Hvb Hsb Hnb Hcb); [lia|lia|exact I]).
    cbv beta.
    change (is_lit (range_expr (a_op a) (a_sel a) (a_sts a) (a_rns a) (a_off a))) with false. rewrite andb_false_r.
    (* nothing follows *)
    erewrite bind_POk by (apply core_inner_end). cbv beta.
    change (is_lit (range_expr (a_op b) (a_sel b) (a_sts b) (a_rns b) (a_off b))) with false. rewrite andb_false_r.
    rewrite core_binop_end by exact I. reflexivity.
  Qed.
End BinMod.
