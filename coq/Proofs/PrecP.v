From LogQLV Require Import Base.Bytes Model.Tables Model.Syntax Model.Parser Model.Prec.

Lemma in_all_seqs ops : Forall (fun o => In o chain_ops) ops -> In ops (all_seqs (length ops)).
Proof.
  induction ops as [|o s IH]; intro H; cbn [length all_seqs].
  - left. reflexivity.
  - inversion H; subst. apply in_flat_map. exists s. split; [apply IH; assumption|].
    apply in_map_iff. exists o. split; [reflexivity|assumption].
Qed.

Definition asis_ok (ops : list binop) : bool := parsed_tree_is ops (asis_tree ops).
Definition conv_ok (ops : list binop) : bool := known_region ops || tree_eqb (asis_tree ops) (conv_tree ops).

Lemma asis_0 : forallb asis_ok (all_seqs 0) = true. Proof. vm_compute. reflexivity. Qed.
Lemma asis_1 : forallb asis_ok (all_seqs 1) = true. Proof. vm_compute. reflexivity. Qed.
Lemma asis_2 : forallb asis_ok (all_seqs 2) = true. Proof. vm_compute. reflexivity. Qed.
Lemma asis_3 : forallb asis_ok (all_seqs 3) = true. Proof. vm_compute. reflexivity. Qed.

Lemma conv_all : forallb conv_ok (all_seqs 0 ++ all_seqs 1 ++ all_seqs 2 ++ all_seqs 3 ++ all_seqs 4) = true.
Proof. vm_compute. reflexivity. Qed.

(** chains of four operators, split by their last operator so that the enumeration runs in parallel files *)
Definition seqs4_ending (lasts : list binop) : list (list binop) :=
  flat_map (fun s => map (fun o => o :: s) lasts) (all_seqs 3).
