From LogQLV Require Import Base.Bytes Model.Tables Model.Syntax Model.Parser Model.Prec Proofs.PrecP.
Lemma asis_4_5 : forallb asis_ok (seqs4_ending [OpGte; OpLt; OpLte]) = true.
Proof. vm_compute. reflexivity. Qed.
