(** C14: an unlimited log query over the Docker storage meets every stream fault of every selected container.
    The iterator protocol is followed call by call (nextD): one container = the stream itself, several = mergeIter with
    its read-ahead; stream errors are sticky (fix D17). *)
From LogQLV Require Import Base.Bytes Base.LMap Base.Heap Base.TimeFmt Model.Tables Model.Frames Model.Stages Model.Engine Model.Docker Proofs.HeapP.
From Coq Require Import Permutation.
Local Open Scope nat_scope.

Definition faulty (srcs : list src) : bool := existsb s_err srcs.
Definition recs_total (srcs : list src) : nat := fold_right (fun s n => (length (s_recs s) + n)) 0 srcs.

Lemma total_recs_eq st : total_recs st = recs_total (m_srcs st).
Proof. reflexivity. Qed.

(** * upd_src / pullD *)
Lemma upd_src_length l i f : length (upd_src l i f) = length l.
Proof. revert i; induction l as [|x t IH]; intros [|i]; cbn; auto. Qed.

Lemma upd_src_nth_neq l i k f : i <> k -> nth_error (upd_src l i f) k = nth_error l k.
Proof. revert i k; induction l as [|x t IH]; intros [|i] [|k] H; cbn; auto; try congruence. Qed.

Lemma upd_src_nth_eq l i f s : nth_error l i = Some s -> nth_error (upd_src l i f) i = Some (f s).
Proof. revert i; induction l as [|x t IH]; intros [|i] H; cbn in *; try discriminate; [inversion H; reflexivity|apply IH; exact H]. Qed.

Lemma upd_src_err l i f : (forall s, s_err (f s) = s_err s) -> map s_err (upd_src l i f) = map s_err l.
Proof.
  intro Hf. revert i; induction l as [|x t IH]; intros [|i]; cbn; try reflexivity.
  - rewrite Hf. reflexivity.
  - rewrite IH. reflexivity.
Qed.

Lemma upd_src_total_same l i f : (forall s, s_recs (f s) = s_recs s) -> recs_total (upd_src l i f) = recs_total l.
Proof.
  intro Hf. revert i; induction l as [|x t IH]; intros [|i]; cbn; try reflexivity.
  - rewrite Hf. reflexivity.
  - rewrite IH. reflexivity.
Qed.

Lemma upd_src_total_at l i f s : nth_error l i = Some s -> length (s_recs (f s)) = length (s_recs s) -> recs_total (upd_src l i f) = recs_total l.
Proof.
  revert i; induction l as [|x t IH]; intros [|i] Hn Hl; cbn [nth_error upd_src] in *; try discriminate.
  - inversion Hn; subst. unfold recs_total. cbn. rewrite Hl. reflexivity.
  - unfold recs_total in *. cbn [fold_right]. rewrite (IH i Hn Hl). reflexivity.
Qed.

Lemma faulty_map a b : map s_err a = map s_err b -> faulty a = faulty b.
Proof.
  unfold faulty. revert b; induction a as [|x a IH]; intros [|y b] H; cbn in *; try discriminate; [reflexivity|].
  inversion H. rewrite H1, (IH b H2). reflexivity.
Qed.

Lemma pullD_some srcs idx r srcs' : pullD srcs idx = (Some r, srcs') ->
  map s_err srcs' = map s_err srcs /\ recs_total srcs = S (recs_total srcs') /\
  (forall k, k <> idx -> nth_error srcs' k = nth_error srcs k) /\
  (forall k s', nth_error srcs' k = Some s' -> s_hit s' = true -> exists s, nth_error srcs k = Some s /\ s_hit s = true).
Proof.
  unfold pullD. destruct (nth_error srcs idx) as [s|] eqn:En; [|discriminate].
  destruct (s_recs s) as [|x rest] eqn:Er; [discriminate|]. intro H. inversion H; subst. clear H.
  split; [apply upd_src_err; reflexivity|]. split.
  - clear -En Er. revert idx En. induction srcs as [|y t IH]; intros [|i] En; cbn [nth_error upd_src] in *; try discriminate.
    + inversion En; subst. unfold recs_total. cbn. rewrite Er. cbn. reflexivity.
    + unfold recs_total in *. cbn [fold_right]. rewrite (IH i En). lia.
  - split; [intros k Hk; apply upd_src_nth_neq; congruence|].
    intros k s' Hk Hh. destruct (Nat.eq_dec k idx) as [->|Hne].
    + rewrite (upd_src_nth_eq _ _ _ _ En) in Hk. inversion Hk; subst. cbn in Hh. exists s. auto.
    + rewrite upd_src_nth_neq in Hk by congruence. exists s'. auto.
Qed.

Lemma pullD_none srcs idx srcs' : pullD srcs idx = (None, srcs') ->
  map s_err srcs' = map s_err srcs /\ recs_total srcs' = recs_total srcs /\
  (forall k, k <> idx -> nth_error srcs' k = nth_error srcs k) /\
  (forall s', nth_error srcs' idx = Some s' -> s_recs s' = [] /\ s_hit s' = s_err s').
Proof.
  unfold pullD. destruct (nth_error srcs idx) as [s|] eqn:En.
  - destruct (s_recs s) as [|x rest] eqn:Er; [|discriminate]. intro H. inversion H; subst. clear H.
    split; [apply upd_src_err; reflexivity|]. split; [apply (upd_src_total_at _ _ _ s En); cbn; rewrite Er; reflexivity|].
    split; [intros k Hk; apply upd_src_nth_neq; congruence|].
    intros s' Hs'. rewrite (upd_src_nth_eq _ _ _ _ En) in Hs'. inversion Hs'; subst. cbn. auto.
  - intro H. inversion H; subst. split; [reflexivity|]. split; [reflexivity|]. split; [reflexivity|]. intros sx Hsx. congruence.
Qed.

(** * The read-ahead invariant of mergeIter: a source that is not in the heap has been read to its end *)
Definition fedD (heap : list elemD) (srcs : list src) : Prop :=
  forall i s, nth_error srcs i = Some s -> (exists r, In (i, r) heap) \/ (s_recs s = [] /\ (s_err s = true -> s_hit s = true)).

Lemma initD_fed : forall n idx heap srcs heap' srcs',
  (forall i s, i < idx -> nth_error srcs i = Some s -> (exists r, In (i, r) heap) \/ (s_recs s = [] /\ (s_err s = true -> s_hit s = true))) ->
  initD n idx heap srcs = (heap', srcs') ->
  map s_err srcs' = map s_err srcs /\ (length heap' + recs_total srcs' = length heap + recs_total srcs) /\
  (forall i s, i < idx + n -> nth_error srcs' i = Some s -> (exists r, In (i, r) heap') \/ (s_recs s = [] /\ (s_err s = true -> s_hit s = true))).
Proof.
  induction n as [|n IH]; intros idx heap srcs heap' srcs' Hfed H; cbn in H.
  - inversion H; subst. rewrite Nat.add_0_r. auto.
  - destruct (pullD srcs idx) as [[r|] srcs1] eqn:Ep.
    + destruct (pullD_some _ _ _ _ Ep) as [He [Ht [Hoth _]]].
      assert (Pp : Permutation (heap_push elessD edfltD heap (idx, r)) ((idx, r) :: heap)) by apply heap_push_perm.
      destruct (IH (S idx) (heap_push elessD edfltD heap (idx, r)) srcs1 heap' srcs') as [A [B C]]; [|exact H|].
      * intros i s Hi Hs. destruct (Nat.eq_dec i idx) as [->|Hne].
        -- left. exists r. eapply Permutation_in; [apply Permutation_sym; exact Pp|left; reflexivity].
        -- rewrite (Hoth i Hne) in Hs. destruct (Hfed i s ltac:(lia) Hs) as [[x Hx]|Hr]; [left; exists x; eapply Permutation_in; [apply Permutation_sym; exact Pp|right; exact Hx]|right; exact Hr].
      * split; [congruence|]. split; [pose proof (Permutation_length Pp) as Hl; cbn [length] in Hl; unfold elemD in *; lia|].
        intros i s Hi. apply C. lia.
    + destruct (pullD_none _ _ _ Ep) as [He [Ht [Hoth Hidx]]].
      destruct (IH (S idx) heap srcs1 heap' srcs') as [A [B C]]; [|exact H|].
      * intros i s Hi Hs. destruct (Nat.eq_dec i idx) as [->|Hne].
        -- right. destruct (Hidx s Hs) as [H1 H2]. split; [exact H1|intro He'; congruence].
        -- rewrite (Hoth i Hne) in Hs. apply (Hfed i s); [lia|exact Hs].
      * split; [congruence|]. split; [rewrite B, Ht; reflexivity|]. intros i s Hi. apply C. lia.
Qed.

(** state invariant: multi-source states that have been initialised are fed *)
Definition wfD (st : mstate) : Prop :=
  match m_srcs st with
  | [] | [_] => True
  | _ => if m_init st then fedD (m_heap st) (m_srcs st) else m_heap st = []
  end.

Definition mu (st : mstate) : nat := (length (m_heap st) + recs_total (m_srcs st)).

Lemma errD_of_fed srcs : fedD [] srcs -> faulty srcs = true -> existsb s_hit srcs = true.
Proof.
  intros Hfed Hf. unfold faulty in Hf. apply existsb_exists in Hf as [s [Hin He]].
  apply In_nth_error in Hin as [i Hi]. destruct (Hfed i s Hi) as [[r []]|[_ Hh]].
  apply existsb_exists. exists s. split; [eapply nth_error_In; exact Hi|apply Hh; exact He].
Qed.

(** one call: either it ends the iteration, and then every fault has been met; or it delivers a record and the measure drops *)
Lemma nextD_step st : wfD st ->
  match nextD st with
  | (None, st') => faulty (m_srcs st) = true -> errD st' = true
  | (Some _, st') => wfD st' /\ map s_err (m_srcs st') = map s_err (m_srcs st) /\ (mu st' < mu st)
  end.
Proof.
  intro Hwf. unfold nextD. destruct (m_srcs st) as [|s0 [|s1 rest]] eqn:Es.
  - intro Hf. discriminate.
  - (* one container *)
    destruct (pullD [s0] 0) as [[r|] srcs'] eqn:Ep.
    + destruct (pullD_some _ _ _ _ Ep) as [He [Ht _]]. unfold wfD, mu. cbn [m_srcs m_heap m_init].
      assert (Hl : length srcs' = 1) by (apply (f_equal (@length bool)) in He; rewrite !map_length in He; exact He).
      destruct srcs' as [|x [|y t]]; cbn in Hl; try lia. rewrite Es. cbn [length]. split; [exact I|]. split; [exact He|lia].
    + destruct (pullD_none _ _ _ Ep) as [He [_ [_ Hidx]]]. intro Hf. unfold errD. cbn [m_srcs].
      assert (Hl : length srcs' = 1) by (apply (f_equal (@length bool)) in He; rewrite !map_length in He; exact He).
      destruct srcs' as [|x [|y t]]; cbn in Hl; try lia. destruct (Hidx x eq_refl) as [_ Hh].
      cbn. rewrite Hh. unfold faulty in Hf. cbn in Hf, He. inversion He. rewrite H0. rewrite orb_false_r in *. exact Hf.
  - (* several containers: mergeIter *)
    set (srcs := s0 :: s1 :: rest) in *.
    assert (Hinit : exists heap srcs1, (if m_init st then (m_heap st, srcs) else initD (length srcs) 0 [] srcs) = (heap, srcs1) /\
                     fedD heap srcs1 /\ map s_err srcs1 = map s_err srcs /\ (length heap + recs_total srcs1 = mu st)).
    { unfold wfD in Hwf. rewrite Es in Hwf. fold srcs in Hwf. unfold mu. rewrite Es. fold srcs.
      destruct (m_init st).
      - exists (m_heap st), srcs. auto.
      - destruct (initD (length srcs) 0 [] srcs) as [heap srcs1] eqn:Ei.
        destruct (initD_fed (length srcs) 0 [] srcs heap srcs1 (fun i s (H : i < 0) => ltac:(lia)) Ei) as [A [B C]].
        exists heap, srcs1. split; [reflexivity|]. split.
        + intros i s Hs. apply C; [|exact Hs]. cbn [plus].
          assert (Hlen1 : length srcs1 = length srcs) by (apply (f_equal (@length bool)) in A; rewrite !map_length in A; exact A).
          rewrite <- Hlen1. apply nth_error_Some. congruence.
        + split; [exact A|]. rewrite Hwf. cbn [length] in *. lia. }
    destruct Hinit as [heap [srcs1 [Hi [Hfed [He1 Hmu]]]]]. rewrite Hi.
    destruct (heap_pop elessD edfltD heap) as [[[idx r] heap']|] eqn:Epop.
    + pose proof (heap_pop_perm _ _ _ _ _ _ Epop) as P. pose proof (heap_pop_length _ _ _ _ _ _ Epop) as Hlen.
      assert (Hkeep : forall k x, k <> idx -> In (k, x) heap -> In (k, x) heap').
      { intros k x Hk Hin. eapply Permutation_in in Hin; [|exact P]. destruct Hin as [Heq|Hin]; [inversion Heq; congruence|exact Hin]. }
      destruct (pullD srcs1 idx) as [[r'|] srcs2] eqn:Ep.
      * destruct (pullD_some _ _ _ _ Ep) as [He [Ht [Hoth _]]].
        assert (Pp : Permutation (heap_push elessD edfltD heap' (idx, r')) ((idx, r') :: heap')) by apply heap_push_perm.
        assert (Hl2 : exists a b t, srcs2 = a :: b :: t).
        { assert (length srcs2 = length srcs) by (apply (f_equal (@length bool)) in He; apply (f_equal (@length bool)) in He1; rewrite !map_length in *; congruence).
          destruct srcs2 as [|a [|b t]]; cbn in *; try lia. eauto. }
        destruct Hl2 as [a [b [t Hs2]]].
        split; [|split].
        -- unfold wfD. cbn [m_srcs m_init m_heap]. rewrite Hs2. rewrite <- Hs2.
           intros i s Hs. destruct (Nat.eq_dec i idx) as [->|Hne].
           ++ left. exists r'. eapply Permutation_in; [apply Permutation_sym; exact Pp|left; reflexivity].
           ++ rewrite (Hoth i Hne) in Hs. destruct (Hfed i s Hs) as [[x Hx]|Hr]; [|right; exact Hr].
              left. exists x. eapply Permutation_in; [apply Permutation_sym; exact Pp|right; apply Hkeep; assumption].
        -- cbn [m_srcs]. congruence.
        -- unfold mu at 1. cbn [m_srcs m_heap]. pose proof (Permutation_length Pp) as Hl. cbn [length] in Hl. unfold elemD in *. lia.
      * destruct (pullD_none _ _ _ Ep) as [He [Ht [Hoth Hidx]]].
        destruct (match nth_error srcs2 idx with Some s => s_hit s | None => false end) eqn:Ehit.
        -- (* the refill met the error: Next = false *)
           intros _. unfold errD. cbn [m_srcs]. destruct (nth_error srcs2 idx) as [s|] eqn:En; [|discriminate].
           apply existsb_exists. exists s. split; [eapply nth_error_In; exact En|exact Ehit].
        -- assert (Hl2 : exists a b t, srcs2 = a :: b :: t).
           { assert (length srcs2 = length srcs) by (apply (f_equal (@length bool)) in He; apply (f_equal (@length bool)) in He1; rewrite !map_length in *; congruence).
             destruct srcs2 as [|a [|b t]]; cbn in *; try lia. eauto. }
           destruct Hl2 as [a [b [t Hs2]]].
           split; [|split].
           ++ unfold wfD. cbn [m_srcs m_init m_heap]. rewrite Hs2. rewrite <- Hs2.
              intros i s Hs. destruct (Nat.eq_dec i idx) as [->|Hne].
              ** right. destruct (Hidx s Hs) as [H1 H2]. split; [exact H1|]. intro He'. rewrite Hs in Ehit. congruence.
              ** rewrite (Hoth i Hne) in Hs. destruct (Hfed i s Hs) as [[x Hx]|Hr]; [left; exists x; apply Hkeep; assumption|right; exact Hr].
           ++ cbn [m_srcs]. congruence.
           ++ unfold mu at 1. cbn [m_srcs m_heap]. lia.
    + (* heap empty: everything has been read to its end *)
      intro Hf. apply heap_pop_none in Epop. subst heap. unfold errD. cbn [m_srcs].
      apply errD_of_fed; [exact Hfed|]. rewrite (faulty_map _ _ He1). exact Hf.
Qed.

(** * The loop of an unlimited log query *)
Lemma log_loop_meets_fault o ctrs stages lim : (lim <= 0)%Z ->
  forall fuel st sts count es stf,
    wfD st -> (mu st < fuel) -> faulty (m_srcs st) = true ->
    log_loop o ctrs stages lim fuel st sts count = Some (es, stf) -> errD stf = true.
Proof.
  intros Hlim. induction fuel as [|f IH]; intros st sts count es stf Hwf Hmu Hf H; [lia|].
  cbn [log_loop] in H. pose proof (nextD_step st Hwf) as Hstep.
  destruct (nextD st) as [[e|] st'] eqn:En.
  - destruct Hstep as [Hwf' [He' Hmu']].
    assert (Hlimf : ((0 <? lim) && (lim <=? count))%Z = false) by (destruct (Z.ltb_spec 0 lim); [lia|reflexivity]).
    rewrite Hlimf in H.
    assert (Hf' : faulty (m_srcs st') = true) by (rewrite (faulty_map _ _ He'); exact Hf).
    destruct (run_stages o stages sts (r_ts (record_of ctrs e)) (r_line (record_of ctrs e)) (set_from_record (record_of ctrs e))) as [[sts' [[l' ls']|]]|]; try discriminate.
    + destruct (log_loop o ctrs stages lim f st' sts' (count + 1)%Z) as [[es' stf']|] eqn:El; [|discriminate].
      inversion H; subst. eapply IH; [exact Hwf'|lia|exact Hf'|exact El].
    + eapply IH; [exact Hwf'|lia|exact Hf'|exact H].
  - inversion H; subst. apply Hstep. exact Hf.
Qed.

Lemma open_state_wf ctrs : wfD (open_state ctrs).
Proof. unfold wfD, open_state. cbn [m_srcs m_init m_heap]. destruct (map _ _) as [|a [|b t]]; auto. Qed.

Lemma combine_seq_in {A} (l : list A) : forall base i c, nth_error l i = Some c -> In (base + i, c) (combine (seq base (length l)) l).
Proof.
  induction l as [|x t IH]; intros base [|i] c H; cbn in *; try discriminate.
  - inversion H; subst. left. rewrite Nat.add_0_r. reflexivity.
  - right. replace (base + S i) with (S base + i) by lia. apply IH. exact H.
Qed.

Lemma open_state_faulty ctrs : existsb (fun c => snd (decode_ctr c)) ctrs = true -> faulty (m_srcs (open_state ctrs)) = true.
Proof.
  unfold open_state, faulty. cbn [m_srcs]. intro H. apply existsb_exists in H as [c [Hin Hc]].
  apply In_nth_error in Hin as [i Hi]. apply existsb_exists.
  exists (let '(rs, e) := decode_ctr c in {| s_idx := i; s_recs := rs; s_err := e; s_hit := false |}). split.
  - apply in_map_iff. exists (i, c). split; [reflexivity|]. apply (combine_seq_in ctrs 0 i c Hi).
  - destruct (decode_ctr c) as [rs e]. cbn in *. exact Hc.
Qed.

(** an unlimited log query over containers of which one has a faulty stream (cut inside a frame body, daemon error frame,
    malformed timestamp, frame without space, failing reader -- C03) is an error, never a shortened result *)
Theorem stream_fault_is_error_lemma o inv q lim :
  (lim <= 0)%Z -> existsb (fun c => snd (decode_ctr c)) (selected (q_sel q) inv) = true ->
  forall es, docker_log o false inv q lim <> DOk es.
Proof.
  intros Hlim Hfault es. unfold docker_log.
  destruct (open_fails (selected (q_sel q) inv)); [discriminate|].
  set (ctrs := selected (q_sel q) inv) in *. set (st := open_state ctrs).
  destruct (log_loop o ctrs (q_pipe q) lim (S (S (total_recs st))) st (init_states (q_pipe q)) 0%Z) as [[es' stf]|] eqn:El; [|discriminate].
  assert (Hmu : mu st < S (S (total_recs st))).
  { unfold mu, st, open_state, total_recs. cbn [m_heap m_srcs length]. unfold recs_total. lia. }
  rewrite (log_loop_meets_fault o ctrs (q_pipe q) lim Hlim _ _ _ _ _ _ (open_state_wf ctrs) Hmu (open_state_faulty ctrs Hfault) El).
  discriminate.
Qed.
