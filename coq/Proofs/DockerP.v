(** C02 / C14: the Docker storage -- selection semantics, the window asked for, origin of records, the open/close ledger. *)
From LogQLV Require Import Base.Bytes Base.FloatX Base.LMap Base.Regex Base.TimeFmt Model.Tables Model.KeyToLabel Model.Syntax Model.Frames Model.Stages Model.Engine
                           Model.Metric Model.Docker.
From Coq Require Import Permutation.

(** * Selector semantics on a container's labels *)
Definition label_value (c : container) (name : bytes) : bytes := lget_or_empty (get_labels c) name.

(** = and != are exact (in)equality, =~ and !~ fully anchored (non-)match, an absent label reads as "" *)
Lemma matcher_sem_lemma c m :
  sel_ok (get_labels c) m =
  match sm_op (em_m m) with
  | OpEq => bytes_eqb (label_value c (em_label m)) (sm_value (em_m m))
  | OpNotEq => negb (bytes_eqb (label_value c (em_label m)) (sm_value (em_m m)))
  | OpRe => re_full (sm_re (em_m m)) (label_value c (em_label m))
  | OpNotRe => negb (re_full (sm_re (em_m m)) (label_value c (em_label m)))
  | _ => false
  end.
Proof. unfold sel_ok, str_match, label_value. destruct (sm_op (em_m m)); reflexivity. Qed.

Lemma absent_label_empty c name : lget (get_labels c) name = None -> label_value c name = [].
Proof. unfold label_value, lget_or_empty. intros ->. reflexivity. Qed.

(** the containers whose logs are read are exactly those satisfying every matcher, in inventory order *)
Theorem select_exact_lemma sel inv c :
  In c (selected sel inv) <-> In c inv /\ forall m, In m sel -> sel_ok (get_labels c) m = true.
Proof. unfold selected, ctr_match. rewrite filter_In, forallb_forall. reflexivity. Qed.

Lemma selected_sublist sel inv : exists keep, selected sel inv = filter keep inv /\ forall c, keep c = forallb (sel_ok (get_labels c)) sel.
Proof. exists (ctr_match sel). split; reflexivity. Qed.

(** the pre-fix matching (D1: != compared with ==; D2: an absent label rejected) *)
Definition mk_ctr (name : bytes) : container := mkctr name [name] [] [] [] 0 [] [] [] [] false.
Definition mk_m (l : bytes) (o : binop) (v : bytes) : ematcher :=
  {| em_label := l; em_m := {| sm_op := o; sm_value := v; sm_re := {| bol := false; body := REmpty; eol := false |} |} |}.
Lemma prefix_match_refuted :
  (* {container!="a"} selected exactly the container a *)
  ctr_match_prefix [mk_m ["c";"o";"n";"t";"a";"i";"n";"e";"r"]%byte OpNotEq ["a"%byte]] (mk_ctr ["a"%byte]) = true /\
  ctr_match [mk_m ["c";"o";"n";"t";"a";"i";"n";"e";"r"]%byte OpNotEq ["a"%byte]] (mk_ctr ["a"%byte]) = false /\
  (* {nosuch=""} selected nothing *)
  ctr_match_prefix [mk_m ["n";"o"]%byte OpEq []] (mk_ctr ["a"%byte]) = false /\
  ctr_match [mk_m ["n";"o"]%byte OpEq []] (mk_ctr ["a"%byte]) = true.
Proof. vm_compute. repeat split. Qed.

(** * The window the daemon is asked for: whole seconds, covering the engine's window, less than a second wider on either side *)
Lemma window_covers_lemma s e : 0 <= s -> 0 <= e ->
  log_opts s e = (dec (s / 1000000000), dec (ceil_sec e)) /\
  (s / 1000000000) * 1000000000 <= s < (s / 1000000000 + 1) * 1000000000 /\
  (ceil_sec e - 1) * 1000000000 < e <= ceil_sec e * 1000000000.
Proof.
  intros Hs He. split; [reflexivity|]. unfold ceil_sec.
  pose proof (Z.div_mod s 1000000000 ltac:(lia)). pose proof (Z.mod_pos_bound s 1000000000 ltac:(lia)).
  pose proof (Z.div_mod (e + 999999999) 1000000000 ltac:(lia)). pose proof (Z.mod_pos_bound (e + 999999999) 1000000000 ltac:(lia)).
  lia.
Qed.

(** rounding the end down asks for a narrower window whenever the end is not on a whole second (D35) *)
Lemma floor_until_refuted_lemma : exists s e, 0 <= s /\ 0 <= e /\
  log_opts_floor s e = (dec (s / 1000000000), dec (e / 1000000000)) /\ (e / 1000000000) * 1000000000 < e.
Proof. exists 0, 1500000000. repeat split; try lia; reflexivity. Qed.

(** * Origin: the record built from element (i, r) carries the labels of container i *)
Lemma record_origin_lemma ctrs i r c : nth_error ctrs i = Some c ->
  r_res (record_of ctrs (i, r)) = get_labels c /\ r_ts (record_of ctrs (i, r)) = f_ts r /\ r_line (record_of ctrs (i, r)) = f_line r.
Proof. intro H. unfold record_of. cbn. rewrite H. repeat split. Qed.

(** * The ledger: everything that is opened is closed, on success and on every failure path *)
Lemma build_shape_inv lf inv : forall s l held l',
  build_shape lf inv s l = (Some held, l') -> opened l' = opened l ++ held /\ closed l' = closed l.
Proof.
  induction s as [sel|s1 IH|a IHa b IHb|]; intros l held l' H; cbn in H.
  - unfold open_sel in H. destruct lf; [discriminate|].
    destruct (open_fails (selected sel inv)); inversion H; subst; cbn. split; reflexivity.
  - apply IH; exact H.
  - destruct (build_shape lf inv a l) as [[ra|] l1] eqn:Ea; [|discriminate].
    apply IHa in Ea. destruct Ea as [Oa Ca].
    destruct (build_shape lf inv b l1) as [[rb|] l2] eqn:Eb; [|discriminate].
    apply IHb in Eb. destruct Eb as [Ob Cb]. inversion H; subst. split; [rewrite Ob, Oa, app_assoc; reflexivity|congruence].
  - inversion H; subst. rewrite app_nil_r. split; reflexivity.
Qed.

(** note: on the failure path of a binary operation the readers of the left operand are closed AFTER the ones the right
    operand had opened and closed itself, so the lists agree up to order *)
Theorem all_closed_lemma lf inv s : Permutation (closed (eval_ledger lf inv s)) (opened (eval_ledger lf inv s)).
Proof.
  unfold eval_ledger. destruct (build_shape lf inv s led0) as [[held|] l] eqn:E.
  - apply build_shape_inv in E. destruct E as [O C]. cbn. rewrite O, C. cbn. reflexivity.
  - assert (G : forall s l res l', build_shape lf inv s l = (res, l') -> res = None ->
               exists extra1 extra2, opened l' = opened l ++ extra1 /\ closed l' = closed l ++ extra2 /\ Permutation extra2 extra1).
    { clear. induction s as [sel|s1 IH|a IHa b IHb|]; intros l res l' H Hn; subst res; cbn in H.
      - unfold open_sel in H. destruct lf.
        + inversion H; subst. exists [], []. rewrite !app_nil_r. repeat split; constructor.
        + destruct (open_fails (selected sel inv)); inversion H; subst; cbn. eexists; eexists. repeat split; reflexivity.
      - eapply IH; [exact H|reflexivity].
      - destruct (build_shape lf inv a l) as [[ra|] l1] eqn:Ea.
        + pose proof (build_shape_inv lf inv a l _ _ Ea) as [Oa Ca].
          destruct (build_shape lf inv b l1) as [[rb|] l2] eqn:Eb; [discriminate|].
          destruct (IHb _ _ _ Eb eq_refl) as [x1 [x2 [Ob [Cb P]]]]. inversion H; subst. cbn.
          exists (ra ++ x1), (x2 ++ ra). split; [rewrite Ob, Oa, app_assoc; reflexivity|]. split; [rewrite Cb, Ca, app_assoc; reflexivity|].
          eapply Permutation_trans; [apply Permutation_app_comm|]. apply Permutation_app_head. exact P.
        + inversion H; subst. eapply IHa; [exact Ea|reflexivity].
      - discriminate. }
    destruct (G s led0 None l E eq_refl) as [x1 [x2 [O [C P]]]]. rewrite O, C. cbn. exact P.
Qed.

(** before D13 a metric query left everything it had opened open *)
Lemma prefix_ledger_refuted : exists inv s, opened (eval_ledger_prefix false inv s) <> [] /\ closed (eval_ledger_prefix false inv s) = [].
Proof. exists [mk_ctr ["a"%byte]], (ShSel []). vm_compute. split; [discriminate|reflexivity]. Qed.

(** listing and open failures always surface *)
Lemma list_failure_is_error o inv q lim : docker_log o true inv q lim = DErr.
Proof. reflexivity. Qed.
Lemma open_failure_is_error o inv q lim : open_fails (selected (q_sel q) inv) = true -> docker_log o false inv q lim = DErr.
Proof. intro H. unfold docker_log. rewrite H. reflexivity. Qed.
