(** C06 / C07: what each parser stage and each rewriting stage does to (line, label set). *)
From LogQLV Require Import Base.Bytes Base.LMap Base.TimeFmt Model.Tables Model.KeyToLabel Model.Flags Model.Syntax Model.Stages Proofs.LMapP.

(** * set_error: the first error wins *)
Lemma set_error_first ls t : lhas ls error_label = true -> set_error ls t = ls.
Proof. unfold set_error. intros ->. reflexivity. Qed.

Lemma set_error_sets ls t : lsorted ls = true -> lhas ls error_label = false ->
  lget (set_error ls t) error_label = Some t /\
  (forall k, k <> error_label -> k <> error_details_label -> lget (set_error ls t) k = lget ls k).
Proof.
  intros Hs Hn. unfold set_error. rewrite Hn. split.
  - rewrite lget_lset_other; [apply lget_lset_same| |apply lsorted_lset; exact Hs].
    intro H. apply (f_equal (@length byte)) in H. cbn in H. discriminate.
  - intros k H1 H2. rewrite lget_lset_other; [|congruence|apply lsorted_lset; exact Hs].
    rewrite lget_lset_other; [reflexivity|congruence|exact Hs].
Qed.

Lemma lsorted_set_error ls t : lsorted ls = true -> lsorted (set_error ls t) = true.
Proof. intro H. unfold set_error. destruct (lhas ls error_label); [exact H|]. apply lsorted_lset, lsorted_lset, H. Qed.

(** * Folding a list of bindings into a label set: later bindings override, absent values are skipped *)
Definition fold_set (l : list (bytes * option bytes)) (m : lmap) : lmap :=
  fold_left (fun m kv => match snd kv with Some r => lset m (fst kv) r | None => m end) l m.

Definition last_binding (k : bytes) (l : list (bytes * option bytes)) (acc : option bytes) : option bytes :=
  fold_left (fun acc kv => if bytes_eqb (fst kv) k then match snd kv with Some r => Some r | None => acc end else acc) l acc.

Lemma last_binding_acc k l : forall acc,
  last_binding k l acc = match last_binding k l None with Some r => Some r | None => acc end.
Proof.
  unfold last_binding. induction l as [|[k' v'] t IH]; intro acc; cbn; [reflexivity|].
  destruct (bytes_eqb k' k); [|apply IH].
  destruct v' as [r|]; [|apply IH].
  rewrite (IH (Some r)). destruct (fold_left _ t None); reflexivity.
Qed.

Lemma lsorted_fold_set l : forall m, lsorted m = true -> lsorted (fold_set l m) = true.
Proof.
  unfold fold_set. induction l as [|[k' v'] t IH]; intros m Hm; cbn; [exact Hm|].
  apply IH. destruct v'; [apply lsorted_lset|]; exact Hm.
Qed.

(** the label set after folding: a name bound in the list reads its LAST non-absent binding; every other name is untouched *)
Lemma lget_fold_set k l : forall m, lsorted m = true ->
  lget (fold_set l m) k = match last_binding k l None with Some r => Some r | None => lget m k end.
Proof.
  induction l as [|[k' v'] t IH]; intros m Hm; [reflexivity|].
  unfold fold_set, last_binding in *. cbn [fold_left fst snd].
  destruct v' as [r|].
  - rewrite (IH (lset m k' r) (lsorted_lset m k' r Hm)).
    destruct (bytes_eqb k' k) eqn:E.
    + apply bytes_eqb_eq in E. subst k'. fold (last_binding k t (Some r)). rewrite last_binding_acc. unfold last_binding.
      destruct (fold_left _ t None); [reflexivity|apply lget_lset_same].
    + destruct (fold_left _ t None); [reflexivity|]. apply lget_lset_other; [|exact Hm].
      intro H; subst. rewrite bytes_eqb_refl in E. discriminate.
  - rewrite (IH m Hm). destruct (bytes_eqb k' k); reflexivity.
Qed.

Lemma fold_left_map {A B C} (f : C -> B -> C) (g : A -> B) l : forall c, fold_left f (map g l) c = fold_left (fun c a => f c (g a)) l c.
Proof. induction l; intro c; cbn; auto. Qed.

(** * json *)
Definition json_bindings (fields : list (bytes * jv)) : list (bytes * option bytes) :=
  map (fun kv => (key_to_label (fst kv), jv_render (snd kv))) fields.

Lemma json_all_fold fields ls : json_all fields ls = fold_set (json_bindings fields) ls.
Proof. unfold json_all, fold_set, json_bindings. rewrite fold_left_map. reflexivity. Qed.

Definition json_some_bindings (want : list bytes) (fields : list (bytes * jv)) : list (bytes * option bytes) :=
  map (fun kv => (fst kv, if existsb (bytes_eqb (fst kv)) want then jv_render (snd kv) else None)) fields.

Lemma json_some_fold want fields ls : json_some want fields ls = fold_set (json_some_bindings want fields) ls.
Proof.
  unfold json_some, fold_set, json_some_bindings. rewrite fold_left_map. cbn [fst snd].
  revert ls. induction fields as [|kv t IH]; intro ls; cbn [fold_left]; [reflexivity|].
  rewrite <- IH. destruct (existsb (bytes_eqb (fst kv)) want); reflexivity.
Qed.

(** the parameterless json stage on a well-formed object line: every field is exposed under its sanitised name with
    exactly its rendered value; later duplicates override; an existing label of that name is overridden; nothing else
    changes; the line is kept unchanged *)
Lemma json_all_exposes_lemma o line ls fields raw render :
  assoc (o_json o) line = Some (JDoc (JObj fields raw render)) -> lsorted ls = true ->
  exists ls', process_json o [] [] line ls = Some (line, true, ls') /\ lsorted ls' = true /\
    forall k, lget ls' k = match last_binding k (json_bindings fields) None with Some r => Some r | None => lget ls k end.
Proof.
  intros Ho Hs. unfold process_json. rewrite Ho. cbn. eexists. split; [reflexivity|].
  rewrite json_all_fold. split; [apply lsorted_fold_set; exact Hs|]. intro k. apply lget_fold_set; exact Hs.
Qed.

(** with a field list only the requested names are touched, each reading its (last) value in the object *)
Lemma json_some_only_lemma o want line ls fields raw render :
  want <> [] -> assoc (o_json o) line = Some (JDoc (JObj fields raw render)) -> lsorted ls = true ->
  exists ls', process_json o want [] line ls = Some (line, true, ls') /\ lsorted ls' = true /\
    (forall k, lget ls' k = match last_binding k (json_some_bindings want fields) None with Some r => Some r | None => lget ls k end) /\
    (forall k, existsb (bytes_eqb k) want = false -> lget ls' k = lget ls k).
Proof.
  intros Hw Ho Hs. unfold process_json. rewrite Ho. cbn. destruct want as [|w ws]; [congruence|].
  eexists. split; [reflexivity|]. rewrite json_some_fold. split; [apply lsorted_fold_set; exact Hs|].
  assert (Hget := fun k => lget_fold_set k (json_some_bindings (w :: ws) fields) ls Hs).
  split; [exact Hget|]. intros k Hk. rewrite Hget.
  assert (Hnone : last_binding k (json_some_bindings (w :: ws) fields) None = None).
  { clear -Hk. unfold last_binding, json_some_bindings. rewrite fold_left_map. cbn [fst snd].
    induction fields as [|kv t IH]; [reflexivity|]. cbn [fold_left].
    destruct (bytes_eqb (fst kv) k) eqn:E; [|exact IH].
    apply bytes_eqb_eq in E. subst k. rewrite Hk. exact IH. }
  rewrite Hnone. reflexivity.
Qed.

(** a line the json stage cannot parse is kept, unchanged, and flagged *)
Lemma json_unparsable_lemma o labels line ls :
  assoc (o_json o) line = Some JBad -> process_json o labels [] line ls = Some (line, true, set_error ls E_json).
Proof. intro Ho. unfold process_json. rewrite Ho. reflexivity. Qed.

Lemma json_not_object_lemma o labels line ls v :
  assoc (o_json o) line = Some (JDoc v) -> is_obj v = None -> process_json o labels [] line ls = Some (line, true, set_error ls E_json).
Proof. intros Ho Hv. unfold process_json. rewrite Ho, Hv. reflexivity. Qed.

(** * logfmt *)
Definition logfmt_bindings (table : list (bytes * bytes)) (kvs : list (bytes * bytes)) : list (bytes * option bytes) :=
  match table with
  | [] => map (fun kv => (fst kv, Some (snd kv))) kvs
  | _ => map (fun kv => match assoc table (fst kv) with Some lbl => (lbl, Some (snd kv)) | None => (fst kv, None) end) kvs
  end.

Lemma logfmt_exposes_lemma o table line ls kvs err :
  assoc (o_logfmt o) line = Some (kvs, err) -> lsorted ls = true ->
  exists ls1, process_logfmt o table line ls = Some (line, true, if err then set_error ls1 E_logfmt else ls1) /\ lsorted ls1 = true /\
    forall k, lget ls1 k = match last_binding k (logfmt_bindings table kvs) None with Some r => Some r | None => lget ls k end.
Proof.
  intros Ho Hs. unfold process_logfmt. rewrite Ho.
  exists (fold_set (logfmt_bindings table kvs) ls). split.
  - f_equal. f_equal. unfold fold_set, logfmt_bindings. destruct table as [|t0 tt].
    + rewrite fold_left_map. reflexivity.
    + rewrite fold_left_map. set (tb := t0 :: tt).
      assert (H : forall l m, fold_left (fun m kv => match assoc tb (fst kv) with Some lbl => lset m lbl (snd kv) | None => m end) l m =
                              fold_left (fun m a => match snd (match assoc tb (fst a) with Some lbl => (lbl, Some (snd a)) | None => (fst a, None) end) with
                                                    | Some r => lset m (fst (match assoc tb (fst a) with Some lbl => (lbl, Some (snd a)) | None => (fst a, None) end)) r
                                                    | None => m end) l m).
      { induction l as [|kv l IH]; intro m; cbn [fold_left]; [reflexivity|]. rewrite IH. destruct (assoc tb (fst kv)); reflexivity. }
      rewrite H. reflexivity.
  - split; [apply lsorted_fold_set; exact Hs|]. intro k. apply lget_fold_set; exact Hs.
Qed.

(** * Parser stages never drop a line and (except unpack) never change it *)
Definition is_parser (s : estage) : bool :=
  match s with EJson _ _ | ELogfmt _ | ERegexp _ _ | EPattern _ | EUnpack => true | _ => false end.

Lemma unpack_fields_line fields : forall line ls l' ls' failed,
  unpack_fields fields line ls = (l', ls', failed) ->
  l' = line \/ exists k, In (k, JStr l') fields /\ k = ["_";"e";"n";"t";"r";"y"]%byte.
Proof.
  induction fields as [|[k v] t IH]; intros line ls l' ls' failed H; cbn in H; [inversion H; auto|].
  destruct v; try (apply IH in H; destruct H as [H|[k0 [H1 H2]]]; [auto|right; exists k0; split; [right; exact H1|exact H2]]).
  destruct (bytes_eqb k ["_";"e";"n";"t";"r";"y"]%byte) eqn:E.
  - apply bytes_eqb_eq in E. apply IH in H. destruct H as [H|[k0 [H1 H2]]].
    + right. exists k. subst. split; [left; reflexivity|reflexivity].
    + right. exists k0. split; [right; exact H1|exact H2].
  - destruct (valid_label_dots k).
    + apply IH in H. destruct H as [H|[k0 [H1 H2]]]; [auto|right; exists k0; split; [right; exact H1|exact H2]].
    + inversion H; auto.
Qed.

Lemma process_unpack_line o line ls l' k ls' :
  process_unpack o line ls = Some (l', k, ls') ->
  k = true /\ (l' = line \/ exists fields raw render, assoc (o_json o) line = Some (JDoc (JObj fields raw render)) /\ In (["_";"e";"n";"t";"r";"y"]%byte, JStr l') fields).
Proof.
  unfold process_unpack. intro E.
  destruct (assoc (o_json o) line) as [res|] eqn:Eo; [|discriminate].
  destruct res as [v|fields|].
  - destruct v; try (inversion E; subst; split; [reflexivity|left; reflexivity]).
    destruct (unpack_fields fields line ls) as [[l2 ls2] failed] eqn:Eu.
    destruct failed; inversion E; subst; (split; [reflexivity|]); [left; reflexivity|].
    destruct (unpack_fields_line _ _ _ _ _ _ Eu) as [->|[k0 [Hin ->]]]; [left; reflexivity|].
    right. do 3 eexists. split; [reflexivity|exact Hin].
  - destruct (unpack_fields fields line ls) as [[l2 ls2] failed]. inversion E; subst. split; [reflexivity|left; reflexivity].
  - inversion E; subst. split; [reflexivity|left; reflexivity].
Qed.

Lemma parser_keeps_lemma o s st ts line ls st' l' keep ls' :
  is_parser s = true -> process o s st ts line ls = Some (st', l', keep, ls') ->
  keep = true /\ st' = st /\
  (s <> EUnpack -> l' = line) /\
  (s = EUnpack -> l' = line \/ exists fields raw render, assoc (o_json o) line = Some (JDoc (JObj fields raw render)) /\ In (["_";"e";"n";"t";"r";"y"]%byte, JStr l') fields).
Proof.
  intros Hp H. destruct s; cbn in Hp; try discriminate; unfold process in H; cbv beta iota zeta in H.
  - destruct (process_json o labels paths line ls) as [[[l1 k1] ls1]|] eqn:E; [|discriminate]. inversion H; subst.
    unfold process_json in E. repeat match type of E with context [match ?x with _ => _ end] => destruct x; try discriminate end; inversion E; subst;
      (split; [reflexivity|split; [reflexivity|split; [reflexivity|discriminate]]]).
  - destruct (process_logfmt o table line ls) as [[[l1 k1] ls1]|] eqn:E; [|discriminate]. inversion H; subst.
    unfold process_logfmt in E. repeat match type of E with context [match ?x with _ => _ end] => destruct x; try discriminate end; inversion E; subst;
      (split; [reflexivity|split; [reflexivity|split; [reflexivity|discriminate]]]).
  - destruct (process_regexp o id mapping line ls) as [[[l1 k1] ls1]|] eqn:E; [|discriminate]. inversion H; subst.
    unfold process_regexp in E. repeat match type of E with context [match ?x with _ => _ end] => destruct x; try discriminate end; inversion E; subst;
      (split; [reflexivity|split; [reflexivity|split; [reflexivity|discriminate]]]).
  - inversion H; subst. split; [reflexivity|split; [reflexivity|split; [reflexivity|discriminate]]].
  - destruct (process_unpack o line ls) as [[[l1 k1] ls1]|] eqn:E; [|discriminate]. inversion H; subst.
    destruct (process_unpack_line _ _ _ _ _ _ E) as [-> Hl].
    split; [reflexivity|split; [reflexivity|split; [congruence|intros _; exact Hl]]].
Qed.

(** a line unpack cannot parse is kept unchanged and flagged *)
Lemma unpack_unparsable_lemma o line ls :
  assoc (o_json o) line = Some JBad -> process_unpack o line ls = Some (line, true, set_error ls E_unpack).
Proof. intro Ho. unfold process_unpack. rewrite Ho. reflexivity. Qed.

(** * pattern: a capture takes the text up to the first occurrence of the literal that follows it *)
Lemma cut_before_sound sep : forall s a, cut_before sep s = (a, true) -> exists rest, s = a ++ sep ++ rest.
Proof.
  induction s as [|b t IH]; intros a H; cbn in H.
  - destruct (is_prefix sep []) eqn:E; [|discriminate]. inversion H; subst. apply is_prefix_app in E. cbn. exact E.
  - destruct (is_prefix sep (b :: t)) eqn:E.
    + inversion H; subst. apply is_prefix_app in E. cbn. exact E.
    + destruct (cut_before sep t) as [a' ok] eqn:Ec. inversion H; subst. destruct (IH a' eq_refl) as [rest Hr].
      exists rest. cbn. f_equal. exact Hr.
Qed.

Lemma cut_before_first sep : forall s a, cut_before sep s = (a, true) ->
  forall n, (n < length a)%nat -> is_prefix sep (skipn n s) = false.
Proof.
  induction s as [|b t IH]; intros a H n Hn; cbn in H.
  - destruct (is_prefix sep []); inversion H; subst; cbn in Hn; lia.
  - destruct (is_prefix sep (b :: t)) eqn:E.
    + inversion H; subst. cbn in Hn. lia.
    + destruct (cut_before sep t) as [a' ok] eqn:Ec. inversion H; subst. destruct n as [|n]; [exact E|].
      cbn [skipn]. apply (IH a' eq_refl). cbn in Hn. lia.
Qed.

Lemma skipn_app_exact {A} (a b : list A) : skipn (length a) (a ++ b) = b.
Proof. induction a; cbn; auto. Qed.

(** two captures around one literal: <a> d <b> on the line v1 ++ d ++ v2 where d does not occur earlier *)
Lemma pattern_two_captures_lemma a b d v1 v2 ls :
  cut_before d (v1 ++ d ++ v2) = (v1, true) -> a <> ["_"%byte] -> b <> ["_"%byte] ->
  pattern_match [PCap a; PLit d; PCap b] (v1 ++ d ++ v2) ls = lset (lset ls a v1) b v2.
Proof.
  intros Hc Ha Hb. cbn [pattern_match]. rewrite Hc.
  assert (Ea : bytes_eqb a ["_"%byte] = false) by (destruct (bytes_eqb a ["_"%byte]) eqn:E; [apply bytes_eqb_eq in E; congruence|reflexivity]).
  assert (Eb : bytes_eqb b ["_"%byte] = false) by (destruct (bytes_eqb b ["_"%byte]) eqn:E; [apply bytes_eqb_eq in E; congruence|reflexivity]).
  rewrite Ea, skipn_app_exact.
  assert (Hp : is_prefix d (d ++ v2) = true) by (apply is_prefix_app; eexists; reflexivity).
  cbn. rewrite Hp, Eb, skipn_app_exact. reflexivity.
Qed.

(** * C07: label_format renames *)
(** label_format dst=src  (model pair = (src, dst)) *)
Lemma rename_present_lemma src dst v ls :
  lsorted ls = true -> src <> dst -> lget ls src = Some v ->
  let ls' := rename_labels [(src, dst)] ls in
  lget ls' dst = Some v /\ lget ls' src = None /\ (forall k, k <> src -> k <> dst -> lget ls' k = lget ls k) /\ lsorted ls' = true.
Proof.
  intros Hs Hne Hv. unfold rename_labels. cbn. rewrite Hv.
  destruct (bytes_eqb src dst) eqn:E; [apply bytes_eqb_eq in E; congruence|].
  pose proof (lsorted_lset ls dst v Hs) as Hs1.
  repeat split.
  - rewrite lget_ldel_other; [apply lget_lset_same|exact Hne|exact Hs1].
  - apply lget_ldel_same; exact Hs1.
  - intros k H1 H2. rewrite lget_ldel_other; [|congruence|exact Hs1]. apply lget_lset_other; [congruence|exact Hs].
  - apply lsorted_ldel; exact Hs1.
Qed.

Lemma rename_absent_lemma src dst ls : lget ls src = None -> rename_labels [(src, dst)] ls = ls.
Proof. intro H. unfold rename_labels. cbn. rewrite H. reflexivity. Qed.

(** label_format a=a changes nothing (since the fix of D20) *)
Lemma rename_self_lemma a ls : rename_labels [(a, a)] ls = ls.
Proof. unfold rename_labels. cbn. destruct (lget ls a); [rewrite bytes_eqb_refl|]; reflexivity. Qed.

(** ... whereas the pre-fix code deleted the label *)
Lemma rename_self_prefix_refuted : exists a ls, lsorted ls = true /\ lget ls a <> None /\ lget (rename_labels_prefix [(a, a)] ls) a = None.
Proof. exists ["a"%byte], [(["a"%byte], ["1"%byte])]. vm_compute. repeat split; discriminate. Qed.

(** * Templates *)
Lemma expand_line ts line ls : expand [TLine] ts line ls = Some line.
Proof. cbn. rewrite app_nil_r. reflexivity. Qed.
Lemma expand_ts ts line ls : expand [TTsNanos] ts line ls = Some (dec ts).
Proof. cbn. rewrite app_nil_r. reflexivity. Qed.
Lemma expand_label n ts line ls : expand [TLabel n] ts line ls = Some (lget_or_empty ls n).
Proof. cbn. rewrite app_nil_r. reflexivity. Qed.
Lemma expand_app a b ts line ls :
  expand (a ++ b) ts line ls = match expand a ts line ls, expand b ts line ls with Some x, Some y => Some (x ++ y) | _, _ => None end.
Proof.
  induction a as [|it a IH]; cbn [app expand].
  - destruct (expand b ts line ls); reflexivity.
  - rewrite IH. destruct (expand a ts line ls) as [x|]; destruct (expand b ts line ls) as [y|]; try reflexivity;
    destruct it; cbn; rewrite ?app_assoc; try reflexivity; destruct (bytes_eqb _ _); rewrite ?app_assoc; reflexivity.
Qed.
(** line_format: the line becomes the expansion; a failing template leaves the line and flags the entry; never drops *)
Lemma line_format_sem_lemma t ts line ls :
  process_line_format t ts line ls =
  match expand t ts line ls with
  | Some out => Some (out, true, ls)
  | None => Some (line, true, set_error ls E_tmpl)
  end.
Proof. reflexivity. Qed.

(** label_format dst="template": dst is set to the expansion over the current labels; nothing else changes *)
Lemma label_tmpl_sem_lemma dst t ts line ls v :
  lsorted ls = true -> expand t ts line ls = Some v ->
  exists ls', process_label_format [] [(dst, t)] ts line ls = Some (line, true, ls') /\
              lget ls' dst = Some v /\ forall k, k <> dst -> lget ls' k = lget ls k.
Proof.
  intros Hs He. unfold process_label_format, rename_labels. cbn. rewrite He. eexists. split; [reflexivity|].
  split; [apply lget_lset_same|]. intros k Hk. apply lget_lset_other; [congruence|exact Hs].
Qed.

Lemma label_tmpl_fail_lemma dst t ts line ls :
  expand t ts line ls = None ->
  process_label_format [] [(dst, t)] ts line ls = Some (line, true, set_error ls E_tmpl).
Proof. intro He. unfold process_label_format, rename_labels. cbn. rewrite He. reflexivity. Qed.

(** * drop / keep *)
Lemma pair_selected_iff names ms k v :
  pair_selected names ms k v = true <-> In k names \/ exists m, In (k, m) ms /\ str_match true m v = true.
Proof.
  unfold pair_selected. rewrite orb_true_iff, !existsb_exists. split.
  - intros [[x [Hin Hx]]|[[k' m] [Hin Hx]]].
    + apply bytes_eqb_eq in Hx. subst. left; exact Hin.
    + cbn in Hx. apply andb_true_iff in Hx as [Hk Hm]. apply bytes_eqb_eq in Hk. subst. right. exists m. auto.
  - intros [Hin|[m [Hin Hm]]].
    + left. exists k. split; [exact Hin|apply bytes_eqb_refl].
    + right. exists (k, m). split; [exact Hin|]. cbn. rewrite bytes_eqb_refl, Hm. reflexivity.
Qed.

Lemma drop_sem_lemma names ms line ls : lsorted ls = true ->
  exists ls', process_drop names ms line ls = Some (line, true, ls') /\
    forall k, lget ls' k = match lget ls k with Some v => if pair_selected names ms k v then None else Some v | None => None end.
Proof.
  intro Hs. unfold process_drop. eexists. split; [reflexivity|]. intro k. rewrite lget_lfilter by exact Hs.
  destruct (lget ls k) as [v|]; [|reflexivity]. destruct (pair_selected names ms k v); reflexivity.
Qed.

Lemma keep_sem_lemma names ms line ls : lsorted ls = true ->
  exists ls', process_keep names ms line ls = Some (line, true, ls') /\
    forall k, lget ls' k = match lget ls k with Some v => if pair_selected names ms k v then Some v else None | None => None end.
Proof.
  intro Hs. unfold process_keep. eexists. split; [reflexivity|]. intro k. rewrite lget_lfilter by exact Hs. reflexivity.
Qed.

(** the pre-fix selection rule was not item-wise (D25): `drop foo, foo="ba"` kept foo="bar" *)
Lemma pair_selected_prefix_refuted : exists names ms k v, In k names /\ pair_selected_prefix names ms k v = false.
Proof.
  exists [["f"%byte]], [(["f"%byte], {| sm_op := OpEq; sm_value := ["x"%byte]; sm_re := {| Regex.bol := false; Regex.body := Regex.REmpty; Regex.eol := false |} |})], ["f"%byte], ["y"%byte].
  split; [left; reflexivity|vm_compute; reflexivity].
Qed.

(** * decolorize *)
Lemma decolorize_plain_lemma o line ls :
  existsb (fun b => (bz b =? 27) || (bz b =? 194)) line = false -> process_decolorize o line ls = Some (line, true, ls).
Proof. intro H. unfold process_decolorize. rewrite H. reflexivity. Qed.

Lemma decolorize_sem_lemma o line ls out l' k ls' :
  assoc (o_decolor o) line = Some out -> process_decolorize o line ls = Some (l', k, ls') ->
  k = true /\ ls' = ls /\ (l' = out \/ l' = line /\ existsb (fun b => (bz b =? 27) || (bz b =? 194)) line = false).
Proof.
  intros Ho. unfold process_decolorize. destruct (existsb _ line) eqn:E; cbn.
  - rewrite Ho. intro H; inversion H; auto.
  - intro H; inversion H; auto.
Qed.

(** * None of the rewriting stages drops a line *)
Definition is_rewriter (s : estage) : bool :=
  match s with ELineFormat _ | ELabelFormat _ _ | EDrop _ _ | EKeep _ _ | EDecolorize => true | _ => false end.

Lemma rewriter_keeps_lemma o s st ts line ls st' l' keep ls' :
  is_rewriter s = true -> process o s st ts line ls = Some (st', l', keep, ls') -> keep = true /\ st' = st.
Proof.
  intros Hr H. destruct s; cbn in Hr; try discriminate; unfold process in H; cbv beta iota zeta in H.
  - unfold process_line_format in H. destruct (expand t ts line ls); inversion H; auto.
  - unfold process_decolorize in H. destruct (negb _); [inversion H; auto|]. destruct (assoc (o_decolor o) line); inversion H; auto.
  - unfold process_label_format in H. inversion H; auto.
  - unfold process_drop in H. inversion H; auto.
  - unfold process_keep in H. inversion H; auto.
Qed.
