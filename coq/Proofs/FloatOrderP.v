(** IEEE-754 binary64 comparison facts for non-NaN primitive floats, from Flocq's link between Coq's primitive floats
    and its binary-float formalisation.  (Relies on the standard library's float axioms -- the specification of the
    primitive operations -- and, through Flocq's use of the reals, the real-number axioms; see Print Assumptions.) *)
From Coq Require Import ZArith Reals Floats Bool Lia.
From Flocq Require Import Core.Raux IEEE754.BinarySingleNaN IEEE754.PrimFloat.

Section B.
  Variable prec emax : Z.
  Notation bf := (binary_float prec emax).
  Lemma Rle_bool_inv a b : Rle_bool a b = true -> (a <= b)%R.
  Proof. destruct (Rle_bool_spec a b); [auto|discriminate]. Qed.

  Lemma Bleb_trans_b (x y z : bf) : is_nan x = false -> is_nan y = false -> is_nan z = false ->
    Bleb x y = true -> Bleb y z = true -> Bleb x z = true.
  Proof.
    intros Nx Ny Nz.
    destruct (is_finite x) eqn:Fx, (is_finite y) eqn:Fy, (is_finite z) eqn:Fz.
    1: { rewrite !Bleb_correct by assumption. intros H1 H2. apply Rle_bool_true.
      eapply Rle_trans; apply Rle_bool_inv; eassumption. }
    all: destruct x as [sx|sx| |sx mx ex Hx]; try discriminate; destruct y as [sy|sy| |sy my ey Hy]; try discriminate;
      destruct z as [sz|sz| |sz mz ez Hz]; try discriminate; unfold Bleb, SFleb, SFcompare, B2SF;
      repeat match goal with s : bool |- _ => destruct s end; cbn; intros; try discriminate; try reflexivity.
  Qed.

  Lemma Bcompare_some (x y : bf) : is_nan x = false -> is_nan y = false -> exists c, Bcompare x y = Some c.
  Proof.
    intros Nx Ny. destruct x as [sx|sx| |sx mx ex Hx]; try discriminate; destruct y as [sy|sy| |sy my ey Hy]; try discriminate;
      unfold Bcompare, SFcompare, B2SF; eauto.
    all: try (destruct sx, sy; eauto).
  Qed.

  Lemma Bltb_negb_leb (x y : bf) : is_nan x = false -> is_nan y = false -> Bltb x y = negb (Bleb y x).
  Proof.
    intros Nx Ny. unfold Bltb, Bleb, SFltb, SFleb. change (SFcompare (B2SF x) (B2SF y)) with (Bcompare x y).
    change (SFcompare (B2SF y) (B2SF x)) with (Bcompare y x). rewrite (Bcompare_swap _ _ x y).
    destruct (Bcompare_some x y Nx Ny) as [c ->]. destruct c; reflexivity.
  Qed.
End B.

Open Scope float_scope.
Lemma leb_trans x y z : PrimFloat.is_nan x = false -> PrimFloat.is_nan y = false -> PrimFloat.is_nan z = false ->
  (x <=? y) = true -> (y <=? z) = true -> (x <=? z) = true.
Proof. rewrite !is_nan_equiv, !leb_equiv. apply Bleb_trans_b. Qed.

Lemma ltb_negb_leb x y : PrimFloat.is_nan x = false -> PrimFloat.is_nan y = false -> (x <? y) = negb (y <=? x).
Proof. rewrite !is_nan_equiv, ltb_equiv, leb_equiv. apply Bltb_negb_leb. Qed.

Lemma leb_total x y : PrimFloat.is_nan x = false -> PrimFloat.is_nan y = false -> (x <=? y) = true \/ (y <=? x) = true.
Proof.
  intros Nx Ny. destruct (y <=? x) eqn:E; [right; reflexivity|left].
  pose proof (ltb_negb_leb x y Nx Ny) as H. rewrite E in H. cbn in H.
  (* x < y -> x <= y *)
  pose proof (ltb_negb_leb y x Ny Nx) as H2. destruct (x <=? y) eqn:E2; [reflexivity|]. cbn in H2.
  (* both x<y and y<x: impossible *)
  rewrite is_nan_equiv in Nx, Ny. rewrite ltb_equiv in H, H2. unfold Bltb, SFltb in H, H2.
  change (SFcompare (B2SF (Prim2B x)) (B2SF (Prim2B y))) with (Bcompare (Prim2B x) (Prim2B y)) in H.
  change (SFcompare (B2SF (Prim2B y)) (B2SF (Prim2B x))) with (Bcompare (Prim2B y) (Prim2B x)) in H2.
  rewrite (Bcompare_swap _ _ (Prim2B x) (Prim2B y)) in H2. destruct (Bcompare (Prim2B x) (Prim2B y)) as [[]|]; discriminate.
Qed.
Print Assumptions leb_trans.
