From LogQLV Require Import Base.Bytes Model.Tables Model.Syntax Model.Parser Model.Prec Proofs.PrecP.
Lemma asis_4_2 : forallb asis_ok (seqs4_ending [OpAdd; OpSub; OpMul]) = true.
Proof. vm_compute. reflexivity. Qed.
