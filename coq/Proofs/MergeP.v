From Coq Require Import List Arith Bool Lia Permutation.
Import ListNotations.
From LogQLV Require Import Base.Heap Model.Merge Proofs.HeapP.

(** * The concurrent open: the slot array after Wait does not depend on the completion order *)
Section OpenP.
  Variable I : Type.

  Lemma nth_error_set_nth_eq {B} (l : list B) i x : i < length l -> nth_error (set_nth l i x) i = Some x.
  Proof. revert i; induction l as [|y t IH]; intros [|i] H; cbn in *; try lia; auto. apply IH. lia. Qed.

  Lemma nth_error_set_nth_neq {B} (l : list B) i j x : i <> j -> nth_error (set_nth l i x) j = nth_error l j.
  Proof. revert i j; induction l as [|y t IH]; intros [|i] [|j] H; cbn in *; try lia; auto. Qed.

  Lemma set_nth_len {B} (l : list B) i x : length (set_nth l i x) = length l.
  Proof. revert i; induction l as [|y t IH]; intros [|i]; cbn; auto. Qed.

  Definition step_open (opened : list I) (slots : list (option I)) (idx : nat) :=
    match nth_error opened idx with
    | Some it => set_nth slots idx (Some it)
    | None => slots
    end.

  Lemma fold_open_length opened sched : forall slots,
    length (fold_left (step_open opened) sched slots) = length slots.
  Proof.
    induction sched as [|i sched IH]; intro slots; cbn; [reflexivity|].
    rewrite IH. unfold step_open. destruct (nth_error opened i); [apply set_nth_len|reflexivity].
  Qed.

  Lemma fold_open_nth opened sched : forall slots k,
    length slots = length opened ->
    nth_error (fold_left (step_open opened) sched slots) k =
      if existsb (Nat.eqb k) sched then option_map Some (nth_error opened k) else nth_error slots k.
  Proof.
    induction sched as [|i sched IH]; intros slots k Hl; cbn [fold_left existsb]; [reflexivity|].
    rewrite IH.
    2:{ unfold step_open. destruct (nth_error opened i); [rewrite set_nth_len|]; exact Hl. }
    destruct (existsb (Nat.eqb k) sched); [rewrite orb_true_r; reflexivity|].
    rewrite orb_false_r. unfold step_open.
    destruct (Nat.eqb_spec k i) as [->|N].
    - destruct (nth_error opened i) as [it|] eqn:E; cbn.
      + apply nth_error_set_nth_eq. rewrite Hl. apply nth_error_Some. congruence.
      + apply nth_error_None. rewrite Hl. apply nth_error_None. exact E.
    - destruct (nth_error opened i); [apply nth_error_set_nth_neq; auto|reflexivity].
  Qed.

  Lemma nth_error_ext {B} (l1 l2 : list B) : (forall k, nth_error l1 k = nth_error l2 k) -> l1 = l2.
  Proof.
    revert l2; induction l1 as [|x l1 IH]; intros [|y l2] H; auto.
    - specialize (H 0). discriminate.
    - specialize (H 0). discriminate.
    - pose proof (H 0) as H0. cbn in H0. inversion H0; subst. f_equal. apply IH. intro k. apply (H (S k)).
  Qed.

  (** every task completes exactly once, in any order: each slot holds its own iterator *)
  Lemma run_open_any_order (opened : list I) (sched : list nat) :
    Permutation sched (seq 0 (length opened)) ->
    run_open opened sched = map Some opened.
  Proof.
    intro P. unfold run_open. apply nth_error_ext. intro k.
    change (fun slots idx => match nth_error opened idx with
                             | Some it => set_nth slots idx (Some it) | None => slots end)
      with (step_open opened).
    rewrite fold_open_nth by (rewrite map_length; reflexivity).
    rewrite !nth_error_map.
    destruct (existsb (Nat.eqb k) sched) eqn:E; [reflexivity|].
    destruct (nth_error opened k) eqn:En; [|reflexivity]. exfalso.
    assert (k < length opened) as Hk by (apply nth_error_Some; congruence).
    assert (In k sched) as Hin.
    { eapply Permutation_in; [apply Permutation_sym, P|]. apply in_seq. lia. }
    assert (existsb (Nat.eqb k) sched = true) as Ht.
    { apply existsb_exists. exists k. split; [exact Hin|apply Nat.eqb_refl]. }
    congruence.
  Qed.
End OpenP.
