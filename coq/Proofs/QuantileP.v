(** C05: unwrapped range aggregations with a parameter:  quantile_over_time ( 0.99 , {..} stages | unwrap conv(l) [ 5m ] ) by ( a )
    (the parameter is a number token; its value is what strconv.ParseFloat read from it; validate() admits it for quantile_over_time only). *)
From LogQLV Require Import Base.Bytes Base.FloatX Model.Tables Model.Syntax Model.Parser Proofs.ParserP Proofs.PipelineP Proofs.LogRangeP Proofs.QueryP Proofs.UnwrapP.
From Coq Require Import Lia.

Section Quantile.
  Variable anch : bytes -> bool.
  Variable re_names : bytes -> option (list bytes).
  Notation chain_mid := (chain_mid anch re_names).
  Notation print_unwrap_range := (print_unwrap_range anch re_names).

  Ltac stepb := erewrite bind_POk by reflexivity; cbv beta; cbn [rest prev].

  Definition print_unwrap_agg_p cls (o : rangeop) (ptxt : bytes) (pv : float) sel sts cv l rtxt rns off (g : option grouping) : list token :=
    punct (rangeop_tok o) :: punct TOpenParen :: num_tok ptxt pv :: punct TComma :: print_unwrap_range cls sel sts cv l rtxt rns off ++ punct TCloseParen :: print_opt_grouping g.

  Theorem unwrap_agg_param_lemma cls o ptxt pv sel sts cv l rtxt rns off g :
    range_validate o (Some pv) g true = true ->
    Forall (wf_lmatcher anch cls) sel -> Forall (fun m => ttype_eqb (cls (m_label m)) TCloseBrace = false) sel ->
    chain_mid sts (unwrap_tail cv l rtxt rns off (punct TCloseParen :: print_opt_grouping g)) ->
    wf_unwrap cv ->
    parse_tokens (print_unwrap_agg_p cls o ptxt pv sel sts cv l rtxt rns off g) = Parsed (ERange o (unwrap_lr sel sts cv l rns off) (Some pv) g).
  Proof.
    intros Hval Hsel Hnc Hchain Hw. unfold parse_tokens.
    set (toks := print_unwrap_agg_p cls o ptxt pv sel sts cv l rtxt rns off g).
    assert (Hst : (fuel_needed sts <= 2 * length (print_stages anch re_names sts))%nat).
    { clear -Hchain. revert Hchain. generalize (unwrap_tail cv l rtxt rns off (punct TCloseParen :: print_opt_grouping g)). intros r0.
      induction sts as [|s t IH]; intro H; [cbn; lia|]. cbn [chain_mid] in H. destruct H as [Hs [_ Hc]]. cbn [fuel_needed].
      change (print_stages anch re_names (s :: t)) with (print_stage anch re_names s ++ print_stages anch re_names t). rewrite app_length.
      pose proof (stage_fuel anch re_names s Hs). specialize (IH Hc). lia. }
    assert (Hlen : (length sel + fuel_needed sts + match g with Some g0 => length (g_labels g0) | None => 0 end + 2 <= 2 * length toks)%nat).
    { unfold toks, print_unwrap_agg_p, UnwrapP.print_unwrap_range, print_opt_grouping. repeat (rewrite app_length || cbn [length]).
      pose proof (print_selector_len anch re_names cls sel).
      destruct g as [g0|]; [unfold print_grouping, print_labels; repeat (rewrite app_length || cbn [length]); pose proof (print_names_len (g_labels g0))|]; cbn [length]; lia. }
    remember (16 * length toks + 64)%nat as fuel eqn:Ef.
    do 4 (destruct fuel as [|fuel]; [lia|]).
    assert (Hf : (length sel < fuel /\ fuel_needed sts < fuel /\ match g with Some g0 => (length (g_labels g0) <= fuel)%nat | None => True end)%nat)
      by (destruct g; repeat split; try lia; exact I).
    clear Ef Hlen Hst. subst toks. destruct (rangeop_tok_not o) as [Hb Hp].
    assert (Hhead : match print_unwrap_agg_p cls o ptxt pv sel sts cv l rtxt rns off g with [] => eof_tok | t :: _ => t end = punct (rangeop_tok o)) by reflexivity.
    rewrite core_expr_metric by (rewrite Hhead; exact Hb).
    rewrite core_metric.
    assert (H1 : parse_core (S (S fuel)) CMetric1 {| prev := []; rest := print_unwrap_agg_p cls o ptxt pv sel sts cv l rtxt rns off g |} =
                 POk (ERange o (unwrap_lr sel sts cv l rns off) (Some pv) g) {| prev := rev (print_unwrap_agg_p (fun _ => TIdent) o ptxt pv sel sts cv l rtxt rns off g); rest := [] |}).
    { unfold print_unwrap_agg_p. cbn [parse_core].
      stepb. rewrite Hp. cbn iota. rewrite range_op_of_tok.
      stepb. stepb. stepb.
      change (is_ty (num_tok ptxt pv) TNumber) with true. cbn iota.
      stepb.
      erewrite bind_POk by (apply (unwrap_range_print anch re_names cls sel sts cv l rtxt rns off _ (punct TCloseParen :: print_opt_grouping g) (S fuel) Hsel Hnc Hchain Hw); [lia|lia|intros _; reflexivity]).
      cbv beta. stepb. stepb.
      destruct g as [g0|].
      - cbn [print_opt_grouping].
        assert (Hby : (is_ty (match print_grouping g0 with [] => eof_tok | t :: _ => t end) TBy || is_ty (match print_grouping g0 with [] => eof_tok | t :: _ => t end) TWithout) = true)
          by (unfold print_grouping; destruct (g_without g0); reflexivity).
        rewrite Hby. cbn iota.
        erewrite bind_POk; [|erewrite bind_POk by (rewrite <- (app_nil_r (print_grouping g0)); apply (grouping_print g0 (S fuel)); destruct Hf as [_ [_ Hg]]; lia); cbv beta; reflexivity].
        cbv beta. cbn [r_unwrap unwrap_lr]. rewrite Hval. unfold ret. f_equal. f_equal.
        cbn [rev]. rewrite !rev_app_distr. cbn [rev app]. rewrite <- !app_assoc. cbn [app]. rewrite ?rev_app_distr, <- ?app_assoc. reflexivity.
      - cbn [print_opt_grouping]. cbn. rewrite Hval. unfold ret. f_equal. f_equal.
        cbn [rev]. rewrite !rev_app_distr. cbn [rev app]. rewrite <- !app_assoc. reflexivity. }
    unfold bind at 1. rewrite H1. rewrite core_binop_end by exact I. reflexivity.
  Qed.
End Quantile.
