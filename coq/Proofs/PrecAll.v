From LogQLV Require Import Base.Bytes Model.Tables Model.Syntax Model.Parser Model.Prec Proofs.PrecP.
From LogQLV Require Import Proofs.PrecP4_1 Proofs.PrecP4_2 Proofs.PrecP4_3 Proofs.PrecP4_4 Proofs.PrecP4_5.
From Coq Require Import Lia.

Lemma chain_ops_split o : In o chain_ops ->
  In o [OpOr; OpAnd; OpUnless] \/ In o [OpAdd; OpSub; OpMul] \/ In o [OpDiv; OpMod; OpPow] \/
  In o [OpEq; OpNotEq; OpGt] \/ In o [OpGte; OpLt; OpLte].
Proof. cbn. intuition. Qed.

Lemma in_seqs4 lasts o s : In o lasts -> In s (all_seqs 3) -> In (o :: s) (seqs4_ending lasts).
Proof.
  intros Ho Hs. unfold seqs4_ending. apply in_flat_map. exists s. split; [exact Hs|].
  apply in_map_iff. exists o. auto.
Qed.

Lemma asis_bounded ops : (length ops <= 4)%nat -> Forall (fun o => In o chain_ops) ops -> asis_ok ops = true.
Proof.
  intros Hl Hf. pose proof (in_all_seqs ops Hf) as Hin.
  destruct ops as [|o1 [|o2 [|o3 [|o4 [|o5 t]]]]]; cbn [length] in *; try lia.
  - pose proof asis_0 as A. rewrite forallb_forall in A. apply A, Hin.
  - pose proof asis_1 as A. rewrite forallb_forall in A. apply A, Hin.
  - pose proof asis_2 as A. rewrite forallb_forall in A. apply A, Hin.
  - pose proof asis_3 as A. rewrite forallb_forall in A. apply A, Hin.
  - inversion Hf as [|? ? Ho1 Hrest]; subst.
    assert (In [o2; o3; o4] (all_seqs 3)) as Hs by (apply (in_all_seqs [o2; o3; o4]); exact Hrest).
    destruct (chain_ops_split o1 Ho1) as [H|[H|[H|[H|H]]]].
    + pose proof asis_4_1 as A. rewrite forallb_forall in A. apply A, in_seqs4; assumption.
    + pose proof asis_4_2 as A. rewrite forallb_forall in A. apply A, in_seqs4; assumption.
    + pose proof asis_4_3 as A. rewrite forallb_forall in A. apply A, in_seqs4; assumption.
    + pose proof asis_4_4 as A. rewrite forallb_forall in A. apply A, in_seqs4; assumption.
    + pose proof asis_4_5 as A. rewrite forallb_forall in A. apply A, in_seqs4; assumption.
Qed.

Lemma conv_bounded ops : (length ops <= 4)%nat -> Forall (fun o => In o chain_ops) ops -> conv_ok ops = true.
Proof.
  intros Hl Hf. pose proof (in_all_seqs ops Hf) as Hin.
  pose proof conv_all as A. rewrite forallb_forall in A. apply A.
  destruct ops as [|o1 [|o2 [|o3 [|o4 [|o5 t]]]]]; cbn [length] in *; try lia;
    rewrite !in_app_iff; tauto.
Qed.
