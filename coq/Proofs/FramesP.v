From LogQLV Require Import Base.Bytes Model.Frames.
From Coq Require Import ZifyBool ZifyNat.

(** * The byte-stream view of a reader: every fragmentation of the same bytes has the same view *)

Fixpoint flat (r : reader) : bytes * rstat :=
  match r with
  | [] => ([], REof)
  | Eof :: _ => ([], REof)
  | Fail :: _ => ([], RFail)
  | Data c :: r' => let '(d, tm) := flat r' in (c ++ d, tm)
  end.

Lemma flat_not_ok r : snd (flat r) <> ROk.
Proof.
  induction r as [|[c| |] r IH]; cbn; try discriminate.
  destruct (flat r); cbn in *; exact IH.
Qed.

Lemma data_len_flat r : data_len r = length (fst (flat r)).
Proof.
  induction r as [|[c| |] r IH]; cbn; try reflexivity.
  destruct (flat r) as [d tm]; cbn in *. rewrite app_length. lia.
Qed.

Lemma read_n_enough r : forall n d tm,
  flat r = (d, tm) -> 0 <= n <= Z.of_nat (length d) ->
  exists r', read_n n r = (firstn (Z.to_nat n) d, ROk, r') /\ flat r' = (skipn (Z.to_nat n) d, tm).
Proof.
  induction r as [|e r IH]; intros n d tm Hf Hn.
  - cbn in Hf. inversion Hf; subst. cbn in Hn. assert (n = 0) by lia. subst. exists []. split; reflexivity.
  - destruct (Z.leb_spec n 0) as [Hz|Hz].
    + assert (n = 0) by lia. subst n. exists (e :: r).
      destruct e; cbn [read_n]; rewrite ?Z.leb_refl; cbn; auto.
    + destruct e as [c| |].
      * cbn [flat] in Hf. destruct (flat r) as [d0 tm0] eqn:Ef. inversion Hf; subst d tm; clear Hf.
        cbn [read_n]. destruct (n <=? 0) eqn:En; [lia|].
        rewrite app_length in Hn.
        destruct (Z.of_nat (length c) <=? n) eqn:Ec.
        -- destruct (IH (n - Z.of_nat (length c)) d0 tm0 eq_refl ltac:(lia)) as [r' [H1 H2]].
           rewrite H1. exists r'. split.
           ++ f_equal. f_equal. rewrite firstn_app.
              rewrite (firstn_all2 c) by lia. f_equal. f_equal. lia.
           ++ rewrite H2. f_equal. rewrite skipn_app.
              rewrite (skipn_all2 c) by lia. cbn. f_equal. lia.
        -- exists (Data (skipn (Z.to_nat n) c) :: r). split.
           ++ f_equal. f_equal. rewrite firstn_app.
              replace (Z.to_nat n - length c)%nat with 0%nat by lia. cbn. rewrite app_nil_r. reflexivity.
           ++ cbn [flat]. rewrite Ef. f_equal. rewrite skipn_app.
              replace (Z.to_nat n - length c)%nat with 0%nat by lia. reflexivity.
      * cbn in Hf. inversion Hf; subst. cbn in Hn. lia.
      * cbn in Hf. inversion Hf; subst. cbn in Hn. lia.
Qed.

Lemma read_n_short r : forall n d tm,
  flat r = (d, tm) -> Z.of_nat (length d) < n ->
  exists r', read_n n r = (d, tm, r') /\ flat r' = ([], tm).
Proof.
  induction r as [|e r IH]; intros n d tm Hf Hn.
  - cbn in Hf. inversion Hf; subst. cbn in *. destruct (n <=? 0) eqn:E; [lia|]. exists []. auto.
  - destruct e as [c| |].
    + cbn [flat] in Hf. destruct (flat r) as [d0 tm0] eqn:Ef. inversion Hf; subst d tm; clear Hf.
      rewrite app_length in Hn. cbn [read_n].
      destruct (n <=? 0) eqn:En; [lia|].
      destruct (Z.of_nat (length c) <=? n) eqn:Ec; [|lia].
      destruct (IH (n - Z.of_nat (length c)) d0 tm0 eq_refl ltac:(lia)) as [r' [H1 H2]].
      rewrite H1. exists r'. auto.
    + cbn in Hf. inversion Hf; subst. cbn in *. destruct (n <=? 0) eqn:E; [lia|]. exists (Eof :: r). auto.
    + cbn in Hf. inversion Hf; subst. cbn in *. destruct (n <=? 0) eqn:E; [lia|]. exists (Fail :: r). auto.
Qed.

(** * Big-endian length field *)

Lemma bz_byte_of_Z z : bz (byte_of_Z z) = z mod 256.
Proof.
  unfold byte_of_Z, bz.
  assert (0 <= z mod 256 < 256) as Hr by (apply Z.mod_pos_bound; lia).
  destruct (Byte.of_N (Z.to_N (z mod 256))) as [b|] eqn:E.
  - apply Byte.to_of_N in E. rewrite E. lia.
  - apply Byte.of_N_None_iff in E. lia.
Qed.

Lemma be32_enc32 n : 0 <= n < 4294967296 ->
  match enc32 n with
  | [a; b; c; d] => be32 a b c d = n
  | _ => False
  end.
Proof.
  intro H. unfold enc32, be32. rewrite !bz_byte_of_Z.
  Ltac Zify.zify_post_hook ::= Z.div_mod_to_equations.
  lia.
Qed.

(** * One frame *)

Section P.
  Variable parse_ts : bytes -> option Z.

  Definition frame_outcome (typ : byte) (payload : bytes) : endstate + frec :=
    if bz typ =? 3 then inl ErrDaemon else parse_line parse_ts payload.

  Lemma parse_next_frame r typ payload d' tm :
    flat r = (encode_frame typ payload ++ d', tm) ->
    Z.of_nat (length payload) < 4294967296 ->
    exists r', flat r' = (d', tm) /\
      parse_next parse_ts r =
        match frame_outcome typ payload with
        | inl e => Stop e r'
        | inr rc => Rec rc r'
        end.
  Proof.
    intros Hf Hsz. unfold parse_next.
    unfold encode_frame in Hf.
    pose proof (be32_enc32 (Z.of_nat (length payload))) as Hbe.
    destruct (enc32 (Z.of_nat (length payload))) as [|a [|b [|c [|d [|]]]]] eqn:Ee; try (exfalso; apply Hbe; lia).
    specialize (Hbe ltac:(lia)).
    cbn [app] in Hf.
    destruct (read_n_enough r 8 _ _ Hf ltac:(cbn [length]; lia)) as [r1 [H1 H2]].
    rewrite H1.
    change (Z.to_nat 8) with 8%nat in *. cbn [firstn skipn] in *.
    rewrite Hbe.
    destruct (read_n_enough r1 (Z.of_nat (length payload)) _ _ H2 ltac:(rewrite app_length; lia)) as [r2 [H3 H4]].
    rewrite Nat2Z.id in *. rewrite H3.
    rewrite firstn_app, firstn_all, Nat.sub_diag in *. cbn [firstn]. rewrite app_nil_r.
    rewrite skipn_app, skipn_all, Nat.sub_diag in H4. cbn in H4.
    exists r2. split; [exact H4|].
    unfold frame_outcome. destruct (bz typ =? 3); [reflexivity|].
    destruct (parse_line parse_ts payload); reflexivity.
  Qed.

  (** fewer than 8 bytes left: clean end on EOF, error on a read failure *)
  Lemma parse_next_short_header r d tm :
    flat r = (d, tm) -> (length d < 8)%nat ->
    exists r', parse_next parse_ts r = Stop (match tm with RFail => ErrHeader | _ => CleanEnd end) r'.
  Proof.
    intros Hf Hl. unfold parse_next.
    destruct (read_n_short r 8 d tm Hf ltac:(lia)) as [r' [H1 H2]].
    rewrite H1. pose proof (flat_not_ok r) as Hn. rewrite Hf in Hn. cbn in Hn.
    destruct tm; [congruence| |]; eauto.
  Qed.

  (** a whole header announcing [n] bytes followed by fewer than [n] bytes: "read message" error,
      whether the stream ends or fails there *)
  Lemma parse_next_short_body r typ x1 x2 x3 n part tm :
    0 <= n < 4294967296 ->
    flat r = ([typ; x1; x2; x3] ++ enc32 n ++ part, tm) -> Z.of_nat (length part) < n ->
    exists r', parse_next parse_ts r = Stop ErrBody r'.
  Proof.
    intros Hn Hf Hl. unfold parse_next.
    pose proof (be32_enc32 n Hn) as Hbe.
    destruct (enc32 n) as [|a [|b [|c [|d [|]]]]] eqn:Ee; try (exfalso; exact Hbe).
    cbn [app] in Hf.
    destruct (read_n_enough r 8 _ _ Hf ltac:(cbn [length]; lia)) as [r1 [H1 H2]].
    rewrite H1. change (Z.to_nat 8) with 8%nat in *. cbn [firstn skipn] in *.
    rewrite Hbe.
    destruct (read_n_short r1 n _ _ H2 Hl) as [r2 [H3 H4]].
    rewrite H3. pose proof (flat_not_ok r) as Hnk. rewrite Hf in Hnk. cbn in Hnk.
    destruct tm; [congruence| |]; eauto.
  Qed.

  (** * Whole streams *)

  Variable fmt_ts : Z -> bytes.
  Hypothesis fmt_parse : forall t, parse_ts (fmt_ts t) = Some t.
  Hypothesis fmt_no_space : forall t, ~ In space (fmt_ts t).

  Lemma cut_space_app a b : ~ In space a -> cut_space (a ++ space :: b) = Some (a, b).
  Proof.
    induction a as [|x a IH]; intro H; cbn.
    - reflexivity.
    - destruct (byte_eqb x space) eqn:E.
      + apply byte_eqb_eq in E. subst. exfalso. apply H. left. reflexivity.
      + rewrite IH; [reflexivity|]. intro Hin. apply H. right. exact Hin.
  Qed.

  Definition ok_rec (r : erec) : Prop :=
    bz (e_typ r) <> 3 /\
    Z.of_nat (length (fmt_ts (f_ts (e_rec r)) ++ space :: f_line (e_rec r))) < 4294967296.

  Lemma frame_outcome_ok x : ok_rec x ->
    frame_outcome (e_typ x) (fmt_ts (f_ts (e_rec x)) ++ space :: f_line (e_rec x)) = inr (e_rec x).
  Proof.
    intros [Ht _]. unfold frame_outcome. destruct (bz (e_typ x) =? 3) eqn:E; [lia|].
    unfold parse_line. rewrite cut_space_app by apply fmt_no_space. rewrite fmt_parse.
    destruct (e_rec x); reflexivity.
  Qed.

  Definition prepend (l : list frec) (p : list frec * endstate) : list frec * endstate :=
    (l ++ fst p, snd p).

  (** decoding the frames of [rs] from any reader whose byte view starts with their encoding
      yields exactly [rs] and continues with a reader whose view is the rest *)
  Lemma decode_prefix rs : forall r d' tm f,
    Forall ok_rec rs ->
    flat r = (encode fmt_ts rs ++ d', tm) ->
    exists r', flat r' = (d', tm) /\
      decode_fuel parse_ts (length rs + f) r = prepend (map e_rec rs) (decode_fuel parse_ts f r').
  Proof.
    induction rs as [|x rs IH]; intros r d' tm f Hok Hf.
    - exists r. split; [exact Hf|]. cbn. unfold prepend. destruct (decode_fuel parse_ts f r); reflexivity.
    - inversion Hok as [|? ? Hx Hrs]; subst.
      unfold encode in Hf. cbn [map concat] in Hf. rewrite <- app_assoc in Hf.
      unfold encode_rec at 1 in Hf.
      destruct (parse_next_frame r _ _ _ _ Hf ltac:(apply Hx)) as [r1 [H1 H2]].
      rewrite frame_outcome_ok in H2 by exact Hx.
      destruct (IH r1 d' tm f Hrs H1) as [r' [H3 H4]].
      exists r'. split; [exact H3|].
      cbn [length Nat.add decode_fuel]. rewrite H2, H4.
      unfold prepend. cbn. destruct (decode_fuel parse_ts f r'); reflexivity.
  Qed.

  Lemma encode_len rs : (8 * length rs <= length (encode fmt_ts rs))%nat.
  Proof.
    induction rs as [|x rs IH]; [cbn; lia|].
    unfold encode in *. cbn [map concat length]. rewrite app_length.
    set (T := concat (map (encode_rec fmt_ts) rs)) in *.
    unfold encode_rec, encode_frame, enc32. rewrite !app_length. cbn [length]. lia.
  Qed.

  Lemma fuel_split r rs d' tm :
    flat r = (encode fmt_ts rs ++ d', tm) ->
    exists f, S (data_len r) = (length rs + S f)%nat.
  Proof.
    intro Hf. rewrite data_len_flat, Hf. cbn [fst]. rewrite app_length.
    pose proof (encode_len rs). exists (length (encode fmt_ts rs) + length d' - length rs)%nat. lia.
  Qed.

  (** C03, first sentence: any record sequence, any fragmentation, decoded exactly *)
  Lemma decode_encode_lemma rs r :
    Forall ok_rec rs -> flat r = (encode fmt_ts rs, REof) ->
    decode parse_ts r = (map e_rec rs, CleanEnd).
  Proof.
    intros Hok Hf. unfold decode.
    rewrite <- (app_nil_r (encode fmt_ts rs)) in Hf.
    destruct (fuel_split _ _ _ _ Hf) as [f Hfu]. rewrite Hfu.
    destruct (decode_prefix rs r [] REof (S f) Hok Hf) as [r' [H1 H2]].
    rewrite H2. cbn [decode_fuel].
    destruct (parse_next_short_header r' [] REof H1 ltac:(cbn; lia)) as [r'' H3].
    rewrite H3. unfold prepend. cbn. rewrite app_nil_r. reflexivity.
  Qed.

  (** cut inside a frame header (fewer than 8 bytes of the next frame): clean end *)
  Lemma cut_in_header_lemma rs h r :
    Forall ok_rec rs -> (length h < 8)%nat -> flat r = (encode fmt_ts rs ++ h, REof) ->
    decode parse_ts r = (map e_rec rs, CleanEnd).
  Proof.
    intros Hok Hh Hf. unfold decode.
    destruct (fuel_split _ _ _ _ Hf) as [f Hfu]. rewrite Hfu.
    destruct (decode_prefix rs r h REof (S f) Hok Hf) as [r' [H1 H2]].
    rewrite H2. cbn [decode_fuel].
    destruct (parse_next_short_header r' h REof H1 Hh) as [r'' H3].
    rewrite H3. unfold prepend. cbn. rewrite app_nil_r. reflexivity.
  Qed.

  (** cut (or read failure) inside a frame body: "read message" error after the whole records *)
  Lemma cut_in_body_lemma rs typ x1 x2 x3 n part tm r :
    Forall ok_rec rs -> 0 <= n < 4294967296 -> Z.of_nat (length part) < n ->
    flat r = (encode fmt_ts rs ++ ([typ; x1; x2; x3] ++ enc32 n ++ part), tm) ->
    decode parse_ts r = (map e_rec rs, ErrBody).
  Proof.
    intros Hok Hn Hp Hf. unfold decode.
    destruct (fuel_split _ _ _ _ Hf) as [f Hfu]. rewrite Hfu.
    destruct (decode_prefix rs r _ tm (S f) Hok Hf) as [r' [H1 H2]].
    rewrite H2. cbn [decode_fuel].
    destruct (parse_next_short_body r' _ _ _ _ _ _ _ Hn H1 Hp) as [r'' H3].
    rewrite H3. unfold prepend. cbn. rewrite app_nil_r. reflexivity.
  Qed.

  (** read failure between frames or inside a header: "read header" error *)
  Lemma fail_in_header_lemma rs h r :
    Forall ok_rec rs -> (length h < 8)%nat -> flat r = (encode fmt_ts rs ++ h, RFail) ->
    decode parse_ts r = (map e_rec rs, ErrHeader).
  Proof.
    intros Hok Hh Hf. unfold decode.
    destruct (fuel_split _ _ _ _ Hf) as [f Hfu]. rewrite Hfu.
    destruct (decode_prefix rs r h RFail (S f) Hok Hf) as [r' [H1 H2]].
    rewrite H2. cbn [decode_fuel].
    destruct (parse_next_short_header r' h RFail H1 Hh) as [r'' H3].
    rewrite H3. unfold prepend. cbn. rewrite app_nil_r. reflexivity.
  Qed.

  (** a whole frame that is a daemon error frame, has no space, or an unparsable timestamp:
      reported as that error after exactly the records before it, whatever follows *)
  Lemma bad_frame_lemma rs typ payload e rest tm r :
    Forall ok_rec rs -> Z.of_nat (length payload) < 4294967296 ->
    frame_outcome typ payload = inl e ->
    flat r = (encode fmt_ts rs ++ (encode_frame typ payload ++ rest), tm) ->
    decode parse_ts r = (map e_rec rs, e).
  Proof.
    intros Hok Hsz Hout Hf. unfold decode.
    destruct (fuel_split _ _ _ _ Hf) as [f Hfu]. rewrite Hfu.
    destruct (decode_prefix rs r _ tm (S f) Hok Hf) as [r' [H1 H2]].
    rewrite H2. cbn [decode_fuel].
    destruct (parse_next_frame r' _ _ _ _ H1 Hsz) as [r'' [H3 H4]].
    rewrite H4, Hout. unfold prepend. cbn. rewrite app_nil_r. reflexivity.
  Qed.

  Lemma frame_outcome_daemon payload : frame_outcome x03 payload = inl ErrDaemon.
  Proof. reflexivity. Qed.

  Lemma frame_outcome_inl_is_error typ payload e : frame_outcome typ payload = inl e -> e <> CleanEnd.
  Proof.
    unfold frame_outcome, parse_line. destruct (bz typ =? 3); [intro H; inversion H; discriminate|].
    destruct (cut_space payload) as [[a b]|]; [|intro H; inversion H; discriminate].
    destruct (parse_ts a); intro H; inversion H; discriminate.
  Qed.
End P.

(** fragmentation independence: the decoder is a function of the byte view only.
    We show it through a canonical reader built from the view. *)
Definition canon (v : bytes * rstat) : reader :=
  Data (fst v) :: match snd v with RFail => [Fail] | _ => [Eof] end.

Lemma flat_canon r : flat (canon (flat r)) = flat r.
Proof.
  unfold canon. pose proof (flat_not_ok r) as H. destruct (flat r) as [d tm]. cbn in *.
  destruct tm; [congruence| |]; cbn; rewrite app_nil_r; reflexivity.
Qed.

(** * Fragmentation independence *)

Lemma read_n_indep n r1 r2 : flat r1 = flat r2 ->
  exists b st r1' r2', read_n n r1 = (b, st, r1') /\ read_n n r2 = (b, st, r2') /\ flat r1' = flat r2'.
Proof.
  intro Hf. destruct (flat r2) as [d tm] eqn:E2.
  destruct (Z.leb_spec n 0) as [Hz|Hz].
  - exists [], ROk, r1, r2.
    assert (forall r, read_n n r = ([], ROk, r)) as Hr.
    { intro r. destruct r as [|[c| |] r]; cbn [read_n]; destruct (n <=? 0) eqn:En; try lia; reflexivity. }
    rewrite !Hr. rewrite Hf, E2. auto.
  - destruct (Z.leb_spec n (Z.of_nat (length d))) as [Hl|Hl].
    + destruct (read_n_enough r1 n d tm Hf ltac:(lia)) as [r1' [A1 A2]].
      destruct (read_n_enough r2 n d tm E2 ltac:(lia)) as [r2' [B1 B2]].
      exists (firstn (Z.to_nat n) d), ROk, r1', r2'. rewrite A2, B2. auto.
    + destruct (read_n_short r1 n d tm Hf Hl) as [r1' [A1 A2]].
      destruct (read_n_short r2 n d tm E2 Hl) as [r2' [B1 B2]].
      exists d, tm, r1', r2'. rewrite A2, B2. auto.
Qed.

Section Indep.
  Variable parse_ts : bytes -> option Z.

  Definition same_step (a b : step_result) : Prop :=
    match a, b with
    | Rec x r1, Rec y r2 => x = y /\ flat r1 = flat r2
    | Stop e1 r1, Stop e2 r2 => e1 = e2 /\ flat r1 = flat r2
    | _, _ => False
    end.

  Lemma parse_next_indep r1 r2 : flat r1 = flat r2 ->
    same_step (parse_next parse_ts r1) (parse_next parse_ts r2).
  Proof.
    intro Hf. unfold parse_next.
    destruct (read_n_indep 8 r1 r2 Hf) as [h [st [r1' [r2' [A [B Hf']]]]]].
    rewrite A, B.
    destruct st; cbn; auto.
    destruct h as [|t [|x1 [|x2 [|x3 [|b4 [|b5 [|b6 [|b7 [|]]]]]]]]]; cbn; auto.
    destruct (read_n_indep (be32 b4 b5 b6 b7) r1' r2' Hf') as [p [st2 [q1 [q2 [A2 [B2 Hf2]]]]]].
    rewrite A2, B2.
    destruct st2; cbn; auto.
    destruct (bz t =? 3); cbn; auto.
    destruct (parse_line parse_ts p); cbn; auto.
  Qed.

  Lemma decode_fuel_indep f : forall r1 r2, flat r1 = flat r2 ->
    decode_fuel parse_ts f r1 = decode_fuel parse_ts f r2.
  Proof.
    induction f as [|f IH]; intros r1 r2 Hf; [reflexivity|].
    cbn [decode_fuel]. pose proof (parse_next_indep r1 r2 Hf) as H.
    destruct (parse_next parse_ts r1) as [x q1|e1 q1], (parse_next parse_ts r2) as [y q2|e2 q2]; cbn in H; try contradiction.
    - destruct H as [-> H]. rewrite (IH q1 q2 H). reflexivity.
    - destruct H as [-> _]. reflexivity.
  Qed.

  Lemma decode_indep_lemma r1 r2 : flat r1 = flat r2 -> decode parse_ts r1 = decode parse_ts r2.
  Proof.
    intro Hf. unfold decode. rewrite !data_len_flat, Hf. apply decode_fuel_indep. exact Hf.
  Qed.
End Indep.

(** every way of cutting a byte string into reads *)
Fixpoint frag (cuts : list nat) (b : bytes) : reader :=
  match cuts with
  | [] => [Data b]
  | n :: cuts' => Data (firstn n b) :: frag cuts' (skipn n b)
  end.

Lemma flat_frag_app cuts : forall b tl, flat (frag cuts b ++ tl) = (b ++ fst (flat tl), snd (flat tl)).
Proof.
  induction cuts as [|n cuts IH]; intros b tl; cbn.
  - destruct (flat tl); reflexivity.
  - rewrite IH. cbn. rewrite app_assoc, firstn_skipn. reflexivity.
Qed.
