(** C05: redundant parentheses around a metric expression are kept as a ParenExpr node (the correspondence compares trees modulo
    these nodes; here the node itself is the statement):   ( rate ( {..} [5m] ) )   parses to   EParen (range aggregation). *)
From LogQLV Require Import Base.Bytes Base.FloatX Model.Tables Model.Syntax Model.Parser Proofs.ParserP Proofs.PipelineP Proofs.LogRangeP Proofs.QueryP
  Proofs.BinRangeP.
From Coq Require Import Lia.

Section Paren.
  Variable anch : bytes -> bool.
  Variable re_names : bytes -> option (list bytes).

  Ltac stepb := erewrite bind_POk by reflexivity; cbv beta; cbn [rest prev].

  Definition print_paren cls (a : operand) : list token := punct TOpenParen :: print_operand anch re_names cls a ++ [punct TCloseParen].

  Lemma core_metric1_paren f p r :
    parse_core (S f) CMetric1 {| prev := p; rest := punct TOpenParen :: r |} =
      (next ;; do e <- parse_core f CExpr; consume TCloseParen ;; ret (EParen e)) {| prev := p; rest := punct TOpenParen :: r |}.
  Proof. reflexivity. Qed.

  Theorem paren_parse_lemma cls a :
    wf_operand anch re_names cls a [punct TCloseParen] ->
    parse_tokens (print_paren cls a) = Parsed (EParen (operand_expr a)).
  Proof.
    intros [Hva [Hsa [Hna Hca]]]. unfold parse_tokens.
    set (toks := print_paren cls a).
    assert (Hlen : (length (a_sel a) + fuel_needed (a_sts a) + 4 <= 2 * length toks)%nat).
    { unfold toks, print_paren, print_operand, QueryP.print_range_agg, print_logrange. repeat (rewrite app_length || cbn [length]).
      pose proof (print_selector_len anch re_names cls (a_sel a)). pose proof (stages_fuel anch re_names (a_sts a) _ Hca). lia. }
    remember (16 * length toks + 64)%nat as fuel eqn:Ef.
    do 10 (destruct fuel as [|fuel]; [lia|]).
    assert (Hf : (length (a_sel a) < fuel /\ fuel_needed (a_sts a) < fuel)%nat) by lia.
    destruct Hf as [Hf1 Hf2].
    clear Ef Hlen. subst toks.
    destruct (operand_head anch re_names cls a) as [tla Ea].
    destruct (rangeop_tok_not (a_op a)) as [Hba Hpa].
    unfold print_paren.
    (* parseExpr -> parseMetricExpr -> parseMetricExpr1 sees the parenthesis *)
    rewrite core_expr_metric by reflexivity.
    rewrite core_metric. unfold bind at 1.
    rewrite core_metric1_paren.
    stepb.
    (* the inner expression *)
    assert (Hin : exists pin, parse_core (S (S (S (S (S (S (S fuel))))))) CExpr {| prev := [punct TOpenParen]; rest := print_operand anch re_names cls a ++ [punct TCloseParen] |} =
                  POk (operand_expr a) {| prev := pin; rest := [punct TCloseParen] |}).
    { eexists. rewrite core_expr_metric by (rewrite Ea; exact Hba).
      rewrite core_metric. unfold bind at 1. unfold print_operand at 1.
      rewrite (range_agg_core anch re_names cls (a_op a) (a_sel a) (a_sts a) (a_rtxt a) (a_rns a) (a_off a) (S (S (S (S fuel)))) [punct TOpenParen] _ Hva Hsa Hna Hca);
        [|lia|lia|split; reflexivity].
      rewrite core_binop_end by reflexivity. reflexivity. }
    destruct Hin as [pin Hin].
    erewrite bind_POk by (exact Hin). cbv beta.
    stepb.
    unfold ret.
    rewrite core_binop_end by exact I. reflexivity.
  Qed.
End Paren.
