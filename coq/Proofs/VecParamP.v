(** C05: vector aggregations written with the operand directly in parentheses, with or without a leading parameter:
      topk ( 3 , rate ( {..} [5m] ) )    bottomk ( 1 , .. )    sort ( .. )    sort_desc ( .. )    sum ( .. )
    over a range aggregation without unwrap.  The parameter is an integer token (its value is what strconv.Atoi read from it; the
    parser takes a leading number for the parameter only when a comma follows, D24). *)
From LogQLV Require Import Base.Bytes Base.FloatX Model.Tables Model.Syntax Model.Parser Proofs.ParserP Proofs.PipelineP Proofs.LogRangeP Proofs.QueryP.
From Coq Require Import Lia.

Definition int_tok (txt : bytes) (k : Z) : token :=
  {| ty := TNumber; text := txt; v_float := None; v_int := Some k; v_dur := None; v_bytes := None; v_re := None; v_re_anch := false |}.

Section VecParam.
  Variable anch : bytes -> bool.
  Variable re_names : bytes -> option (list bytes).

  Definition print_param (k : option (bytes * Z)) : list token :=
    match k with Some (kt, kv) => [int_tok kt kv; punct TComma] | None => [] end.

  Definition print_vec_param cls (v : vectorop) (k : option (bytes * Z)) o sel sts rtxt rns off : list token :=
    punct (vecop_tok v) :: punct TOpenParen :: print_param k ++ print_range_agg anch re_names cls o sel sts rtxt rns off ++ [punct TCloseParen].

  Ltac stepb := erewrite bind_POk by reflexivity; cbv beta; cbn [rest prev].

  (** parseVectorAggregationExpr with the operand directly in parentheses *)
  Lemma vec_param_core f v k inner e p pin r :
    vector_validate v (option_map snd k) None = true ->
    is_ty (match inner ++ punct TCloseParen :: r with [] => eof_tok | t :: _ => t end) TNumber = false ->
    no_grouping_ahead r ->
    parse_core f CMetric {| prev := rev (print_param k) ++ punct TOpenParen :: punct (vecop_tok v) :: p; rest := inner ++ punct TCloseParen :: r |} =
      POk e {| prev := pin; rest := punct TCloseParen :: r |} ->
    parse_core (S f) CMetric1 {| prev := p; rest := punct (vecop_tok v) :: punct TOpenParen :: print_param k ++ inner ++ punct TCloseParen :: r |} =
      POk (EVecAgg v e (option_map snd k) None) {| prev := punct TCloseParen :: pin; rest := r |}.
  Proof.
    intros Hvv Hnum Hng Hin. destruct (vecop_tok_facts v) as [Hv [Hr [Hp Hb]]].
    cbn [parse_core].
    stepb. rewrite Hp. cbn iota. rewrite Hr, Hv.
    stepb. stepb.
    change (is_ty (punct TOpenParen) TBy || is_ty (punct TOpenParen) TWithout) with false. cbn iota.
    change (is_ty (punct TOpenParen) TOpenParen) with true. cbn iota.
    assert (Hg : (is_ty (match r with [] => eof_tok | t :: _ => t end) TBy || is_ty (match r with [] => eof_tok | t :: _ => t end) TWithout) = false).
    { destruct r as [|t0 r']; [reflexivity|]. destruct Hng as [H1 H2]. rewrite H1, H2. reflexivity. }
    destruct k as [[kt kv]|]; cbn [print_param app option_map snd rev] in *.
    - erewrite bind_POk; [|erewrite bind_POk; [|stepb; stepb; stepb;
                                                 change (is_ty (int_tok kt kv) TNumber && is_ty (punct TComma) TComma) with true; cbn iota; stepb;
                                                 erewrite bind_POk by (exact Hin); cbv beta; stepb; reflexivity];
                           cbv beta; stepb; rewrite Hg; cbn iota; reflexivity].
      cbv beta. cbn iota. rewrite Hvv. reflexivity.
    - erewrite bind_POk; [|erewrite bind_POk; [|stepb; stepb; stepb; rewrite Hnum; cbn [andb]; cbn iota; stepb;
                                                 erewrite bind_POk by (exact Hin); cbv beta; stepb; reflexivity];
                           cbv beta; stepb; rewrite Hg; cbn iota; reflexivity].
      cbv beta. cbn iota. rewrite Hvv. reflexivity.
  Qed.

  Theorem vec_param_parse_lemma cls v k o sel sts rtxt rns off :
    vector_validate v (option_map snd k) None = true -> range_validate o None None false = true ->
    Forall (wf_lmatcher anch cls) sel -> Forall (fun m => ttype_eqb (cls (m_label m)) TCloseBrace = false) sel ->
    chain_ok anch re_names sts (print_range rtxt rns off ++ [punct TCloseParen; punct TCloseParen]) ->
    parse_tokens (print_vec_param cls v k o sel sts rtxt rns off) = Parsed (EVecAgg v (range_expr o sel sts rns off) (option_map snd k) None).
  Proof.
    intros Hvv Hval Hsel Hnc Hchain. unfold parse_tokens.
    set (toks := print_vec_param cls v k o sel sts rtxt rns off).
    assert (Hlen : (length sel + fuel_needed sts + 2 <= 2 * length toks)%nat).
    { unfold toks, print_vec_param, print_range_agg, print_logrange.
      repeat (rewrite app_length || cbn [length]).
      pose proof (print_selector_len anch re_names cls sel). pose proof (stages_fuel anch re_names sts _ Hchain). lia. }
    remember (16 * length toks + 64)%nat as fuel eqn:Ef.
    do 5 (destruct fuel as [|fuel]; [lia|]).
    assert (Hf : (length sel < fuel /\ fuel_needed sts < fuel)%nat) by lia.
    destruct (vecop_tok_facts v) as [Hv [Hr [Hp Hb]]].
    clear Ef Hlen. subst toks.
    assert (Hhead : match print_vec_param cls v k o sel sts rtxt rns off with [] => eof_tok | t :: _ => t end = punct (vecop_tok v)) by reflexivity.
    rewrite core_expr_metric by (rewrite Hhead; exact Hb).
    rewrite core_metric. unfold bind at 1.
    unfold print_vec_param.
    erewrite (vec_param_core (S (S fuel)) v k (print_range_agg anch re_names cls o sel sts rtxt rns off) (range_expr o sel sts rns off) [] _ []).
    - rewrite core_binop_end by exact I. reflexivity.
    - exact Hvv.
    - destruct o; reflexivity.
    - exact I.
    - apply (range_agg_metric anch re_names cls o sel sts rtxt rns off fuel _ [punct TCloseParen] Hval Hsel Hnc Hchain (proj1 Hf) (proj2 Hf)); [split; reflexivity|reflexivity].
  Qed.
End VecParam.
