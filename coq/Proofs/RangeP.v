(** C09: the sliding-window iterator computes, at every step of every grid, the declarative window reading. *)
From LogQLV Require Import Base.Bytes Base.FloatX Base.LMap Model.Tables Model.Stages Model.Engine Model.Metric Spec.MetricSpec Proofs.GroupP.
From Coq Require Import Sorted.

Definition pt_of (e : sentry) : Z * float := (se_ts e, se_val e).
Definition pts (g : grouping) (k : lmap) (l : list sentry) : list (Z * float) :=
  map pt_of (filter (fun e => lmap_eqb (series_key g e) k) l).

Lemma pts_app g k a b : pts g k (a ++ b) = pts g k a ++ pts g k b.
Proof. unfold pts. rewrite filter_app, map_app. reflexivity. Qed.

(** points of the (first) series with key k *)
Fixpoint wpts (w : list wseries) (k : lmap) : list (Z * float) :=
  match w with
  | [] => []
  | (k0, (_, ps)) :: t => if lmap_eqb k0 k then ps else wpts t k
  end.

Definition wf_window (w : list wseries) : Prop :=
  NoDup (map fst w) /\ Forall (fun s => snd (snd s) <> [] /\ key_of (fst (snd s)) = fst s) w.

Lemma wpts_notin w k : ~ In k (map fst w) -> wpts w k = [].
Proof.
  induction w as [|[k0 [m ps]] t IH]; cbn; intro H; [reflexivity|].
  destruct (lmap_eqb k0 k) eqn:E; [apply lmap_eqb_eq in E; subst; exfalso; apply H; left; reflexivity|].
  apply IH. intro; apply H; right; assumption.
Qed.

(** * win_add *)
Lemma win_add_pts w k m p k' :
  wpts (win_add w k m p) k' = if lmap_eqb k k' then wpts w k' ++ [p] else wpts w k'.
Proof.
  induction w as [|[k0 [m0 ps]] t IH]; cbn.
  - destruct (lmap_eqb k k'); reflexivity.
  - destruct (lmap_eqb k0 k) eqn:E1; cbn.
    + apply lmap_eqb_eq in E1. subst k0. destruct (lmap_eqb k k'); reflexivity.
    + destruct (lmap_eqb k0 k') eqn:E2; [|exact IH].
      apply lmap_eqb_eq in E2. subst k0.
      destruct (lmap_eqb k k') eqn:E3; [|reflexivity].
      apply lmap_eqb_eq in E3. subst k'. rewrite lmap_eqb_refl in E1. discriminate.
Qed.

Lemma win_add_keys w k m p :
  map fst (win_add w k m p) = if existsb (fun l => lmap_eqb l k) (map fst w) then map fst w else map fst w ++ [k].
Proof.
  induction w as [|[k0 [m0 ps]] t IH]; cbn; [reflexivity|].
  destruct (lmap_eqb k0 k) eqn:E1; cbn; [reflexivity|]. rewrite IH.
  destruct (existsb (fun l => lmap_eqb l k) (map fst t)); reflexivity.
Qed.

Lemma win_add_wf w k m p : key_of m = k -> wf_window w -> wf_window (win_add w k m p).
Proof.
  intros Hk [Hn Hf]. split.
  - rewrite win_add_keys. destruct (existsb (fun l => lmap_eqb l k) (map fst w)) eqn:E; [exact Hn|].
    apply NoDup_snoc; [exact Hn|]. intro Hin. apply existsb_lmap_in in Hin. congruence.
  - clear Hn. induction w as [|[k0 [m0 ps]] t IH]; cbn.
    + constructor; [cbn; split; [discriminate|exact Hk]|constructor].
    + inversion Hf as [|x l Hx Hl]. subst x l. destruct (lmap_eqb k0 k); constructor; auto.
      cbn in *. destruct Hx as [H1 H2]. split; [destruct ps; discriminate|exact H2].
Qed.

(** * win_clear *)
Lemma win_clear_keys_sub ws w k : In k (map fst (win_clear ws w)) -> In k (map fst w).
Proof.
  unfold win_clear. induction w as [|[k0 [m ps]] t IH]; cbn; [auto|].
  destruct (negb _); cbn; intros H; [destruct H as [H|H]; [left; exact H|right; apply IH; exact H]|right; apply IH; exact H].
Qed.

Lemma win_clear_pts ws w k : NoDup (map fst w) ->
  wpts (win_clear ws w) k = filter (fun p => ws <=? fst p) (wpts w k).
Proof.
  unfold win_clear. induction w as [|[k0 [m ps]] t IH]; intro Hn; [reflexivity|].
  inversion Hn; subst. cbn [map filter fst snd wpts].
  destruct (Nat.eqb (length (filter (fun p => ws <=? fst p) ps)) 0) eqn:El; cbn [negb wpts].
  - destruct (lmap_eqb k0 k) eqn:E.
    + apply lmap_eqb_eq in E. subst k0.
      rewrite wpts_notin; [|intro Hin; apply H1; eapply win_clear_keys_sub; exact Hin].
      apply Nat.eqb_eq in El. apply length_zero_iff_nil in El. rewrite El. reflexivity.
    + apply IH; assumption.
  - destruct (lmap_eqb k0 k); [reflexivity|apply IH; assumption].
Qed.

Lemma win_clear_wf ws w : wf_window w -> wf_window (win_clear ws w).
Proof.
  intros [Hn Hf]. unfold win_clear. split.
  - induction w as [|[k0 [m ps]] t IH]; cbn; [constructor|]. inversion Hn; inversion Hf; subst.
    destruct (negb _); cbn; [constructor; [|apply IH; assumption]|apply IH; assumption].
    intro Hin. apply H1. apply (win_clear_keys_sub ws). exact Hin.
  - clear Hn. induction w as [|[k0 [m ps]] t IH]; cbn; [constructor|]. inversion Hf; subst.
    destruct (Nat.eqb (length (filter (fun p => ws <=? fst p) ps)) 0) eqn:El; cbn; [apply IH; assumption|].
    constructor; [|apply IH; assumption]. cbn in *. split; [|apply H1].
    intro Hz. rewrite Hz in El. discriminate.
Qed.

(** * win_fill *)
Fixpoint take_le (we : Z) (l : list sentry) : list sentry :=
  match l with [] => [] | e :: t => if we <? se_ts e then [] else e :: take_le we t end.
Fixpoint drop_le (we : Z) (l : list sentry) : list sentry :=
  match l with [] => [] | e :: t => if we <? se_ts e then l else drop_le we t end.

Lemma take_drop we l : take_le we l ++ drop_le we l = l.
Proof. induction l as [|e t IH]; cbn; [reflexivity|]. destruct (we <? se_ts e); cbn; congruence. Qed.

Lemma win_fill_spec g ws we : forall rest w,
  wf_window w ->
  let r := win_fill g ws we w rest in
  snd r = drop_le we rest /\ wf_window (fst r) /\
  forall k, wpts (fst r) k = wpts w k ++ pts g k (filter (fun e => ws <=? se_ts e) (take_le we rest)).
Proof.
  induction rest as [|e t IH]; intros w Hw; cbn.
  - split; [reflexivity|split; [exact Hw|]]. intro k. rewrite app_nil_r. reflexivity.
  - destruct (we <? se_ts e) eqn:E1; cbn.
    + split; [reflexivity|split; [exact Hw|]]. intro k. rewrite app_nil_r. reflexivity.
    + destruct (se_ts e <? ws) eqn:E2.
      * assert (ws <=? se_ts e = false) as E3 by (apply Z.ltb_lt in E2; apply Z.leb_gt; lia). rewrite E3. apply IH; exact Hw.
      * assert (ws <=? se_ts e = true) as E3 by (apply Z.ltb_ge in E2; apply Z.leb_le; lia). rewrite E3.
        set (metric := apply_grouping g (se_set e)).
        destruct (IH (win_add w (key_of metric) metric (se_ts e, se_val e)) (win_add_wf _ _ _ _ eq_refl Hw)) as [A [B C]].
        split; [exact A|split; [exact B|]]. intro k. rewrite C, win_add_pts. cbn [filter].
        replace (series_key g e) with (key_of metric) by reflexivity.
        unfold pts. destruct (lmap_eqb (key_of metric) k); cbn; [rewrite <- app_assoc; reflexivity|reflexivity].
Qed.

(** * The step invariant *)
Definition ts_le (a b : sentry) : Prop := se_ts a <= se_ts b.

(** after the step at T: everything with ts <= T-o has been consumed, the rest is untouched, and every series holds
    exactly its samples of [T-o-r, T-o] in arrival order *)
Definition Inv (g : grouping) (ses : list sentry) (ws we : Z) (s : rstate) : Prop :=
  exists consumed, ses = consumed ++ rs_rest s /\ Forall (fun e => se_ts e <= we) consumed /\
                   Forall (fun e => we < se_ts e) (rs_rest s) /\ wf_window (rs_window s) /\
                   forall k, wpts (rs_window s) k = pts g k (filter (fun e => ws <=? se_ts e) consumed).

Lemma filter_filter_le ws1 ws2 (l : list sentry) : ws1 <= ws2 ->
  filter (fun e => ws2 <=? se_ts e) (filter (fun e => ws1 <=? se_ts e) l) = filter (fun e => ws2 <=? se_ts e) l.
Proof.
  intro H. induction l as [|e t IH]; cbn; [reflexivity|].
  destruct (ws1 <=? se_ts e) eqn:E1; cbn; rewrite IH; [reflexivity|].
  destruct (ws2 <=? se_ts e) eqn:E2; [|reflexivity]. apply Z.leb_le in E2. apply Z.leb_gt in E1. lia.
Qed.

Lemma pts_filter_ws g k ws (l : list sentry) :
  filter (fun p : Z * float => ws <=? fst p) (pts g k l) = pts g k (filter (fun e => ws <=? se_ts e) l).
Proof.
  unfold pts. induction l as [|e t IH]; cbn; [reflexivity|].
  destruct (lmap_eqb (series_key g e) k) eqn:E1; destruct (ws <=? se_ts e) eqn:E2; cbn; rewrite ?E1, ?E2; cbn; rewrite ?E2, IH; reflexivity.
Qed.

Lemma take_le_all we l : Forall (fun e => se_ts e <= we) (take_le we l).
Proof. induction l as [|e t IH]; cbn; [constructor|]. destruct (Z.ltb_spec we (se_ts e)); [constructor|constructor; [lia|exact IH]]. Qed.

Lemma drop_le_sorted we l : StronglySorted ts_le l -> Forall (fun e => we < se_ts e) (drop_le we l).
Proof.
  induction 1 as [|e t Ht IH Hall]; cbn; [constructor|].
  destruct (Z.ltb_spec we (se_ts e)); [|exact IH].
  constructor; [lia|]. eapply Forall_impl; [|exact Hall]. intros a Ha. unfold ts_le in Ha. lia.
Qed.

Lemma sorted_app_r (a b : list sentry) : StronglySorted ts_le (a ++ b) -> StronglySorted ts_le b.
Proof. induction a as [|x a IH]; cbn; [auto|]. intro H; inversion H; auto. Qed.

Lemma range_next_inv clear_ok agg g range offset ses ws0 we0 T s :
  (forall ws w, clear_ok ws w = win_clear ws w) ->
  StronglySorted ts_le ses -> ws0 <= T - offset - range -> we0 <= T - offset ->
  Inv g ses ws0 we0 s ->
  Inv g ses (T - offset - range) (T - offset) (fst (range_next clear_ok agg g range offset T s)).
Proof.
  intros Hc Hsorted Hws Hwe [consumed [Hses [Hcons [Hrest [Hwf Hpts]]]]].
  unfold range_next. rewrite Hc.
  set (we := T - offset). set (ws := we - range).
  pose proof (win_fill_spec g ws we (rs_rest s) (win_clear ws (rs_window s)) (win_clear_wf ws _ Hwf)) as Hfill.
  destruct (win_fill g ws we (win_clear ws (rs_window s)) (rs_rest s)) as [w' rest'] eqn:Ef. cbn in Hfill.
  destruct Hfill as [Hr [Hwf' Hp']]. cbn [fst rs_window rs_rest].
  exists (consumed ++ take_le we (rs_rest s)).
  split; [rewrite <- app_assoc, Hr, take_drop; exact Hses|].
  split; [apply Forall_app; split; [eapply Forall_impl; [|exact Hcons]; intros a Ha; cbn in Ha; unfold we; lia|apply take_le_all]|].
  split; [rewrite Hr; apply drop_le_sorted; rewrite Hses in Hsorted; eapply sorted_app_r; exact Hsorted|].
  split; [exact Hwf'|].
  intro k. rewrite Hp', win_clear_pts by apply Hwf. rewrite Hpts, pts_filter_ws, filter_filter_le by (unfold ws, we; lia).
  rewrite filter_app, pts_app. reflexivity.
Qed.

(** * From the invariant to the step's content *)
Lemma in_window_split range offset T e : in_window range offset T e = (T - offset - range <=? se_ts e) && (se_ts e <=? T - offset).
Proof. reflexivity. Qed.

Lemma inv_window_exact g ses range offset T s :
  Inv g ses (T - offset - range) (T - offset) s ->
  forall k, wpts (rs_window s) k = pts g k (filter (in_window range offset T) ses).
Proof.
  intros [consumed [Hses [Hcons [Hrest [Hwf Hpts]]]]] k. rewrite Hpts, Hses, filter_app, pts_app.
  assert (H1 : filter (in_window range offset T) consumed = filter (fun e => T - offset - range <=? se_ts e) consumed).
  { clear -Hcons. induction Hcons as [|e t He Ht IH]; cbn; [reflexivity|]. rewrite IH. unfold in_window.
    assert (se_ts e <=? T - offset = true) as -> by (apply Z.leb_le; exact He). rewrite andb_true_r. reflexivity. }
  assert (H2 : filter (in_window range offset T) (rs_rest s) = []).
  { clear -Hrest. induction Hrest as [|e t He Ht IH]; cbn; [reflexivity|]. rewrite IH. unfold in_window.
    assert (se_ts e <=? T - offset = false) as -> by (apply Z.leb_gt; exact He). rewrite andb_false_r. reflexivity. }
  rewrite H1, H2. cbn. rewrite app_nil_r. reflexivity.
Qed.

Lemma find_window_sample (agg : list float -> float) w k : wf_window w ->
  step_lookup k {| st_ts := 0; st_samples := map (fun sr : wseries => (agg (map snd (snd (snd sr))), fst (snd sr))) w |} =
  match wpts w k with [] => None | ps => Some (agg (map snd ps)) end.
Proof.
  intros [Hn Hf]. unfold step_lookup. cbn [st_samples]. induction w as [|[k0 [m ps]] t IH]; cbn; [reflexivity|].
  inversion Hn; inversion Hf; subst. cbn in H5. destruct H5 as [Hne Hk]. rewrite Hk.
  destruct (lmap_eqb k0 k) eqn:E; cbn.
  - destruct ps; [congruence|reflexivity].
  - apply IH; assumption.
Qed.

Lemma distinct_keys_in l k : In k (distinct_keys l) <-> In k l.
Proof.
  induction l as [|x t IH]; cbn; [tauto|]. split.
  - intros [->|H]; [left; reflexivity|]. apply filter_In in H as [H _]. right; apply IH; exact H.
  - intros [->|H]; [left; reflexivity|].
    destruct (lmap_eqb x k) eqn:E; [apply lmap_eqb_eq in E; left; exact E|].
    right. apply filter_In. split; [apply IH; exact H|rewrite E; reflexivity].
Qed.

Lemma distinct_keys_nodup l : NoDup (distinct_keys l).
Proof.
  induction l as [|x t IH]; cbn; [constructor|]. constructor.
  - intro H. apply filter_In in H as [_ H]. rewrite lmap_eqb_refl in H. discriminate.
  - apply NoDup_filter. exact IH.
Qed.

Lemma spec_lookup_map (F : lmap -> float) keys k :
  spec_lookup k (map (fun k' => (k', F k')) keys) = if existsb (fun k' => lmap_eqb k' k) keys then Some (F k) else None.
Proof.
  unfold spec_lookup. induction keys as [|k0 t IH]; cbn; [reflexivity|].
  destruct (lmap_eqb k0 k) eqn:E; cbn; [apply lmap_eqb_eq in E; subst; reflexivity|exact IH].
Qed.

Lemma range_spec_lookup agg g range offset ses T k :
  spec_lookup k (range_spec_at agg g range offset ses T) =
  match pts g k (filter (in_window range offset T) ses) with [] => None | ps => Some (agg (map snd ps)) end.
Proof.
  unfold range_spec_at. set (inw := filter (in_window range offset T) ses).
  rewrite (spec_lookup_map (fun k0 => agg (map se_val (filter (fun e => lmap_eqb (series_key g e) k0) inw)))).
  assert (Hmap : map snd (pts g k inw) = map se_val (filter (fun e => lmap_eqb (series_key g e) k) inw)).
  { unfold pts. rewrite map_map. reflexivity. }
  destruct (existsb (fun k' => lmap_eqb k' k) (distinct_keys (map (series_key g) inw))) eqn:E.
  - apply existsb_lmap_in in E. apply (proj1 (distinct_keys_in _ _)) in E. apply in_map_iff in E as [e [He Hin]].
    destruct (pts g k inw) as [|p ps] eqn:Ep.
    + exfalso. unfold pts in Ep. apply map_eq_nil in Ep.
      assert (In e (filter (fun e0 => lmap_eqb (series_key g e0) k) inw)) as Hc by (apply filter_In; split; [exact Hin|rewrite He; apply lmap_eqb_refl]).
      rewrite Ep in Hc. exact Hc.
    + rewrite <- Hmap. reflexivity.
  - destruct (pts g k inw) as [|p ps] eqn:Ep; [reflexivity|]. exfalso.
    assert (exists e, In e inw /\ series_key g e = k) as [e [Hin He]].
    { unfold pts in Ep. destruct (filter (fun e => lmap_eqb (series_key g e) k) inw) as [|e t] eqn:Ef; [discriminate|].
      assert (In e (filter (fun e0 => lmap_eqb (series_key g e0) k) inw)) as Hc by (rewrite Ef; left; reflexivity).
      apply filter_In in Hc as [Hc1 Hc2]. exists e. split; [exact Hc1|apply lmap_eqb_eq; exact Hc2]. }
    assert (existsb (fun k' => lmap_eqb k' k) (distinct_keys (map (series_key g) inw)) = true) as Hx.
    { apply existsb_lmap_in. apply distinct_keys_in. apply in_map_iff. exists e; auto. }
    congruence.
Qed.

(** * The theorem: every step of every increasing grid *)
Definition step_ok (agg : list float -> float) (g : grouping) (range offset : Z) (ses : list sentry) (T : Z) (st : step) : Prop :=
  st_ts st = T /\ NoDup (map (fun sm : sample => key_of (snd sm)) (st_samples st)) /\
  forall k, step_lookup k st = spec_lookup k (range_spec_at agg g range offset ses T).

Lemma range_next_step agg g range offset ses ws0 we0 T s :
  StronglySorted ts_le ses -> ws0 <= T - offset - range -> we0 <= T - offset -> Inv g ses ws0 we0 s ->
  step_ok agg g range offset ses T (snd (range_next win_clear agg g range offset T s)).
Proof.
  intros Hs H1 H2 HI.
  pose proof (range_next_inv win_clear agg g range offset ses ws0 we0 T s (fun _ _ => eq_refl) Hs H1 H2 HI) as HI'.
  pose proof (inv_window_exact g ses range offset T _ HI') as Hex.
  destruct HI' as [consumed [_ [_ [_ [Hwf _]]]]].
  unfold range_next in *. destruct (win_fill g (T - offset - range) (T - offset) (win_clear (T - offset - range) (rs_window s)) (rs_rest s)) as [w rest].
  cbn [fst snd rs_window st_ts st_samples] in *. repeat split.
  - cbn [st_samples]. rewrite map_map. cbn [snd]. destruct Hwf as [Hn Hf]. clear Hex.
    assert (Heq : map (fun x : lmap * (alabels * list (Z * float)) => key_of (fst (snd x))) w = map fst w).
    { apply map_ext_in. intros a Ha. rewrite Forall_forall in Hf. apply (Hf a Ha). }
    rewrite Heq. exact Hn.
  - intro k. rewrite range_spec_lookup. rewrite <- Hex.
    pose proof (find_window_sample agg w k Hwf) as Hf. unfold step_lookup in *. cbn [st_samples] in *. exact Hf.
Qed.

Theorem range_exact_lemma agg g range offset ses : StronglySorted ts_le ses ->
  forall Ts, StronglySorted Z.lt Ts ->
  forall s ws0 we0, Inv g ses ws0 we0 s ->
    Forall (fun T => ws0 <= T - offset - range /\ we0 <= T - offset) Ts ->
    Forall2 (step_ok agg g range offset ses) Ts (range_run win_clear agg g range offset Ts s).
Proof.
  intros Hs. induction 1 as [|T Ts Hsorted IH Hall]; intros s ws0 we0 HI Hb; cbn; [constructor|].
  inversion Hb as [|? ? [Hb1 Hb2] Hb']; subst.
  pose proof (range_next_step agg g range offset ses ws0 we0 T s Hs Hb1 Hb2 HI) as Hstep.
  pose proof (range_next_inv win_clear agg g range offset ses ws0 we0 T s (fun _ _ => eq_refl) Hs Hb1 Hb2 HI) as HI'.
  destruct (range_next win_clear agg g range offset T s) as [s' st]. cbn [fst snd] in *.
  constructor; [exact Hstep|].
  eapply IH; [exact HI'|].
  rewrite Forall_forall in Hall. apply Forall_forall. intros T' HT'. specialize (Hall T' HT'). lia.
Qed.

Lemma inv_init g ses ws we : Forall (fun e => we < se_ts e) ses -> Inv g ses ws we {| rs_window := []; rs_rest := ses |}.
Proof.
  intro H. exists []. cbn. split; [reflexivity|]. split; [constructor|]. split; [exact H|]. split; [split; constructor|]. intro k; reflexivity. Qed.

Definition low (ses : list sentry) (Ts : list Z) (offset : Z) : Z :=
  fold_right Z.min (fold_right Z.min 0 (map (fun T => T - offset) Ts)) (map se_ts ses) - 1.

Lemma fold_min_le l b : fold_right Z.min b l <= b /\ Forall (fun x => fold_right Z.min b l <= x) l.
Proof. induction l as [|x t [IH1 IH2]]; cbn; [split; [lia|constructor]|]. split; [lia|]. constructor; [lia|]. eapply Forall_impl; [|exact IH2]. intros; cbn in *; lia. Qed.

Theorem range_exact_full agg g range offset ses Ts :
  StronglySorted ts_le ses -> StronglySorted Z.lt Ts ->
  Forall2 (step_ok agg g range offset ses) Ts (range_run win_clear agg g range offset Ts {| rs_window := []; rs_rest := ses |}).
Proof.
  intros Hs HT. set (we0 := low ses Ts offset).
  destruct (fold_min_le (map se_ts ses) (fold_right Z.min 0 (map (fun T => T - offset) Ts))) as [A B].
  destruct (fold_min_le (map (fun T => T - offset) Ts) 0) as [_ C].
  apply (range_exact_lemma agg g range offset ses Hs Ts HT _ (we0 - range) we0).
  - apply inv_init. unfold we0, low. rewrite Forall_map in B. eapply Forall_impl; [|exact B]. intros e He. cbn in He. lia.
  - unfold we0, low. rewrite Forall_map in C. eapply Forall_impl; [|exact C]. intros T HTT. cbn in HTT. lia.
Qed.

Lemma forall2_combine_in {A B} (P : A -> B -> Prop) l1 l2 a b : Forall2 P l1 l2 -> In (a, b) (combine l1 l2) -> P a b.
Proof.
  induction 1 as [|x y l1 l2 Hxy HF IH]; cbn; [contradiction|].
  intros [Heq|Hin]; [inversion Heq; subst; exact Hxy|apply IH; exact Hin].
Qed.

(** grid independence and instant = range: the value at T is a function of (ses, T) alone *)
Corollary grid_indep_lemma agg g range offset ses Ts1 Ts2 T st1 st2 :
  StronglySorted ts_le ses -> StronglySorted Z.lt Ts1 -> StronglySorted Z.lt Ts2 ->
  In (T, st1) (combine Ts1 (range_run win_clear agg g range offset Ts1 {| rs_window := []; rs_rest := ses |})) ->
  In (T, st2) (combine Ts2 (range_run win_clear agg g range offset Ts2 {| rs_window := []; rs_rest := ses |})) ->
  forall k, step_lookup k st1 = step_lookup k st2.
Proof.
  intros Hs H1 H2 I1 I2 k.
  pose proof (forall2_combine_in _ _ _ _ _ (range_exact_full agg g range offset ses Ts1 Hs H1) I1) as [_ [_ A]].
  pose proof (forall2_combine_in _ _ _ _ _ (range_exact_full agg g range offset ses Ts2 Hs H2) I2) as [_ [_ B]].
  rewrite A, B. reflexivity.
Qed.

(** the pre-fix eviction rule (D4) made the value at T depend on the grid: a sample on the lower edge is counted by
    an instant query but dropped when an earlier step has already seen it *)
Definition d4_ses : list sentry :=
  [ {| se_ts := 0; se_val := one; se_set := empty_al |}; {| se_ts := 1; se_val := one; se_set := empty_al |}; {| se_ts := 2; se_val := one; se_set := empty_al |} ].
Definition count_agg (vs : list float) : float := float_of_Z (Z.of_nat (length vs)).
Definition value_at_2 (Ts : list Z) (idx : nat) : option float :=
  nth idx (map (step_lookup []) (range_run win_clear_prefix count_agg GNone 2 0 Ts {| rs_window := []; rs_rest := d4_ses |})) None.
Lemma d4_refuted :
  match value_at_2 [1; 2] 1, value_at_2 [2] 0 with Some a, Some b => float_same a b = false | _, _ => False end.
Proof. vm_compute. reflexivity. Qed.

(** * The evaluation grid is strictly increasing *)
Lemma grid_from_lower stp : 0 < stp -> forall fuel t e, Forall (fun x => t <= x) (grid_from fuel t e stp).
Proof.
  intros Hs. induction fuel as [|f IH]; intros t e; cbn; [constructor|].
  destruct (e <? t); [constructor|]. constructor; [lia|].
  eapply Forall_impl; [|apply IH]. intros a Ha. cbn in Ha. lia.
Qed.

Lemma grid_from_sorted stp : 0 < stp -> forall fuel t e, StronglySorted Z.lt (grid_from fuel t e stp).
Proof.
  intros Hs. induction fuel as [|f IH]; intros t e; cbn; [constructor|].
  destruct (e <? t); [constructor|]. constructor; [apply IH|].
  eapply Forall_impl; [|apply (grid_from_lower stp Hs f (t + stp) e)]. intros a Ha. cbn in Ha. lia.
Qed.

Lemma grid_sorted start e stp : StronglySorted Z.lt (grid start e stp).
Proof.
  unfold grid. destruct (Z.leb_spec stp 0).
  - destruct (start =? e); repeat constructor.
  - apply grid_from_sorted. lia.
Qed.

(** every element of the grid is start + k*step, and nothing beyond end is evaluated *)
Lemma grid_from_members stp : 0 < stp -> forall fuel t e x, In x (grid_from fuel t e stp) -> x <= e /\ exists k, 0 <= k /\ x = t + k * stp.
Proof.
  intros Hs. induction fuel as [|f IH]; intros t e x; cbn; [contradiction|].
  destruct (Z.ltb_spec e t); [contradiction|]. intros [<-|Hin].
  - split; [lia|]. exists 0. lia.
  - destruct (IH _ _ _ Hin) as [H1 [k [Hk ->]]]. split; [exact H1|]. exists (k + 1). lia.
Qed.

(** the engine's range aggregation, on its own grid *)
Theorem range_on_grid_lemma agg g range offset ses start e stp :
  StronglySorted ts_le ses ->
  Forall2 (step_ok agg g range offset ses) (grid start e stp)
          (range_run win_clear agg g range offset (grid start e stp) {| rs_window := []; rs_rest := ses |}).
Proof. intro Hs. apply range_exact_full; [exact Hs|apply grid_sorted]. Qed.
