(** C05: range aggregations over unwrapped values:
      op( {selector} stage ... stage | unwrap l [range] offset d ) [by|without (labels)]
    (the unwrap with or without a conversion function), through parse_tokens. *)
From LogQLV Require Import Base.Bytes Base.FloatX Model.Tables Model.Syntax Model.Parser Proofs.ParserP Proofs.PipelineP Proofs.LogRangeP Proofs.QueryP.
From Coq Require Import Lia.

Section Unwrap.
  Variable anch : bytes -> bool.
  Variable re_names : bytes -> option (list bytes).

  (** stages followed by something (base case without a condition): the conditions between consecutive stages *)
  Fixpoint chain_mid (sts : list stage) (r : list token) : Prop :=
    match sts with
    | [] => True
    | s :: t => simple_stage anch re_names s /\ follows_ok s (print_stages anch re_names t ++ r) /\ chain_mid t r
    end.

  (** the pipeline of a range expression stops in front of `| unwrap` (allowUnwrap), with the pipe consumed *)
  Lemma pipeline_print_unwrap sts : forall fuel acc p r, chain_mid sts (punct TPipe :: punct TUnwrap :: r) -> (fuel_needed sts < fuel)%nat ->
    parse_pipeline fuel true acc {| prev := p; rest := print_stages anch re_names sts ++ punct TPipe :: punct TUnwrap :: r |} =
      POk (acc ++ sts) {| prev := punct TPipe :: rev (print_stages anch re_names sts) ++ p; rest := punct TUnwrap :: r |}.
  Proof.
    induction sts as [|s t IH]; intros fuel acc p r Hc Hf; (destruct fuel as [|f]; [lia|]).
    - cbn. rewrite app_nil_r. reflexivity.
    - cbn [chain_mid] in Hc. destruct Hc as [Hs [Hfo Hc]]. cbn [fuel_needed] in Hf.
      change (print_stages anch re_names (s :: t)) with (print_stage anch re_names s ++ print_stages anch re_names t). rewrite <- app_assoc.
      rewrite (stage_step anch re_names s f true acc p _ Hs); [|lia|exact Hfo].
      rewrite IH; [|exact Hc|lia]. rewrite <- !app_assoc. cbn [app]. rewrite rev_app_distr, <- app_assoc. reflexivity.
  Qed.

  (** the unwrap clause: a label, or conv(label) with conv in bytes / duration / duration_seconds; no post-filters *)
  Definition conv_tok (cv : bytes) : option ttype :=
    if bytes_eqb cv ["b"; "y"; "t"; "e"; "s"]%byte then Some TBytesConv
    else if bytes_eqb cv ["d"; "u"; "r"; "a"; "t"; "i"; "o"; "n"]%byte then Some TDurationConv
    else if bytes_eqb cv ["d"; "u"; "r"; "a"; "t"; "i"; "o"; "n"; "_"; "s"; "e"; "c"; "o"; "n"; "d"; "s"]%byte then Some TDurationSecondsConv
    else None.

  Definition print_unwrap (cv l : bytes) : list token :=
    punct TUnwrap ::
    match conv_tok cv with
    | Some k => [plain k cv; punct TOpenParen; plain TIdent l; punct TCloseParen]
    | None => [plain TIdent l]
    end.

  Definition wf_unwrap (cv : bytes) : Prop := cv = [] \/ conv_tok cv <> None.

  Definition no_pipe (r : list token) : Prop := match r with t :: _ => is_ty t TPipe = false | [] => True end.

  Lemma unwrap_print cv l fuel p r : wf_unwrap cv -> no_pipe r -> (0 < fuel)%nat ->
    parse_unwrap fuel {| prev := p; rest := print_unwrap cv l ++ r |} =
      POk {| u_op := cv; u_label := l; u_filters := [] |} {| prev := rev (print_unwrap cv l) ++ p; rest := r |}.
  Proof.
    intros Hw Hr Hf. destruct fuel as [|f]; [lia|]. unfold print_unwrap, parse_unwrap.
    assert (Hnp : is_ty (match r with [] => eof_tok | t :: _ => t end) TPipe = false) by (destruct r; [reflexivity|exact Hr]).
    destruct (conv_tok cv) as [k|] eqn:E.
    - assert (Hk : k = TBytesConv \/ k = TDurationConv \/ k = TDurationSecondsConv).
      { unfold conv_tok in E. repeat match type of E with (if ?c then _ else _) = _ => destruct c end; inversion E; auto. }
      cbn [app]. destruct r as [|t0 r']; destruct Hk as [-> | [-> | ->]]; cbn; try reflexivity; cbn in Hr; unfold bind, peek; cbn [rest]; rewrite Hr; reflexivity.
    - destruct Hw as [-> | C]; [|congruence]. destruct r as [|t0 r']; cbn; [reflexivity|]. cbn in Hr. unfold bind, peek; cbn [rest]. rewrite Hr. reflexivity.
  Qed.

  Ltac stepb := erewrite bind_POk by reflexivity; cbv beta; cbn [rest prev].

  Definition pipe_or_filter (t : token) : bool := is_ty t TPipe || is_ty t TPipeExact || is_ty t TPipeMatch || is_ty t TNotEq || is_ty t TNotRe.

  Lemma stage_head s r : simple_stage anch re_names s ->
    exists t0 tl, print_stage anch re_names s ++ r = t0 :: tl /\ is_ty t0 TOpenBracket = false /\ pipe_or_filter t0 = true.
  Proof.
    intro Hs. destruct s as [o v ip|jl je|ll le| | |pt| |lt| | |rs ts|ls ms|ls ms|ls]; cbn in Hs; try contradiction;
      try (cbn; eexists; eexists; split; [reflexivity|split; reflexivity]).
    destruct ip; destruct o; cbn; try (eexists; eexists; split; [reflexivity|split; reflexivity]); cbn in Hs; try contradiction;
      destruct Hs; discriminate.
  Qed.

  Definition print_unwrap_range cls sel sts cv l rtxt rns off : list token :=
    print_selector anch re_names cls sel ++ print_stages anch re_names sts ++ punct TPipe :: print_unwrap cv l ++ print_range rtxt rns off.

  Definition unwrap_of (cv l : bytes) : unwrap := {| u_op := cv; u_label := l; u_filters := [] |}.

  Lemma unwrap_range_print cls sel sts cv l rtxt rns off p r fuel :
    Forall (wf_lmatcher anch cls) sel -> Forall (fun m => ttype_eqb (cls (m_label m)) TCloseBrace = false) sel ->
    chain_mid sts (punct TPipe :: punct TUnwrap :: match conv_tok cv with Some k => [plain k cv; punct TOpenParen; plain TIdent l; punct TCloseParen] | None => [plain TIdent l] end ++ print_range rtxt rns off ++ r) ->
    wf_unwrap cv -> (length sel < fuel)%nat -> (fuel_needed sts < fuel)%nat -> (off = None -> not_offset r) ->
    parse_range_expr fuel {| prev := p; rest := print_unwrap_range cls sel sts cv l rtxt rns off ++ r |} =
      POk {| r_sel := sel; r_range := rns; r_pipe := sts; r_unwrap := Some (unwrap_of cv l); r_offset := option_map snd off |}
          {| prev := rev (print_unwrap_range (fun _ => TIdent) sel sts cv l rtxt rns off) ++ p; rest := r |}.
  Proof.
    intros Hsel Hnc Hchain Hw Hf1 Hf2 Hoff.
    unfold parse_range_expr, print_unwrap_range. rewrite <- !app_assoc. cbn [app]. rewrite <- ?app_assoc.
    erewrite bind_POk by (apply (parse_selector_print anch re_names cls sel p _ fuel Hsel Hf1 Hnc)). cbv beta.
    (* which branch: the text after the selector starts with '|' or a filter operator *)
    assert (Hhead : exists t0 tl, print_stages anch re_names sts ++ punct TPipe :: print_unwrap cv l ++ print_range rtxt rns off ++ r = t0 :: tl /\
                      is_ty t0 TOpenBracket = false /\ pipe_or_filter t0 = true).
    { destruct sts as [|s t]; [cbn; eexists; eexists; split; [reflexivity|split; reflexivity]|].
      cbn [chain_mid] in Hchain. destruct Hchain as [Hs _].
      change (print_stages anch re_names (s :: t)) with (print_stage anch re_names s ++ print_stages anch re_names t). rewrite <- app_assoc.
      apply stage_head. exact Hs. }
    destruct Hhead as [t0 [tl [Eh [Hb Hp]]]].
    erewrite bind_POk by reflexivity. cbv beta. cbn [rest]. rewrite Eh. rewrite Hb. unfold pipe_or_filter in Hp. rewrite Hp. cbn iota. rewrite <- Eh.
    (* pipeline, stopping in front of unwrap *)
    unfold parse_pipeline_unwrap.
    assert (Hfpos : (0 < fuel)%nat) by lia.
    erewrite bind_POk; [|erewrite bind_POk by (apply (pipeline_print_unwrap sts fuel [] _ _ Hchain Hf2)); cbv beta;
                         erewrite bind_POk by reflexivity; cbv beta; cbn [rest];
                         change (is_ty (punct TUnwrap) TUnwrap) with true; cbn iota;
                         erewrite bind_POk by (apply (unwrap_print cv l fuel _ (print_range rtxt rns off ++ r) Hw); [reflexivity|exact Hfpos]); cbv beta; reflexivity].
    cbv beta.
    erewrite bind_POk by (apply (range_offset_print rtxt rns off _ r Hoff)). cbv beta.
    unfold ret. cbn [fst snd app]. f_equal. f_equal.
    rewrite !rev_app_distr. cbn [rev app]. rewrite <- !app_assoc. cbn [app]. rewrite ?rev_app_distr, <- ?app_assoc. reflexivity.
  Qed.

  Definition print_opt_grouping (g : option grouping) : list token := match g with Some g => print_grouping g | None => [] end.

  Definition print_unwrap_agg cls (o : rangeop) sel sts cv l rtxt rns off (g : option grouping) : list token :=
    punct (rangeop_tok o) :: punct TOpenParen :: print_unwrap_range cls sel sts cv l rtxt rns off ++ punct TCloseParen :: print_opt_grouping g.

  Definition unwrap_lr sel sts cv l rns (off : option (bytes * Z)) : logrange :=
    {| r_sel := sel; r_range := rns; r_pipe := sts; r_unwrap := Some (unwrap_of cv l); r_offset := option_map snd off |}.

  Definition unwrap_tail cv l rtxt rns off (r : list token) : list token :=
    punct TPipe :: punct TUnwrap :: match conv_tok cv with Some k => [plain k cv; punct TOpenParen; plain TIdent l; punct TCloseParen] | None => [plain TIdent l] end ++ print_range rtxt rns off ++ r.

  Theorem unwrap_agg_parse_lemma cls o sel sts cv l rtxt rns off g :
    range_validate o None g true = true ->
    Forall (wf_lmatcher anch cls) sel -> Forall (fun m => ttype_eqb (cls (m_label m)) TCloseBrace = false) sel ->
    chain_mid sts (unwrap_tail cv l rtxt rns off (punct TCloseParen :: print_opt_grouping g)) ->
    wf_unwrap cv ->
    parse_tokens (print_unwrap_agg cls o sel sts cv l rtxt rns off g) = Parsed (ERange o (unwrap_lr sel sts cv l rns off) None g).
  Proof.
    intros Hval Hsel Hnc Hchain Hw. unfold parse_tokens.
    set (toks := print_unwrap_agg cls o sel sts cv l rtxt rns off g).
    assert (Hst : (fuel_needed sts <= 2 * length (print_stages anch re_names sts))%nat).
    { clear -Hchain. revert Hchain. generalize (unwrap_tail cv l rtxt rns off (punct TCloseParen :: print_opt_grouping g)). intros r0.
      induction sts as [|s t IH]; intro H; [cbn; lia|]. cbn [chain_mid] in H. destruct H as [Hs [_ Hc]]. cbn [fuel_needed].
      change (print_stages anch re_names (s :: t)) with (print_stage anch re_names s ++ print_stages anch re_names t). rewrite app_length.
      pose proof (stage_fuel anch re_names s Hs). specialize (IH Hc). lia. }
    assert (Hlen : (length sel + fuel_needed sts + match g with Some g0 => length (g_labels g0) | None => 0 end + 2 <= 2 * length toks)%nat).
    { unfold toks, print_unwrap_agg, print_unwrap_range, print_opt_grouping. repeat (rewrite app_length || cbn [length]).
      pose proof (print_selector_len anch re_names cls sel).
      destruct g as [g0|]; [unfold print_grouping, print_labels; repeat (rewrite app_length || cbn [length]); pose proof (print_names_len (g_labels g0))|]; cbn [length]; lia. }
    remember (16 * length toks + 64)%nat as fuel eqn:Ef.
    do 4 (destruct fuel as [|fuel]; [lia|]).
    assert (Hf : (length sel < fuel /\ fuel_needed sts < fuel /\ match g with Some g0 => (length (g_labels g0) <= fuel)%nat | None => True end)%nat)
      by (destruct g; repeat split; try lia; exact I).
    clear Ef Hlen Hst. subst toks. destruct (rangeop_tok_not o) as [Hb Hp].
    assert (Hhead : match print_unwrap_agg cls o sel sts cv l rtxt rns off g with [] => eof_tok | t :: _ => t end = punct (rangeop_tok o)) by reflexivity.
    rewrite core_expr_metric by (rewrite Hhead; exact Hb).
    rewrite core_metric.
    assert (H1 : parse_core (S (S fuel)) CMetric1 {| prev := []; rest := print_unwrap_agg cls o sel sts cv l rtxt rns off g |} =
                 POk (ERange o (unwrap_lr sel sts cv l rns off) None g) {| prev := rev (print_unwrap_agg (fun _ => TIdent) o sel sts cv l rtxt rns off g); rest := [] |}).
    { unfold print_unwrap_agg. cbn [parse_core].
      stepb. rewrite Hp. cbn iota. rewrite range_op_of_tok.
      stepb. stepb. stepb.
      assert (Hh2 : match print_unwrap_range cls sel sts cv l rtxt rns off ++ punct TCloseParen :: print_opt_grouping g with [] => eof_tok | t :: _ => t end = punct TOpenBrace) by reflexivity.
      rewrite Hh2. change (is_ty (punct TOpenBrace) TNumber) with false. cbn iota.
      stepb.
      erewrite bind_POk by (apply (unwrap_range_print cls sel sts cv l rtxt rns off _ (punct TCloseParen :: print_opt_grouping g) (S fuel) Hsel Hnc Hchain Hw); [lia|lia|intros _; reflexivity]).
      cbv beta. stepb. stepb.
      destruct g as [g0|].
      - cbn [print_opt_grouping].
        assert (Hby : (is_ty (match print_grouping g0 with [] => eof_tok | t :: _ => t end) TBy || is_ty (match print_grouping g0 with [] => eof_tok | t :: _ => t end) TWithout) = true)
          by (unfold print_grouping; destruct (g_without g0); reflexivity).
        rewrite Hby. cbn iota.
        erewrite bind_POk; [|erewrite bind_POk by (rewrite <- (app_nil_r (print_grouping g0)); apply (grouping_print g0 (S fuel)); destruct Hf as [_ [_ Hg]]; lia); cbv beta; reflexivity].
        cbv beta. cbn [r_unwrap unwrap_lr]. rewrite Hval. unfold ret. f_equal. f_equal.
        cbn [rev]. rewrite !rev_app_distr. cbn [rev app]. rewrite <- !app_assoc. cbn [app]. rewrite ?rev_app_distr, <- ?app_assoc. reflexivity.
      - cbn [print_opt_grouping]. cbn. rewrite Hval. unfold ret. f_equal. f_equal.
        cbn [rev]. rewrite !rev_app_distr. cbn [rev app]. rewrite <- !app_assoc. reflexivity. }
    unfold bind at 1. rewrite H1. rewrite core_binop_end by exact I. reflexivity.
  Qed.
End Unwrap.
