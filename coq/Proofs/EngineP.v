(** Proofs about the log-query path (Model/Engine.v) against its declarative reading (Spec/LogSpec.v). *)
From LogQLV Require Import Base.Bytes Base.LMap Model.Tables Model.Stages Model.Engine Spec.LogSpec.
From Coq Require Import Permutation Sorted.

Ltac break_match_hyp H :=
  repeat match type of H with
         | context [match ?x with _ => _ end] => let E := fresh "E" in destruct x eqn:E; try discriminate
         end.

(** * Stages that neither rewrite the line nor carry state *)
Lemma process_pred_keeps_line p : forall line ls l' ls', process_pred p line ls = Some (l', true, ls') -> l' = line.
Proof.
  induction p as [l m|l o v|l o ns|l o n|l neg pat|a IHa b IHb|a IHa b IHb]; intros line ls l' ls' H; cbn in H.
  - inversion H; reflexivity.
  - break_match_hyp H; inversion H; reflexivity.
  - break_match_hyp H; inversion H; reflexivity.
  - break_match_hyp H; inversion H; reflexivity.
  - break_match_hyp H; inversion H; reflexivity.
  - destruct (process_pred a line ls) as [[[l1 k1] ls1]|] eqn:E1; [|discriminate].
    destruct k1.
    + apply IHb in H. apply IHa in E1. congruence.
    + discriminate.
  - destruct (process_pred a line ls) as [[[l1 k1] ls1]|] eqn:E1; [|discriminate].
    destruct k1.
    + inversion H; subst. eapply IHa; eauto.
    + eapply IHb; eauto.
Qed.

Definition plain_stage (s : estage) : bool := negb (rewrites_line s) && negb (is_distinct s).

Lemma process_json_line o labels paths line ls l' k ls' : process_json o labels paths line ls = Some (l', k, ls') -> l' = line.
Proof. unfold process_json. intro H. break_match_hyp H; inversion H; reflexivity. Qed.
Lemma process_logfmt_line o table line ls l' k ls' : process_logfmt o table line ls = Some (l', k, ls') -> l' = line.
Proof. unfold process_logfmt. intro H. break_match_hyp H; inversion H; reflexivity. Qed.
Lemma process_regexp_line o id mapping line ls l' k ls' : process_regexp o id mapping line ls = Some (l', k, ls') -> l' = line.
Proof. unfold process_regexp. intro H. break_match_hyp H; inversion H; reflexivity. Qed.

Lemma process_plain o s st ts line ls st' l' keep ls' :
  plain_stage s = true ->
  process o s st ts line ls = Some (st', l', keep, ls') ->
  st' = st /\ (keep = true -> l' = line).
Proof.
  intros Hp H. destruct s; cbn in Hp; try discriminate; unfold process in H; cbv beta iota zeta in H.
  - inversion H; subst; auto.
  - break_match_hyp H; inversion H; subst; auto.
  - destruct (process_json o labels paths line ls) as [[[l1 k1] ls1]|] eqn:E1; [|discriminate].
    apply process_json_line in E1. inversion H; subst; auto.
  - destruct (process_logfmt o table line ls) as [[[l1 k1] ls1]|] eqn:E1; [|discriminate].
    apply process_logfmt_line in E1. inversion H; subst; auto.
  - destruct (process_regexp o id mapping line ls) as [[[l1 k1] ls1]|] eqn:E1; [|discriminate].
    apply process_regexp_line in E1. inversion H; subst; auto.
  - inversion H; subst; auto.
  - destruct (process_pred p line ls) as [[[l1 k1] ls1]|] eqn:E1; [|discriminate].
    inversion H; subst. split; [reflexivity|]. intro; subst. eapply process_pred_keeps_line; eauto.
  - unfold process_label_format in H. inversion H; subst; auto.
  - unfold process_drop in H. inversion H; subst; auto.
  - unfold process_keep in H. inversion H; subst; auto.
Qed.

(** * An offloaded line filter that fails rejects the record in the engine too, without touching any state *)
Lemma offloaded_line_rejects o c ts : forall pipe sts line ls x,
  existsb (fun m => negb (str_match false m line)) (offload_lines c pipe) = true ->
  run_stages o pipe sts ts line ls = Some x -> x = (sts, None).
Proof.
  induction pipe as [|s rest IH]; intros sts line ls x Hex Hrun; [cbn in Hex; discriminate|].
  destruct sts as [|st sts']; [cbn in Hrun; discriminate|].
  cbn [run_stages] in Hrun.
  destruct (process o s st ts line ls) as [[[[st1 l1] k1] ls1]|] eqn:Ep; [|discriminate].
  assert (Hcases : (plain_stage s = true /\ existsb (fun m => negb (str_match false m line)) (offload_lines c rest) = true)
                   \/ (exists m, s = ELine m /\ (str_match false m line = false \/ existsb (fun m => negb (str_match false m line)) (offload_lines c rest) = true))).
  { destruct s; cbn in Hex; try discriminate; try (left; split; [reflexivity|exact Hex]).
    right. eexists; split; [reflexivity|].
    destruct (c_line c (sm_op m)); cbn in Hex; [|right; exact Hex].
    apply orb_true_iff in Hex as [Hex|Hex]; [left; apply negb_true_iff; exact Hex|right; exact Hex]. }
  destruct Hcases as [[Hplain Hex']|[m [-> Hm]]].
  - destruct (process_plain _ _ _ _ _ _ _ _ _ _ Hplain Ep) as [-> Hline].
    destruct k1.
    + rewrite (Hline eq_refl) in Hrun.
      destruct (run_stages o rest sts' ts line ls1) as [[sts2 r2]|] eqn:Er; [|discriminate].
      apply IH in Er; [|exact Hex']. inversion Er; subst. inversion Hrun; reflexivity.
    + inversion Hrun; reflexivity.
  - unfold process in Ep; cbv beta iota zeta in Ep. injection Ep as <- <- <- <-.
    destruct (str_match false m line) eqn:Ek.
    + destruct Hm as [Hm|Hm]; [discriminate|].
      destruct (run_stages o rest sts' ts line ls) as [[sts2 r2]|] eqn:Er; [|discriminate].
      apply IH in Er; [|exact Hm]. inversion Er; subst. inversion Hrun; reflexivity.
    + inversion Hrun; reflexivity.
Qed.

(** * Skipping records the engine would reject anyway *)
Lemma iterate_limit_reached o pre stages lim recs sts count :
  (0 <? lim) && (lim <=? count) = true -> iterate o pre stages lim recs sts count = Some [].
Proof. intro H. destruct recs; cbn; [reflexivity|]. rewrite H. reflexivity. Qed.

Lemma iterate_offload o stages lim (P : record -> bool) pre1 pre2 :
  (forall r, P r = true -> forallb (sel_ok (set_from_record r)) pre1 = forallb (sel_ok (set_from_record r)) pre2) ->
  (forall r, P r = false ->
     forallb (sel_ok (set_from_record r)) pre1 = false \/
     (forall sts x, run_stages o stages sts (r_ts r) (r_line r) (set_from_record r) = Some x -> x = (sts, None))) ->
  forall recs sts count es,
    iterate o pre1 stages lim recs sts count = Some es ->
    iterate o pre2 stages lim (filter P recs) sts count = Some es.
Proof.
  intros Hsel Hrej. induction recs as [|r t IH]; intros sts count es H; [exact H|].
  cbn [iterate] in H. cbn [filter].
  destruct ((0 <? lim) && (lim <=? count)) eqn:Elim.
  - inversion H; subst. apply iterate_limit_reached; exact Elim.
  - destruct (P r) eqn:EP.
    + cbn [iterate]. rewrite Elim. rewrite <- (Hsel r EP).
      destruct (negb (forallb (sel_ok (set_from_record r)) pre1)); [apply IH; exact H|].
      destruct (run_stages o stages sts (r_ts r) (r_line r) (set_from_record r)) as [[sts1 [[l1 ls1]|]]|]; try discriminate.
      * destruct (iterate o pre1 stages lim t sts1 (count + 1)) as [es1|] eqn:E1; [|discriminate].
        rewrite (IH _ _ _ E1). exact H.
      * apply IH; exact H.
    + destruct (Hrej r EP) as [Hf|Hf].
      * rewrite Hf in H. cbn in H. apply IH; exact H.
      * destruct (negb (forallb (sel_ok (set_from_record r)) pre1)); [apply IH; exact H|].
        destruct (run_stages o stages sts (r_ts r) (r_line r) (set_from_record r)) as [[sts1 r1]|] eqn:Er; [|discriminate].
        specialize (Hf _ _ Er). inversion Hf; subst. apply IH; exact H.
Qed.

Lemma forallb_partition {A} (f : A -> bool) (p : A -> bool) l :
  forallb f l = forallb f (filter p l) && forallb f (filter (fun x => negb (p x)) l).
Proof.
  induction l as [|x t IH]; [reflexivity|]. cbn. destruct (p x); cbn; rewrite IH; destruct (f x); cbn; auto.
  - rewrite andb_false_r; reflexivity.
Qed.

Lemma forallb_false_existsb {A} (f : A -> bool) l : forallb f l = false -> existsb (fun x => negb (f x)) l = true.
Proof. induction l as [|x t IH]; cbn; [discriminate|]. destruct (f x); cbn; auto. Qed.

Lemma filter_all {A} (l : list A) : filter (fun _ => true) l = l.
Proof. induction l; cbn; congruence. Qed.

Lemma eval_log_no_caps o q lim recs :
  eval_log o no_caps q lim recs = iterate o (q_sel q) (q_pipe q) lim recs (init_states (q_pipe q)) 0.
Proof.
  unfold eval_log, offloaded_sel, prefilter_sel, storage_select, no_caps; cbn.
  assert (Hoff : offload_lines {| c_label := fun _ => false; c_line := fun _ => false |} (q_pipe q) = []).
  { induction (q_pipe q) as [|s t IH]; [reflexivity|]. destruct s; cbn; auto. }
  rewrite Hoff.
  replace (filter (fun _ : ematcher => false) (q_sel q)) with (@nil ematcher) by (induction (q_sel q); cbn; auto).
  cbn. rewrite !filter_all. reflexivity.
Qed.

(** the answer does not depend on what the storage evaluates itself: whatever the engine computes when nothing
    is offloaded, it computes under every capability set (any of the 2^17 x 2^17 operator subsets) *)
Theorem eval_log_caps_indep_lemma o q lim recs es :
  eval_log o no_caps q lim recs = Some es -> forall c, eval_log o c q lim recs = Some es.
Proof.
  intros H c. rewrite eval_log_no_caps in H. unfold eval_log, storage_select.
  eapply iterate_offload; [| |exact H].
  - intros r HP. apply andb_true_iff in HP as [HP _].
    rewrite (forallb_partition (sel_ok (set_from_record r)) (fun m => c_label c (sm_op (em_m m))) (q_sel q)).
    unfold offloaded_sel in HP. rewrite HP. reflexivity.
  - intros r HP. apply andb_false_iff in HP as [HP|HP].
    + left. rewrite (forallb_partition (sel_ok (set_from_record r)) (fun m => c_label c (sm_op (em_m m))) (q_sel q)).
      unfold offloaded_sel in HP. rewrite HP. reflexivity.
    + right. intros sts x Hx. eapply (offloaded_line_rejects o c); [|exact Hx].
      apply forallb_false_existsb. exact HP.
Qed.

(** * Distinct-free pipelines are stateless *)
Lemma process_state_free o s st ts line ls :
  is_distinct s = false ->
  process o s st ts line ls =
  match process o s [] ts line ls with
  | Some (_, l, k, m) => Some (st, l, k, m)
  | None => None
  end.
Proof.
  intro Hd. destruct s; cbn in Hd; try discriminate; cbn;
  repeat match goal with |- context [match ?x with _ => _ end] => destruct x end; reflexivity.
Qed.

Lemma run_stages_distinct_free o ts : forall stages sts line ls,
  existsb is_distinct stages = false -> length sts = length stages ->
  run_stages o stages sts ts line ls =
  match apply_stages o stages ts line ls with
  | None => None
  | Some r => Some (sts, r)
  end.
Proof.
  induction stages as [|s rest IH]; intros sts line ls Hd Hlen.
  - destruct sts; [reflexivity|discriminate].
  - destruct sts as [|st sts']; [discriminate|]. cbn in Hd. apply orb_false_iff in Hd as [Hs Hrest].
    cbn [run_stages apply_stages]. rewrite (process_state_free o s st ts line ls Hs).
    destruct (process o s [] ts line ls) as [[[[st1 l1] k1] ls1]|]; [|reflexivity].
    destruct k1; [|reflexivity].
    rewrite IH by (auto; cbn in Hlen; congruence).
    destruct (apply_stages o rest ts l1 ls1); reflexivity.
Qed.

Lemma iterate_no_limit_spec o q : distinct_free q = true ->
  forall recs count, iterate o (q_sel q) (q_pipe q) 0 recs (init_states (q_pipe q)) count = spec_select o q recs.
Proof.
  intros Hd. unfold distinct_free in Hd. apply negb_true_iff in Hd.
  induction recs as [|r t IH]; intro count; [reflexivity|].
  cbn [iterate spec_select]. cbn [Z.ltb Z.compare andb].
  unfold matches, selected.
  destruct (forallb (sel_ok (set_from_record r)) (q_sel q)); cbn [negb].
  - rewrite run_stages_distinct_free by (auto; unfold init_states; rewrite map_length; reflexivity).
    destruct (apply_stages o (q_pipe q) (r_ts r) (r_line r) (set_from_record r)) as [[[l ls]|]|].
    + rewrite IH. destruct (spec_select o q t); reflexivity.
    + rewrite IH. destruct (spec_select o q t); reflexivity.
    + reflexivity.
  - rewrite IH. destruct (spec_select o q t); reflexivity.
Qed.

(** C01, exactness: without a limit the engine returns, under every capability set, exactly the records that
    match, once each, in delivery order *)
Theorem eval_log_exact_lemma o q recs es :
  distinct_free q = true -> spec_select o q recs = Some es -> forall c, eval_log o c q 0 recs = Some es.
Proof.
  intros Hd Hs c. apply eval_log_caps_indep_lemma. rewrite eval_log_no_caps, iterate_no_limit_spec; assumption.
Qed.

(** * What a match preserves *)
Lemma apply_stages_keeps_line o ts : forall stages line ls l' ls',
  existsb rewrites_line stages = false ->
  apply_stages o stages ts line ls = Some (Some (l', ls')) -> l' = line.
Proof.
  induction stages as [|s rest IH]; intros line ls l' ls' Hr H; cbn in H; [inversion H; reflexivity|].
  cbn in Hr. apply orb_false_iff in Hr as [Hs Hrest].
  destruct (process o s [] ts line ls) as [[[[st1 l1] k1] ls1]|] eqn:Ep; [|discriminate].
  destruct k1; [|discriminate].
  apply IH in H; [|exact Hrest]. subst l'.
  destruct (is_distinct s) eqn:Ed.
  - destruct s; try discriminate. cbn in Ep. destruct (distinct_loop labels ls [] false). inversion Ep; reflexivity.
  - assert (plain_stage s = true) as Hp by (unfold plain_stage; rewrite Hs, Ed; reflexivity).
    destruct (process_plain _ _ _ _ _ _ _ _ _ _ Hp Ep) as [_ Hl]. auto.
Qed.

Theorem matches_preserves o q r e :
  matches o q r = Some (Some e) ->
  e_ts e = r_ts r /\ selected q r = true /\ (existsb rewrites_line (q_pipe q) = false -> e_line e = r_line r).
Proof.
  unfold matches. destruct (selected q r); [|discriminate].
  destruct (apply_stages o (q_pipe q) (r_ts r) (r_line r) (set_from_record r)) as [[[l ls]|]|] eqn:Ea; try discriminate.
  intro H; inversion H; subst; cbn. repeat split. intro Hr. eapply apply_stages_keeps_line; eauto.
Qed.

(** * spec_select as a list comprehension *)
Inductive sublist {A} : list A -> list A -> Prop :=
| sub_nil : sublist [] []
| sub_keep x a b : sublist a b -> sublist (x :: a) (x :: b)
| sub_skip x a b : sublist a b -> sublist a (x :: b).

Lemma sublist_refl {A} (l : list A) : sublist l l.
Proof. induction l; constructor; auto. Qed.

Lemma sublist_length {A} (a b : list A) : sublist a b -> (length a <= length b)%nat.
Proof. induction 1; cbn; lia. Qed.

(** the result is the list comprehension [ e | r <- recs, matches q r = e ]: one entry per matching record, in
    delivery order, nothing else *)
Definition contribution (o : oracles) (q : equery) (r : record) : list entry :=
  match matches o q r with Some (Some e) => [e] | _ => [] end.

Theorem spec_select_flat_map o q : forall recs es,
  spec_select o q recs = Some es -> es = flat_map (contribution o q) recs.
Proof.
  induction recs as [|r t IH]; intros es H; cbn in H; [inversion H; reflexivity|].
  cbn [flat_map]. unfold contribution at 1.
  destruct (matches o q r) as [[e|]|] eqn:Em; try discriminate;
  destruct (spec_select o q t) as [es'|] eqn:Es; try discriminate; inversion H; subst; cbn; f_equal; auto.
Qed.

Theorem spec_select_sound_complete o q recs es :
  spec_select o q recs = Some es ->
  forall e, In e es <-> exists r, In r recs /\ matches o q r = Some (Some e).
Proof.
  intros H e. rewrite (spec_select_flat_map _ _ _ _ H), in_flat_map. unfold contribution.
  split; intros [r [Hin Hm]]; exists r; split; auto.
  - destruct (matches o q r) as [[e'|]|]; cbn in Hm; try contradiction. destruct Hm as [->|[]]. reflexivity.
  - rewrite Hm. left; reflexivity.
Qed.

Theorem spec_select_count o q recs es :
  spec_select o q recs = Some es ->
  length es = length (filter (fun r => match matches o q r with Some (Some _) => true | _ => false end) recs).
Proof.
  revert es; induction recs as [|r t IH]; intros es H; cbn in H; [inversion H; reflexivity|].
  cbn [filter].
  destruct (matches o q r) as [[e|]|] eqn:Em; try discriminate;
  destruct (spec_select o q t) as [es'|] eqn:Es; try discriminate; inversion H; subst; cbn; auto.
Qed.

(** * Limit (C08): a positive limit returns the first L entries of the unlimited answer *)
Lemma iterate_limit_prefix o pre stages lim : 0 < lim ->
  forall recs sts count es,
    0 <= count <= lim ->
    iterate o pre stages 0 recs sts count = Some es ->
    iterate o pre stages lim recs sts count = Some (firstn (Z.to_nat (lim - count)) es).
Proof.
  intros Hlim. induction recs as [|r t IH]; intros sts count es Hc H.
  - cbn in *. inversion H; subst. rewrite firstn_nil. reflexivity.
  - cbn [iterate] in *. cbn [Z.ltb Z.compare andb] in H.
    destruct (Z.ltb_spec 0 lim); [|lia]. cbn [andb].
    destruct (Z.leb_spec lim count).
    + assert (count = lim) by lia. subst. rewrite Z.sub_diag. cbn. reflexivity.
    + destruct (negb (forallb (sel_ok (set_from_record r)) pre)); [apply IH; [lia|exact H]|].
      destruct (run_stages o stages sts (r_ts r) (r_line r) (set_from_record r)) as [[sts1 [[l1 ls1]|]]|]; try discriminate.
      * destruct (iterate o pre stages 0 t sts1 (count + 1)) as [es1|] eqn:E1; [|discriminate].
        inversion H; subst. rewrite (IH sts1 (count + 1) es1 ltac:(lia) E1).
        replace (Z.to_nat (lim - count)) with (S (Z.to_nat (lim - (count + 1)))) by lia. reflexivity.
      * apply IH; [lia|exact H].
Qed.

Theorem eval_log_limit_lemma o q lim recs es :
  0 < lim -> eval_log o no_caps q 0 recs = Some es ->
  forall c, eval_log o c q lim recs = Some (firstn (Z.to_nat lim) es).
Proof.
  intros Hl H c. apply eval_log_caps_indep_lemma. rewrite eval_log_no_caps in *.
  rewrite (iterate_limit_prefix o _ _ lim Hl _ _ 0 es ltac:(lia) H). rewrite Z.sub_0_r. reflexivity.
Qed.

Lemma iterate_nonpositive_limit o pre stages lim : lim <= 0 ->
  forall recs sts count, iterate o pre stages lim recs sts count = iterate o pre stages 0 recs sts count.
Proof.
  intros Hl. induction recs as [|r t IH]; intros sts count; [reflexivity|].
  cbn [iterate]. destruct (Z.ltb_spec 0 lim); [lia|]. cbn [Z.ltb Z.compare andb].
  destruct (negb (forallb (sel_ok (set_from_record r)) pre)); [apply IH|].
  destruct (run_stages o stages sts (r_ts r) (r_line r) (set_from_record r)) as [[sts1 [[l1 ls1]|]]|]; auto.
  rewrite IH. reflexivity.
Qed.

Theorem eval_log_nonpositive_limit_lemma o c q lim recs : lim <= 0 -> eval_log o c q lim recs = eval_log o c q 0 recs.
Proof. intro Hl. unfold eval_log. apply iterate_nonpositive_limit; exact Hl. Qed.

(** * Witnesses *)
Definition sm' (o : binop) (v : bytes) : strm := {| sm_op := o; sm_value := v; sm_re := {| Regex.bol := false; Regex.body := Regex.REmpty; Regex.eol := false |} |}.
Definition no_oracles : oracles := {| o_json := []; o_logfmt := []; o_submatch := []; o_decolor := [] |}.
Definition all_caps : caps := {| c_label := fun _ => true; c_line := fun _ => true |}.

(** D12: `{job="x"} | distinct k |= "b"` over k=1 "a", k=1 "b": without offloading the first record claims k=1 and is
    then dropped by the line filter, the second is a duplicate: nothing; with the line filter offloaded the storage only
    delivers the second record: one entry *)
Definition d12_q : equery := {| q_sel := []; q_pipe := [EDistinct [["k"%byte]]; ELine (sm' OpEq ["b"%byte])] |}.
Definition d12_recs : list record :=
  [ {| r_ts := 1; r_line := ["a"%byte]; r_attrs := [(["k"%byte], ["1"%byte])]; r_res := [] |};
    {| r_ts := 2; r_line := ["b"%byte]; r_attrs := [(["k"%byte], ["1"%byte])]; r_res := [] |} ].
Lemma d12_witness : exists o q recs c, eval_log_prefix o no_caps q 0 recs <> eval_log_prefix o c q 0 recs.
Proof. exists no_oracles, d12_q, d12_recs, all_caps. vm_compute. discriminate. Qed.

Definition ex_oracles := no_oracles.
Definition ex_query : equery :=
  {| q_sel := [ {| em_label := ["k"%byte]; em_m := sm' OpNotEq ["9"%byte] |} ];
     q_pipe := [ELine (sm' OpEq ["a"%byte]); ELabelFilter (EPMatch ["k"%byte] (sm' OpEq ["1"%byte])); ELine (sm' OpNotEq ["z"%byte])] |}.
Definition ex_records : list record :=
  [ {| r_ts := 1; r_line := ["a"%byte]; r_attrs := [(["k"%byte], ["1"%byte])]; r_res := [] |};
    {| r_ts := 2; r_line := ["b"%byte]; r_attrs := [(["k"%byte], ["1"%byte])]; r_res := [] |};
    {| r_ts := 3; r_line := ["a"%byte; "z"%byte]; r_attrs := [(["k"%byte], ["1"%byte])]; r_res := [] |};
    {| r_ts := 4; r_line := ["x"%byte; "a"%byte]; r_attrs := [(["k"%byte], ["1"%byte])]; r_res := [] |} ].
Lemma ex_c01 : exists es, spec_select ex_oracles ex_query ex_records = Some es /\ length es = 2%nat /\ distinct_free ex_query = true.
Proof. eexists. vm_compute. repeat split. Qed.
