(** C05: round trip for pipelines over the stage fragment
      line filters (|= != |~ !~ with a string, |= != with ip("...")), pattern, line_format, unpack, decolorize,
      drop / keep with label names, distinct
    with any number of stages in any order:  parse_pipeline (print sts ++ r) = sts, consuming exactly the printed tokens. *)
From LogQLV Require Import Base.Bytes Base.FloatX Model.Tables Model.Syntax Model.Parser Proofs.ParserP Proofs.PredP.
From Coq Require Import Lia.

Section Pipeline.
  Variable anch : bytes -> bool.
  Variable re_names : bytes -> option (list bytes).
  Notation str_tok := (str_tok anch re_names).
  (** label-filter predicates are printed with empty texts for their numeric literals: the parser reads the values the tokens carry,
      never those texts (PredP proves the round trip for arbitrary texts) *)
  Notation print_pred := (print_pred anch re_names (fun _ => []) (fun _ => []) (fun _ => [])).

  Definition lineop_tok (o : binop) : ttype :=
    match o with OpEq => TPipeExact | OpRe => TPipeMatch | OpNotEq => TNotEq | _ => TNotRe end.

  Fixpoint print_names (ls : list bytes) : list token :=
    match ls with
    | [] => []
    | [l] => [plain TIdent l]
    | l :: t => plain TIdent l :: punct TComma :: print_names t
    end.

  (** the fragment, with what makes a stage well-formed *)
  Definition simple_stage (s : stage) : Prop :=
    match s with
    | SLine o v false => match o with OpEq | OpNotEq => True | OpRe | OpNotRe => re_names v <> None | _ => False end
    | SLine o v true => o = OpEq \/ o = OpNotEq
    | SPattern _ | SLineFormat _ | SUnpack | SDecolorize => True
    | SDrop ls [] | SKeep ls [] | SDistinct ls => ls <> []
    | SJson _ [] | SLogfmt _ [] => True
    | SLabelFormat rs ts => (rs <> [] \/ ts <> []) /\ NoDup (map snd rs ++ map fst ts)
    | SLabelFilter p => wf_pred anch p
    | _ => False
    end.

  Fixpoint print_tmpls (ts : list (bytes * bytes)) : list token :=
    match ts with
    | (dst, tm) :: ts' => plain TIdent dst :: punct TEq :: str_tok tm :: match ts' with [] => [] | _ => punct TComma :: print_tmpls ts' end
    | [] => []
    end.
  Fixpoint print_lf (rs ts : list (bytes * bytes)) : list token :=
    match rs with
    | (src, dst) :: rs' =>
        plain TIdent dst :: punct TEq :: plain TIdent src ::
        match rs', ts with [], [] => [] | _, _ => punct TComma :: print_lf rs' ts end
    | [] => print_tmpls ts
    end.
  Definition lf_dsts (rs ts : list (bytes * bytes)) : list bytes := map snd rs ++ map fst ts.

  Definition print_stage (s : stage) : list token :=
    match s with
    | SLine o v false => [punct (lineop_tok o); str_tok v]
    | SLine o v true => [punct (lineop_tok o); punct TIP; punct TOpenParen; str_tok v; punct TCloseParen]
    | SPattern p => [punct TPipe; punct TPattern; str_tok p]
    | SLineFormat p => [punct TPipe; punct TLineFormat; str_tok p]
    | SUnpack => [punct TPipe; punct TUnpack]
    | SDecolorize => [punct TPipe; punct TDecolorize]
    | SDrop ls _ => punct TPipe :: punct TDrop :: print_names ls
    | SKeep ls _ => punct TPipe :: punct TKeep :: print_names ls
    | SDistinct ls => punct TPipe :: punct TDistinct :: print_names ls
    | SJson ls _ => punct TPipe :: punct TJSON :: print_names ls
    | SLogfmt ls _ => punct TPipe :: punct TLogfmt :: print_names ls
    | SLabelFormat rs ts => punct TPipe :: punct TLabelFormat :: print_lf rs ts
    | SLabelFilter p => punct TPipe :: print_pred p
    | _ => []
    end.

  (** what may follow a stage: anything that is not a comma (every printed stage starts with '|' or a filter operator) *)
  Definition no_comma (r : list token) : Prop := match r with t :: _ => is_ty t TComma = false | [] => True end.
  (** what ends a pipeline *)
  Definition ends_pipeline (r : list token) : Prop :=
    match r with
    | t :: _ => is_ty t TPipeExact = false /\ is_ty t TPipeMatch = false /\ is_ty t TNotEq = false /\ is_ty t TNotRe = false /\ is_ty t TPipe = false
    | [] => True
    end.

  Lemma peek_head r p : forall t0, match r with [] => eof_tok | t :: _ => t end = t0 -> peek {| prev := p; rest := r |} = POk t0 {| prev := p; rest := r |}.
  Proof. intros t0 <-. reflexivity. Qed.

  (** names loops *)
  Lemma distinct_loop_print ls : forall fuel acc p r, ls <> [] -> (length ls <= fuel)%nat -> no_comma r ->
    distinct_loop fuel acc {| prev := p; rest := print_names ls ++ r |} =
      POk (SDistinct (acc ++ ls)) {| prev := rev (print_names ls) ++ p; rest := r |}.
  Proof.
    induction ls as [|l t IH]; intros fuel acc p r Hne Hf Hr; [congruence|].
    destruct fuel as [|f]; [cbn in Hf; lia|].
    destruct t as [|l2 t'].
    - cbn [print_names app distinct_loop]. unfold bind at 1. cbn.
      destruct r as [|t0 r']; cbn; [reflexivity|]. cbn in Hr. rewrite Hr. reflexivity.
    - change (print_names (l :: l2 :: t')) with (plain TIdent l :: punct TComma :: print_names (l2 :: t')).
      cbn [app distinct_loop]. unfold bind at 1. cbn [parse_ident consume_text bind next rest prev is_ty ty plain ttype_eqb ttype_code Z.eqb Pos.eqb ret text].
      cbn. rewrite IH; [|discriminate|cbn in *; lia|exact Hr].
      rewrite <- app_assoc. cbn [app]. f_equal.
      f_equal. cbn [rev]. rewrite <- !app_assoc. reflexivity.
  Qed.

  Lemma labels_and_matchers_print ls : forall fuel acc p r, ls <> [] -> (length ls <= fuel)%nat -> no_comma r ->
    (forall t0 r', r = t0 :: r' -> (is_ty t0 TEq || is_ty t0 TNotEq || is_ty t0 TRe || is_ty t0 TNotRe) = false) ->
    labels_and_matchers fuel acc [] {| prev := p; rest := print_names ls ++ r |} =
      POk (acc ++ ls, []) {| prev := rev (print_names ls) ++ p; rest := r |}.
  Proof.
    induction ls as [|l t IH]; intros fuel acc p r Hne Hf Hr Hop; [congruence|].
    destruct fuel as [|f]; [cbn in Hf; lia|].
    destruct t as [|l2 t'].
    - cbn [print_names app labels_and_matchers]. unfold bind at 1. cbn.
      destruct r as [|t0 r']; cbn; [reflexivity|].
      specialize (Hop t0 r' eq_refl). rewrite Hop. cbn.
      cbn in Hr. rewrite Hr. reflexivity.
    - change (print_names (l :: l2 :: t')) with (plain TIdent l :: punct TComma :: print_names (l2 :: t')).
      cbn [app labels_and_matchers]. cbn. rewrite IH; [|discriminate|cbn in *; lia|exact Hr|exact Hop].
      rewrite <- app_assoc. cbn [app]. f_equal. f_equal. cbn [rev]. rewrite <- !app_assoc. reflexivity.
  Qed.

  (** label lists of json / logfmt (no extraction expressions) *)
  Definition after_names (r : list token) : Prop :=
    match r with t :: _ => is_ty t TIdent = false /\ is_ty t TComma = false /\ is_ty t TEq = false | [] => True end.

  Lemma label_extraction_print ls : forall fuel acc p r, (length ls < fuel)%nat -> after_names r ->
    label_extraction fuel acc [] {| prev := p; rest := print_names ls ++ r |} =
      POk (acc ++ ls, []) {| prev := rev (print_names ls) ++ p; rest := r |}.
  Proof.
    induction ls as [|l t IH]; intros fuel acc p r Hf Hr; (destruct fuel as [|f]; [cbn in Hf; lia|]).
    - cbn [print_names app rev label_extraction]. unfold bind at 1, peek at 1. cbn [rest]. rewrite app_nil_r.
      destruct r as [|t0 r']; [reflexivity|]. cbn in Hr. destruct Hr as [H1 _]. rewrite H1. reflexivity.
    - destruct t as [|l2 t'].
      + cbn [print_names app label_extraction]. unfold bind at 1, peek at 1. cbn [rest]. cbn.
        destruct f as [|f']; [cbn in Hf; lia|].
        destruct r as [|t0 r']; cbn.
        * reflexivity.
        * cbn in Hr. destruct Hr as [H1 [H2 H3]]. rewrite H2, H3. cbn. rewrite H1. reflexivity.
      + change (print_names (l :: l2 :: t')) with (plain TIdent l :: punct TComma :: print_names (l2 :: t')).
        remember (print_names (l2 :: t')) as pn eqn:Epn.
        assert (Hh : exists tl, pn ++ r = plain TIdent l2 :: tl) by (subst pn; destruct t'; cbn; eauto).
        destruct Hh as [tl Htl].
        cbn [app label_extraction]. unfold bind at 1, peek at 1. cbn [rest]. cbn. rewrite Htl. cbn. rewrite <- Htl. subst pn.
        rewrite IH; [|cbn in *; lia|exact Hr]. rewrite <- !app_assoc. cbn [app]. f_equal.
  Qed.

  (** label_format: renames first, then templates, destinations pairwise distinct *)
  Lemma existsb_not_in l seen : ~ In l seen -> existsb (bytes_eqb l) seen = false.
  Proof.
    induction seen as [|x t IH]; intro H; cbn; [reflexivity|].
    destruct (bytes_eqb l x) eqn:E; [apply bytes_eqb_eq in E; subst; exfalso; apply H; left; reflexivity|].
    apply IH. intro C. apply H. right. exact C.
  Qed.

  Ltac fin := solve [f_equal | f_equal; f_equal; cbn [rev]; rewrite <- ?app_assoc; cbn [app]; rewrite <- ?app_assoc; reflexivity | reflexivity].
  Lemma label_format_tmpls_print ts : forall fuel seen rs0 ts0 p r, ts <> [] -> (length ts <= fuel)%nat -> no_comma r ->
    NoDup (map fst ts) -> (forall d, In d (map fst ts) -> ~ In d seen) ->
    label_format_loop fuel seen rs0 ts0 {| prev := p; rest := print_tmpls ts ++ r |} =
      POk (SLabelFormat rs0 (ts0 ++ ts)) {| prev := rev (print_tmpls ts) ++ p; rest := r |}.
  Proof.
    induction ts as [|[dst tm] t IH]; intros fuel seen rs0 ts0 p r Hne Hf Hr Hnd Hseen; [congruence|].
    destruct fuel as [|f]; [cbn in Hf; lia|].
    assert (Hd : existsb (bytes_eqb dst) seen = false) by (apply existsb_not_in; apply Hseen; left; reflexivity).
    inversion Hnd as [|? ? Hnotin Hnd']; subst.
    destruct t as [|[dst2 tm2] t'].
    - cbn [print_tmpls app label_format_loop]. cbn. rewrite Hd. cbn.
      destruct r as [|t0 r']; cbn; [reflexivity|]. cbn in Hr. rewrite Hr. reflexivity.
    - change (print_tmpls ((dst, tm) :: (dst2, tm2) :: t')) with (plain TIdent dst :: punct TEq :: str_tok tm :: punct TComma :: print_tmpls ((dst2, tm2) :: t')).
      remember (print_tmpls ((dst2, tm2) :: t')) as pn eqn:Epn.
      cbn [app label_format_loop]. cbn. rewrite Hd. cbn. subst pn.
      rewrite IH; [|discriminate|cbn in *; lia|exact Hr|exact Hnd'|].
      + rewrite <- !app_assoc. cbn [app]. fin.
      + intros d Hin [C|C]; [subst d; apply Hnotin; exact Hin|]. apply (Hseen d); [right; exact Hin|exact C].
  Qed.

  Lemma label_format_print rs : forall ts fuel seen rs0 p r, (rs <> [] \/ ts <> []) -> (length rs + length ts <= fuel)%nat -> no_comma r ->
    NoDup (lf_dsts rs ts) -> (forall d, In d (lf_dsts rs ts) -> ~ In d seen) ->
    label_format_loop fuel seen rs0 [] {| prev := p; rest := print_lf rs ts ++ r |} =
      POk (SLabelFormat (rs0 ++ rs) ts) {| prev := rev (print_lf rs ts) ++ p; rest := r |}.
  Proof.
    induction rs as [|[src dst] t IH]; intros ts fuel seen rs0 p r Hne Hf Hr Hnd Hseen.
    - rewrite app_nil_r. destruct Hne as [C|Hne]; [congruence|].
      apply (label_format_tmpls_print ts fuel seen rs0 [] p r Hne); [cbn in Hf; lia|exact Hr|exact Hnd|exact Hseen].
    - destruct fuel as [|f]; [cbn in Hf; lia|].
      assert (Hd : existsb (bytes_eqb dst) seen = false) by (apply existsb_not_in; apply Hseen; left; reflexivity).
      cbn [lf_dsts map app snd] in Hnd. inversion Hnd as [|? ? Hnotin Hnd']; subst.
      destruct t as [|p2 t']; [destruct ts as [|q ts']|].
      + cbn [print_lf app label_format_loop]. cbn. rewrite Hd. cbn.
        destruct r as [|t0 r']; cbn; [reflexivity|]. cbn in Hr. rewrite Hr. reflexivity.
      + cbn [print_lf]. cbn [app label_format_loop]. cbn. rewrite Hd. cbn.
        rewrite (label_format_tmpls_print (q :: ts') f (dst :: seen) (rs0 ++ [(src, dst)]) [] _ r); [|discriminate|cbn in *; lia|exact Hr|exact Hnd'|].
        * cbn [app]. rewrite <- !app_assoc. cbn [app]. fin.
        * intros d Hin [C|C]; [subst d; apply Hnotin; exact Hin|]. apply (Hseen d); [right; exact Hin|exact C].
      + cbn [print_lf]. cbn [app label_format_loop]. cbn. rewrite Hd. cbn.
        rewrite (IH ts f (dst :: seen) (rs0 ++ [(src, dst)]) _ r); [|left; discriminate|cbn in *; lia|exact Hr|exact Hnd'|].
        * rewrite <- !app_assoc. cbn [app]. fin.
        * intros d Hin [C|C]; [subst d; apply Hnotin; exact Hin|]. apply (Hseen d); [right; exact Hin|exact C].
  Qed.

  (** what may follow stage [s]: never a comma; after drop / keep not one of = != =~ !~ (`| drop a != "x"` is read as a drop
      matcher: the textual ambiguity is real, the generators avoid it the same way) *)
  Definition follows_ok (s : stage) (r : list token) : Prop :=
    no_comma r /\
    match s with
    | SDrop _ _ | SKeep _ _ => forall t0 r', r = t0 :: r' -> (is_ty t0 TEq || is_ty t0 TNotEq || is_ty t0 TRe || is_ty t0 TNotRe) = false
    | SJson _ _ | SLogfmt _ _ => after_names r      (* `| json a b` reads b as a second label, `| json a = "x"` as an extraction *)
    | SLabelFilter _ => ends_pred r                 (* an identifier, comma, and, or would continue the predicate *)
    | _ => True
    end.

  Definition stage_size (s : stage) : nat :=
    match s with
    | SDrop ls _ | SKeep ls _ | SDistinct ls => length ls
    | SJson ls _ | SLogfmt ls _ => S (length ls)
    | SLabelFormat rs ts => length rs + length ts
    | SLabelFilter p => S (psize p)
    | _ => 0
    end.

  (** a predicate starts with a label name or an opening parenthesis *)
  Lemma pred_head q : wf_pred anch q -> exists t1 r1, print_pred q = t1 :: r1 /\ (ty t1 = TIdent \/ ty t1 = TOpenParen).
  Proof.
    induction q as [m|l o v|l o ns|l o n|l o pat|a IHa o b IHb|a IHa]; intro Hw; cbn [PredP.print_pred].
    1-5: eexists; eexists; split; [reflexivity|left; reflexivity].
    - assert (Hwa : wf_pred anch a) by (destruct o; cbn [wf_pred] in Hw; try contradiction; tauto).
      destruct (IHa Hwa) as [t1 [r1 [E H]]]. rewrite E. cbn [app]. eexists; eexists; split; [reflexivity|exact H].
    - eexists; eexists; split; [reflexivity|right; reflexivity].
  Qed.

  Lemma stage_step s : forall f au acc p r, simple_stage s -> (stage_size s <= f)%nat -> follows_ok s r ->
    parse_pipeline (S f) au acc {| prev := p; rest := print_stage s ++ r |} =
    parse_pipeline f au (acc ++ [s]) {| prev := rev (print_stage s) ++ p; rest := r |}.
  Proof.
    intros f au acc p r Hs Hf [Hnc Hfo].
    destruct s as [o v ip|jl je|ll le| | |pt| |lt| |q|rs ts|ls ms|ls ms|ls]; cbn [simple_stage] in Hs; try contradiction.
    - (* line filter *)
      destruct ip.
      + destruct Hs as [-> | ->]; cbn; reflexivity.
      + destruct o; try contradiction; cbn.
        * reflexivity.
        * reflexivity.
        * destruct (re_names v) eqn:E; [|congruence]. cbn. unfold bind, next, peek, parse_string_tok, consume_text; cbn. rewrite E. reflexivity.
        * destruct (re_names v) eqn:E; [|congruence]. cbn. unfold bind, next, peek, parse_string_tok, consume_text; cbn. rewrite E. reflexivity.
    - destruct je; [|contradiction]. cbn [print_stage app parse_pipeline]. cbn [stage_size] in Hf.
      unfold bind at 1, peek at 1. cbn [rest]. cbn.
      unfold bind at 1. rewrite (label_extraction_print jl f [] _ r); [|lia|exact Hfo]. cbn [fst snd app]. rewrite <- !app_assoc. reflexivity.
    - destruct le; [|contradiction]. cbn [print_stage app parse_pipeline]. cbn [stage_size] in Hf.
      unfold bind at 1, peek at 1. cbn [rest]. cbn.
      unfold bind at 1. rewrite (label_extraction_print ll f [] _ r); [|lia|exact Hfo]. cbn [fst snd app]. rewrite <- !app_assoc. reflexivity.
    - cbn. reflexivity.
    - cbn. reflexivity.
    - cbn. reflexivity.
    - cbn. reflexivity.
    - (* label filter *)
      cbn [print_stage stage_size] in *. destruct (pred_head q Hs) as [t1 [r1 [E Hty]]].
      cbn [app parse_pipeline]. unfold bind at 1, peek at 1. cbn [rest].
      change (is_ty (punct TPipe) TPipeExact || is_ty (punct TPipe) TPipeMatch || is_ty (punct TPipe) TNotEq || is_ty (punct TPipe) TNotRe) with false.
      change (is_ty (punct TPipe) TPipe) with true. cbv iota.
      unfold bind at 1, next at 1. cbn [rest prev]. unfold bind at 1, next at 1. cbn [rest prev]. rewrite E. cbn [app].
      assert (Hdisp : forall k, (k = TJSON \/ k = TLogfmt \/ k = TRegexp \/ k = TPattern \/ k = TUnpack \/ k = TLineFormat \/ k = TDecolorize) -> is_ty t1 k = false).
      { intros k Hk. unfold is_ty. destruct Hty as [-> | ->]; repeat (destruct Hk as [-> | Hk]; [reflexivity|]); subst; reflexivity. }
      rewrite !Hdisp by tauto.
      assert (Hsel : (is_ty t1 TIdent || is_ty t1 TOpenParen) = true) by (unfold is_ty; destruct Hty as [-> | ->]; reflexivity).
      rewrite Hsel. unfold bind at 1, unread at 1. cbn [prev rest]. unfold bind at 1.
      change (t1 :: r1 ++ r) with ((t1 :: r1) ++ r). rewrite <- E. rewrite (pred_print_lemma anch re_names _ _ _ q f _ r Hs); [|lia|exact Hfo].
      cbn [rev]. rewrite <- app_assoc. reflexivity.
    - destruct Hs as [Hne Hnd]. cbn [print_stage app parse_pipeline]. cbn [stage_size] in Hf.
      unfold bind at 1, peek at 1. cbn [rest]. cbn.
      unfold bind at 1. rewrite (label_format_print rs ts f [] [] _ r Hne Hf Hnc Hnd); [|intros d _ []]. cbn [app]. rewrite <- !app_assoc. reflexivity.
    - destruct ms; [|contradiction]. cbn [print_stage app parse_pipeline]. cbn [stage_size] in Hf.
      unfold bind at 1, peek at 1. cbn [rest]. cbn.
      unfold bind at 1. rewrite (labels_and_matchers_print ls f [] _ r Hs Hf Hnc Hfo). cbn [fst snd app]. rewrite <- !app_assoc. reflexivity.
    - destruct ms; [|contradiction]. cbn [print_stage app parse_pipeline]. cbn [stage_size] in Hf.
      unfold bind at 1, peek at 1. cbn [rest]. cbn.
      unfold bind at 1. rewrite (labels_and_matchers_print ls f [] _ r Hs Hf Hnc Hfo). cbn [fst snd app]. rewrite <- !app_assoc. reflexivity.
    - cbn [print_stage app parse_pipeline]. cbn [stage_size] in Hf.
      unfold bind at 1, peek at 1. cbn [rest]. cbn.
      unfold bind at 1. rewrite (distinct_loop_print ls f [] _ r Hs Hf Hnc). cbn [fst snd app]. rewrite <- !app_assoc. reflexivity.
  Qed.

  Definition print_stages (sts : list stage) : list token := flat_map print_stage sts.

  Fixpoint chain_ok (sts : list stage) (r : list token) : Prop :=
    match sts with
    | [] => ends_pipeline r
    | s :: t => simple_stage s /\ follows_ok s (print_stages t ++ r) /\ chain_ok t r
    end.

  Fixpoint fuel_needed (sts : list stage) : nat :=
    match sts with [] => 0 | s :: t => S (stage_size s + fuel_needed t) end.

  Theorem pipeline_print_lemma sts : forall fuel au acc p r, chain_ok sts r -> (fuel_needed sts < fuel)%nat ->
    parse_pipeline fuel au acc {| prev := p; rest := print_stages sts ++ r |} =
      POk (acc ++ sts) {| prev := rev (print_stages sts) ++ p; rest := r |}.
  Proof.
    induction sts as [|s t IH]; intros fuel au acc p r Hc Hf; (destruct fuel as [|f]; [lia|]).
    - cbn [print_stages flat_map app rev]. rewrite app_nil_r. cbn [parse_pipeline]. unfold bind at 1, peek at 1. cbn [rest].
      cbn in Hc. destruct r as [|t0 r']; [reflexivity|].
      destruct Hc as [H1 [H2 [H3 [H4 H5]]]]. rewrite H1, H2, H3, H4, H5. reflexivity.
    - cbn [chain_ok] in Hc. destruct Hc as [Hs [Hfo Hc]]. cbn [fuel_needed] in Hf.
      change (print_stages (s :: t)) with (print_stage s ++ print_stages t). rewrite <- app_assoc.
      rewrite (stage_step s f au acc p _ Hs); [|lia|exact Hfo].
      rewrite IH; [|exact Hc|lia]. rewrite <- !app_assoc. cbn [app]. rewrite rev_app_distr, <- app_assoc. reflexivity.
  Qed.
End Pipeline.
