(** C06: every pattern written as alternating literals (without '<') and <name> captures is parsed (logqlpattern.Parse) into
    exactly those parts. *)
From LogQLV Require Import Base.Bytes Model.Parser Model.Stages Model.PatternParse.
From Coq Require Import Lia.

Definition print_part (p : ppart) : bytes :=
  match p with PLit l => l | PCap n => lt_b :: n ++ [gt_b] end.
Definition print_pattern (ps : list ppart) : bytes := flat_map print_part ps.

Definition no_lt (l : bytes) : Prop := forallb (fun c => negb (byte_eqb c lt_b)) l = true.
Definition wf_part (p : ppart) : Prop :=
  match p with PLit l => l <> [] /\ no_lt l | PCap n => is_valid_label n = true end.

(** literals and captures alternate *)
Fixpoint alternating (ps : list ppart) : Prop :=
  match ps with
  | PLit _ :: ((PLit _ :: _) as t) => False
  | PCap _ :: ((PCap _ :: _) as t) => False
  | _ :: t => alternating t
  | [] => True
  end.

(** what follows a part: nothing, or a capture *)
Definition cap_follows (r : bytes) : Prop :=
  match r with [] => True | c :: t => c = lt_b /\ match t with d :: _ => ident_start d = true | [] => False end end.

Lemma scan_literal_app l : forall fuel acc r, no_lt l -> cap_follows r -> (length l < fuel)%nat ->
  scan_literal fuel acc (l ++ r) = (acc ++ l, r).
Proof.
  induction l as [|c t IH]; intros fuel acc r Hl Hr Hf; (destruct fuel as [|f]; [cbn in Hf; lia|]).
  - cbn [app]. rewrite app_nil_r. destruct r as [|c r']; [reflexivity|].
    cbn in Hr. destruct Hr as [-> Hd]. cbn [scan_literal]. change (byte_eqb lt_b lt_b) with true. cbn iota.
    destruct r' as [|d r'']; [contradiction|]. rewrite Hd. reflexivity.
  - unfold no_lt in Hl. cbn in Hl. apply andb_true_iff in Hl. destruct Hl as [Hc Ht].
    cbn [app scan_literal]. apply negb_true_iff in Hc. rewrite Hc.
    rewrite IH; [|exact Ht|exact Hr|cbn in Hf; lia]. rewrite <- app_assoc. reflexivity.
Qed.

Lemma scan_label_app n : forall fuel label r, forallb ident_rune n = true -> (length n < fuel)%nat ->
  scan_label fuel label (n ++ gt_b :: r) = (PCap (label ++ n), r).
Proof.
  induction n as [|c t IH]; intros fuel label r Hn Hf; (destruct fuel as [|f]; [cbn in Hf; lia|]).
  - cbn. rewrite app_nil_r. reflexivity.
  - cbn in Hn. apply andb_true_iff in Hn. destruct Hn as [Hc Ht]. cbn [app scan_label].
    assert (Hg : byte_eqb c gt_b = false).
    { destruct (byte_eqb c gt_b) eqn:E; [|reflexivity]. apply byte_eqb_eq in E. subst c. discriminate Hc. }
    rewrite Hg, Hc. rewrite IH; [|exact Ht|cbn in Hf; lia]. rewrite <- app_assoc. reflexivity.
Qed.

Lemma scan_part_lit l r : l <> [] -> no_lt l -> cap_follows r -> scan_part (l ++ r) = Some (PLit l, r).
Proof.
  intros Hne Hl Hr. destruct l as [|c t]; [congruence|]. cbn [app]. unfold scan_part.
  assert (Hc : byte_eqb c lt_b = false).
  { unfold no_lt in Hl. cbn in Hl. apply andb_true_iff in Hl. destruct Hl as [Hc _]. apply negb_true_iff in Hc. exact Hc. }
  rewrite Hc. change (c :: t ++ r) with ((c :: t) ++ r).
  rewrite (scan_literal_app (c :: t) _ [] r Hl Hr); [reflexivity|rewrite app_length; cbn; lia].
Qed.

Lemma scan_part_cap n r : is_valid_label n = true -> scan_part (print_part (PCap n) ++ r) = Some (PCap n, r).
Proof.
  intro Hn. unfold is_valid_label in Hn. destruct n as [|b t]; [discriminate|].
  apply andb_true_iff in Hn. destruct Hn as [Hb Hall].
  cbn [print_part app]. unfold scan_part. change (byte_eqb lt_b lt_b) with true. cbn iota. rewrite Hb.
  rewrite <- app_assoc. cbn [app]. change (b :: t ++ gt_b :: r) with ((b :: t) ++ gt_b :: r).
  rewrite (scan_label_app (b :: t) _ [] r Hall); [reflexivity|rewrite app_length; cbn; lia].
Qed.

Lemma print_follows ps : Forall wf_part ps -> alternating ps ->
  match ps with PLit _ :: t => cap_follows (print_pattern t) | _ => True end.
Proof.
  intros Hw Ha. destruct ps as [|[l|n] t]; try exact I.
  destruct t as [|[l2|n2] t']; cbn in *; try exact I; try contradiction.
  inversion Hw as [|? ? _ Ht]; subst. inversion Ht as [|? ? Hn _]; subst. cbn in Hn.
  split; [reflexivity|]. unfold is_valid_label in Hn. destruct n2 as [|b t2]; [discriminate|].
  apply andb_true_iff in Hn. cbn. apply Hn.
Qed.

Lemma alternating_tail p t : alternating (p :: t) -> alternating t.
Proof. destruct p, t as [|[?|?] ?]; cbn; tauto. Qed.

Lemma scan_all_print ps : forall fuel acc, Forall wf_part ps -> alternating ps -> (length ps < fuel)%nat ->
  scan_all fuel (print_pattern ps) acc = acc ++ ps.
Proof.
  induction ps as [|p t IH]; intros fuel acc Hw Ha Hf; (destruct fuel as [|f]; [cbn in Hf; lia|]).
  - cbn. rewrite app_nil_r. reflexivity.
  - inversion Hw as [|? ? Hp Ht]; subst. change (print_pattern (p :: t)) with (print_part p ++ print_pattern t). cbn [scan_all].
    destruct p as [l|n].
    + destruct Hp as [Hne Hl]. cbn [print_part]. rewrite (scan_part_lit l _ Hne Hl (print_follows _ Hw Ha)).
      rewrite IH; [|exact Ht|exact (alternating_tail _ _ Ha)|cbn in Hf; lia]. rewrite <- app_assoc. reflexivity.
    + rewrite (scan_part_cap n _ Hp).
      rewrite IH; [|exact Ht|exact (alternating_tail _ _ Ha)|cbn in Hf; lia]. rewrite <- app_assoc. reflexivity.
Qed.

Lemma consecutive_of_alternating ps : alternating ps -> consecutive_captures ps = false.
Proof.
  induction ps as [|p t IH]; intro H; [reflexivity|].
  destruct p as [l|n]; destruct t as [|[l2|n2] t']; cbn in *; try reflexivity; try contradiction; apply IH; exact H.
Qed.

Lemma print_len ps : Forall wf_part ps -> (length ps <= length (print_pattern ps))%nat.
Proof.
  induction 1 as [|p t Hp Ht IH]; [cbn; lia|]. change (print_pattern (p :: t)) with (print_part p ++ print_pattern t).
  rewrite app_length. cbn [length]. assert (1 <= length (print_part p))%nat; [|lia].
  destruct p as [l|n]; cbn in *; [destruct Hp as [Hne _]; destruct l; [congruence|cbn; lia]|lia].
Qed.

Theorem pattern_roundtrip_lemma ps :
  Forall wf_part ps -> alternating ps -> existsb is_cap ps = true -> dup_capture ps [] = false ->
  parse_pattern (print_pattern ps) = Some ps.
Proof.
  intros Hw Ha Hc Hd. unfold parse_pattern.
  rewrite (scan_all_print ps _ [] Hw Ha); [|pose proof (print_len ps Hw); lia]. cbn [app].
  destruct ps as [|p t]; [discriminate Hc|]. rewrite Hc, Hd, (consecutive_of_alternating _ Ha). reflexivity.
Qed.
