(** C18: sources of nondeterminism and why none of them reaches the result. *)
From LogQLV Require Import Base.Bytes Base.FloatX Base.LMap Base.Heap Model.Tables Model.KeyToLabel Model.Stages Model.Engine Model.Metric Model.Docker Model.Merge
                           Proofs.LMapP Proofs.HeapP Proofs.MergeP.
From Coq Require Import Permutation Sorted.

(** * Docker labels: applied in key order, so the label view is a function of the label MAP, not of its iteration order *)
Definition kv_lt (a b : bytes * bytes) : Prop := bytes_cmp (fst a) (fst b) = Lt.

Lemma insert_kv_perm kv l : Permutation (insert_kv kv l) (kv :: l).
Proof.
  induction l as [|x t IH]; cbn; [reflexivity|]. destruct (bytes_cmp (fst kv) (fst x)); try reflexivity.
  eapply Permutation_trans; [apply perm_skip; exact IH|apply perm_swap].
Qed.
Lemma sort_kv_perm l : Permutation (sort_kv l) l.
Proof. unfold sort_kv. induction l as [|x t IH]; cbn; [reflexivity|]. eapply Permutation_trans; [apply insert_kv_perm|apply perm_skip; exact IH]. Qed.

Lemma insert_kv_sorted kv l : StronglySorted kv_lt l -> ~ In (fst kv) (map fst l) -> StronglySorted kv_lt (insert_kv kv l).
Proof.
  induction 1 as [|x t Ht IH Hall]; cbn; intro Hn; [repeat constructor|].
  destruct (bytes_cmp (fst kv) (fst x)) eqn:E.
  - apply bytes_cmp_eq in E. exfalso. apply Hn. left. symmetry; exact E.
  - constructor; [constructor; assumption|]. constructor; [exact E|].
    eapply Forall_impl; [|exact Hall]. intros a Ha. unfold kv_lt in *. eapply bytes_cmp_trans_lt; eauto.
  - constructor; [apply IH; intro; apply Hn; right; assumption|].
    apply (Permutation_Forall (Permutation_sym (insert_kv_perm kv t))). constructor; [apply cmp_gt_lt; exact E|exact Hall].
Qed.

Lemma sort_kv_sorted l : NoDup (map fst l) -> StronglySorted kv_lt (sort_kv l).
Proof.
  unfold sort_kv. induction l as [|x t IH]; cbn; intro Hn; [constructor|]. inversion Hn; subst.
  apply insert_kv_sorted; [apply IH; assumption|].
  intro Hin. apply H1. eapply Permutation_in; [apply Permutation_map; apply sort_kv_perm|exact Hin].
Qed.

Lemma kv_lt_asym a b : kv_lt a b -> kv_lt b a -> False.
Proof. unfold kv_lt. intros H1 H2. rewrite bytes_cmp_antisym, H1 in H2. discriminate. Qed.

Lemma sorted_perm_eq : forall l1 l2, StronglySorted kv_lt l1 -> StronglySorted kv_lt l2 -> Permutation l1 l2 -> l1 = l2.
Proof.
  induction l1 as [|a t1 IH]; intros l2 H1 H2 P.
  - apply Permutation_nil in P. subst; reflexivity.
  - destruct l2 as [|b t2]; [apply Permutation_sym, Permutation_nil in P; discriminate|].
    inversion H1 as [|? ? Ht1 Ha]; inversion H2 as [|? ? Ht2 Hb]; subst.
    assert (a = b).
    { assert (In a (b :: t2)) as Hina by (eapply Permutation_in; [exact P|left; reflexivity]).
      assert (In b (a :: t1)) as Hinb by (eapply Permutation_in; [apply Permutation_sym; exact P|left; reflexivity]).
      destruct Hina as [->|Hina]; [reflexivity|]. destruct Hinb as [->|Hinb]; [reflexivity|].
      rewrite Forall_forall in Ha, Hb. exfalso. apply (kv_lt_asym a b); [apply Ha; exact Hinb|apply Hb; exact Hina]. }
    subst b. f_equal. apply IH; try assumption. eapply Permutation_cons_inv; exact P.
Qed.

(** whatever order the runtime hands the Docker labels over in, the container's label view is the same *)
Theorem labels_order_indep_lemma l1 l2 : Permutation l1 l2 -> NoDup (map fst l1) -> sort_kv l1 = sort_kv l2.
Proof.
  intros P Hn. apply sorted_perm_eq.
  - apply sort_kv_sorted; exact Hn.
  - apply sort_kv_sorted. eapply Permutation_NoDup; [apply Permutation_map; exact P|exact Hn].
  - eapply Permutation_trans; [apply sort_kv_perm|]. eapply Permutation_trans; [exact P|apply Permutation_sym, sort_kv_perm].
Qed.

Corollary get_labels_order_indep c1 c2 :
  builtin_labels c1 = builtin_labels c2 -> Permutation (c_labels c1) (c_labels c2) -> NoDup (map fst (c_labels c1)) -> get_labels c1 = get_labels c2.
Proof. intros Hb P Hn. unfold get_labels. rewrite Hb, (labels_order_indep_lemma _ _ P Hn). reflexivity. Qed.

(** before D28 the labels were folded in iteration order: two keys that sanitise to one name made the view order dependent *)
Lemma prefix_labels_order_dependent : exists l1 l2, Permutation l1 l2 /\
  fold_left (fun m kv => lset m (key_to_label (fst kv)) (snd kv)) l1 [] <> fold_left (fun m kv => lset m (key_to_label (fst kv)) (snd kv)) l2 [].
Proof.
  exists [(["a";".";"b"]%byte, ["1"%byte]); (["a";"_";"b"]%byte, ["2"%byte])], [(["a";"_";"b"]%byte, ["2"%byte]); (["a";".";"b"]%byte, ["1"%byte])].
  split; [apply perm_swap|vm_compute; discriminate].
Qed.

(** * The concurrent open: two tasks write different slots, so their steps commute (the logic of race freedom) *)
Lemma set_nth_comm {A} (l : list A) i j x y : i <> j -> set_nth (set_nth l i x) j y = set_nth (set_nth l j y) i x.
Proof.
  revert i j; induction l as [|a t IH]; intros [|i] [|j] H; cbn; try reflexivity; try congruence.
  f_equal. apply IH. congruence.
Qed.

(** * Float sums: why the order in which samples reach an aggregator must itself be deterministic (D16) *)
Definition f01 := fbits 4591870180066957722.   (* 0.1 *)
Definition f02 := fbits 4596373779694328218.   (* 0.2 *)
Definition f03 := fbits 4599075939470750515.   (* 0.3 *)
Lemma float_sum_order_matters :
  float_same (agg_list ASum [f01; f02; f03]) (agg_list ASum [f03; f02; f01]) = false.
Proof. vm_compute. reflexivity. Qed.

(** after the fix the order is first appearance, a function of the sample stream: the per-step group table is built by a
    fold over the samples, and a fold is a function *)
Lemma vagg_step_is_function op g s1 s2 : s1 = s2 -> vagg_step vec_grouping op g s1 = vagg_step vec_grouping op g s2.
Proof. intros ->. reflexivity. Qed.
